/-
SYMBOLIC model of the two-message Noise IX handshake as nebula runs it through flynn/noise
(`noise.HandshakeIX`, no PSK):

    -> e, s                 (message 1: ephemeral and static key in clear, payload in clear)
    <- e, ee, se, s, es     (message 2: static key and payload AEAD-encrypted)

Terms are built from FREE constructors (Dolev-Yao): private names, their public keys, Diffie-Hellman
values of two private names, MixHash, the two outputs of MixKey (chaining key / cipher key), AEAD,
pairs.  The only equation is commutativity of DH, built into the smart constructor `dhT`.
The adversary (`Knows`) controls the network completely: he sees every honest output, can take
messages apart (truncate, splice), store and re-send them (replay, reorder, duplicate, cross-session),
drop them, and build any term from what he knows, including DH with private keys he owns, hashes,
key derivations, encryptions and decryptions under keys he knows.

What this model is NOT: it says nothing about X25519/P-256, AES-GCM/ChaCha20-Poly1305, SHA-256 or
HKDF as functions on bytes (computational soundness of the symbolic abstraction is assumed), nor about
flynn/noise implementing this token sequence (its read/write control flow is tied to the Machine model
only through the oracle interface of `Model/Machine`).  Public keys are only ever of the form
`pub n`: an honest party's DH with anything else is an error in flynn/noise for the curves used here
(all-zero X25519 output, off-curve P-256 point) and ends the read (cf. C07).
-/
namespace Nebula.Spec.NoiseIX

inductive Term
  | name (n : Nat)            -- a private key (static or ephemeral), or any other atom
  | pub (n : Nat)             -- the public key of private name `n`
  | dh (a b : Nat)            -- DH value of private names `a`, `b` (always built through `dhT`)
  | const (c : Nat)           -- protocol constants and public data
  | mix (h t : Term)          -- MixHash(h, t)
  | kdf (ck d : Term)         -- chaining key after MixKey(ck, d)
  | key (ck d : Term)         -- cipher key after MixKey(ck, d)
  | aead (k ad pt : Term)     -- AEAD encryption of `pt` under `k` with associated data `ad`
  | pair (a b : Term)
  deriving DecidableEq, Repr

open Term

/-- DH is commutative: `DH(a, pub b) = DH(b, pub a)`. -/
def dhT (a b : Nat) : Term := dh (min a b) (max a b)

/-- initial `h` and `ck` (both are the hash of the protocol name). -/
def h0 : Term := const 0
def ck0 : Term := const 0

/-- What the outside world looks like: which private names the adversary does not hold, and which
honest sessions exist (an over-approximation in time: every session that ever runs). -/
structure InitSession where
  s : Nat           -- initiator static private key
  e : Nat           -- initiator ephemeral private key
  p1 : Term         -- payload of message 1

/-- A responder session: it received some message 1 `(pub x, pub y, p1)` — from anybody — and
answered with its ephemeral `e`, static `s` and payload `p2`. -/
structure RespSession where
  s : Nat
  e : Nat
  x : Nat           -- private name behind the ephemeral it received (whoever holds it)
  y : Nat           -- private name behind the static key it received
  p1 : Term
  p2 : Term

/-! ### the IX computations (flynn/noise token by token) -/

/-- message 1: tokens `e`, `s`, then the payload (no key yet: all in clear). -/
def msg1 (e s : Nat) (p1 : Term) : Term := pair (pub e) (pair (pub s) p1)

/-- `h` after message 1. -/
def h1 (e s : Nat) (p1 : Term) : Term := mix (mix (mix h0 (pub e)) (pub s)) p1

/-- the state of message 2 as both sides compute it from: initiator ephemeral/static names `ie`, `is`,
payload 1, responder ephemeral name `re`, responder static name `rs`. -/
def h2 (ie is : Nat) (p1 : Term) (re : Nat) : Term := mix (h1 ie is p1) (pub re)   -- token e
def ck1 (ie re : Nat) : Term := kdf ck0 (dhT re ie)                               -- token ee
def ck2 (ie is re : Nat) : Term := kdf (ck1 ie re) (dhT re is)                     -- token se
def k2 (ie is re : Nat) : Term := key (ck1 ie re) (dhT re is)
def c1 (ie is : Nat) (p1 : Term) (re rs : Nat) : Term :=                           -- token s
  aead (k2 ie is re) (h2 ie is p1 re) (pub rs)
def h3 (ie is : Nat) (p1 : Term) (re rs : Nat) : Term := mix (h2 ie is p1 re) (c1 ie is p1 re rs)
def ck3 (ie is re rs : Nat) : Term := kdf (ck2 ie is re) (dhT rs ie)               -- token es
def k3 (ie is re rs : Nat) : Term := key (ck2 ie is re) (dhT rs ie)
def c2 (ie is : Nat) (p1 : Term) (re rs : Nat) (p2 : Term) : Term :=               -- payload
  aead (k3 ie is re rs) (h3 ie is p1 re rs) p2

def msg2 (ie is : Nat) (p1 : Term) (re rs : Nat) (p2 : Term) : Term :=
  pair (pub re) (pair (c1 ie is p1 re rs) (c2 ie is p1 re rs p2))

/-- `Split()`: the transport keys both sides derive from the final chaining key. -/
def transportKeys (ie is re rs : Nat) : Term × Term :=
  (key (ck3 ie is re rs) (const 1), key (ck3 ie is re rs) (const 2))

structure World where
  Secret : Nat → Prop            -- private names the adversary does not hold
  inits : InitSession → Prop     -- honest initiator sessions
  resps : RespSession → Prop     -- honest responder sessions

/-- The Dolev-Yao adversary's knowledge. -/
inductive Knows (W : World) : Term → Prop
  -- initial knowledge: every private name that is not secret, all public keys, all constants
  | name (n : Nat) : ¬ W.Secret n → Knows W (name n)
  | pub (n : Nat) : Knows W (pub n)
  | const (c : Nat) : Knows W (const c)
  -- everything honest parties put on the wire
  | init (i : InitSession) : W.inits i → Knows W (msg1 i.e i.s i.p1)
  | resp (r : RespSession) : W.resps r → Knows W (msg2 r.x r.y r.p1 r.e r.s r.p2)
  -- taking apart / splicing / truncating
  | fst (a b : Term) : Knows W (pair a b) → Knows W a
  | snd (a b : Term) : Knows W (pair a b) → Knows W b
  | pair (a b : Term) : Knows W a → Knows W b → Knows W (pair a b)
  -- computing
  | dh (a b : Nat) : Knows W (Term.name a) → Knows W (dhT a b)     -- own private key, anybody's public key
  | mix (h t : Term) : Knows W h → Knows W t → Knows W (mix h t)
  | kdf (ck d : Term) : Knows W ck → Knows W d → Knows W (kdf ck d)
  | key (ck d : Term) : Knows W ck → Knows W d → Knows W (key ck d)
  | enc (k ad pt : Term) : Knows W k → Knows W ad → Knows W pt → Knows W (aead k ad pt)
  | dec (k ad pt : Term) : Knows W (aead k ad pt) → Knows W k → Knows W pt

/-- An honest initiator session `i` accepts `m` as message 2 with peer static `pub rs` and payload
`p2`: `m` has the shape `(pub re, c1, c2)` and both AEAD decryptions succeed under the keys the
initiator derives — which, with free constructors, means the ciphertexts are exactly these terms. -/
def InitiatorAccepts (i : InitSession) (m : Term) (rs : Nat) (p2 : Term) : Prop :=
  ∃ re C1 C2, m = pair (pub re) (pair C1 C2) ∧
    C1 = aead (k2 i.e i.s re) (h2 i.e i.s i.p1 re) (pub rs) ∧                 -- token s decrypts to a public key
    C2 = aead (k3 i.e i.s re rs) (mix (h2 i.e i.s i.p1 re) C1) p2             -- payload decrypts

/-- The AEAD encryptions honest parties perform in the handshake (only responders encrypt in IX:
their static key under `k2`, their payload under `k3`). -/
def Enc (W : World) (k ad pt : Term) : Prop :=
  ∃ r, W.resps r ∧
    ((k = k2 r.x r.y r.e ∧ ad = h2 r.x r.y r.p1 r.e ∧ pt = pub r.s) ∨
     (k = k3 r.x r.y r.e r.s ∧ ad = h3 r.x r.y r.p1 r.e r.s ∧ pt = r.p2))

/-- "May be public": an upper bound on what the adversary can ever know.  A private name only if
it is not secret; a DH value only if one of its two exponents is not secret; a derived key only if
both inputs may be public; a ciphertext only if its plaintext may be public and either its key may
be public or an honest party produced exactly this encryption. -/
def Pub (W : World) : Term → Prop
  | name n => ¬ W.Secret n
  | pub _ => True
  | dh a b => ¬ W.Secret a ∨ ¬ W.Secret b
  | const _ => True
  | mix _ _ => True
  | kdf ck d => Pub W ck ∧ Pub W d
  | key ck d => Pub W ck ∧ Pub W d
  | aead k ad pt => Pub W pt ∧ (Pub W k ∨ Enc W k ad pt)
  | pair a b => Pub W a ∧ Pub W b

/-- Handshake payloads are public data (certificate, indexes, time): they contain no secret name. -/
def World.payloadsPublic (W : World) : Prop :=
  (∀ i, W.inits i → Pub W i.p1) ∧ (∀ r, W.resps r → Pub W r.p2)

end Nebula.Spec.NoiseIX
