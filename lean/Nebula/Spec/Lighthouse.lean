/-
Specification predicates for C35 and C36, phrased on what is observable after `HandleRequest`
(messages sent, punches scheduled, handshake trigger, cache changes) and on candidate lists.
Core Lean only.
-/
import Nebula.Model.Lighthouse

namespace Nebula.Spec.Lighthouse
open Nebula.Net Nebula.RemoteList Nebula.Lighthouse

/-- the sender is one of my configured lighthouses (any of its authenticated overlay addresses). -/
def fromLighthouse (c : Cfg) (from_ : List Addr) : Bool := from_.any (fun a => memB c.lighthouses a)

/-- C35, effects a message may have, as a function of who I am and who sent it:
* `mayAnswer`: only a lighthouse sends anything in response to a message;
* `mayAct`: punches / handshake triggers only for messages from my lighthouses;
* `mayRecord`: cache changes only on a lighthouse (host update) or from my lighthouses (query reply). -/
def mayAnswer (c : Cfg) : Bool := c.amLighthouse
def mayAct (c : Cfg) (from_ : List Addr) : Bool := fromLighthouse c from_
def mayRecord (c : Cfg) (from_ : List Addr) (typ : Nat) : Bool :=
  (typ == typHostUpdateNotification && c.amLighthouse) || (typ == typHostQueryReply && fromLighthouse c from_)

/-- C36: an underlay address this node may use for `vpn`: not inside my overlay networks, allowed by the
remote allow list. -/
def usable (c : Cfg) (vpn udp : Addr) : Bool := !inMyNets c udp && c.ral.allow vpn udp

/-- usable as far as the global list and my networks are concerned (for candidate lists, whose entries were
filtered per overlay address when they were recorded). -/
def usableGlobal (c : Cfg) (udp : Addr) : Bool := !inMyNets c udp && AllowList.allow c.ral.allowList udp

end Nebula.Spec.Lighthouse
