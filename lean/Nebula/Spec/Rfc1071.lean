/-
Specification for C25: RFC 1071 §1, read literally — the buffer is a sequence of big-endian 16-bit
words (an odd trailing byte is padded with a zero on the right), added one at a time with 16-bit
one's-complement addition (end-around carry), starting from the initial value.  Written independently
of `Base/Csum` (which sums in unbounded naturals and folds once); `Lemmas/CsumSpec` proves the two
agree.
-/
namespace Nebula.Spec.Rfc1071

/-- the 16-bit big-endian words of a buffer, last odd byte padded on the right. -/
def words : List UInt8 → List Nat
  | [] => []
  | [a] => [a.toNat * 256]
  | a :: b :: r => (a.toNat * 256 + b.toNat) :: words r

/-- 16-bit one's-complement addition: add, and add the carry out of bit 15 back in. -/
def ocAdd (a b : Nat) : Nat :=
  let s := a + b
  if s > 0xffff then s - 0x10000 + 1 else s

/-- RFC 1071 sum (not complemented) of `buf`, starting from `initial` (a 16-bit value). -/
def checksum (buf : List UInt8) (initial : Nat) : Nat := (words buf).foldl ocAdd initial

end Nebula.Spec.Rfc1071
