/-
Specification for C26, written against the *observable trace* of a `WriteBatch` call (what the injected
`sendFn` sees, and the return value), independently of the model.  Core Lean only.

A packet is `(len, d)`: its length and its destination (a small number naming the wire address).
An observed entry lists the indices of the packets its iovecs point at (`idxs`), the UDP_SEGMENT value of
its cmsg if it has one, and the destination in its sockaddr.
-/
namespace Nebula.Spec.Writebatch

structure SEntry where
  /-- indices of the packets the iovecs point at, in iovec order; for the iovec of a zero-length packet
  (base pointer nil) the index is not observable and the list is empty with `zero = true`. -/
  idxs : List Nat
  zero : Bool
  seg : Option Nat
  dst : Nat
  deriving Repr

def SEntry.cnt (e : SEntry) : Nat := if e.zero then 1 else e.idxs.length

structure SCall where
  done : Nat
  n : Nat
  ents : List SEntry
  sent : Int
  errOk : Bool
  deriving Repr

structure STrace where
  written : Nat
  err : Bool
  calls : List SCall
  deriving Repr

structure SInput where
  scratch : Nat
  maxSeg : Int
  maxBytes : Nat
  /-- may the socket address destination `d`? -/
  routable : Nat → Bool
  pkts : List (Nat × Nat)

/-- the entries the kernel accepted, in the order it accepted them. -/
def accepted (t : STrace) : List SEntry :=
  t.calls.flatMap (fun c => if c.sent > 0 then c.ents.take c.sent.toNat else [])

def acceptedIdxs (t : STrace) : List Nat := (accepted t).flatMap (·.idxs)

def strictlyIncreasing : List Nat → Bool
  | [] => true
  | [_] => true
  | a :: b :: rest => decide (a < b) && strictlyIncreasing (b :: rest)

def hasDup : List Nat → Bool
  | [] => false
  | a :: rest => rest.contains a || hasDup rest

/-- every datagram is handed to the kernel successfully at most once. -/
def atMostOnce (inp : SInput) (t : STrace) : Bool :=
  !hasDup (acceptedIdxs t) &&
  -- zero-length packets are not identifiable: per destination, not more accepted than exist
  (List.range inp.pkts.length).all (fun d =>
    ((accepted t).filter (fun e => e.zero && e.dst == d)).length ≤
      (inp.pkts.filter (fun p => p.1 == 0 && p.2 == d)).length)

/-- the reported count equals the datagrams the kernel accepted. -/
def countExact (t : STrace) : Bool :=
  t.written == ((accepted t).map (·.cnt)).sum

/-- same-destination datagrams keep their order. -/
def orderKept (inp : SInput) (t : STrace) : Bool :=
  let idxs := acceptedIdxs t
  (List.range inp.pkts.length).all (fun d =>
    strictlyIncreasing (idxs.filter (fun i => (inp.pkts.getD i (0, 0)).2 == d)))

def consecutive : List Nat → Bool
  | [] => true
  | [_] => true
  | a :: b :: rest => decide (b = a + 1) && consecutive (b :: rest)

/-- shape of one prepared entry: in range, consecutive, right sockaddr, routable; an offloaded run (≥ 2
packets) has one destination, equal-sized segments except a shorter (non-empty) last one, at most
`maxSeg` segments and at most `maxBytes` bytes, and announces the size of its segments; a single packet
carries no cmsg. -/
def entryShape (inp : SInput) (e : SEntry) : Bool :=
  if e.zero then e.idxs.isEmpty && e.seg.isNone && inp.routable e.dst
  else
    match e.idxs with
    | [] => false
    | first :: _ =>
      let ps := e.idxs.map (fun i => inp.pkts.getD i (0, 0))
      let lens := ps.map (·.1)
      e.idxs.all (· < inp.pkts.length) && consecutive e.idxs &&
      ps.all (fun p => p.2 == e.dst) && inp.routable e.dst &&
      (if e.idxs.length ≥ 2 then
        let s := (inp.pkts.getD first (0, 0)).1
        e.seg == some s &&
        lens.dropLast.all (· == s) &&
        (match lens.getLast? with | some l => decide (0 < l ∧ l ≤ s) | none => false) &&
        decide ((e.idxs.length : Int) ≤ inp.maxSeg) &&
        decide (lens.sum ≤ inp.maxBytes)
      else e.seg.isNone)

def runShape (inp : SInput) (t : STrace) : Bool :=
  t.calls.all (fun c => decide (c.n = c.ents.length) && decide (1 ≤ c.n) && decide (c.done + c.n ≤ inp.scratch) &&
    c.ents.all (entryShape inp))

/-- a call that made no progress and reported no error ends the batch with an error, and only such a
call does. -/
def noProgress (t : STrace) : Bool :=
  let stuck := fun (c : SCall) => decide (c.sent ≤ 0) && c.errOk
  t.calls.dropLast.all (fun c => !stuck c) &&
  (t.err == (match t.calls.getLast? with | some c => stuck c | none => false))

def sentWithin (t : STrace) : Bool := t.calls.all (fun c => decide (c.sent ≤ (c.n : Int)))

/-- the property oracle: `none`, or the class of the violated clause. -/
def check (inp : SInput) (t : STrace) : Option String :=
  if !sentWithin t then some "wb-sent-beyond-offered"
  else if !runShape inp t then some "wb-run-shape"
  else if !atMostOnce inp t then some "wb-duplicate"
  else if !countExact t then some "wb-count"
  else if !orderKept inp t then some "wb-order"
  else if !noProgress t then some "wb-no-progress"
  else none

end Nebula.Spec.Writebatch
