/-
Specification oracle for C13, independent of how counters are handed out: the history of nonces that
reached the cipher under one key. A new nonce is acceptable iff it was never used before, lies above the
counters consumed by the handshake (`ctr0`), lies below the ceiling, and — when the cipher demands
increasing nonces (FIPS/boring) — exceeds every nonce used so far.
-/
namespace Nebula.Spec.Nonce

structure H where
  ctr0 : Nat
  ceiling : Nat
  increasing : Bool
  used : List Nat := []

/-- `none` = acceptable; `some cls` = the clause of the property that is violated -/
def violation (h : H) (n : Nat) : Option String :=
  if h.used.contains n then some "nonce-reused"
  else if n ≤ h.ctr0 then some "nonce-not-above-handshake"
  else if n ≥ h.ceiling then some "nonce-at-or-above-ceiling"
  else if h.increasing && h.used.any (fun m => n ≤ m) then some "nonce-not-increasing"
  else none

def record (h : H) (n : Nat) : H := { h with used := n :: h.used }

end Nebula.Spec.Nonce
