/-
Specification for C11 (written independently of `bits.go`): a replay window over *unbounded* naturals.

The state is nothing but the list of counters accepted so far. "There is no counter value 0": the
history starts with 0 already taken. A counter is accepted iff it has not been accepted before and it
is either above the highest accepted counter or within the window of `L` counters ending at it; while
the highest accepted counter is still below `L` the window covers the first `L` counters.
-/
namespace Nebula.Spec.Window

/-- counters accepted so far (most recent first) -/
abbrev W := List Nat

def init : W := [0]

/-- highest accepted counter -/
def hi (w : W) : Nat := w.foldr max 0

/-- the acceptance rule of the property statement -/
def accepts (L : Nat) (w : W) (i : Nat) : Bool :=
  !w.contains i && (decide (hi w < i) || (decide (hi w < L) && decide (i < L)) || decide (hi w < i + L))

def step (L : Nat) (w : W) (i : Nat) : W × Bool :=
  if accepts L w i then (i :: w, true) else (w, false)

/-- answers of a whole history -/
def run (L : Nat) : W → List Nat → List Bool
  | _, [] => []
  | w, i :: is => (step L w i).2 :: run L (step L w i).1 is

end Nebula.Spec.Window
