/-
Specification for C11 (written independently of `bits.go`): a replay window over *unbounded* naturals.

The state is nothing but the list of counters accepted so far. "There is no counter value 0": the
history starts with 0 already taken. A counter is accepted iff it has not been accepted before and it
is either above the highest accepted counter or within the window of `L` counters ending at it; while
the highest accepted counter is still below `L` the window covers the first `L` counters.
-/
namespace Nebula.Spec.Window

/-- counters accepted so far (most recent first) -/
abbrev W := List Nat

def init : W := [0]

/-- highest accepted counter -/
def hi (w : W) : Nat := w.foldr max 0

/-- the acceptance rule of the property statement -/
def accepts (L : Nat) (w : W) (i : Nat) : Bool :=
  !w.contains i && (decide (hi w < i) || (decide (hi w < L) && decide (i < L)) || decide (hi w < i + L))

def step (L : Nat) (w : W) (i : Nat) : W × Bool :=
  if accepts L w i then (i :: w, true) else (w, false)

/-- answers of a whole history -/
def run (L : Nat) : W → List Nat → List Bool
  | _, [] => []
  | w, i :: is => (step L w i).2 :: run L (step L w i).1 is

/-- which of the `n` consecutive counters `lo, lo+1, …` have been accepted (one pass over the history) -/
def seenIn (w : W) (lo n : Nat) : Array Bool :=
  w.foldl (fun a c => if lo ≤ c && c < lo + n then a.set! (c - lo) true else a) (Array.replicate n false)

/-- the acceptance rule for the `n` consecutive counters `lo, lo+1, …`, in one pass over the history:
counter `c` is accepted iff it is not in the history and `hi < c + L` (`Lemmas.Bits.accepts_eq`: the
three-way disjunction of `accepts` is `hi < c + L`). Used by the `scan` oracle, where asking
`accepts` for each of 8192 counters separately would be quadratic. -/
def scan (L : Nat) (w : W) (lo n : Nat) : Array Bool :=
  let h := hi w
  let seen := seenIn w lo n
  (Array.range n).map (fun k => !seen[k]! && decide (h < lo + k + L))

end Nebula.Spec.Window
