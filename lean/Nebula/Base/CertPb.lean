import Nebula.Base.Wire
/-
The protobuf wire subset used by `cert/cert_v1.pb.go` (`RawNebulaCertificate`, `RawNebulaCertificateDetails`,
`RawNebulaEncryptedData` …) as `google.golang.org/protobuf` reads and writes it: varints (≤ 10 bytes, 10th
byte < 2, non-minimal forms accepted), tags (field number 1 … 2^29-1), length-delimited values, skipping of
unknown fields of every wire type incl. groups, proto3 UTF-8 validation of strings. Core Lean only.
(Local to the cert engines; to be unified with `Base/Wire.lean` later.)
-/
namespace Nebula.CertPb

abbrev Bytes := List UInt8

/-! ### writer -/

/-- `protowire.AppendVarint` of a `uint64` (the shared definition of `Base/Wire.lean`). -/
def encVarint (v : Nat) : Bytes := Wire.appendVarint (v % 2 ^ 64)

def encTag (num wt : Nat) : Bytes := encVarint (num * 8 + wt)

def encBytesField (num : Nat) (b : Bytes) : Bytes := encTag num 2 ++ encVarint b.length ++ b

def encVarintField (num : Nat) (v : Nat) : Bytes := encTag num 0 ++ encVarint v

/-- two's-complement view of an `int64` / `int32` as the unsigned varint payload. -/
def int64ToU (v : Int) : Nat := (v % (2 ^ 64 : Nat)).toNat

def uToInt64 (v : Nat) : Int := if v % 2 ^ 64 < 2 ^ 63 then (v % 2 ^ 64 : Nat) else ((v % 2 ^ 64 : Nat) : Int) - (2 ^ 64 : Nat)

def uToInt32 (v : Nat) : Int := if v % 2 ^ 32 < 2 ^ 31 then (v % 2 ^ 32 : Nat) else ((v % 2 ^ 32 : Nat) : Int) - (2 ^ 32 : Nat)

/-! ### reader -/

/-- `protowire.ConsumeVarint` (shared definition): value and rest; `none` = truncated or overflow. -/
def decVarint (s : Bytes) : Option (Nat × Bytes) :=
  match Wire.consumeVarint s with
  | .ok (v, n) => some (v, s.drop n)
  | .error _ => none

/-- `protowire.ConsumeBytes`. -/
def decBytes (s : Bytes) : Option (Bytes × Bytes) :=
  match decVarint s with
  | none => none
  | some (n, rest) => if n > rest.length then none else some (rest.take n, rest.drop n)

/-- field number and wire type of the next tag, as the table-driven decoder accepts them. -/
def decTag (s : Bytes) : Option (Nat × Nat × Bytes) :=
  match decVarint s with
  | none => none
  | some (t, rest) =>
    let num := t / 8
    if num < 1 || num > 536870911 then none else some (num, t % 8, rest)

/-- `protowire.ConsumeFieldValue(num, typ, b)` for skipping an unknown field; groups need fuel. -/
def skipValue : Nat → Nat → Nat → Bytes → Option Bytes
  | 0, _, _, _ => none
  | fuel + 1, num, wt, s =>
    if wt == 0 then (decVarint s).map (·.2)
    else if wt == 1 then (if s.length < 8 then none else some (s.drop 8))
    else if wt == 2 then (decBytes s).map (·.2)
    else if wt == 5 then (if s.length < 4 then none else some (s.drop 4))
    else if wt == 3 then skipGroup fuel num s
    else none
where
  /-- `protowire.ConsumeGroup`: fields until the matching end-group tag. -/
  skipGroup : Nat → Nat → Bytes → Option Bytes
  | 0, _, _ => none
  | fuel + 1, num, s =>
    match decVarint s with
    | none => none
    | some (t, rest) =>
      let n2 := t / 8
      let wt := t % 8
      if n2 < 1 || n2 > 536870911 then none
      else if wt == 4 then (if n2 == num then some rest else none)
      else match skipValue fuel n2 wt rest with
        | none => none
        | some rest' => skipGroup fuel num rest'

/-! ### UTF-8 (`unicode/utf8.Valid`) -/

def isCont (b : UInt8) : Bool := 0x80 ≤ b && b ≤ 0xbf

def utf8Valid : Bytes → Bool
  | [] => true
  | b0 :: rest =>
    if b0 < 0x80 then utf8Valid rest
    else if 0xc2 ≤ b0 && b0 ≤ 0xdf then
      match rest with
      | b1 :: r => isCont b1 && utf8Valid r
      | _ => false
    else if 0xe0 ≤ b0 && b0 ≤ 0xef then
      match rest with
      | b1 :: b2 :: r =>
        let lo : UInt8 := if b0 == 0xe0 then 0xa0 else 0x80
        let hi : UInt8 := if b0 == 0xed then 0x9f else 0xbf
        lo ≤ b1 && b1 ≤ hi && isCont b2 && utf8Valid r
      | _ => false
    else if 0xf0 ≤ b0 && b0 ≤ 0xf4 then
      match rest with
      | b1 :: b2 :: b3 :: r =>
        let lo : UInt8 := if b0 == 0xf0 then 0x90 else 0x80
        let hi : UInt8 := if b0 == 0xf4 then 0x8f else 0xbf
        lo ≤ b1 && b1 ≤ hi && isCont b2 && isCont b3 && utf8Valid r
      | _ => false
    else false

/-- packed repeated varints: the whole payload must be varints. -/
def decPacked : Nat → Bytes → Option (List Nat)
  | 0, s => if s.isEmpty then some [] else none
  | fuel + 1, s =>
    if s.isEmpty then some []
    else match decVarint s with
      | none => none
      | some (v, rest) => (decPacked fuel rest).map (v :: ·)

end Nebula.CertPb
