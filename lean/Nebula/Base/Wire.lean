/-
Shared theory: the protobuf wire format as read and written by
`google.golang.org/protobuf/encoding/protowire` (the only protobuf code the hand-written nebula
codecs call): varints, tags, length-delimited values, fixed-width values, groups, and
`ConsumeFieldValue` with its recursion limit.  Core Lean only; proofs are in `Lemmas/Wire*.lean`.

Conventions
* bytes are `List UInt8`;
* a `Consume*` function of protowire returns a negative length on error; here that is
  `Except Err …` with one constructor per error code, and the non-negative length `n` is returned
  next to the value;
* numbers are `Nat`; the Go types are `uint64` (varint values, tags) and `int32` (field numbers) and
  the bounds are written out where the Go code depends on them (10-byte overflow rule, the
  `x>>3 > MaxInt32` rule of `DecodeTag`).
-/
namespace Nebula.Wire

abbrev Bytes := List UInt8

/-- protowire's error codes (`errCodeTruncated = -1` … `errCodeRecursionDepth = -6`). -/
inductive Err
  | truncated | fieldNumber | overflow | reserved | endGroup | recursionDepth
  deriving DecidableEq, Repr

def Err.code : Err → Nat
  | .truncated => 1 | .fieldNumber => 2 | .overflow => 3 | .reserved => 4 | .endGroup => 5
  | .recursionDepth => 6

abbrev Res (α : Type) := Except Err α

/-! ### wire types -/
def VarintType : Nat := 0
def Fixed64Type : Nat := 1
def BytesType : Nat := 2
def StartGroupType : Nat := 3
def EndGroupType : Nat := 4
def Fixed32Type : Nat := 5

/-- `DefaultRecursionLimit`. -/
def recursionLimit : Nat := 10000

/-! ### varints -/

/-- `AppendVarint` for a `uint64`: base-128 little-endian, continuation bit on every byte but the
last; at most 10 bytes (`fuel` = number of bytes still allowed after this one). -/
def appendVarintAux : Nat → Nat → Bytes
  | 0, v => [UInt8.ofNat v]
  | fuel + 1, v =>
    if v < 128 then [UInt8.ofNat v] else UInt8.ofNat (v % 128 + 128) :: appendVarintAux fuel (v / 128)

def appendVarint (v : Nat) : Bytes := appendVarintAux 9 v

/-- `ConsumeVarint`, byte index `i` (0-based).  Bytes 0‥8 contribute 7 bits each; byte 9 may only be
0 or 1 (`errCodeOverflow` otherwise); running out of input is `errCodeTruncated`.  Non-minimal
encodings are accepted, exactly as in the Go code.  Returns (value, number of bytes read). -/
def consumeVarintAux : Nat → Bytes → Res (Nat × Nat)
  | _, [] => .error .truncated
  | i, y :: rest =>
    if i = 9 then
      (if y.toNat < 2 then .ok (y.toNat, 1) else .error .overflow)
    else if y.toNat < 128 then .ok (y.toNat, 1)
    else
      match consumeVarintAux (i + 1) rest with
      | .ok (v, n) => .ok ((y.toNat - 128) + 128 * v, n + 1)
      | .error e => .error e

def consumeVarint (b : Bytes) : Res (Nat × Nat) := consumeVarintAux 0 b

/-! ### tags -/

/-- `EncodeTag`: `uint64(num)<<3 | uint64(typ&7)`. -/
def encodeTag (num typ : Nat) : Nat := num * 8 + typ % 8

def appendTag (num typ : Nat) : Bytes := appendVarint (encodeTag num typ)

/-- `ConsumeTag`: `DecodeTag` yields number `-1` when `x>>3 > MaxInt32`; any number `< 1` is
`errCodeFieldNumber`.  Returns (number, type, length). -/
def consumeTag (b : Bytes) : Res (Nat × Nat × Nat) :=
  match consumeVarint b with
  | .error e => .error e
  | .ok (v, n) =>
    if v / 8 > 2 ^ 31 - 1 then .error .fieldNumber
    else if v / 8 < 1 then .error .fieldNumber
    else .ok (v / 8, v % 8, n)

/-! ### length-delimited and fixed-width values -/

def appendBytes (v : Bytes) : Bytes := appendVarint v.length ++ v

/-- `ConsumeBytes`: returns (the value, total length). -/
def consumeBytes (b : Bytes) : Res (Bytes × Nat) :=
  match consumeVarint b with
  | .error e => .error e
  | .ok (m, n) =>
    if m > (b.drop n).length then .error .truncated
    else .ok ((b.drop n).take m, n + m)

def consumeFixed32 (b : Bytes) : Res Nat := if b.length < 4 then .error .truncated else .ok 4
def consumeFixed64 (b : Bytes) : Res Nat := if b.length < 8 then .error .truncated else .ok 8

/-! ### `ConsumeFieldValue` -/

/-- The `for` loop of the `StartGroupType` case: read tags until the matching end-group tag;
`inner` consumes a nested field value (one level deeper).  `fuel` bounds the number of iterations
(every iteration consumes at least the tag byte; `b.length + 1` always suffices — see
`Lemmas/Wire`); `consumed` is `n0 - len(b)`.  Running out of fuel is reported as `none`. -/
def groupLoop (inner : Nat → Nat → Bytes → Res Nat) (num : Nat) :
    Nat → Bytes → Nat → Option (Res Nat)
  | 0, _, _ => none
  | fuel + 1, b, consumed =>
    match consumeTag b with
    | .error e => some (.error e)
    | .ok (num2, typ2, n) =>
      let b := b.drop n
      if typ2 = EndGroupType then
        (if num ≠ num2 then some (.error .endGroup) else some (.ok (consumed + n)))
      else
        match inner num2 typ2 b with
        | .error e => some (.error e)
        | .ok m => groupLoop inner num fuel (b.drop m) (consumed + n + m)

/-- The `switch typ` of `consumeFieldValueD`; `grp` is the `StartGroupType` case. -/
def fieldValueSwitch (typ : Nat) (b : Bytes) (grp : Unit → Res Nat) : Res Nat :=
  if typ = VarintType then
    (match consumeVarint b with | .ok (_, n) => .ok n | .error e => .error e)
  else if typ = Fixed32Type then consumeFixed32 b
  else if typ = Fixed64Type then consumeFixed64 b
  else if typ = BytesType then
    (match consumeBytes b with | .ok (_, n) => .ok n | .error e => .error e)
  else if typ = StartGroupType then grp ()
  else if typ = EndGroupType then .error .endGroup
  else .error .reserved

/-- `consumeFieldValueD num typ b depth`, with `d = depth + 1` (so `d = 0` is `depth < 0`). -/
def consumeFieldValueD : Nat → Nat → Nat → Bytes → Res Nat
  | 0, _, typ, b => fieldValueSwitch typ b (fun _ => .error .recursionDepth)
  | d + 1, num, typ, b =>
    fieldValueSwitch typ b (fun _ =>
      match groupLoop (consumeFieldValueD d) num (b.length + 1) b 0 with
      | some r => r
      | none => .error .truncated)   -- unreachable (Lemmas/Wire: `consumeFieldValueD_group_fuel`)

/-- `ConsumeFieldValue`. -/
def consumeFieldValue (num typ : Nat) (b : Bytes) : Res Nat :=
  consumeFieldValueD (recursionLimit + 1) num typ b

/-- Go slicing `b[n:]`: panics when `n > len(b)`.  Models use this instead of `List.drop` so that a
missing bounds guarantee shows up as an explicit `none` (panic). -/
def sliceFrom (b : Bytes) (n : Nat) : Option Bytes := if n ≤ b.length then some (b.drop n) else none

end Nebula.Wire
