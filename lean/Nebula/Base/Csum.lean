/-
Shared theory: the Internet checksum (RFC 1071) — definitions only (core Lean; proofs are in
`Nebula/Lemmas/Csum*.lean`).

The one's-complement sum of 16-bit words is arithmetic modulo 65535 (because 2^16 ≡ 1), *except* that
the 16-bit representation has two zeros: `0x0000` is produced only by an all-zero sum and `0xffff` by
every other multiple of 65535.  `ocNorm` is that canonical 16-bit representative; `fold16` is the
"add the carries back in until it fits" loop of RFC 1071 §4.1, proved equal to `ocNorm`.

Bytes are `List UInt8`; all sums are unbounded naturals, so nothing here can overflow.
-/
namespace Nebula.Csum

/-- Sum of the big-endian 16-bit words of a buffer; an odd trailing byte is padded with a zero byte on
the right (RFC 1071 §4.1). -/
def wsum : List UInt8 → Nat
  | [] => 0
  | [a] => a.toNat * 256
  | a :: b :: r => a.toNat * 256 + b.toNat + wsum r

/-- Sum of the little-endian 16-bit words; an odd trailing byte counts as itself (it is the low byte
of a word whose high byte is the zero padding). -/
def leSum : List UInt8 → Nat
  | [] => 0
  | [a] => a.toNat
  | a :: b :: r => a.toNat + b.toNat * 256 + leSum r

/-- Canonical 16-bit one's-complement representative of a natural number: `0` for `0`, otherwise the
unique value in `1 … 0xffff` congruent to it modulo 65535. -/
def ocNorm (x : Nat) : Nat := if x = 0 then 0 else (x - 1) % 65535 + 1

/-- One end-around-carry step: add the part above bit 16 back into the low 16 bits. -/
def foldStep (x : Nat) : Nat := x % 65536 + x / 65536

/-- RFC 1071 fold: repeat the end-around carry until the value fits 16 bits. -/
def fold16 (x : Nat) : Nat :=
  if x < 65536 then x else fold16 (foldStep x)
termination_by x
decreasing_by unfold foldStep; omega

/-- The RFC 1071 checksum (not complemented) of a buffer with an initial partial sum: this is the
contract of `checksum.Checksum(buf, initial)`. -/
def checksum (buf : List UInt8) (initial : Nat) : Nat := fold16 (wsum buf + initial)

/-- 16-bit complement. -/
def compl16 (x : Nat) : Nat := 65535 - x % 65536

/-- Swap the two bytes of a 16-bit value. -/
def swap16 (x : Nat) : Nat := (x % 256) * 256 + (x / 256) % 256

/-- "Represents": `a` and `x` are the same one's-complement number (congruent mod 65535, and zero
together).  Every end-around-carry accumulator of any width `2^(16k)` maintains this relation with
the true (unbounded) sum. -/
def Rep (a x : Nat) : Prop := a % 65535 = x % 65535 ∧ (a = 0 ↔ x = 0)

/-- Big-endian 16-bit word at byte offset `off` (missing bytes read as zero). -/
def be16 (b : List UInt8) (off : Nat) : Nat := (b.getD off 0).toNat * 256 + (b.getD (off + 1) 0).toNat

/-- The two big-endian bytes of a 16-bit value. -/
def put16 (v : Nat) : List UInt8 := [UInt8.ofNat (v / 256 % 256), UInt8.ofNat (v % 256)]

/-- Overwrite the 16-bit big-endian field at byte offset `off`
(`binary.BigEndian.PutUint16(b[off:off+2], v)` on an in-range field). -/
def set16 (b : List UInt8) (off v : Nat) : List UInt8 := b.take off ++ put16 v ++ b.drop (off + 2)

/-- A receiver's check: the words (including the transmitted checksum field) plus `pseudo` sum to the
one's-complement "negative zero" `0xffff`. -/
def verifies (bytes : List UInt8) (pseudo : Nat) : Prop := fold16 (wsum bytes + pseudo) = 65535

instance (bytes : List UInt8) (pseudo : Nat) : Decidable (verifies bytes pseudo) := by
  unfold verifies; infer_instance

/-- IPv4 / IPv6 pseudo-header sum for an upper-layer protocol: addresses (as bytes), protocol number,
upper-layer length. -/
def pseudoSum (addrs : List UInt8) (proto len : Nat) : Nat := wsum addrs + proto + len

end Nebula.Csum
