/-
Shared network types (DESIGN.md §4.4): addresses, prefixes, containment and longest-prefix match — the
specification of what nebula asks of `net/netip` and `gaissmai/bart` (`Lookup`, `Contains`, `Supernets`).
Core Lean only.
-/
namespace Nebula.Net

inductive Fam where
  | v4 | v6
  deriving DecidableEq, Repr, BEq

def Fam.bits : Fam → Nat
  | .v4 => 32
  | .v6 => 128

/-- An IP address: family and value (`val < 2 ^ fam.bits` is the well-formedness condition `Addr.WF`).
A 4-in-6 mapped address is a `v6` address whose value is `0xffff_0000_0000 + v4` (see `unmap`). -/
structure Addr where
  fam : Fam
  val : Nat
  deriving DecidableEq, Repr, BEq

def Addr.WF (a : Addr) : Prop := a.val < 2 ^ a.fam.bits

instance (a : Addr) : Decidable a.WF := by unfold Addr.WF; exact inferInstance

def Addr.is4 (a : Addr) : Bool := a.fam == .v4
def Addr.is6 (a : Addr) : Bool := a.fam == .v6

/-- `netip.Addr.Is4In6`. -/
def Addr.is4in6 (a : Addr) : Bool := a.fam == .v6 && a.val / 2 ^ 32 == 0xffff

/-- `netip.Addr.Unmap`. -/
def Addr.unmap (a : Addr) : Addr :=
  if a.is4in6 then { fam := .v4, val := a.val % 2 ^ 32 } else a

/-- `netip.Addr.Compare`/`Less` ordering key: IPv4 sorts before IPv6, then by value. -/
def Addr.lt (a b : Addr) : Bool :=
  if a.fam == b.fam then a.val < b.val else a.fam == .v4

/-- A prefix (`netip.Prefix`): address and length `len ≤ fam.bits`. Not necessarily masked. -/
structure Prefix where
  addr : Addr
  len : Nat
  deriving DecidableEq, Repr, BEq

def Prefix.WF (p : Prefix) : Prop := p.addr.WF ∧ p.len ≤ p.addr.fam.bits

/-- The top `len` bits of an address value. -/
def topBits (f : Fam) (v len : Nat) : Nat := v >>> (f.bits - len)

/-- `netip.Prefix.Contains` (for unmapped addresses; zones do not exist in nebula). -/
def Prefix.contains (p : Prefix) (a : Addr) : Bool :=
  p.addr.fam == a.fam && p.len ≤ a.fam.bits && topBits a.fam p.addr.val p.len == topBits a.fam a.val p.len

/-- `netip.Prefix.Masked`. -/
def Prefix.masked (p : Prefix) : Prefix :=
  { p with addr := { p.addr with val := (topBits p.addr.fam p.addr.val p.len) <<< (p.addr.fam.bits - p.len) } }

/-- prefix `q` covers prefix `p` (`q` is a supernet of, or equal to, `p`). -/
def Prefix.covers (q p : Prefix) : Bool :=
  q.len ≤ p.len && q.contains p.addr

/-- Longest-prefix match over an association list: the value of the longest prefix containing `a`
(first one wins among equal lengths — tables built by insertion keep masked prefixes unique). -/
def lpm {α : Type} (tbl : List (Prefix × α)) (a : Addr) : Option α :=
  let best := tbl.foldl (fun (acc : Option (Prefix × α)) e =>
    if e.1.contains a then
      match acc with
      | none => some e
      | some b => if b.1.len < e.1.len then some e else acc
    else acc) none
  best.map (·.2)

/-- `bart.Table.Contains`-style: does any prefix contain `a`. -/
def anyContains {α : Type} (tbl : List (Prefix × α)) (a : Addr) : Bool :=
  tbl.any (fun e => e.1.contains a)

/-- `bart.Table.Supernets`-style: all entries whose prefix covers `p`, longest first. -/
def supernets {α : Type} (tbl : List (Prefix × α)) (p : Prefix) : List (Prefix × α) :=
  (tbl.filter (fun e => e.1.covers p)).mergeSort (fun x y => x.1.len ≥ y.1.len)

end Nebula.Net
