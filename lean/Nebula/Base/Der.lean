/-
The DER subset that `golang.org/x/crypto/cryptobyte` reads and writes for nebula (DESIGN.md §4.5):
single-byte tags (low-tag-number form), definite lengths in the minimal form with at most 4 length octets,
two's-complement INTEGERs of at most 8 octets, positive big INTEGERs as byte strings.

Readers mirror `cryptobyte.String` methods: each takes the remaining input and returns the value together
with the rest, `none` where the Go method returns `false`. Writers mirror `cryptobyte.Builder`
(`AddASN1`, `AddASN1Int64WithTag`) for contents shorter than 2^32 - 6 bytes (larger contents make the Go
builder fail; nebula caps certificates at 64 KiB). Core Lean only.
-/
namespace Nebula.Der

abbrev Bytes := List UInt8

/-- big-endian value of a byte string. -/
def beNat (bs : Bytes) : Nat := bs.foldl (fun a b => a * 256 + b.toNat) 0

/-- the `n` low-order base-256 digits of `x`, most significant first. -/
def beBytes : Nat → Nat → Bytes
  | 0, _ => []
  | n + 1, x => UInt8.ofNat (x / 256 ^ n % 256) :: beBytes n x

/-! ### writer -/

/-- DER length octets (`Builder.addLengthPrefixed` with `pendingIsASN1`). -/
def encLen (n : Nat) : Bytes :=
  if n < 128 then [UInt8.ofNat n]
  else if n < 256 then [0x81, UInt8.ofNat n]
  else if n < 65536 then 0x82 :: beBytes 2 n
  else if n < 16777216 then 0x83 :: beBytes 3 n
  else 0x84 :: beBytes 4 n

/-- `Builder.AddASN1(tag, content)`. -/
def encTLV (tag : UInt8) (content : Bytes) : Bytes := tag :: (encLen content.length ++ content)

/-- number of content octets `addASN1Signed` emits for `v`. -/
def int64Len (v : Int) : Nat :=
  if -0x80 ≤ v ∧ v < 0x80 then 1
  else if -0x8000 ≤ v ∧ v < 0x8000 then 2
  else if -0x800000 ≤ v ∧ v < 0x800000 then 3
  else if -0x80000000 ≤ v ∧ v < 0x80000000 then 4
  else if -0x8000000000 ≤ v ∧ v < 0x8000000000 then 5
  else if -0x800000000000 ≤ v ∧ v < 0x800000000000 then 6
  else if -0x80000000000000 ≤ v ∧ v < 0x80000000000000 then 7
  else 8

/-- content octets of a two's-complement INTEGER (`int64` range). -/
def encIntContent (v : Int) : Bytes :=
  let l := int64Len v
  beBytes l (v % (256 ^ l : Nat)).toNat

/-- `Builder.AddASN1Int64WithTag(v, tag)`. -/
def encInt64 (tag : UInt8) (v : Int) : Bytes := encTLV tag (encIntContent v)

/-! ### reader -/

/-- one element at the head of the input: tag, header length, the whole element, the rest. -/
structure TLV where
  tag : UInt8
  hdr : Nat
  elem : Bytes
  rest : Bytes
  deriving DecidableEq, Repr

def TLV.content (t : TLV) : Bytes := t.elem.drop t.hdr

/-- long-form length: `lenLen` length octets at the head of `tl`; `none` where the Go code rejects (no or too
many length octets, truncated, value < 128, leading zero octet, uint32 overflow of header + length). -/
def longLen (lenLen : Nat) (tl : Bytes) : Option Nat :=
  if lenLen = 0 ∨ lenLen > 4 ∨ tl.length < lenLen then none
  else if beNat (tl.take lenLen) < 128 then none
  else if beNat (tl.take lenLen) >>> ((lenLen - 1) * 8) = 0 then none
  else if 2 + lenLen + beNat (tl.take lenLen) ≥ 2 ^ 32 then none
  else some (beNat (tl.take lenLen))

/-- The header part of `String.readASN1`: tag, header length and total element length, from the first
2 … 6 bytes. `none` where the Go code returns false before touching the content. -/
def headerOf (s : Bytes) : Option (UInt8 × Nat × Nat) :=
  match s with
  | tag :: lenByte :: tl =>
    if tag &&& 0x1f = 0x1f then none                     -- high-tag-number form is not supported
    else if lenByte &&& 0x80 = 0 then some (tag, 2, lenByte.toNat + 2)
    else
      match longLen (lenByte &&& 0x7f).toNat tl with
      | none => none
      | some len32 => some (tag, 2 + (lenByte &&& 0x7f).toNat, 2 + (lenByte &&& 0x7f).toNat + len32)
  | _ => none

/-- `String.readASN1(out, &tag, skipHeader)` for any tag. -/
def readAny (s : Bytes) : Option TLV :=
  match headerOf s with
  | none => none
  | some (tag, hdr, len) => if s.length < len then none else some ⟨tag, hdr, s.take len, s.drop len⟩

/-- `String.ReadASN1(&out, tag)`: content and rest. -/
def readASN1 (tag : UInt8) (s : Bytes) : Option (Bytes × Bytes) :=
  match readAny s with
  | some t => if t.tag == tag then some (t.content, t.rest) else none
  | none => none

/-- `String.ReadASN1Element(&out, tag)`: the element with its header, and rest. -/
def readASN1Element (tag : UInt8) (s : Bytes) : Option (Bytes × Bytes) :=
  match readAny s with
  | some t => if t.tag == tag then some (t.elem, t.rest) else none
  | none => none

/-- `String.PeekASN1Tag(tag)`. -/
def peekTag (tag : UInt8) (s : Bytes) : Bool :=
  match s with
  | b :: _ => b == tag
  | [] => false

/-- `String.ReadOptionalASN1(&out, &present, tag)`: `some (none, s)` when the tag is not next. -/
def readOptionalASN1 (tag : UInt8) (s : Bytes) : Option (Option Bytes × Bytes) :=
  if peekTag tag s then
    match readASN1 tag s with
    | some (c, rest) => some (some c, rest)
    | none => none
  else some (none, s)

/-- `checkASN1Integer`: non-empty and minimally encoded. -/
def checkASN1Integer (bs : Bytes) : Bool :=
  match bs with
  | [] => false
  | [_] => true
  | b0 :: b1 :: _ =>
    if b0 == 0 && b1 &&& 0x80 == 0 then false
    else if b0 == 0xff && b1 &&& 0x80 == 0x80 then false
    else true

/-- `asn1Signed`: sign-extended value of at most 8 octets. -/
def asn1Signed (bs : Bytes) : Option Int :=
  if bs.length > 8 then none
  else match bs with
    | [] => some 0
    | b0 :: _ => if b0 &&& 0x80 == 0x80 then some ((beNat bs : Int) - (256 ^ bs.length : Nat)) else some (beNat bs)

/-- `String.ReadASN1Int64WithTag(&out, tag)`. -/
def readInt64 (tag : UInt8) (s : Bytes) : Option (Int × Bytes) :=
  match readASN1 tag s with
  | some (c, rest) =>
    if checkASN1Integer c then
      match asn1Signed c with
      | some v => some (v, rest)
      | none => none
    else none
  | none => none

/-- strip leading zero octets but keep the last one (`for len(bytes) > 1 && bytes[0] == 0`). -/
def stripZeros : Bytes → Bytes
  | b0 :: b1 :: rest => if b0 == 0 then stripZeros (b1 :: rest) else b0 :: b1 :: rest
  | bs => bs

/-- `String.ReadASN1Integer(&out)` with `out *[]byte`: a non-negative INTEGER as minimal big-endian bytes. -/
def readIntegerBytes (s : Bytes) : Option (Bytes × Bytes) :=
  match readASN1 0x02 s with
  | some (c, rest) =>
    if !checkASN1Integer c then none
    else match c with
      | b0 :: _ => if b0 &&& 0x80 == 0x80 then none else some (stripZeros c, rest)
      | [] => none
  | none => none

end Nebula.Der
