/-
C17 — Overlay source and destination addresses are authentic.

"Regardless of rules and connection-tracking state, a packet delivered from peer P has a source address that is
either one of P's certified addresses inside the node's own overlay networks or inside one of P's certified
unsafe networks, and a packet sent to P has such a destination. In both directions the node-side address must
be one of the node's own certified addresses or inside its certified unsafe networks."

Model: the address checks at the top of `Firewall.Drop` (`remoteCheck` / `addrCheck`), `HostInfo.buildNetworks`
(`simpleCase` / `networksTable`), the handshake's `vpnAddrs[i] = Networks()[i].Addr()` (`hostOf`) and
`NewFirewall`'s `routableNetworks` (`routableOf`); `Drop` as a whole from Model/Conntrack.lean.
Specification: `Spec.Fw.remoteOK`, `Spec.Fw.localAddrOK` (Spec/FwRules.lean).
`firewall.Packet.RemoteAddr` is the source of an incoming and the destination of an outgoing packet, so one
statement about `remoteAddr` covers both directions (`incoming` is universally quantified).
-/
import Nebula.Lemmas.FwConn
import Nebula.Lemmas.FwAddr
import Nebula.Lemmas.FwReloadNet

namespace Nebula.Props.C17
open Nebula.Net Nebula.Fw Nebula.Spec.Fw Nebula.Lemmas.Fw

/-- the `HostInfo` the handshake builds for a peer certificate on a node with certificate `my`. -/
def peerHost (my peer : Cert) (pool : Pool) : HostInfo :=
  { host := hostOf (my.networks.foldl Lite.insert []) peer, peer := { cert := peer, pool := pool } }

/-- **drop_pass_implies_addrs.** For *every* firewall of this node (any rule tables — including allow-everything
—, any timeouts, any rules version), every conntrack table and timer wheel, every routine-cache content, every
time, direction and packet: if `Drop` lets the packet through, its remote address is certified for the peer and
its local address is the node's own. -/
theorem drop_pass_implies_addrs (my peer : Cert) (pool : Pool) (fw : Fw) (hfw : fw.routable = routableOf my)
    (ct : Conntrack) (now : Nat) (cache : Cache) (p : Packet) (incoming : Bool)
    (hpass : (drop fw ct now cache p incoming (peerHost my peer pool)).1 = .pass) :
    remoteOK my peer p.remoteAddr = true ∧ localAddrOK my p.localAddr = true := by
  rw [drop_eq] at hpass
  cases hac : addrCheck fw.routable (peerHost my peer pool).host p with
  | some v =>
    simp only [hac] at hpass
    exact absurd (by rw [hac, hpass]) (addrCheck_ne_pass fw.routable _ p)
  | none =>
    rw [hfw] at hac
    exact ⟨addrCheck_remote (routableOf my) my peer p hac, addrCheck_local my _ p hac⟩

/-- The same through a whole packet routine (cache ticker + `Drop`), for any system state reached in any way. -/
theorem packet_pass_implies_addrs (my peer : Cert) (pool : Pool) (s : Sys) (hfw : s.fw.routable = routableOf my)
    (p : Packet) (incoming : Bool)
    (hpass : (s.packet p incoming (peerHost my peer pool)).1 = .pass) :
    remoteOK my peer p.remoteAddr = true ∧ localAddrOK my p.localAddr = true := by
  unfold Sys.packet at hpass
  exact drop_pass_implies_addrs my peer pool s.fw hfw s.ct s.now _ p incoming hpass

/-- **unroutable_local_never_passes.** For every firewall state (any rule tables, any rules version), every
conntrack content (the tuple tracked or not, stamped with any version), every routine-cache content, time,
direction, peer and packet: if the packet's local address is not in the routable networks of the firewall *in
force*, `Drop` refuses it and touches neither conntrack nor the cache — the local-address check precedes the
conntrack fast path. For the firewall of a node with certificate `my` "not routable" is `localAddrOK my = false`. -/
theorem unroutable_local_never_passes (fw : Fw) (ct : Conntrack) (now : Nat) (cache : Cache) (p : Packet)
    (incoming : Bool) (h : HostInfo) (hl : anyContains fw.routable p.localAddr = false) :
    (drop fw ct now cache p incoming h).1 ≠ .pass ∧ (drop fw ct now cache p incoming h).2 = (ct, cache) :=
  drop_unroutable fw ct now cache p incoming h hl

/-- the same in the specification's terms, for a firewall built from the node's certificate. -/
theorem not_own_local_never_passes (my : Cert) (fw : Fw) (hfw : fw.routable = routableOf my) (ct : Conntrack)
    (now : Nat) (cache : Cache) (p : Packet) (incoming : Bool) (h : HostInfo)
    (hl : localAddrOK my p.localAddr = false) :
    (drop fw ct now cache p incoming h).1 ≠ .pass :=
  (drop_unroutable fw ct now cache p incoming h (by rw [hfw, anyContains_routable]; exact hl)).1

/-- **reload_dropping_network_cuts_flows.** For every system state `s` (any conntrack content — in particular
flows tracked towards an unsafe network of the old certificate), every new firewall `newFw` installed by
`reloadFirewall` (conntrack shared) and every later history without a further reload: no packet whose local
address is outside `newFw`'s routable networks passes, tracked or not, in either direction. -/
theorem reload_dropping_network_cuts_flows (s : Sys) (newFw : Fw) (post : List Op)
    (hnr : ∀ op ∈ post, Op.isReload op = false) :
    ∀ e ∈ ((s.reload newFw).run post).2, anyContains newFw.routable e.pkt.localAddr = false → e.verdict ≠ .pass := by
  intro e he hl hp
  have h1 := run_pass_routable (s.reload newFw) post e he hp
  rw [run_fw_const (s.reload newFw) post hnr e he, reload_routable] at h1
  rw [hl] at h1; cases h1

/-- The firewall of the node keeps `routableNetworks` through `AddRule`, so the hypothesis `hfw` above holds
for every firewall built from the node's certificate and any rule list. -/
theorem routable_of_built (my : Cert) (dlca : Bool) (tcp udp dflt : Nat) (rules : List Rule) :
    ((Fw.new my dlca tcp udp dflt).addRules rules).routable = routableOf my := by
  rw [addRules_routable]; rfl

/-- The `networks == nil` fast path of `Drop` is equivalent to the table path under `buildNetworks`' own guard:
whenever the guard holds, checking `vpnAddrs[0]` gives the same answer as a lookup in the table that
`buildNetworks` would otherwise have built. -/
theorem fast_path_eq_table_path (myNets : Lite) (c : Cert) (p : Packet) (hs : simpleCase myNets c = true) :
    remoteCheck { vpnAddrs := c.networks.map (·.addr), networks := none } p
      = remoteCheck { vpnAddrs := c.networks.map (·.addr), networks := some (networksTable myNets c) } p := by
  unfold simpleCase at hs
  split at hs
  · rename_i n hn hu
    have hl : lpm [(hostPrefix n.addr, NetType.vpn)] p.remoteAddr
        = if n.addr = p.remoteAddr then some NetType.vpn else none := by
      simp only [lpm, List.foldl_cons, List.foldl_nil, hostPrefix_contains]
      by_cases ha : n.addr = p.remoteAddr <;> simp [ha]
    simp only [remoteCheck, networksTable, hn, hu, List.map_cons, List.map_nil, List.foldl_cons, List.foldl_nil,
      aset, hs, if_true, hl]
    by_cases ha : n.addr = p.remoteAddr <;> simp [ha]
  · cases hs

/-- A peer address that is certified but lies outside the node's networks is refused (`ErrPeerRejected`), and an
address nobody certified is refused, even with an allow-everything rule set: the only `none` answers of the
remote check are the two classes of the specification. -/
theorem remote_check_sound (my peer : Cert) (p : Packet)
    (h : remoteCheck (hostOf (my.networks.foldl Lite.insert []) peer) p = none) :
    remoteOK my peer p.remoteAddr = true := by
  apply addrCheck_remote [({ addr := p.localAddr, len := p.localAddr.fam.bits }, ())] my peer p
  unfold addrCheck
  simp [h, anyContains, hostPrefix_contains p.localAddr p.localAddr, hostPrefix]
  have := hostPrefix_contains p.localAddr p.localAddr
  simpa [hostPrefix] using this

/-! ### non-vacuity -/

def exMy : Cert :=
  { name := "me", networks := [{ addr := { fam := .v4, val := 0x0a000001 }, len := 8 }],
    unsafeNetworks := [{ addr := { fam := .v4, val := 0xc0a80000 }, len := 16 }], groups := [], issuer := "ca1" }

/-- two addresses (one outside the node's 10/8) and an unsafe network. -/
def exPeer : Cert :=
  { name := "gw", networks := [{ addr := { fam := .v4, val := 0x0a000002 }, len := 8 },
                               { addr := { fam := .v4, val := 0x0b000002 }, len := 8 }],
    unsafeNetworks := [{ addr := { fam := .v4, val := 0xac100000 }, len := 12 }], groups := [], issuer := "ca1" }

def allowAll : Rule :=
  { incoming := true, proto := 0, startPort := 0, endPort := 0, groups := [], host := "any", cidr := .none,
    localCidr := .any, caName := "", caSha := "" }

def exFw : Fw := (Fw.new exMy false 60 60 60).addRules [allowAll]

def pkt (l r : Nat) : Packet :=
  { localAddr := { fam := .v4, val := l }, remoteAddr := { fam := .v4, val := r },
    localPort := 80, remotePort := 1234, proto := 6, fragment := false }

-- with allow-everything rules: certified address passes, the peer's unsafe network passes, the node's unsafe
-- network is a valid local address; a spoofed source, the out-of-network peer address and a foreign local
-- address do not
example : (drop exFw (Conntrack.new 60 60 60) 0 none (pkt 0x0a000001 0x0a000002) true (peerHost exMy exPeer [])).1 = .pass := by decide
example : (drop exFw (Conntrack.new 60 60 60) 0 none (pkt 0x0a000001 0xac100505) true (peerHost exMy exPeer [])).1 = .pass := by decide
example : (drop exFw (Conntrack.new 60 60 60) 0 none (pkt 0xc0a80101 0x0a000002) true (peerHost exMy exPeer [])).1 = .pass := by decide
example : (drop exFw (Conntrack.new 60 60 60) 0 none (pkt 0x0a000001 0x0a000003) true (peerHost exMy exPeer [])).1 = .invalidRemote := by decide
example : (drop exFw (Conntrack.new 60 60 60) 0 none (pkt 0x0a000001 0x0b000002) true (peerHost exMy exPeer [])).1 = .peerRejected := by decide
example : (drop exFw (Conntrack.new 60 60 60) 0 none (pkt 0x0a000005 0x0a000002) true (peerHost exMy exPeer [])).1 = .invalidLocal := by decide
example : exFw.routable = routableOf exMy := routable_of_built exMy false 60 60 60 [allowAll]

/-! ### the witness of seeded change C19-5: a tracked flow to an unsafe network the re-issued certificate lost -/

def exMyNoUnsafe : Cert := { exMy with unsafeNetworks := [] }

def exPeer1 : Cert :=
  { name := "h1", networks := [{ addr := { fam := .v4, val := 0x0a000002 }, len := 8 }],
    unsafeNetworks := [], groups := ["g1"], issuer := "ca1" }

def fwOf (my : Cert) : Fw := (Fw.new my true 60000000000 60000000000 60000000000).addRules [allowAll]

def toUnsafe : Packet := pkt 0xc0a80105 0x0a000002

def verdictsOf (ops : List Op) : List Verdict := (((Sys.new (fwOf exMy) 0).run ops).2.map (·.verdict)).reverse

-- established in both directions; after the reload with the certificate without 192.168/16 both directions are
-- refused with the local-address error, although the entry is still in conntrack and the rule says local any
example : verdictsOf [.packet toUnsafe true (peerHost exMy exPeer1 []), .packet toUnsafe false (peerHost exMy exPeer1 []),
    .reload (fwOf exMyNoUnsafe), .packet toUnsafe true (peerHost exMy exPeer1 []),
    .packet toUnsafe false (peerHost exMy exPeer1 [])] = [.pass, .pass, .invalidLocal, .invalidLocal] := by decide
example : anyContains (fwOf exMyNoUnsafe).routable toUnsafe.localAddr = false := by decide
example : localAddrOK exMyNoUnsafe toUnsafe.localAddr = false := by decide
example : ((fwOf exMyNoUnsafe).table true).matches toUnsafe true (peerHost exMy exPeer1 []).peer = true := by decide
example : (aget samePkt ((Sys.new (fwOf exMy) 0).packet toUnsafe true (peerHost exMy exPeer1 [])).2.ct.conns toUnsafe).isSome
    = true := by decide

end Nebula.Props.C17
