/-
C10 — Replayed handshakes do not create or replace tunnels.

"Re-delivering a first handshake message whose tunnel the responder still holds never creates a new
tunnel or changes which tunnel is primary; the responder only resends its original reply. A first
handshake message whose peer-reported time is not newer than the responder's existing tunnel (one it
accepted as responder) never replaces that tunnel."

Stated for `Node.beginHandshake` in EVERY state `n` (in particular every state reachable by any history
of establishments, rotations with up to MaxHostInfosPerVpnIp tunnels held, re-handshakes and deletions —
the history versions below instantiate `n` with `(Node.init cfg).run evs`). A stage-1 message is
identified by its handle `pkt` (byte equality of HandshakePacket[0] in the code); the Machine result `c`
of re-processing it is arbitrary.
-/
import Nebula.Lemmas.HsManagerStep
import Nebula.Model.HsNet
import Nebula.Lemmas.HsCompose

namespace Nebula.Props.C10
open Nebula.HsManager Nebula.Lemmas.HsManager

/-- what the candidate hostinfo built by beginHandshake looks like -/
theorem prepareResponder_fields (cfg : Cfg) (p : PSide) (via : UNode) (pkt : Handle) (c : Completed) (rv : Nat) :
    (p.prepareResponder cfg via pkt c rv).2.1.pkt0 = some pkt ∧
    (p.prepareResponder cfg via pkt c rv).2.1.vpnAddrs = c.certAddrs ∧
    (p.prepareResponder cfg via pkt c rv).2.1.hsTime = c.time := by
  simp [PSide.prepareResponder]

/-- Replay: if some tunnel `t` held for the certificate's first address was created from this very
stage-1 message, the step leaves Hosts / moreHosts / Indexes / RemoteIndexes (the whole main hostmap,
hence every primary) untouched and transmits exactly `t`'s original reply to the sender — nothing else. -/
theorem replay_no_new (n : Node) (via : UNode) (pkt : Handle) (c : Completed) (rv now : Nat) (t : HostInfo)
    (ht : (n.main.getList (c.certAddrs.headD 0)).find? (fun t => t.pkt0 == some pkt) = some t) :
    (n.beginHandshake via pkt (some c) rv now).1.main = n.main ∧
    ((n.beginHandshake via pkt (some c) rv now).2.tx = [] ∨
     ∃ p2, t.pkt2 = some p2 ∧ (n.beginHandshake via pkt (some c) rv now).2.tx = [.hs p2 [via]]) := by
  have hne : n.main.getList (c.certAddrs.headD 0) ≠ [] := by
    intro h; rw [h] at ht; simp at ht
  have hprim : ∃ ex, n.main.primary (c.certAddrs.headD 0) = some ex := by
    unfold HostMap.primary
    cases hl : n.main.getList (c.certAddrs.headD 0) with
    | nil => exact absurd hl hne
    | cons x xs => exact ⟨x, rfl⟩
  obtain ⟨ex, hex⟩ := hprim
  unfold Node.beginHandshake
  dsimp only
  split
  · exact ⟨rfl, Or.inl rfl⟩
  · have hf := prepareResponder_fields n.cfg n.p via pkt c rv
    have hcac : checkAndComplete n.main (n.p.prepareResponder n.cfg via pkt c rv).1.pindexes
        (n.p.prepareResponder n.cfg via pkt c rv).2.1 = some (.alreadySeen t) := by
      unfold checkAndComplete
      simp only [hf.1, hf.2.1, hex, ht]
    rw [hcac]
    dsimp only
    cases hp2 : t.pkt2 with
    | none => exact ⟨rfl, Or.inl rfl⟩
    | some p2 => exact ⟨rfl, Or.inr ⟨p2, rfl, rfl⟩⟩

/-- Older handshake: no tunnel held for the certificate's first address was created from this message,
but the primary one was accepted as responder and its recorded peer time is not older than this
message's: the main hostmap is untouched and no handshake packet is transmitted. -/
theorem older_no_replace (n : Node) (via : UNode) (pkt : Handle) (c : Completed) (rv now : Nat) (ex : HostInfo)
    (hprim : n.main.primary (c.certAddrs.headD 0) = some ex)
    (hnew : (n.main.getList (c.certAddrs.headD 0)).find? (fun t => t.pkt0 == some pkt) = none)
    (hold : ex.hsTime ≥ c.time) (hresp : ex.initiator = false) :
    (n.beginHandshake via pkt (some c) rv now).1.main = n.main ∧
    (n.beginHandshake via pkt (some c) rv now).2.tx = [] := by
  unfold Node.beginHandshake
  dsimp only
  split
  · exact ⟨rfl, rfl⟩
  · have hf := prepareResponder_fields n.cfg n.p via pkt c rv
    have hcac : checkAndComplete n.main (n.p.prepareResponder n.cfg via pkt c rv).1.pindexes
        (n.p.prepareResponder n.cfg via pkt c rv).2.1 = some (.existing ex) := by
      unfold checkAndComplete
      simp only [hf.1, hf.2.1, hf.2.2, hprim, hnew]
      simp [hold, hresp]
    rw [hcac]
    exact ⟨rfl, rfl⟩

/-- History form of `replay_no_new`: after ANY history, re-delivering a stage-1 message whose tunnel is
still held changes nothing in the main hostmap. -/
theorem replay_no_new_after_any_history (cfg : Cfg) (evs : List Ev) (via : UNode) (pkt : Handle)
    (c : Completed) (rv now : Nat) (t : HostInfo)
    (ht : (((Node.init cfg).run evs).main.getList (c.certAddrs.headD 0)).find? (fun t => t.pkt0 == some pkt) = some t) :
    ((Node.init cfg).run (evs ++ [.stage1 via pkt (some c) rv now])).main = ((Node.init cfg).run evs).main := by
  simp only [Node.run, List.foldl_append, List.foldl_cons, List.foldl_nil, Node.step]
  exact (replay_no_new _ via pkt c rv now t ht).1

/-- History form of `older_no_replace`. -/
theorem older_no_replace_after_any_history (cfg : Cfg) (evs : List Ev) (via : UNode) (pkt : Handle)
    (c : Completed) (rv now : Nat) (ex : HostInfo)
    (hprim : ((Node.init cfg).run evs).main.primary (c.certAddrs.headD 0) = some ex)
    (hnew : (((Node.init cfg).run evs).main.getList (c.certAddrs.headD 0)).find? (fun t => t.pkt0 == some pkt) = none)
    (hold : ex.hsTime ≥ c.time) (hresp : ex.initiator = false) :
    ((Node.init cfg).run (evs ++ [.stage1 via pkt (some c) rv now])).main = ((Node.init cfg).run evs).main := by
  simp only [Node.run, List.foldl_append, List.foldl_cons, List.foldl_nil, Node.step]
  exact (older_no_replace _ via pkt c rv now ex hprim hnew hold hresp).1

/-- The tunnel a fresh stage-1 message creates records that message (so a later replay is recognised)
and becomes the primary tunnel of the certificate's first address. -/
theorem fresh_stage1_recorded (n : Node) (via : UNode) (pkt : Handle) (c : Completed) (rv now : Nat)
    (hok : peerCertOk n.cfg c = true)
    (hcac : checkAndComplete n.main (n.p.prepareResponder n.cfg via pkt c rv).1.pindexes
        (n.p.prepareResponder n.cfg via pkt c rv).2.1 = none) :
    (n.beginHandshake via pkt (some c) rv now).1.main =
      n.main.addHostInfo (n.p.prepareResponder n.cfg via pkt c rv).2.1 ∧
    (n.p.prepareResponder n.cfg via pkt c rv).2.1.pkt0 = some pkt := by
  refine ⟨?_, (prepareResponder_fields n.cfg n.p via pkt c rv).1⟩
  unfold Node.beginHandshake
  simp only [hok, Bool.not_true, Bool.false_eq_true, if_false]
  rw [hcac]

/-- Re-framed replays. The 16-byte nebula header of a handshake packet is not authenticated: a replay of a first
message with altered reserved bytes (any value `r`) and the counter left alone or rewritten to 1 is, for the
manager, the SAME message — the identity of a first message (`pkt0`, what `replay_no_new` compares) is the Noise
message without the header. (A first message whose counter is rewritten to anything else is dispatched as a
continuation for index 0 and dropped; `Net.resolve` spells out the dispatch.) -/
theorem reframed_first_message_is_the_same_replay (w : Nebula.HsNet.Net) (j r c : Nat) (hj : j < w.log.length)
    (creator : Nat) (h : Handle) (initIdx time ver : Nat)
    (hp : (w.log[w.log.length - 1 - j]?).bind (fun e => alookup e.1 w.pkts) = some (creator, .s1 h initIdx time ver))
    (hc : c = 0 ∨ c = 1) :
    w.step (.dlm j r c) = w.step (.dl j) := by
  unfold Nebula.HsNet.Net.step Nebula.HsNet.Net.resolve
  simp only [hj, if_true, hp]
  rcases hc with e | e <;> simp [e]

/-- Composition with the Machine model (C05): in the composed system a replayed first message is handed to a
fresh responder Machine like any other, but what that Machine makes of it does not matter — whatever the noise
library, cert.Recombine, the trust check, the index allocator and the clock answer (`call`, `mc`, `v` arbitrary),
the main hostmap is unchanged as soon as a tunnel created from this very message is still held for the first
address of whatever certificate the Machine reports (for a byte-identical replay: the same certificate as the
first time). A Machine error or an unusable Result changes nothing either. -/
theorem replay_no_new_composed (info : Machine.CertId → Nebula.HsCompose.CertInfo) (s : Nebula.HsCompose.Sys)
    (via : UNode) (pkt : Handle) (rv now : Nat) (mc : Machine.Cfg) (v : Nat) (call : Machine.Ev)
    (held : ∀ c : Completed, ∃ t, (s.node.main.getList (c.certAddrs.headD 0)).find? (fun t => t.pkt0 == some pkt) = some t) :
    (s.step info (.recv1 via pkt rv now mc v call)).node.main = s.node.main := by
  simp only [Nebula.HsCompose.Sys.step, Nebula.HsCompose.Sys.feed, Node.step]
  generalize Nebula.HsCompose.stage1Res info (Machine.stepEv mc { myVersion := v } call).2 = res
  cases res with
  | none => rfl
  | some c =>
    obtain ⟨t, ht⟩ := held c
    exact (replay_no_new s.node via pkt c rv now t ht).1

-- non-vacuity: establish, replay (state unchanged, original reply resent), then rotate and replay the first again
def cfg0 : Cfg := { node := 1, myAddrs := [2], hasV1 := false, hasV2 := true, retries := 3, interval := 100000000 }
def cA : Completed := { certAddrs := [1], certVer := 2, remoteIndex := 1001, time := 10 }
def cB : Completed := { certAddrs := [1], certVer := 2, remoteIndex := 1002, time := 20 }
def h1 : List Ev := [.stage1 0 500 (some cA) 2 0]
def h2 : List Ev := h1 ++ [.stage1 0 501 (some cB) 2 0]

example : (((Node.init cfg0).run h1).main.getList 1).find? (fun t => t.pkt0 == some 500) ≠ none := by decide
example : ((Node.init cfg0).run (h1 ++ [.stage1 0 500 (some cA) 2 5])).main = ((Node.init cfg0).run h1).main := by decide
example : (((Node.init cfg0).run h1).step (.stage1 0 500 (some cA) 2 5)).2.tx = [.hs 1000000 [0]] := by decide
-- after rotation both tunnels are held; replaying the first message still changes nothing
example : (((Node.init cfg0).run h2).main.getList 1).length = 2 := by decide
example : ((Node.init cfg0).run (h2 ++ [.stage1 0 500 (some cA) 2 9])).main = ((Node.init cfg0).run h2).main := by decide
-- older: a message with time 15, never seen, against the primary (time 20, accepted as responder)
example : ((Node.init cfg0).run (h2 ++ [.stage1 0 777 (some { cA with time := 15 }) 2 9])).main = ((Node.init cfg0).run h2).main := by decide

end Nebula.Props.C10
