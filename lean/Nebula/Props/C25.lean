/-
C25 — Accelerated checksum equals the RFC 1071 checksum.

"The optimized Internet checksum returns the same value as a straightforward RFC 1071 one's-complement
sum for every buffer content, length, alignment and initial value."

`ChecksumAVX2.checksumAVX2` is the instruction-level model of `overlay/checksum/checksum_amd64.s`
(hand-written, tied to the assembly by the correspondence stream `csum`); `Spec.Rfc1071.checksum` is
RFC 1071 read literally (word-by-word 16-bit one's-complement addition).  The model has no notion of
alignment: the assembly uses only unaligned loads (`VPMOVZXDQ (mem)`, `ADDQ (mem)`), so the start
address cannot influence the result — that part of the quantifier is covered by correspondence over
all 64 start offsets.
-/
import Nebula.Lemmas.CsumAVX2
import Nebula.Lemmas.CsumSpec
import Nebula.Lemmas.CsumBridge

namespace Nebula.Props.C25
open Nebula.Csum Nebula.ChecksumAVX2 Nebula.Spec

/-- **Main theorem.** For every buffer content and length below 2^34 bytes (the point up to which
the plain 64-bit lane additions of the vector loop provably cannot wrap; real inputs are ≤ 64 KiB)
and every 16-bit initial value, the AVX2 algorithm returns exactly the RFC 1071 sum. -/
theorem avx2_eq_rfc1071 (buf : List UInt8) (seed : Nat) (hs : seed < 65536)
    (hl : buf.length < 2 ^ 34) : checksumAVX2 buf seed = Rfc1071.checksum buf seed := by
  rw [Lemmas.CsumSpec.spec_eq buf seed hs]
  exact Lemmas.CsumAVX2.checksumAVX2_eq buf seed hs (by simpa using hl)

example : ([0xff, 0xff, 0x01] : List UInt8).length < 2 ^ 34 ∧ (0xffff : Nat) < 65536 := by decide

/-- The dispatching `Checksum` equals RFC 1071 on both paths — with AVX2 by the theorem above, without
it provided the fallback (gvisor's `checksum.Checksum`, third-party, exercised by correspondence only)
meets the `Base/Csum` contract, which is what `dispatch false` denotes. -/
theorem dispatch_eq_rfc1071 (hasAVX2 : Bool) (buf : List UInt8) (seed : Nat) (hs : seed < 65536)
    (hl : buf.length < 2 ^ 34) : dispatch hasAVX2 buf seed = Rfc1071.checksum buf seed := by
  unfold dispatch
  cases hasAVX2
  · simp [Lemmas.CsumSpec.spec_eq buf seed hs]
  · simpa using avx2_eq_rfc1071 buf seed hs hl

/-- The result is a 16-bit value. -/
theorem avx2_lt (buf : List UInt8) (seed : Nat) : checksumAVX2 buf seed < 65536 := by
  unfold checksumAVX2; exact Nat.mod_lt _ (by decide)

/-- The literal word-by-word specification equals "sum in unbounded naturals, fold once"
(`Base/Csum.checksum`), the form every other checksum property is stated in. -/
theorem rfc1071_eq_wide_fold (buf : List UInt8) (seed : Nat) (hs : seed < 65536) :
    Rfc1071.checksum buf seed = fold16 (wsum buf + seed) :=
  Lemmas.CsumSpec.spec_eq buf seed hs

/-- The 0 / 0xffff distinction: the checksum is `0` only for an all-zero sum; any other multiple of
65535 yields `0xffff`, and in general the result is the representative in `1…0xffff` of the sum
modulo 65535. -/
theorem rfc1071_value (buf : List UInt8) (seed : Nat) :
    checksum buf seed = if wsum buf + seed = 0 then 0 else (wsum buf + seed - 1) % 65535 + 1 := by
  unfold checksum; rw [fold16_eq]; rfl

/-- Byte-order independence (RFC 1071 §2(B)), the fact the assembly is built on: summing little-endian
words from the byte-swapped seed and swapping the folded result gives the big-endian checksum. -/
theorem byte_order_independence (buf : List UInt8) (seed : Nat) (hs : seed < 65536) :
    swap16 (fold16 (leSum buf + swap16 seed)) = checksum buf seed :=
  checksum_byte_order buf seed hs

/-- Concatenation at an even offset: the checksum of `a ++ b` is the checksum of `b` seeded with the
checksum of `a` — how nebula (and gvisor) chain partial sums. -/
theorem concat_even (a b : List UInt8) (seed : Nat) (h : a.length % 2 = 0) :
    checksum (a ++ b) seed = checksum b (checksum a seed) :=
  checksum_append a b seed h

example : ([1, 2, 3, 4] : List UInt8).length % 2 = 0 := by decide

/-- One checksum theory in the project: the RFC 1071 definitions local to the C21 engines
(`Spec/PktCsum`: `sum16`, closed-form `fold16`, Boolean `verifies`) are the shared `Base/Csum` ones. -/
theorem one_checksum_theory (b : List UInt8) (n pseudo : Nat) :
    Spec.PktCsum.sum16 b = wsum b ∧ Spec.PktCsum.fold16 n = fold16 n ∧
      (Spec.PktCsum.verifies b pseudo = true ↔ verifies b pseudo) :=
  ⟨Lemmas.CsumBridge.sum16_eq_wsum b, Lemmas.CsumBridge.fold16_eq n, Lemmas.CsumBridge.verifies_iff b pseudo⟩

/-- sanity: the specification on the RFC 1071 §3 example bytes (00 01 f2 03 f4 f5 f6 f7 → ddf2). -/
example : Rfc1071.checksum [0x00, 0x01, 0xf2, 0x03, 0xf4, 0xf5, 0xf6, 0xf7] 0 = 0xddf2 := by decide

end Nebula.Props.C25
