/-
C20 — source tie of the IPv4 header arithmetic of `parseV4` (outside.go).

`ihl := int(data[0]&0x0f) << 2`, `flagsfrags := binary.BigEndian.Uint16(data[6:8])`,
`fp.Fragment = (flagsfrags & 0x1FFF) != 0`, `fp.FragAny = (flagsfrags & 0x3fff) != 0`, `fp.IPHdrLen = ihl` and
`fp.Protocol = data[9]` are regenerated from the source on every run (`Gen.tie_ties1_v4_*`, early-exit guards
dropped: each definition is the value assigned when the assignment is reached) and proved to be what the hand model
`Nebula.Pkt.parseV4` — the function the C20 theorems are about — reports for every packet it accepts.
-/
import Nebula.Lemmas.Ties1ParseTie

namespace Nebula.Props.C20Tie
open Nebula.Gen Nebula.Pkt Nebula.Spec.IP

/-- For every byte string and direction: if the model's `parseV4` accepts, the header length, non-first-fragment
flag, any-fragment flag and protocol it reports are the values the regenerated assignments of the Go `parseV4`
compute from bytes 0, 6, 7 and 9 of the packet. -/
theorem parseV4_is_translated (d : List UInt8) (inc : Bool) (fp : Parsed) (h : parseV4 d inc = .ok fp) :
    fp.ipHdrLen = (tie_ties1_v4_ipHdrLen (BitVec.ofNat 8 (byte d 0)) (BitVec.ofNat 8 (byte d 6))
        (BitVec.ofNat 8 (byte d 7))).toNat
    ∧ fp.fragment = tie_ties1_v4_fragment (BitVec.ofNat 8 (byte d 0)) (BitVec.ofNat 8 (byte d 6))
        (BitVec.ofNat 8 (byte d 7))
    ∧ fp.fragAny = tie_ties1_v4_fragAny (BitVec.ofNat 8 (byte d 0)) (BitVec.ofNat 8 (byte d 6))
        (BitVec.ofNat 8 (byte d 7))
    ∧ fp.proto = (tie_ties1_v4_proto (BitVec.ofNat 8 (byte d 0)) (BitVec.ofNat 8 (byte d 6))
        (BitVec.ofNat 8 (byte d 7)) (BitVec.ofNat 8 (byte d 9))).toNat :=
  Nebula.Lemmas.Ties1ParseTie.parseV4_translated d inc fp h

/-- The header-length expression on its own, for every first byte: `(b & 0x0f) * 4`, as in the model's guard
`ihl < 20` and in every offset the model derives from it. -/
theorem ihl_is_translated (b0 : BitVec 8) : (tie_ties1_v4_ihl b0).toNat = (b0.toNat &&& 0x0f) * 4 :=
  Nebula.Lemmas.Ties1ParseTie.ihl_formula b0

/-- The minimum length `parseV4` demands before reading addresses and ports (`minLen`, accumulated over the
`!fp.Fragment` / ICMP branches), for every header byte, fragment flag and protocol: the expression the model's guard
`d.length < minLen` uses. -/
theorem minLen_is_translated (b0 b6 b7 : BitVec 8) (frag : Bool) (proto : BitVec 8) :
    (tie_ties1_v4_minLen b0 b6 b7 frag proto (BitVec.ofNat 8 Gen.firewall_ProtoICMP)).toNat
      = (if !frag then
          (if proto.toNat = Gen.firewall_ProtoICMP then (b0.toNat &&& 0x0f) * 4 + Gen.nebula_minFwPacketLen + 2
           else (b0.toNat &&& 0x0f) * 4 + Gen.nebula_minFwPacketLen)
         else (b0.toNat &&& 0x0f) * 4) :=
  Nebula.Lemmas.Ties1ParseTie.minLen_formula b0 b6 b7 frag proto

/-- One iteration of the IPv6 extension-header walk (`iputil.IPv6FindUpperProtocol`), for every packet and offset
below 2^62 (Go `int` arithmetic does not wrap there): the model's step is the step whose bounds tests
(`len(packet) < offset+2`, `< offset+8`, `offset > len(packet)`), non-first-fragment test
(`packet[offset+2] != 0 || packet[offset+3]&0xf8 != 0`) and offset updates (`(int(len)+1) << 3` for hop-by-hop /
routing / destination options, `(int(len)+2) << 2` for AH, `+ 8` for the fragment header) are the regenerated ones. -/
theorem findUpperLoop_step_is_translated (d : List UInt8) (fuel nh off : Nat) (af : Bool)
    (hd : d.length < 2 ^ 62) (ho : off < 2 ^ 62) :
    findUpperLoop d (fuel + 1) nh off af =
      if nh ∈ tlvTypes then
        if tie_ties1_v6_short2 (BitVec.ofNat 64 d.length) (BitVec.ofNat 64 off) then .err .v6NoPayload
        else idx d off >>= fun n => idx d (off + 1) >>= fun l =>
          findUpperLoop d fuel n (tie_ties1_v6_tlv_next (BitVec.ofNat 64 off) (BitVec.ofNat 8 l)).toNat af
      else if nh ∈ fragTypes then
        if tie_ties1_v6_short8 (BitVec.ofNat 64 d.length) (BitVec.ofNat 64 off) then .err .v6NoPayload
        else idx d (off + 2) >>= fun b2 => idx d (off + 3) >>= fun b3 =>
          if tie_ties1_v6_nonfirst (BitVec.ofNat 8 b2) (BitVec.ofNat 8 b3) then
            idx d off >>= fun n => .ok ⟨n, off, true, true⟩
          else idx d off >>= fun n =>
            findUpperLoop d fuel n (tie_ties1_v6_frag_next (BitVec.ofNat 64 off)).toNat true
      else if nh ∈ ahTypes then
        if tie_ties1_v6_short2 (BitVec.ofNat 64 d.length) (BitVec.ofNat 64 off) then .err .v6NoPayload
        else idx d off >>= fun n => idx d (off + 1) >>= fun l =>
          findUpperLoop d fuel n (tie_ties1_v6_ah_next (BitVec.ofNat 64 off) (BitVec.ofNat 8 l)).toNat af
      else
        if tie_ties1_v6_past_end (BitVec.ofNat 64 d.length) (BitVec.ofNat 64 off) then .err .v6NoPayload
        else .ok ⟨nh, off, false, af⟩ :=
  Nebula.Lemmas.Ties1ParseTie.findUpperLoop_step d fuel nh off af hd ho

-- the regenerated definitions compute: IHL 6 (24 bytes); MF set with offset 0 is a fragment but not a non-first one
example : (tie_ties1_v4_ihl 0x46#8).toNat = 24 ∧ tie_ties1_v4_fragment 0x45#8 0x20#8 0#8 = false
    ∧ tie_ties1_v4_fragAny 0x45#8 0x20#8 0#8 = true ∧ tie_ties1_v4_fragment 0x45#8 0x20#8 1#8 = true := by decide

end Nebula.Props.C20Tie
