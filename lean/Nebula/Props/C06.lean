/-
C06 — Completed handshakes agree on keys and indexes.

"When both sides of a handshake complete over the same session, each side's sending key decrypts
only with the other side's receiving key, each side's remote index is the other side's local index,
both report the same message count, and neither local index is zero."

Proved here (machine logic, all index values, all certificates, both certificate versions):
* key orientation: a Result produced by *reading* the last message has (EKey, DKey) = (cs1, cs2), one
  produced by *writing* it has (cs2, cs1) — so an initiator and a responder of one IX session hold
  crosswise equal, distinct cipher states;
* index placement (`marshalOutgoing`) and index extraction (`processPayload`) for every value, and from
  them `indexes_pair_partial`: over message 1 and message 2 of one session, where each side's read
  returns the indexes the other side wrote (transport hypotheses `t1`, `t2`), the responder's remote
  index is the initiator's local index and vice versa, both non-zero; the responder echoes the
  initiator's index; local indexes are the allocators' values;
* `message_index_reported`: a Result reports the noise message index at completion (2 on both sides
  of IX: checked per run by the `pair` op).

PARTIAL — assumed (oracle laws, not proved): flynn/noise delivers the written plaintext to the peer's
read, returns (cs1, cs2) with cs1 = initiator→responder on both sides of one session, and cs1 ≠ cs2 as
keys; AEAD: only the matching key opens (checked per run on real keys by the `pair` op).
`newConnectionStateFromResult` (replay-window seeding) is not modelled.
-/
import Nebula.Lemmas.MachineTrace

namespace Nebula.Props.C06
open Nebula.Wire Nebula.Machine Nebula.Spec.Handshake Nebula.Payload

/-- Key orientation of every Result: completed by reading ⇒ (cs1, cs2); by writing ⇒ (cs2, cs1). -/
theorem key_orientation (c : Cfg) (s s' : St) (len st : Nat) (rd : ReadOut) (co : CertOut) (now : Nat)
    (wr : WriteOut) (sent : Option Sent) (r : Result)
    (h : processPacket c s len st rd co now wr = (s', .ok sent (some r))) :
    (sent = none ∧ r.eKey = .cs1 ∧ r.dKey = .cs2) ∨ (sent ≠ none ∧ r.eKey = .cs2 ∧ r.dKey = .cs1) := by
  obtain ⟨_, _, _, _, _, msg, k1, k2, ps, _, hk⟩ := pp_result true c s s' len st rd co now wr sent r h
  rcases hk with ⟨_, _, h1, h2, h3⟩ | ⟨_, _, _, h1, h2, h3⟩
  · exact Or.inl ⟨h1, h2, h3⟩
  · exact Or.inr ⟨h1, h2, h3⟩

/-- Hence the two ends of an IX session (the initiator finishes by reading message 2, the responder
by writing it) hold crosswise equal and distinct cipher states of that session. -/
theorem keys_pair (cI cR : Cfg) (sI sI' sR sR' : St) (lenI stI lenR stR : Nat) (rdI rdR : ReadOut)
    (coI coR : CertOut) (nowI nowR : Nat) (wrI wrR : WriteOut) (sentR : Sent) (rI rR : Result)
    (hI : processPacket cI sI lenI stI rdI coI nowI wrI = (sI', .ok none (some rI)))
    (hR : processPacket cR sR lenR stR rdR coR nowR wrR = (sR', .ok (some sentR) (some rR))) :
    rI.eKey = rR.dKey ∧ rI.dKey = rR.eKey ∧ rI.eKey ≠ rI.dKey := by
  rcases key_orientation _ _ _ _ _ _ _ _ _ _ _ hI with ⟨_, a, b⟩ | ⟨x, _, _⟩
  · rcases key_orientation _ _ _ _ _ _ _ _ _ _ _ hR with ⟨y, _, _⟩ | ⟨_, c, d⟩
    · simp at y
    · rw [a, b, c, d]; simp
  · simp at x

/-- Index placement in an outgoing message (`marshalOutgoing`, payload-carrying message): the
initiator sends its local index as InitiatorIndex and no ResponderIndex; the responder echoes the
initiator's index (its remote index) and sends its own local index as ResponderIndex.  The local
index is the allocator's value, fetched at most once. -/
theorem outgoing_index_placement (c : Cfg) (s s' : St) (fc : Bool) (now : Nat) (x : Sent)
    (h : marshalOutgoing c s ⟨true, fc⟩ now = .ok (s', some x)) :
    x.initiatorIndex = (if c.initiator then s'.localIndex else s'.remoteIndex) ∧
    x.responderIndex = (if c.initiator then 0 else s'.localIndex) ∧
    x.time = now ∧ s'.remoteIndex = s.remoteIndex ∧
    (if s.indexAllocated then s'.localIndex = s.localIndex else c.alloc = some s'.localIndex) := by
  unfold marshalOutgoing at h
  simp only [Bool.not_true, Bool.false_and, Bool.false_eq_true, if_false, if_true] at h
  cases ha : s.indexAllocated <;> simp only [ha, Bool.not_false, Bool.not_true, if_true, if_false,
    Bool.false_eq_true] at h ⊢
  · cases hal : c.alloc with
    | none => simp [hal] at h
    | some i =>
      simp only [hal] at h
      cases fc <;> simp only [if_true, if_false, Bool.false_eq_true] at h
      · simp at h; obtain ⟨rfl, rfl⟩ := h; simp
      · split at h
        · simp at h
        · simp at h; obtain ⟨rfl, rfl⟩ := h; simp
  · cases fc <;> simp only [if_true, if_false, Bool.false_eq_true] at h
    · simp at h; obtain ⟨rfl, rfl⟩ := h; simp
    · split at h
      · simp at h
      · simp at h; obtain ⟨rfl, rfl⟩ := h; simp

/-- Index extraction from an incoming payload-carrying message (`processPayload`): the initiator
takes ResponderIndex, the responder takes InitiatorIndex, and zero is refused. -/
theorem incoming_index_extraction (c : Cfg) (s s' : St) (p : Payload) (fc : Bool)
    (h : processIndex c s p ⟨true, fc⟩ = (s', none)) :
    s'.remoteIndex = (if c.initiator then p.responderIndex else p.initiatorIndex) ∧ s'.remoteIndex ≠ 0 ∧
    s'.handshakeTime = p.time ∧ s'.payloadSet = true ∧ s'.localIndex = s.localIndex := by
  unfold processIndex at h
  simp only [if_true] at h
  by_cases hz : (if c.initiator then p.responderIndex else p.initiatorIndex) = 0
  · simp [hz, fail] at h
  · simp only [hz, if_false, Prod.mk.injEq, and_true] at h
    subst h
    exact ⟨rfl, hz, rfl, rfl, rfl⟩

/-- Consequently, over one IX session in which each side's read returns the indexes the other side
wrote (noise transport, assumed): the responder's remote index is the initiator's local index, the
initiator's remote index is the responder's local index — stated on the values the two lemmas above
relate. -/
theorem indexes_pair_partial (cI cR : Cfg) (hI : cI.initiator = true) (hR : cR.initiator = false)
    (sI0 sI1 sR0 sR1 sR2 sI2 : St) (x1 x2 : Sent) (p1 p2 : Payload) (f1 f2 f3 f4 : Bool) (n1 n2 : Nat)
    (h1 : marshalOutgoing cI sI0 ⟨true, f1⟩ n1 = .ok (sI1, some x1))
    (t1 : p1.initiatorIndex = x1.initiatorIndex)                       -- transport of message 1
    (h2 : processIndex cR sR0 p1 ⟨true, f2⟩ = (sR1, none))
    (h3 : marshalOutgoing cR sR1 ⟨true, f3⟩ n2 = .ok (sR2, some x2))
    (t2 : p2.responderIndex = x2.responderIndex)                       -- transport of message 2
    (h4 : processIndex cI sI1 p2 ⟨true, f4⟩ = (sI2, none)) :
    sR2.remoteIndex = sI2.localIndex ∧ sI2.remoteIndex = sR2.localIndex ∧
    x2.initiatorIndex = x1.initiatorIndex ∧ sI2.remoteIndex ≠ 0 ∧ sR2.remoteIndex ≠ 0 := by
  obtain ⟨a1, _, _, _, _⟩ := outgoing_index_placement _ _ _ _ _ _ h1
  obtain ⟨b1, b2, _, _, _⟩ := incoming_index_extraction _ _ _ _ _ h2
  obtain ⟨c1, c2, _, c4, _⟩ := outgoing_index_placement _ _ _ _ _ _ h3
  obtain ⟨d1, d2, _, _, d5⟩ := incoming_index_extraction _ _ _ _ _ h4
  simp only [hI, hR, if_true, if_false, Bool.false_eq_true] at a1 b1 c1 c2 d1
  refine ⟨?_, ?_, ?_, d2, ?_⟩
  · rw [c4, b1, t1, a1, d5]
  · rw [d1, t2, c2]
  · rw [c1, c4, b1, t1]
  · rw [c4]; exact b2

/-- The message count a Result reports is the noise message index at completion, on both sides. -/
theorem message_index_reported (c : Cfg) (s s' : St) (len st : Nat) (rd : ReadOut) (co : CertOut) (now : Nat)
    (wr : WriteOut) (sent : Option Sent) (r : Result)
    (h : processPacket c s len st rd co now wr = (s', .ok sent (some r))) :
    r.messageIndex = s'.msgIdx ∧ r.localIndex = s'.localIndex ∧ r.remoteIndex = s'.remoteIndex := by
  obtain ⟨_, _, _, hr, _⟩ := pp_result true c s s' len st rd co now wr sent r h
  rw [hr]; simp [completed]

-- non-vacuity: a full honest IX exchange through the model pairs up (Spec.Handshake.paired)
example :
    (let cI : Cfg := { initiator := true, subtype := 0, msgs := ixMsgs, haveCred := fun v => v == 2, credVersion := id, alloc := some 100 }
    let cR : Cfg := { initiator := false, subtype := 0, msgs := ixMsgs, haveCred := fun v => v == 2, credVersion := id, alloc := some 200 }
    let (sI1, _) := initiate cI { myVersion := 2 } 5 (.ok false false)
    let m1 := marshalPayload [] { cert := [1], initiatorIndex := 100, time := 5, certVersion := 2 }
    let (_, oR) := processPacket cR { myVersion := 2 } 99 0 (.ok m1 false false [7]) ⟨some ([7], 2), some "I"⟩ 6 (.ok true true)
    let m2 := marshalPayload [] { cert := [2], initiatorIndex := 100, responderIndex := 200, time := 6, certVersion := 2 }
    let (_, oI) := processPacket cI sI1 99 0 (.ok m2 true true [8]) ⟨some ([8], 2), some "R"⟩ 7 .err
    match oI, oR with
    | .ok _ (some rI), .ok _ (some rR) => paired rI rR && rI.messageIndex == 2
    | _, _ => false) = true := by
  decide

end Nebula.Props.C06
