/-
C06 — Completed handshakes agree on keys and indexes.

"When both sides of a handshake complete over the same session, each side's sending key decrypts
only with the other side's receiving key, each side's remote index is the other side's local index,
both report the same message count, and neither local index is zero."

Proved here (machine logic, all index values, all certificates, both certificate versions):
* key orientation: a Result produced by *reading* the last message has (EKey, DKey) = (cs1, cs2), one
  produced by *writing* it has (cs2, cs1) — so an initiator and a responder of one IX session hold
  crosswise equal, distinct cipher states;
* index placement (`marshalOutgoing`) and index extraction (`processPayload`) for every value, and from
  them `indexes_pair_partial`: over message 1 and message 2 of one session, where each side's read
  returns the indexes the other side wrote (transport hypotheses `t1`, `t2`), the responder's remote
  index is the initiator's local index and vice versa, both non-zero; the responder echoes the
  initiator's index; local indexes are the allocators' values;
* `message_index_reported`: a Result reports the noise message index at completion (2 on both sides
  of IX: checked per run by the `pair` op).

PARTIAL — assumed (oracle laws, not proved): flynn/noise delivers the written plaintext to the peer's
read, returns (cs1, cs2) with cs1 = initiator→responder on both sides of one session, and cs1 ≠ cs2 as
keys; AEAD: only the matching key opens (checked per run on real keys by the `pair` op).
`newConnectionStateFromResult` (replay-window seeding) is not modelled.
-/
import Nebula.Lemmas.MachineTrace
import Nebula.Lemmas.MachinePairSys
import Nebula.Lemmas.WindowSeed
import Nebula.Props.C08

namespace Nebula.Props.C06
open Nebula.Wire Nebula.Machine Nebula.Spec.Handshake Nebula.Payload
open Nebula.MachinePair Nebula.Spec.NoiseSession

/-- Key orientation of every Result: completed by reading ⇒ (cs1, cs2); by writing ⇒ (cs2, cs1). -/
theorem key_orientation (c : Cfg) (s s' : St) (len st : Nat) (rd : ReadOut) (co : CertOut) (now : Nat)
    (wr : WriteOut) (sent : Option Sent) (r : Result)
    (h : processPacket c s len st rd co now wr = (s', .ok sent (some r))) :
    (sent = none ∧ r.eKey = .cs1 ∧ r.dKey = .cs2) ∨ (sent ≠ none ∧ r.eKey = .cs2 ∧ r.dKey = .cs1) := by
  obtain ⟨_, _, _, _, _, msg, k1, k2, ps, _, hk⟩ := pp_result true c s s' len st rd co now wr sent r h
  rcases hk with ⟨_, _, h1, h2, h3⟩ | ⟨_, _, _, h1, h2, h3⟩
  · exact Or.inl ⟨h1, h2, h3⟩
  · exact Or.inr ⟨h1, h2, h3⟩

/-- Hence the two ends of an IX session (the initiator finishes by reading message 2, the responder
by writing it) hold crosswise equal and distinct cipher states of that session. -/
theorem keys_pair (cI cR : Cfg) (sI sI' sR sR' : St) (lenI stI lenR stR : Nat) (rdI rdR : ReadOut)
    (coI coR : CertOut) (nowI nowR : Nat) (wrI wrR : WriteOut) (sentR : Sent) (rI rR : Result)
    (hI : processPacket cI sI lenI stI rdI coI nowI wrI = (sI', .ok none (some rI)))
    (hR : processPacket cR sR lenR stR rdR coR nowR wrR = (sR', .ok (some sentR) (some rR))) :
    rI.eKey = rR.dKey ∧ rI.dKey = rR.eKey ∧ rI.eKey ≠ rI.dKey := by
  rcases key_orientation _ _ _ _ _ _ _ _ _ _ _ hI with ⟨_, a, b⟩ | ⟨x, _, _⟩
  · rcases key_orientation _ _ _ _ _ _ _ _ _ _ _ hR with ⟨y, _, _⟩ | ⟨_, c, d⟩
    · simp at y
    · rw [a, b, c, d]; simp
  · simp at x

/-- Index placement in an outgoing message (`marshalOutgoing`, payload-carrying message): the
initiator sends its local index as InitiatorIndex and no ResponderIndex; the responder echoes the
initiator's index (its remote index) and sends its own local index as ResponderIndex.  The local
index is the allocator's value, fetched at most once. -/
theorem outgoing_index_placement (c : Cfg) (s s' : St) (fc : Bool) (now : Nat) (x : Sent)
    (h : marshalOutgoing c s ⟨true, fc⟩ now = .ok (s', some x)) :
    x.initiatorIndex = (if c.initiator then s'.localIndex else s'.remoteIndex) ∧
    x.responderIndex = (if c.initiator then 0 else s'.localIndex) ∧
    x.time = now ∧ s'.remoteIndex = s.remoteIndex ∧
    (if s.indexAllocated then s'.localIndex = s.localIndex else c.alloc = some s'.localIndex) := by
  unfold marshalOutgoing at h
  simp only [Bool.not_true, Bool.false_and, Bool.false_eq_true, if_false, if_true] at h
  cases ha : s.indexAllocated <;> simp only [ha, Bool.not_false, Bool.not_true, if_true, if_false,
    Bool.false_eq_true] at h ⊢
  · cases hal : c.alloc with
    | none => simp [hal] at h
    | some i =>
      simp only [hal] at h
      cases fc <;> simp only [if_true, if_false, Bool.false_eq_true] at h
      · simp at h; obtain ⟨rfl, rfl⟩ := h; simp
      · split at h
        · simp at h
        · simp at h; obtain ⟨rfl, rfl⟩ := h; simp
  · cases fc <;> simp only [if_true, if_false, Bool.false_eq_true] at h
    · simp at h; obtain ⟨rfl, rfl⟩ := h; simp
    · split at h
      · simp at h
      · simp at h; obtain ⟨rfl, rfl⟩ := h; simp

/-- Index extraction from an incoming payload-carrying message (`processPayload`): the initiator
takes ResponderIndex, the responder takes InitiatorIndex, and zero is refused. -/
theorem incoming_index_extraction (c : Cfg) (s s' : St) (p : Payload) (fc : Bool)
    (h : processIndex c s p ⟨true, fc⟩ = (s', none)) :
    s'.remoteIndex = (if c.initiator then p.responderIndex else p.initiatorIndex) ∧ s'.remoteIndex ≠ 0 ∧
    s'.handshakeTime = p.time ∧ s'.payloadSet = true ∧ s'.localIndex = s.localIndex := by
  unfold processIndex at h
  simp only [if_true] at h
  by_cases hz : (if c.initiator then p.responderIndex else p.initiatorIndex) = 0
  · simp [hz, fail] at h
  · simp only [hz, if_false, Prod.mk.injEq, and_true] at h
    subst h
    exact ⟨rfl, hz, rfl, rfl, rfl⟩

/-- Consequently, over one IX session in which each side's read returns the indexes the other side
wrote (noise transport, assumed): the responder's remote index is the initiator's local index, the
initiator's remote index is the responder's local index — stated on the values the two lemmas above
relate. -/
theorem indexes_pair_partial (cI cR : Cfg) (hI : cI.initiator = true) (hR : cR.initiator = false)
    (sI0 sI1 sR0 sR1 sR2 sI2 : St) (x1 x2 : Sent) (p1 p2 : Payload) (f1 f2 f3 f4 : Bool) (n1 n2 : Nat)
    (h1 : marshalOutgoing cI sI0 ⟨true, f1⟩ n1 = .ok (sI1, some x1))
    (t1 : p1.initiatorIndex = x1.initiatorIndex)                       -- transport of message 1
    (h2 : processIndex cR sR0 p1 ⟨true, f2⟩ = (sR1, none))
    (h3 : marshalOutgoing cR sR1 ⟨true, f3⟩ n2 = .ok (sR2, some x2))
    (t2 : p2.responderIndex = x2.responderIndex)                       -- transport of message 2
    (h4 : processIndex cI sI1 p2 ⟨true, f4⟩ = (sI2, none)) :
    sR2.remoteIndex = sI2.localIndex ∧ sI2.remoteIndex = sR2.localIndex ∧
    x2.initiatorIndex = x1.initiatorIndex ∧ sI2.remoteIndex ≠ 0 ∧ sR2.remoteIndex ≠ 0 := by
  obtain ⟨a1, _, _, _, _⟩ := outgoing_index_placement _ _ _ _ _ _ h1
  obtain ⟨b1, b2, _, _, _⟩ := incoming_index_extraction _ _ _ _ _ h2
  obtain ⟨c1, c2, _, c4, _⟩ := outgoing_index_placement _ _ _ _ _ _ h3
  obtain ⟨d1, d2, _, _, d5⟩ := incoming_index_extraction _ _ _ _ _ h4
  simp only [hI, hR, if_true, if_false, Bool.false_eq_true] at a1 b1 c1 c2 d1
  refine ⟨?_, ?_, ?_, d2, ?_⟩
  · rw [c4, b1, t1, a1, d5]
  · rw [d1, t2, c2]
  · rw [c1, c4, b1, t1]
  · rw [c4]; exact b2

/-- The message count a Result reports is the noise message index at completion, on both sides. -/
theorem message_index_reported (c : Cfg) (s s' : St) (len st : Nat) (rd : ReadOut) (co : CertOut) (now : Nat)
    (wr : WriteOut) (sent : Option Sent) (r : Result)
    (h : processPacket c s len st rd co now wr = (s', .ok sent (some r))) :
    r.messageIndex = s'.msgIdx ∧ r.localIndex = s'.localIndex ∧ r.remoteIndex = s'.remoteIndex := by
  obtain ⟨_, _, _, hr, _⟩ := pp_result true c s s' len st rd co now wr sent r h
  rw [hr]; simp [completed]

-- non-vacuity: a full honest IX exchange through the model pairs up (Spec.Handshake.paired)
example :
    (let cI : Cfg := { initiator := true, subtype := 0, msgs := ixMsgs, haveCred := fun v => v == 2, credVersion := id, alloc := some 100 }
    let cR : Cfg := { initiator := false, subtype := 0, msgs := ixMsgs, haveCred := fun v => v == 2, credVersion := id, alloc := some 200 }
    let (sI1, _) := initiate cI { myVersion := 2 } 5 (.ok false false)
    let m1 := marshalPayload [] { cert := [1], initiatorIndex := 100, time := 5, certVersion := 2 }
    let (_, oR) := processPacket cR { myVersion := 2 } 99 0 (.ok m1 false false [7]) ⟨some ([7], 2), some "I"⟩ 6 (.ok true true)
    let m2 := marshalPayload [] { cert := [2], initiatorIndex := 100, responderIndex := 200, time := 6, certVersion := 2 }
    let (_, oI) := processPacket cI sI1 99 0 (.ok m2 true true [8]) ⟨some ([8], 2), some "R"⟩ 7 .err
    match oI, oR with
    | .ok _ (some rI), .ok _ (some rR) => paired rI rR && rI.messageIndex == 2
    | _, _ => false) = true := by
  decide

/-! ### the two Machines of one handshake, composed (`Model/MachinePair`) -/

/-- round trip of the plaintext a side wrote (C08), for what the invariants know about it. -/
theorem unmarshal_plaintext (E : Env) (init : Bool) (l : Nat) (hE : GoodEnv E init l) (x : Sent)
    (h1 : x.initiatorIndex < 2 ^ 32) (h2 : x.responderIndex < 2 ^ 32) (h3 : x.time < 2 ^ 64)
    (h4 : x.certVersion < 2 ^ 32) :
    ∃ p, unmarshalPayload (plaintext E x) = .ok p ∧ p.initiatorIndex = x.initiatorIndex ∧
      p.responderIndex = x.responderIndex := by
  refine ⟨_, C08.unmarshal_marshal _ ⟨?_, h1, h2, h3, h4⟩, rfl, rfl⟩
  show (if x.hasCert then E.certBytes x.certVersion else []).length < 2 ^ 63
  split
  · exact hE.cb _
  · simp

/-- COMPOSITION.  Two Machines — an initiator and a responder set up for IX, with any certificates,
any non-zero `uint32` allocator values — each on its own Noise handshake state of a lawful Noise
(`Lawful N`: bookkeeping + transcript agreement / read-of-write + `Split` symmetry, see
`Spec/NoiseSession`), under EVERY schedule of the adversary (`Initiate`, relays of the messages the two
sides wrote in any order and multiplicity, injections of arbitrary bytes with arbitrary header fields):
if both sides have returned a Result and their channel bindings agree (they completed over the same
session), then

* the initiator's sending key is the responder's receiving key and vice versa, and the two differ;
* each side's remote index is the other side's local index;
* both report message count 2;
* the local indexes are the allocators' values, hence non-zero. -/
theorem pair_agreement {σ κ β : Type} (N : Noise σ κ β) (hN : Lawful N) (EI ER : Env) (li lr : Nat)
    (hEI : GoodEnv EI true li) (hER : GoodEnv ER false lr) (vI vR : Nat) (nI nR : σ)
    (hnI : N.isInit nI = true ∧ N.reads nI = [] ∧ N.writes nI = [])
    (hnR : N.isInit nR = false ∧ N.reads nR = [] ∧ N.writes nR = [])
    (evs : List Event) (s : Sys σ) (hs : s = run N EI ER ⟨Side.fresh vI nI, Side.fresh vR nR⟩ evs)
    (rI rR : Result) (hI : s.i.res = some rI) (hR : s.r.res = some rR)
    (hb : N.binding s.i.n = N.binding s.r.n) :
    keyOf N s.i.n rI.eKey = keyOf N s.r.n rR.dKey ∧ keyOf N s.i.n rI.dKey = keyOf N s.r.n rR.eKey ∧
    keyOf N s.i.n rI.eKey ≠ keyOf N s.i.n rI.dKey ∧
    rI.remoteIndex = rR.localIndex ∧ rR.remoteIndex = rI.localIndex ∧
    rI.messageIndex = 2 ∧ rR.messageIndex = 2 ∧
    rI.localIndex = li ∧ rR.localIndex = lr ∧ rI.localIndex ≠ 0 ∧ rR.localIndex ≠ 0 := by
  have hinv : InvI N EI li s.i ∧ InvR N ER lr s.r := by
    rw [hs]
    exact inv_run hN hEI hER evs ⟨Side.fresh vI nI, Side.fresh vR nR⟩
      ⟨invI_fresh hnI.1 hnI.2.1 hnI.2.2, invR_fresh hnR.1 hnR.2.1 hnR.2.2⟩
  clear hs
  obtain ⟨invI, invR⟩ := hinv
  obtain ⟨iInit, _, i3, i4, i5, i6⟩ := invI
  obtain ⟨rInit, _, _, r4, r5⟩ := invR
  obtain ⟨m2, p2, ireads, hp2, a1, a2, a3, a4, a5, a6⟩ := i6 rI hI
  obtain ⟨m1, p1, s2, rreads, rwrites, hp1, b1, b2, b3, b4, b5, b6, b7, b8, b9, b10⟩ := r5 rR hR
  -- both sides have processed two messages
  have htR : N.total s.r.n = 2 := by simp [Noise.total, rreads, rwrites]
  have hi1 : 1 ≤ N.total s.i.n := by simp [Noise.total, ireads]
  obtain ⟨_, s1, iwrites, c1, c2, c3, c4, _⟩ := i4 hi1
  have htI : N.total s.i.n = 2 := by simp [Noise.total, ireads, iwrites]
  -- the session laws
  obtain ⟨g1, g2⟩ := hN.agree s.i.n s.r.n iInit rInit htI htR hb
  have hsplit := hN.split_sym s.i.n s.r.n iInit rInit htI htR hb
  have hdist := hN.split_distinct s.i.n
  -- message 1: what the responder read is what the initiator wrote
  rw [iwrites, rreads] at g1
  have hm1 : m1 = plaintext EI s1 := by simpa using g1.symm
  obtain ⟨q1, hq1, hq1i, _⟩ := unmarshal_plaintext EI true li hEI s1 (by rw [c1]; exact hEI.lt) (by rw [c2]; decide) c3 c4
  rw [hm1, hq1] at hp1
  have e1 : p1 = q1 := by simpa using hp1.symm
  have hRrem : rR.remoteIndex = li := by rw [b1, e1, hq1i, c1]
  -- message 2: what the initiator read is what the responder wrote
  rw [rwrites, ireads] at g2
  have hm2 : m2 = plaintext ER s2 := by simpa using g2.symm
  obtain ⟨q2, hq2, _, hq2r⟩ := unmarshal_plaintext ER false lr hER s2 (by rw [b3, hRrem]; exact hEI.lt)
    (by rw [b4]; exact hER.lt) b5 b6
  rw [hm2, hq2] at hp2
  have e2 : p2 = q2 := by simpa using hp2.symm
  have hIrem : rI.remoteIndex = lr := by rw [a1, e2, hq2r, b4]
  refine ⟨?_, ?_, ?_, by rw [hIrem, b7], by rw [hRrem, a3], a4, b8, a3, b7, by rw [a3]; exact hEI.pos,
    by rw [b7]; exact hER.pos⟩
  · rw [a5, b10]; simp only [keyOf]; rw [hsplit]
  · rw [a6, b9]; simp only [keyOf]; rw [hsplit]
  · rw [a5, a6]; simp only [keyOf]; exact hdist

-- non-vacuity: the toy Noise is lawful (`toy_lawful`), and an honest run over it — Initiate, relay
-- message 1, relay message 2, with duplicates, a wrong-subtype packet, a too-short packet and garbage after
-- completion in between — makes both
-- sides complete with agreeing channel bindings
example : Lawful toy := toy_lawful

example :
    (let EI : Env := { cfg := { initiator := true, subtype := 0, msgs := ixMsgs, haveCred := fun v => v == 2,
                                credVersion := id, alloc := some 100 },
                       certBytes := fun _ => [1, 2, 3], certOracle := fun _ ps => ⟨some (ps, 2), some "R"⟩ }
     let ER : Env := { cfg := { initiator := false, subtype := 0, msgs := ixMsgs, haveCred := fun v => v == 2,
                                credVersion := id, alloc := some 200 },
                       certBytes := fun _ => [4, 5], certOracle := fun _ ps => ⟨some (ps, 2), some "I"⟩ }
     let s := run toy EI ER ⟨Side.fresh 2 { init := true }, Side.fresh 2 { init := false }⟩
       [.init 5, .injectToR 40 5 [9, 9, 9] 6, .injectToI 3 0 [] 6, .relayToR 0 6, .relayToR 0 6, .relayToI 0 7,
        .relayToI 0 8, .injectToI 40 0 [7] 9]
     match s.i.res, s.r.res with
     | some rI, some rR => decide (toy.binding s.i.n = toy.binding s.r.n) && paired rI rR && rI.remoteIndex == 200
     | _, _ => false) = true := by
  decide

/-! ### `newConnectionStateFromResult`: replay-window seeding (on the C11 model of bits.go) -/

/-- For every `MessageIndex` below `ReplayWindow`, `newConnectionStateFromResult` succeeds, starts
`messageCounter` at `MessageIndex` (so the first data packet is sent with `MessageIndex + 1`), and
leaves a replay window in which exactly the counters `0..MessageIndex` — the handshake messages
themselves — are already seen: each of them is refused by `Check`, and `MessageIndex + 1` is
accepted.  (For IX, `MessageIndex = 2` by `pair_agreement`.) -/
theorem window_seeded (mi : Nat) (h : mi < 8192) :
    ∃ b, WindowSeed.seed mi = some (b, mi) ∧
      (∀ i : Nat, i ≤ mi → Bits.check b (BitVec.ofNat 64 i) = false) ∧
      Bits.check b (BitVec.ofNat 64 (mi + 1)) = true := by
  obtain ⟨b, hb, r⟩ := WindowSeed.seed_refines mi h
  refine ⟨b, hb, ?_, ?_⟩
  · intro i hi
    rw [Lemmas.Bits.check_refines r]
    have hn : (BitVec.ofNat 64 i).toNat = i := by
      simp only [BitVec.toNat_ofNat]; apply Nat.mod_eq_of_lt; omega
    rw [hn]
    have : (WindowSeed.specSeed 8192 mi).contains i = true := by
      simp only [List.contains_eq_mem, decide_eq_true_eq]
      exact (WindowSeed.specSeed_mem 8192 mi i).mpr hi
    simp only [Spec.Window.accepts, this, Bool.not_true, Bool.false_and]
  · rw [Lemmas.Bits.check_refines r]
    have hn : (BitVec.ofNat 64 (mi + 1)).toNat = mi + 1 := by
      simp only [BitVec.toNat_ofNat]; apply Nat.mod_eq_of_lt; omega
    rw [hn]
    have hnot : (WindowSeed.specSeed 8192 mi).contains (mi + 1) = false := by
      simp only [List.contains_eq_mem, decide_eq_false_iff_not]
      intro hm; have := (WindowSeed.specSeed_mem 8192 mi (mi + 1)).mp hm; omega
    have hhi : Spec.Window.hi (WindowSeed.specSeed 8192 mi) ≤ mi :=
      WindowSeed.hi_le_of_all_le _ _ (fun x hx => (WindowSeed.specSeed_mem 8192 mi x).mp hx)
    simp only [Spec.Window.accepts, hnot, Bool.not_false, Bool.true_and, Bool.or_eq_true, decide_eq_true_eq]
    left; left; omega

/-- A `MessageIndex` that does not fit the window is refused (instead of spinning the seed loop). -/
theorem window_seed_refuses (mi : Nat) (h : 8192 ≤ mi) : WindowSeed.seed mi = none := by
  have hrw : WindowSeed.replayWindow = 8192 := by decide
  simp [WindowSeed.seed, hrw, h]

end Nebula.Props.C06
