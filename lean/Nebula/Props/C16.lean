import Nebula.Model.Conntrack
import Nebula.Spec.FwRules
namespace Nebula.Props.C16
theorem placeholder : True := trivial
end Nebula.Props.C16
