/-
C16 — Firewall verdicts follow the rule semantics.

"For a packet from or to a peer with no connection-tracking state, the firewall allows it if and only if some
rule in the matching direction matches: protocol (ICMP ignores ports), port or port range (or fragment), CA
name or fingerprint if given, local CIDR, and any of all-listed groups, host name, or remote CIDR, with 'any'
wildcards as documented. Allowed packets are then tracked."

Model: `Nebula.Fw` (Model/Firewall.lean, Model/Conntrack.lean) — the nested tables `AddRule` builds and the
`match` chain that reads them. Specification: `Nebula.Spec.Fw.allow` (Spec/FwRules.lean) — a flat
`rules.any ruleMatches`. Every theorem is for *every* rule list (any length, valid or refused rules mixed),
firewall configuration, certificate, CA pool and packet.
-/
import Nebula.Lemmas.FwConn
import Nebula.Lemmas.FwPortLoop

namespace Nebula.Props.C16
open Nebula.Net Nebula.Fw Nebula.Spec.Fw Nebula.Lemmas.Fw

/-- **table_eq_spec.** The table built by feeding any rule list to `AddRule` on a fresh firewall answers
`match` exactly as the flat specification does. -/
theorem table_eq_spec (my : Cert) (defaultLocalCIDRAny : Bool) (tcp udp dflt : Nat) (rules : List Rule)
    (p : Packet) (incoming : Bool) (pr : Peer) :
    (((Fw.new my defaultLocalCIDRAny tcp udp dflt).addRules rules).table incoming).matches p incoming pr
      = allow (cfgOf my defaultLocalCIDRAny) rules p incoming pr := by
  rw [addRules_table]
  cases incoming <;> simp [Fw.table, Fw.new, table_empty]

/-- Rules can be added at any time (and the order of `AddRule` calls is irrelevant to the verdict): adding a
list to *any* firewall state adds exactly the disjunction of those rules. -/
theorem table_eq_spec_incremental (fw : Fw) (rules : List Rule) (p : Packet) (incoming : Bool) (pr : Peer) :
    ((fw.addRules rules).table incoming).matches p incoming pr
      = ((fw.table incoming).matches p incoming pr || allow fw.cfg rules p incoming pr) :=
  addRules_table fw rules p incoming pr

/-- The port loop of `firewallPort.addRule` (`for i := startPort; i <= endPort; i++` over the Go map, creating
missing entries) is the pointwise range update the tables above are built with: for every map content and every
`startPort ≤ endPort`, reading the map after the loop gives `FPort.addRule`. -/
theorem port_loop_is_pointwise (cfg : Cfg) (m : FPortMap) (startPort endPort : Int) (groups : List String)
    (host : String) (cidr localCidr : CidrSel) (caName caSha : String) (hle : startPort ≤ endPort) :
    (m.addRule cfg startPort endPort groups host cidr localCidr caName caSha).toFPort
      = m.toFPort.addRule cfg startPort endPort groups host cidr localCidr caName caSha :=
  portMap_addRule_eq cfg m startPort endPort groups host cidr localCidr caName caSha hle

/-- A rule that `AddRule` refuses (unknown protocol, start port above end port) changes nothing, and those are
exactly the rules the specification calls invalid. -/
theorem refused_iff_invalid (cfg : Cfg) (t : Table) (r : Rule) :
    (∃ e, t.addRule cfg r = .error e) ↔ ruleValid r = false :=
  table_refused_iff cfg t r

/-- **drop_no_conntrack.** For a tuple with no connection-tracking state (no entry, no routine-cache line),
`Drop` lets the packet through iff both address checks pass and some rule of the matching direction matches.
Whatever else is tracked, whatever the timer wheel holds. -/
theorem drop_no_conntrack (my : Cert) (defaultLocalCIDRAny : Bool) (tcp udp dflt : Nat) (rules : List Rule)
    (ct : Conntrack) (now : Nat) (cache : Cache) (p : Packet) (incoming : Bool) (h : HostInfo)
    (hct : aget samePkt ct.conns p = none) (hcache : cache.has p = false) :
    (drop ((Fw.new my defaultLocalCIDRAny tcp udp dflt).addRules rules) ct now cache p incoming h).1 = .pass
      ↔ (addrCheck (routableOf my) h.host p = none
          ∧ allow (cfgOf my defaultLocalCIDRAny) rules p incoming h.peer = true) := by
  rw [drop_untracked _ ct now cache p incoming h hct hcache, table_eq_spec]
  have hr : ((Fw.new my defaultLocalCIDRAny tcp udp dflt).addRules rules).routable = routableOf my := by
    rw [addRules_routable]; rfl
  rw [hr]
  cases hac : addrCheck (routableOf my) h.host p with
  | some v =>
    simp only [reduceCtorEq, false_and, iff_false]
    intro hv
    exact addrCheck_ne_pass (routableOf my) h.host p (by rw [hac, hv])
  | none =>
    cases allow (cfgOf my defaultLocalCIDRAny) rules p incoming h.peer <;> simp


/-- **Allowed packets are then tracked.** When a packet of an untracked tuple passes, the tuple is in the
conntrack table afterwards, stamped with the packet's direction, the current rules version and the protocol's
timeout. -/
theorem allowed_then_tracked (fw : Fw) (ct : Conntrack) (now : Nat) (cache : Cache) (p : Packet)
    (incoming : Bool) (h : HostInfo)
    (hct : aget samePkt ct.conns p = none) (hcache : cache.has p = false)
    (hpass : (drop fw ct now cache p incoming h).1 = .pass) :
    aget samePkt (drop fw ct now cache p incoming h).2.1.conns p
      = some { expires := now + fw.timeoutFor p.proto, incoming := incoming, rulesVersion := fw.rulesVersion } := by
  have hm := inConns_miss fw ct now cache p h.peer hct hcache
  rw [drop_eq] at hpass ⊢
  cases hac : addrCheck fw.routable h.host p with
  | some v =>
    simp only [hac] at hpass
    exact absurd (by rw [hac, hpass]) (addrCheck_ne_pass fw.routable h.host p)
  | none =>
    simp only [hac, hm.1, Bool.false_eq_true, if_false] at hpass ⊢
    cases hmt : (fw.table incoming).matches p incoming h.peer
    · simp [hmt] at hpass
    · simp only [if_true]
      exact addConn_entry fw _ now p incoming

/-- … and a tracked flow is honoured: any later packet with the same tuple — in either direction, whatever the
rules say about it — passes while the entry has not expired and the rules version is unchanged, provided the
address checks pass. -/
theorem tracked_flow_passes (fw : Fw) (ct : Conntrack) (now : Nat) (cache : Cache) (p : Packet)
    (incoming : Bool) (h : HostInfo) (c : Conn)
    (hc : aget samePkt ct.conns p = some c) (hlive : now < c.expires) (hv : c.rulesVersion = fw.rulesVersion)
    (haddr : addrCheck fw.routable h.host p = none) :
    (drop fw ct now cache p incoming h).1 = .pass := by
  rw [drop_eq]
  simp only [haddr]
  by_cases hcache : cache.has p = true
  · simp [inConns, hcache]
  · have hcache' : cache.has p = false := by simpa using hcache
    rcases inConns_entry fw ct now cache p h.peer hcache' with ⟨_, _, _, _, hhit, _⟩ | ⟨_, _, _, hno⟩
    · simp [hhit]
    · exact absurd ⟨hlive, Or.inl hv⟩ (hno c hc)

/-! ### non-vacuity: a concrete firewall, certificate and packets -/

def exMy : Cert :=
  { name := "me", networks := [{ addr := { fam := .v4, val := 0x0a000001 }, len := 8 }],
    unsafeNetworks := [], groups := [], issuer := "ca1" }

def exPeer : Cert :=
  { name := "web1", networks := [{ addr := { fam := .v4, val := 0x0a000002 }, len := 8 }],
    unsafeNetworks := [], groups := ["web", "prod"], issuer := "ca1" }

/-- inbound tcp/443 from hosts carrying both groups `web` and `prod`, issued by the CA named `corp`. -/
def exRule : Rule :=
  { incoming := true, proto := 6, startPort := 443, endPort := 443, groups := ["web", "prod"], host := "",
    cidr := .none, localCidr := .none, caName := "corp", caSha := "" }

def exPkt (port : Nat) : Packet :=
  { localAddr := { fam := .v4, val := 0x0a000001 }, remoteAddr := { fam := .v4, val := 0x0a000002 },
    localPort := port, remotePort := 50000, proto := 6, fragment := false }

def exHost : HostInfo :=
  { host := hostOf (exMy.networks.foldl Lite.insert []) exPeer,
    peer := { cert := exPeer, pool := [("ca1", "corp")] } }

def exFw : Fw := (Fw.new exMy false 60 60 60).addRules [exRule]

-- the rule matches port 443 and nothing else, in the table and in the specification
example : (exFw.table true).matches (exPkt 443) true exHost.peer = true := by decide
example : allow (cfgOf exMy false) [exRule] (exPkt 443) true exHost.peer = true := by decide
example : (exFw.table true).matches (exPkt 444) true exHost.peer = false := by decide
example : allow (cfgOf exMy false) [exRule] (exPkt 444) true exHost.peer = false := by decide
-- the hypotheses of `drop_no_conntrack` / `allowed_then_tracked` / `tracked_flow_passes` are satisfiable
example : (drop exFw (Conntrack.new 60 60 60) 0 none (exPkt 443) true exHost).1 = .pass := by decide
example : (drop exFw (Conntrack.new 60 60 60) 0 none (exPkt 443) false exHost).1 = .noRule := by decide
example : (drop exFw (drop exFw (Conntrack.new 60 60 60) 0 none (exPkt 443) true exHost).2.1 30 none
    (exPkt 443) false exHost).1 = .pass := by decide

end Nebula.Props.C16
