import Nebula.Model.CertV1
import Nebula.Model.CertV2
namespace Nebula.Props.C03
theorem placeholder : True := trivial
end Nebula.Props.C03
