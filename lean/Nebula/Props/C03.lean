/-
C03 — Every issued certificate decodes back to itself.

"Every certificate the signing API accepts to produce decodes, from its standard, PEM and handshake
(recombined with its public key) encodings, into a certificate with identical fields and fingerprint. Decoding
arbitrary bytes never panics, and every certificate it accepts obeys the structural rules that signing
enforces."

What is proved here, for the code after the repairs of finding F06 (validate refuses what the decoders refuse;
issued validity bounds are whole seconds), for all inputs:
 * **decode ∘ encode = id for both codecs, no codec hypothesis**: `roundtrip_v2`, `roundtrip_v2_handshake`
   (DER: all five length forms, minimal two's-complement INTEGERs of 1…8 octets, OCTET STRING / UTF8String lists,
   optional fields, envelope; `Lemmas/DerRT`, `DerInt`, `CertV2RT`) and `roundtrip_v1`, `roundtrip_v1_handshake`
   (protobuf: varints via the shared `Lemmas/Wire`, packed repeated uint32, strings, nested messages;
   `Lemmas/CertPb`, `CertV1Pb`, `CertV1RT`), each returning the certificate itself (all fields) and, for v2, the
   encoder's raw details, hence the same fingerprint preimage (`roundtrip_v2_fingerprint`);
 * `decode_total`: every decoder returns a certificate or an error value on every input (no panic outcome);
 * whatever the decoders accept is accepted by / a fixed point of `validate` (`decoded_obeys_rules_v1/v2`,
   `rules_v2`, `decoded_v2_fixed_point`, `decoded_v1_ok`), and what `SignWith` issues has the shape the decoders
   demand and is a fixed point of `validate` (`issued_is_decodable_shape`, `issued_v2_fixed_point`);
 * the handshake form decodes to the same certificate as the standard form (`handshake_form_agrees_v2`).
The hypotheses of the round-trip theorems are the shape predicates `V2OK` / `V1OK` (fixed point of `validate`,
prefix values inside their address family, whole-second bounds within int64 seconds, hex issuer, curve value in
its Go type, non-empty signature) and a size bound (`MaxCertificateSize` for v2, 2^64 for v1 length prefixes);
both predicates are inhabited (`example`s) and hold for what the decoders return.
-/
import Nebula.Lemmas.CertV2
import Nebula.Lemmas.CertSign
import Nebula.Model.CertV1
import Nebula.Lemmas.CertV1RT
import Nebula.Lemmas.CertV2RT
import Nebula.Lemmas.CertV2Idem

namespace Nebula.Props.C03
open Nebula.Net Nebula.Cert Nebula.Lemmas.CertV2 Nebula.Lemmas.CertSign

/-- v1: everything `unmarshalCertificateV1` accepts passes `validate` (the decoder ends with it). -/
theorem decoded_obeys_rules_v1 (b pk : List UInt8) (c : Cert) (h : V1.unmarshal b pk = .ok c) :
    validateV1 c = none ∧ c.version = 1 := by
  unfold V1.unmarshal at h
  repeat' split at h
  all_goals try (cases h; done)
  all_goals
    dsimp only at h
    split at h
    · cases h
    · rename_i hv
      simp only [Except.ok.injEq] at h
      subst h
      exact ⟨hv, rfl⟩

/-- v2: everything `unmarshalCertificateV2` accepts is an output of `validate`. -/
theorem decoded_obeys_rules_v2 (b pk : List UInt8) (cv : Nat) (c : Cert) (rd : List UInt8)
    (h : V2.unmarshal b pk cv = .ok (c, rd)) : ∃ x, validateV2 x = .ok c ∧ x.version = 2 := by
  obtain ⟨-, -, d, hd, hv⟩ := unmarshal_ok b pk cv c rd h
  refine ⟨_, hv, ?_⟩
  unfold V2.unmarshalDetails at hd
  repeat' split at hd
  all_goals try (cases hd; done)
  all_goals
    simp only [Option.some.injEq] at hd
    subst hd
    rfl

/-- The rules an output of the v2 `validate` obeys (hence every decoded and every issued v2 certificate):
name of 1 … MaxNameLength bytes, no empty group, a public key, a network unless it is a CA, and the unchanged
scalar fields. -/
theorem rules_v2 (x c : Cert) (h : validateV2 x = .ok c) :
    1 ≤ c.name.length ∧ c.name.length ≤ Gen.cert_MaxNameLength ∧ (∀ g ∈ c.groups, g ≠ []) ∧ c.publicKey ≠ [] ∧
    (c.isCA = false → c.networks ≠ []) ∧ c.notBefore = x.notBefore ∧ c.notAfter = x.notAfter := by
  unfold validateV2 at h
  simp only at h
  repeat' split at h
  all_goals try (cases h; done)
  simp only [Except.ok.injEq] at h
  subst h
  rename_i h1 h2 h3 h4 _ _ _ _ _ _
  simp only [Bool.or_eq_true, beq_iff_eq, decide_eq_true_eq, not_or, Nat.not_lt] at h1
  dsimp only
  refine ⟨by omega, by omega, ?_, ?_, ?_, rfl, rfl⟩
  · intro g hg hge
    apply h2
    simp only [List.any_eq_true]
    exact ⟨g, hg, by simp [hge]⟩
  · intro he; apply h3; simp [he]
  · intro hca hne
    apply h4
    have : x.networks = [] := by
      cases hx : x.networks with
      | nil => rfl
      | cons a l => rw [hx] at hne; simp [sortPrefixes, insertPrefix] at hne
                    cases hs : sortPrefixes l <;> simp [hs, insertPrefix] at hne
                    split at hne <;> cases hne
    simp [hca, this]

/-- **What signing issues is what the decoders accept** (false before the repairs of F06): a certificate
issued by `SignWith` has whole-second validity bounds, and a v2 one has a name of 1 … 253 bytes and no empty
group. -/
theorem issued_is_decodable_shape (E : SignEnv) (signer : Option Cert) (kc : Nat) (t c : Cert)
    (h : signWith E signer kc t = .ok c) :
    c.notBefore % 1000000000 = 0 ∧ c.notAfter % 1000000000 = 0 ∧
    (c.version = 2 → 1 ≤ c.name.length ∧ c.name.length ≤ Gen.cert_MaxNameLength ∧ ∀ g ∈ c.groups, g ≠ []) := by
  obtain ⟨-, iss, -, v, hv, -, -, sig, -, -, -, -, rfl⟩ := ((signWith_ok_iff E signer kc t c).mp h).1
  have hk := validateVersion_ok hv
  obtain ⟨k1, -, -, -, -, k6, k7, -⟩ := hk
  simp only [fromTBS] at k1 k6 k7
  refine ⟨by simp only; rw [k6]; unfold floorSec; omega, by simp only; rw [k7]; unfold floorSec; omega, ?_⟩
  intro hver
  simp only at hver
  unfold validateVersion at hv
  have h1 : ¬ (fromTBS t iss).version = 1 := by simp only [fromTBS]; omega
  have h2 : (fromTBS t iss).version = 2 := by simp only [fromTBS]; omega
  simp only [h2, if_true, Option.some.injEq] at hv
  have hv2 : validateV2 (fromTBS t iss) = .ok v := by simpa using hv
  obtain ⟨r1, r2, r3, -⟩ := rules_v2 _ _ hv2
  exact ⟨r1, r2, r3⟩

/-- The handshake form decodes to the same certificate as the standard form: if both decode and carry the same
raw details, curve, key and signature, the certificates are equal (the decoder is a function of those four). -/
theorem handshake_form_agrees_v2 (b b' pk pk' : List UInt8) (cv cv' : Nat) (c c' : Cert) (rd : List UInt8)
    (h : V2.unmarshal b pk cv = .ok (c, rd)) (h' : V2.unmarshal b' pk' cv' = .ok (c', rd))
    (hc : c.curve = c'.curve) (hp : c.publicKey = c'.publicKey) (hs : c.signature = c'.signature) : c = c' := by
  obtain ⟨-, -, d, hd, hv⟩ := unmarshal_ok b pk cv c rd h
  obtain ⟨-, -, d', hd', hv'⟩ := unmarshal_ok b' pk' cv' c' rd h'
  rw [hd] at hd'; cases hd'
  rw [hc, hp, hs] at hv
  rw [hv] at hv'
  exact Except.ok.inj hv'

open Nebula.Lemmas.CertV2RT in
/-- **v2 round trip, standard form** — `unmarshalCertificateV2 (Marshal c) = c`, and the raw details are the
encoder's — for every certificate of the shape `validate` produces (`V2OK`: a fixed point of `validate`, i.e.
name of 1…253 bytes, no empty group, sorted duplicate-free networks, a key; prefixes inside their family;
whole-second bounds within int64 seconds; hex issuer; one-byte curve; non-empty signature) whose encoding fits
`MaxCertificateSize`. Any name, any groups, any number of IPv4/IPv6 networks and unsafe networks, both curves,
CA or host; all five DER length forms and all INTEGER lengths are covered by the field lemmas. -/
theorem roundtrip_v2 (c : Cert) (h : V2OK c) (rd : List UInt8) (he : V2.encodeDetails c = some rd)
    (hsz : (V2.marshal rd c.curve (some c.publicKey) c.signature).length ≤ 65536) :
    V2.unmarshal (V2.marshal rd c.curve (some c.publicKey) c.signature) [] 0 = .ok (c, rd) :=
  unmarshal_marshal c h rd he hsz

open Nebula.Lemmas.CertV2RT in
/-- **v2 round trip, handshake form**: `Recombine(Version2, MarshalForHandshakes(c), c.PublicKey(), c.Curve()) = c`. -/
theorem roundtrip_v2_handshake (c : Cert) (h : V2OK c) (rd : List UInt8) (he : V2.encodeDetails c = some rd)
    (hsz : (V2.marshalForHandshakes rd c.signature).length ≤ 65536) :
    V2.recombine (V2.marshalForHandshakes rd c.signature) c.publicKey c.curve = .ok (c, rd) :=
  recombine_marshalForHandshakes c h rd he hsz

open Nebula.Lemmas.CertV2RT in
/-- The fingerprint survives: the decoded certificate carries the encoder's raw details, curve, key and
signature, so the SHA-256 preimage `rawDetails ‖ curve ‖ publicKey ‖ signature` is the same byte string. -/
theorem roundtrip_v2_fingerprint (c : Cert) (h : V2OK c) (rd : List UInt8) (he : V2.encodeDetails c = some rd)
    (hsz : (V2.marshal rd c.curve (some c.publicKey) c.signature).length ≤ 65536) :
    ∃ c' rd', V2.unmarshal (V2.marshal rd c.curve (some c.publicKey) c.signature) [] 0 = .ok (c', rd') ∧
      V2.fingerprintBytes rd' c'.curve c'.publicKey c'.signature = V2.fingerprintBytes rd c.curve c.publicKey c.signature :=
  ⟨c, rd, unmarshal_marshal c h rd he hsz, rfl⟩

/-- `validate` is idempotent, so every v2 certificate the decoder returns and every v2 certificate `SignWith`
issues is a fixed point of `validate` — the first hypothesis of `roundtrip_v2` ("every certificate satisfying
`validate`"). -/
theorem decoded_v2_fixed_point (b pk : List UInt8) (cv : Nat) (c : Cert) (rd : List UInt8)
    (h : V2.unmarshal b pk cv = .ok (c, rd)) : validateV2 c = .ok c := by
  obtain ⟨x, hx, -⟩ := decoded_obeys_rules_v2 b pk cv c rd h
  exact Nebula.Lemmas.CertV2Idem.validateV2_idem x c hx

theorem issued_v2_fixed_point (E : SignEnv) (signer : Option Cert) (kc : Nat) (t c : Cert)
    (h : signWith E signer kc t = .ok c) (hv : t.version = 2) : validateV2 c = .ok c := by
  obtain ⟨-, iss, -, v, hval, -, -, sig, -, -, -, -, rfl⟩ := ((signWith_ok_iff E signer kc t c).mp h).1
  unfold validateVersion at hval
  have h1 : ¬ (fromTBS t iss).version = 1 := by simp only [fromTBS]; omega
  have h2 : (fromTBS t iss).version = 2 := by simp only [fromTBS]; omega
  simp only [h2, if_true, Option.some.injEq] at hval
  have hv2 : validateV2 (fromTBS t iss) = .ok v := by simpa using hval
  have := Nebula.Lemmas.CertV2Idem.validateV2_idem _ _ hv2
  exact validateV2_signature v v sig this

open Nebula.Lemmas.CertV2RT in
/-- **What `SignWith` issues decodes back to itself, with no size hypothesis** (v2; false before the repair of the
size disagreement: one 70000-byte group was issued and then refused by `unmarshalCertificateV2`). When the
signing environment's size oracle is the codec's own (`V2.tooLarge`: `len(Marshal()) > MaxCertificateSize`), the
size bound `roundtrip_v2` asks for is a consequence of issuance. -/
theorem issued_v2_roundtrip (E : SignEnv) (hE : E.tooLarge = V2.tooLarge) (signer : Option Cert) (kc : Nat) (t c : Cert)
    (h : signWith E signer kc t = .ok c) (hok : V2OK c) (rd : List UInt8) (he : V2.encodeDetails c = some rd) :
    V2.unmarshal (V2.marshal rd c.curve (some c.publicKey) c.signature) [] 0 = .ok (c, rd) := by
  have hfit := ((signWith_ok_iff E signer kc t c).mp h).2 hok.version
  rw [hE] at hfit
  unfold V2.tooLarge at hfit
  rw [he] at hfit
  simp only [decide_eq_false_iff_not, Nat.not_lt] at hfit
  exact unmarshal_marshal c hok rd he hfit

/-- Issuance refuses what the decoder would refuse for its size: `SignWith` never returns a v2 certificate whose
standard encoding is longer than `MaxCertificateSize`. -/
theorem issued_v2_fits (E : SignEnv) (hE : E.tooLarge = V2.tooLarge) (signer : Option Cert) (kc : Nat) (t c : Cert)
    (h : signWith E signer kc t = .ok c) (hv : c.version = 2) (rd : List UInt8) (he : V2.encodeDetails c = some rd) :
    (V2.marshal rd c.curve (some c.publicKey) c.signature).length ≤ Gen.cert_MaxCertificateSize := by
  have hfit := ((signWith_ok_iff E signer kc t c).mp h).2 hv
  rw [hE] at hfit
  unfold V2.tooLarge at hfit
  rw [he] at hfit
  simpa using hfit

/-- **decode_total**: the decoders are total functions of their input — for every byte string, key and curve
each of them returns a certificate or one of finitely many error values; there is no panic outcome in the
model (every read goes through the bounds-checked readers of `Base/Der` / `Base/CertPb`, every loop has
explicit fuel bounded by the input length). Stated as an explicit dichotomy. -/
theorem decode_total (b pk : List UInt8) (cv : Nat) :
    ((∃ r, V2.unmarshal b pk cv = .ok r) ∨ (∃ e, V2.unmarshal b pk cv = .error e)) ∧
    ((∃ r, V2.recombine b pk cv = .ok r) ∨ (∃ e, V2.recombine b pk cv = .error e)) ∧
    ((∃ r, V1.unmarshal b pk = .ok r) ∨ (∃ e, V1.unmarshal b pk = .error e)) ∧
    ((∃ r, V1.recombine b pk cv = .ok r) ∨ (∃ e, V1.recombine b pk cv = .error e)) := by
  refine ⟨?_, ?_, ?_, ?_⟩
  · cases V2.unmarshal b pk cv with
    | ok r => exact Or.inl ⟨r, rfl⟩
    | error e => exact Or.inr ⟨e, rfl⟩
  · cases V2.recombine b pk cv with
    | ok r => exact Or.inl ⟨r, rfl⟩
    | error e => exact Or.inr ⟨e, rfl⟩
  · cases V1.unmarshal b pk with
    | ok r => exact Or.inl ⟨r, rfl⟩
    | error e => exact Or.inr ⟨e, rfl⟩
  · cases V1.recombine b pk cv with
    | ok r => exact Or.inl ⟨r, rfl⟩
    | error e => exact Or.inr ⟨e, rfl⟩

/-! ### v1 (protobuf): decode ∘ encode = id, no codec hypothesis -/

open Nebula.Lemmas.CertV1RT in
/-- **v1 round trip, standard form**: for every certificate of the shape the signer and the decoder produce
(`V1OK`: accepted by `validate`, IPv4 prefixes of 32-bit values, whole-second bounds within int64 seconds, hex
issuer, 32-bit curve value, byte strings shorter than 2^64), `unmarshalCertificateV1 (Marshal c) = c` — any
name, any groups (valid UTF-8, or `Marshal` itself fails), any number of networks and unsafe networks, both
curves, CA or host, any key and signature. -/
theorem roundtrip_v1 (c : Cert) (h : V1OK c) (bytes : List UInt8) (hm : V1.marshal c c.publicKey = some bytes)
    (hlen : bytes.length < 2 ^ 64) : V1.unmarshal bytes [] = .ok c := by
  unfold V1.marshal at hm
  cases he : V1.encodeDetails (V1.rawDetailsOf c c.publicKey) with
  | none => rw [he] at hm; cases hm
  | some db =>
    rw [he] at hm
    simp only [Option.some.injEq] at hm
    subst hm
    have := bytesField_length_ge 1 db
    simp only [List.length_append] at hlen
    exact unmarshal_marshal_aux c h c.publicKey [] db (Or.inl ⟨rfl, rfl⟩) he (by omega)

open Nebula.Lemmas.CertV1RT in
/-- **v1 round trip, handshake form**: `Recombine(Version1, MarshalForHandshakes(c), c.PublicKey(), c.Curve()) = c`. -/
theorem roundtrip_v1_handshake (c : Cert) (h : V1OK c) (bytes : List UInt8) (hm : V1.marshal c [] = some bytes)
    (hlen : bytes.length < 2 ^ 64) : V1.recombine bytes c.publicKey c.curve = .ok c := by
  unfold V1.marshal at hm
  cases he : V1.encodeDetails (V1.rawDetailsOf c []) with
  | none => rw [he] at hm; cases hm
  | some db =>
    rw [he] at hm
    simp only [Option.some.injEq] at hm
    subst hm
    have := bytesField_length_ge 1 db
    simp only [List.length_append] at hlen
    unfold V1.recombine
    rw [unmarshal_marshal_aux c h [] c.publicKey db (Or.inr ⟨rfl, rfl⟩) he (by omega)]
    simp

open Nebula.Lemmas.CertV1RT in
/-- The shape `V1OK` is what the decoder produces (so round trips compose: decode, encode, decode). -/
theorem decoded_v1_ok (b pk : List UInt8) (c : Cert) (h : V1.unmarshal b pk = .ok c) (hs : V1Sized c)
    (hi : ∀ ib, c.issuer = hexEnc ib → ib.length < 2 ^ 64) : V1OK c :=
  v1ok_of_decoded b pk c h hs hi

/-! ### Concrete round trips evaluated by the kernel (both forms), and non-vacuity -/

open Nebula.Lemmas.CertV1RT in
example : V1OK exV1Cert :=
  { version := rfl, valid := by decide,
    nets := by intro p hp; simp [exV1Cert] at hp; subst hp; unfold V4Prefix; decide,
    unsafe_nets := by intro p hp; simp [exV1Cert] at hp; subst hp; unfold V4Prefix; decide,
    nb := ⟨1, by decide, by decide, by decide⟩, na := ⟨-2, by decide, by decide, by decide⟩,
    issuer := ⟨[0xab], by decide, by decide⟩, curve := by decide, name_len := by decide,
    groups_len := by decide, pk_len := by decide, sig_len := by decide, ips_len := by decide, subnets_len := by decide }

set_option maxRecDepth 20000 in
open Nebula.Lemmas.CertV1RT in
example : ∃ bytes, V1.marshal exV1Cert exV1Cert.publicKey = some bytes ∧ V1.unmarshal bytes [] = .ok exV1Cert := by
  refine ⟨(V1.marshal exV1Cert exV1Cert.publicKey).getD [], by decide, by decide⟩

open Nebula.Lemmas.CertV2RT in
example : V2OK exV2Cert :=
  { valid := by decide, version := rfl,
    nets := by intro p hp; simp [exV2Cert] at hp; subst hp; unfold PfxWF; decide,
    unsafe_nets := by intro p hp; simp [exV2Cert] at hp,
    nb := ⟨1, by decide, by decide, by decide⟩, na := ⟨2, by decide, by decide, by decide⟩,
    issuer := ⟨[0xab], by decide⟩, curve := by decide, sig_ne := by decide }

example : validateV2 exV2Cert = .ok exV2Cert := by decide
example : V2.unmarshal exV2Bytes [] 0 = .ok (exV2Cert, exV2Raw) := by decide
example : V2.recombine (V2.marshalForHandshakes exV2Raw exV2Cert.signature) exV2Cert.publicKey 0 = .ok (exV2Cert, exV2Raw) := by
  decide
example : V2.unmarshalDetails exV2Raw = some { exV2Cert with curve := 0, publicKey := [], signature := [] } := by decide
example : (V2.unmarshal (exV2Bytes.take 20) [] 0).toBool = false := by decide

end Nebula.Props.C03
