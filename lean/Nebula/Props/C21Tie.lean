/-
C21 — source tie of the TCP reset sequence numbers (iputil/packet.go).

`inAck := tcpIn[13]&0b00010000 != 0`, `seq = binary.BigEndian.Uint32(tcpIn[8:])`, the netfilter-style
`ackSeq = Uint32(tcpIn[4:]) + inSyn + inFin + uint32(len(tcpIn)) - uint32(tcpIn[12]>>4)<<2` (wrapping `uint32`
arithmetic) and the flag byte (`RST`, `|= ACK`) of `ipv4CreateRejectTCPPacket` and `ipv6CreateRejectTCPPacket` are
regenerated from the source on every run and proved equal to the expressions of the hand model's `rstSegment`
(stated over the model's `let`-bound quantities: the model computes them inline in a `do` block).
-/
import Nebula.Lemmas.Ties1RejectTie

namespace Nebula.Props.C21Tie
open Nebula.Gen Nebula.Reject

/-- `inAck` and `seq` for every flag byte and every sequence-field bytes: the model's `flags &&& 0x10 ≠ 0` and
`be32At tcpIn 8`. -/
theorem rst_inAck_seq_is_translated (t13 t8 t9 t10 t11 : BitVec 8) :
    tie_ties1_rst4_inAck t13 = decide (t13.toNat &&& 0x10 ≠ 0)
    ∧ (tie_ties1_rst4_seq t8 t9 t10 t11).toNat
        = (t8.toNat * 256 + t9.toNat) * 65536 + (t10.toNat * 256 + t11.toNat) :=
  ⟨Nebula.Lemmas.Ties1RejectTie.inAck_formula t13, Nebula.Lemmas.Ties1RejectTie.seq_formula t8 t9 t10 t11⟩

/-- The acknowledgement number of the reset that answers a segment without ACK, for all bytes of the incoming TCP
header and every segment length below 2^62: exactly the model's wrapping expression
`u32 (u32 (u32 (u32 (inSeq + inSyn) + inFin) + u32 len) + 2^32 - u32 ((doff >>> 4) <<< 2))`. -/
theorem rst_ackSeq_is_translated (t4 t5 t6 t7 t12 t13 : BitVec 8) (n : Nat) (hn : n < 2 ^ 62) :
    (tie_ties1_rst4_ackSeq t4 t5 t6 t7 t12 t13 (BitVec.ofNat 64 n)).toNat
      = u32 (u32 (u32 (u32 (((t4.toNat * 256 + t5.toNat) * 65536 + (t6.toNat * 256 + t7.toNat))
            + ((t13.toNat &&& 0x02) >>> 1)) + (t13.toNat &&& 0x01)) + u32 n)
          + 4294967296 - u32 ((t12.toNat >>> 4) <<< 2)) :=
  Nebula.Lemmas.Ties1RejectTie.ackSeq_formula t4 t5 t6 t7 t12 t13 n hn

/-- The flag byte: RST alone when the incoming segment carried ACK, RST|ACK otherwise (the model's 0x04 / 0x14);
and the IPv6 function contains the same five computations as the IPv4 one. -/
theorem rst_flags_and_v6_are_translated :
    ((tie_ties1_rst4_ackFlags tie_ties1_rst4_rstFlags).toNat = 0x14 ∧ tie_ties1_rst4_rstFlags.toNat = 0x04)
    ∧ (tie_ties1_rst6_inAck = tie_ties1_rst4_inAck ∧ tie_ties1_rst6_seq = tie_ties1_rst4_seq
      ∧ tie_ties1_rst6_ackSeq = tie_ties1_rst4_ackSeq ∧ tie_ties1_rst6_ackFlags = tie_ties1_rst4_ackFlags
      ∧ tie_ties1_rst6_rstFlags = tie_ties1_rst4_rstFlags) :=
  ⟨Nebula.Lemmas.Ties1RejectTie.ackFlags_formula, Nebula.Lemmas.Ties1RejectTie.rst6_eq_rst4⟩

-- the regenerated definition computes, including the wrap: seq 0xFFFFFFFF, SYN set, 20-byte header, no payload → ack 0
example : (tie_ties1_rst4_ackSeq 0xFF#8 0xFF#8 0xFF#8 0xFF#8 0x50#8 0x02#8 20#64).toNat = 0 := by decide

end Nebula.Props.C21Tie
