/-
C02 — "The only other signature accepted for unchanged content is the P-256 low/high-S twin, and blocklisting
either twin's fingerprint rejects both."  The `cert/p256` part, on signature *encodings*.

`CalculateAlternateFingerprint` is the fingerprint of a copy carrying `p256.Swap(signature)`; it equals the twin's
fingerprint only if `Swap` answers the twin's bytes exactly, i.e. the unique minimal DER encoding of `(r, N - s)`.
`Spec/P256Twin.lean` defines that encoding from the two numbers (`encSig`: every INTEGER with the fewest octets,
a 0x00 pad exactly when the top bit is set, definite lengths in minimal form); the line-by-line model of
`Swap` / `Normalize` / `IsNormalized` (`Model/P256Sig.lean`: `parseSignature`, `swap` with its strip-leading-zeros
loop, `addASN1IntBytes` with its own) is proved here to compute it for EVERY signature with `0 < r < 2^256`
and `0 < s < N` — in particular when `N - s` has any number of leading zero bytes. `N` is a Go standard-library
constant: stated in `Model/P256.lean` and compared with `cert/p256`'s `nMod` / `halfN` by the `p256n` op.
-/
import Nebula.Lemmas.P256Twin
import Nebula.Lemmas.P256TwinUnique
import Nebula.Props.C02

namespace Nebula.Props.C02
open Nebula.Der Nebula.Cert Nebula.P256 Nebula.P256Twin Nebula.Lemmas.P256Twin Nebula.Lemmas.P256TwinUnique

/-- **Swap answers the twin**: the unique minimal DER encoding of `(r, N - s)`. -/
theorem swap_is_twin (r s : Nat) (hr : 0 < r) (hr' : r < 2 ^ 256) (hs : 0 < s) (hs' : s < N) :
    P256.swap (encSig r s) = some (encSig r (N - s)) := by
  have l1 := natBytes_len32 r hr'
  have l2 := natBytes_len32 s (by have := N_lt; omega)
  unfold P256.swap
  rw [parse_encSig r s hr hs (by omega)]
  simp only
  rw [swapBytes_natBytes s hs hs']
  simp only
  exact encodeSignature_natBytes r (N - s) hr (by omega)

/-- **Swap is an involution** on well-formed minimal signatures. -/
theorem swap_involutive (r s : Nat) (hr : 0 < r) (hr' : r < 2 ^ 256) (hs : 0 < s) (hs' : s < N) :
    (P256.swap (encSig r s)).bind P256.swap = some (encSig r s) := by
  rw [swap_is_twin r s hr hr' hs hs']
  simp only [Option.bind_some]
  rw [swap_is_twin r (N - s) hr hr' (by omega) (by omega)]
  have : N - (N - s) = s := by omega
  rw [this]

/-- … and never a fixed point: the two forms are different byte strings with different numbers. -/
theorem swap_ne_self (r s : Nat) (hr' : r < 2 ^ 256) (hs : 0 < s) (hs' : s < N) :
    encSig r (N - s) ≠ encSig r s := by
  have l1 := natBytes_len32 r hr'
  have l2 := natBytes_len32 s (by have := N_lt; omega)
  have l3 := natBytes_len32 (N - s) (by have := N_lt; omega)
  intro h
  have a := decSig_encSig r (N - s) (by omega)
  rw [h, decSig_encSig r s (by omega)] at a
  simp only [Option.some.injEq, Prod.mk.injEq, true_and] at a
  unfold N at a hs'; omega

/-- **The output is the minimal DER encoding**, spelled out: each of the two INTEGERs `Swap` writes is accepted by
the strict reader's `checkASN1Integer` (no redundant leading 0x00 / 0xff octet), is non-negative (top bit of the
first octet clear — so the 0x00 pad is there whenever the first digit has its top bit set), starts with 0x00 only
where the next octet has its top bit set, and carries the number. -/
theorem intContent_minimal (n : Nat) (h : 0 < n) :
    checkASN1Integer (intContent n) = true ∧ beNat (intContent n) = n ∧
    (∃ b rest, intContent n = b :: rest ∧ b &&& 0x80 = 0 ∧
      (b = 0 → ∃ b1 rest', rest = b1 :: rest' ∧ b1 &&& 0x80 = 0x80)) := by
  refine ⟨?_, beNat_intContent n, ?_⟩
  · obtain ⟨d, tl, e, h1, h2⟩ := natBytes_head n h
    obtain ⟨a1, a2, a3, a4, -⟩ := Nebula.Lemmas.DerInt.byte_facts d h2
    unfold intContent; rw [e]; simp only
    by_cases hp : 128 ≤ d
    · have c1 : (UInt8.ofNat d &&& 0x80 != 0) = true := by simp only [bne, a2]; simp; omega
      have c2 : (UInt8.ofNat d &&& 0x80 == 0) = false := by rw [a2]; simp; omega
      simp [c1, checkASN1Integer, c2]
    · have c1 : (UInt8.ofNat d &&& 0x80 != 0) = false := by simp only [bne, a2]; simp; omega
      have c3 : (UInt8.ofNat d == 0) = false := by rw [a3]; simp; omega
      have c4 : (UInt8.ofNat d == 0xff) = false := by rw [a4]; simp; omega
      cases tl with
      | nil => simp [c1, checkASN1Integer]
      | cons c tl' => simp [c1, checkASN1Integer, c3, c4]
  · obtain ⟨d, tl, e, h1, h2⟩ := natBytes_head n h
    obtain ⟨a1, a2, a3, a4, -⟩ := Nebula.Lemmas.DerInt.byte_facts d h2
    unfold intContent; rw [e]; simp only
    by_cases hp : 128 ≤ d
    · have c1 : (UInt8.ofNat d &&& 0x80 != 0) = true := by simp only [bne, a2]; simp; omega
      have c5 : UInt8.ofNat d &&& 0x80 = 0x80 := by
        have : (UInt8.ofNat d &&& 0x80 == 0x80) = true := by rw [a1]; simp; omega
        exact eq_of_beq this
      simp only [c1, if_true]
      exact ⟨0, UInt8.ofNat d :: tl, rfl, rfl, fun _ => ⟨_, _, rfl, c5⟩⟩
    · have c1 : (UInt8.ofNat d &&& 0x80 != 0) = false := by simp only [bne, a2]; simp; omega
      have c6 : UInt8.ofNat d &&& 0x80 = 0 := by
        have : (UInt8.ofNat d &&& 0x80 == 0) = true := by rw [a2]; simp; omega
        exact eq_of_beq this
      have c3 : UInt8.ofNat d ≠ 0 := by
        have : (UInt8.ofNat d == 0) = false := by rw [a3]; simp; omega
        exact ne_of_beq_false this
      simp only [c1, Bool.false_eq_true, if_false]
      exact ⟨UInt8.ofNat d, tl, rfl, c6, fun h => absurd h c3⟩

/-- **swap_minimal**: what `Swap` returns is the minimal DER encoding — the strict reader accepts it and reads
the twin's numbers as their minimal digits, the specification's decoder (`decSig`: the byte string IS `encSig` of
its numbers) recognises it, and both INTEGERs are minimal in the sense of `intContent_minimal`. -/
theorem swap_minimal (r s : Nat) (hr : 0 < r) (hr' : r < 2 ^ 256) (hs : 0 < s) (hs' : s < N) :
    ∃ out, P256.swap (encSig r s) = some out ∧ decSig out = some (r, N - s) ∧
      parseSignature out = some (natBytes r, natBytes (N - s)) ∧
      out = encTLV 0x30 (encTLV 0x02 (intContent r) ++ encTLV 0x02 (intContent (N - s))) := by
  have l1 := natBytes_len32 r hr'
  have l3 := natBytes_len32 (N - s) (by have := N_lt; omega)
  exact ⟨_, swap_is_twin r s hr hr' hs hs', decSig_encSig r (N - s) (by omega),
    parse_encSig r (N - s) hr (by omega) (by omega), rfl⟩

/-- **Normalize answers the low-S form** and `IsNormalized` decides `s ≤ N/2`. -/
theorem normalize_low_s (r s : Nat) (hr : 0 < r) (hr' : r < 2 ^ 256) (hs : 0 < s) (hs' : s < N) :
    P256.normalize (encSig r s) = some (encSig r (normalizeS s)) ∧ isLowS (normalizeS s) = true ∧
    P256.isNormalized (encSig r s) = some (isLowS s) ∧ encSig r (normalizeS s) = lowSig r s := by
  have l1 := natBytes_len32 r hr'
  have l2 := natBytes_len32 s (by have := N_lt; omega)
  have hp := parse_encSig r s hr hs (by omega)
  refine ⟨?_, ?_, ?_, ?_⟩
  · unfold P256.normalize
    rw [hp]; simp only [beNat_natBytes]
    unfold normalizeS
    by_cases hl : isLowS s = true
    · simp [hl]
    · simp only [hl, Bool.false_eq_true, if_false]
      exact swap_is_twin r s hr hr' hs hs'
  · unfold normalizeS
    by_cases hl : isLowS s = true
    · simp [hl]
    · simp only [hl, Bool.false_eq_true, if_false]
      unfold isLowS swapS halfN N at *
      simp only [decide_eq_true_eq] at hl ⊢
      omega
  · unfold P256.isNormalized; rw [hp]; simp [beNat_natBytes]
  · unfold lowSig twinSig normalizeS isLowS swapS
    by_cases hl : s ≤ halfN <;> simp [hl]

/-- **Normalize is idempotent.** -/
theorem normalize_idempotent (r s : Nat) (hr : 0 < r) (hr' : r < 2 ^ 256) (hs : 0 < s) (hs' : s < N) :
    (P256.normalize (encSig r s)).bind P256.normalize = P256.normalize (encSig r s) := by
  obtain ⟨h1, h2, -, -⟩ := normalize_low_s r s hr hr' hs hs'
  rw [h1]; simp only [Option.bind_some]
  have hn : 0 < normalizeS s ∧ normalizeS s < N := by
    unfold normalizeS swapS; split <;> omega
  obtain ⟨h3, -, -, -⟩ := normalize_low_s r (normalizeS s) hr hr' hn.1 hn.2
  rw [h3]
  have : normalizeS (normalizeS s) = normalizeS s := by
    generalize hx : normalizeS s = x at h2
    unfold normalizeS
    simp [h2]
  rw [this]

/-- **twin_fingerprints_symmetric.** Let the fingerprint be any function `H` of the bytes `fpb` a certificate is
hashed over, and let the alternate fingerprint be computed as the code computes it (`altFingerprintOf`: the
fingerprint of the copy carrying `Swap(signature)`), for P-256 certificates. For a certificate `c` and every
well-formed `(r, s)`: the alternate fingerprint of `c` with the one form IS the fingerprint of `c` with the other
form, in both directions; hence a blocklist containing either form's fingerprint rejects both forms, for every
pool, time and signature oracle. -/
theorem twin_fingerprints_symmetric (K : Crypto) (p : Pool) (t : Int) (c : Cert) (r s : Nat)
    (fpb : Cert → Der.Bytes) (H : Der.Bytes → String) (hH : ∀ b, H b ≠ "")
    (hr : 0 < r) (hr' : r < 2 ^ 256) (hs : 0 < s) (hs' : s < N)
    (hfp : ∀ x, K.fingerprint x = some (H (fpb x)))
    (halt : ∀ x, x.curve = curveP256 →
      K.altFingerprint x = altFingerprintOf (fun sig => H (fpb { x with signature := sig })) x.signature)
    (hc : c.curve = curveP256) :
    let lo : Cert := { c with signature := encSig r s }
    let hi : Cert := { c with signature := twinSig r s }
    K.altFingerprint lo = K.fingerprint hi ∧ K.altFingerprint hi = K.fingerprint lo ∧
    ∀ fp, fp = H (fpb lo) ∨ fp = H (fpb hi) → fp ∈ p.block →
      (¬ ∃ cc, p.verifyCertificate K t lo = .ok cc) ∧ (¬ ∃ cc, p.verifyCertificate K t hi = .ok cc) := by
  intro lo hi
  have a1 : K.altFingerprint lo = K.fingerprint hi := by
    rw [halt lo hc, hfp hi]
    show altFingerprintOf _ (encSig r s) = _
    unfold altFingerprintOf
    rw [swap_is_twin r s hr hr' hs hs']; rfl
  have a2 : K.altFingerprint hi = K.fingerprint lo := by
    rw [halt hi hc, hfp lo]
    show altFingerprintOf _ (twinSig r s) = _
    unfold altFingerprintOf twinSig
    rw [swap_is_twin r (N - s) hr hr' (by omega) (by omega)]
    have : N - (N - s) = s := by omega
    rw [this]; rfl
  refine ⟨a1, a2, ?_⟩
  intro fp hfpv hb
  exact blocklisting_either_twin_rejects K p t lo hi (H (fpb lo)) (H (fpb hi))
    ⟨hfp lo, by rw [a1, hfp hi]⟩ ⟨hfp hi, by rw [a2, hfp lo]⟩ ⟨hH _, hH _⟩ fp hfpv hb

/-- **The accepted encoding is unique**: every byte string of fewer than 130 bytes (P-256 signatures have at most
72) that `parseSignature` accepts is the minimal DER encoding `encSig` of the numbers read — so "the minimal DER
encoding of `(r, N - s)`" that `Swap` answers (`swap_is_twin`) is the ONLY byte string a verifier of the twin
certificate can have been given. -/
theorem minimal_der_unique (sig rb sb : Der.Bytes) (hl : sig.length < 130) (h : parseSignature sig = some (rb, sb)) :
    sig = encSig (beNat rb) (beNat sb) ∧ decSig sig = some (beNat rb, beNat sb) := by
  have e := parse_unique sig rb sb hl h
  refine ⟨e, ?_⟩
  have hlen := congrArg List.length e
  -- sizes: the digits are shorter than the string they were read from
  have b1 : (natBytes (beNat rb)).length + (natBytes (beNat sb)).length + 30 < 2 ^ 32 := by
    have l1 : (natBytes (beNat rb)).length ≤ (intContent (beNat rb)).length := by
      unfold intContent; split
      · next e0 => rw [e0]; simp
      · next b rest e0 => rw [e0]; split <;> simp
    have l2 : (natBytes (beNat sb)).length ≤ (intContent (beNat sb)).length := by
      unfold intContent; split
      · next e0 => rw [e0]; simp
      · next b rest e0 => rw [e0]; split <;> simp
    simp only [encSig, encInt, encTLV, List.length_cons, List.length_append] at hlen
    omega
  rw [e]; exact decSig_encSig _ _ b1

/-- **Swap is an involution on every accepted signature** (not only on `encSig` terms): for every byte string of
fewer than 130 bytes that the strict reader accepts with `0 < r < 2^256` and `0 < s < N`, `Swap (Swap sig) = sig`,
and `Swap sig` is the minimal DER encoding of `(r, N - s)`. -/
theorem swap_involutive_accepted (sig rb sb : Der.Bytes) (hl : sig.length < 130) (h : parseSignature sig = some (rb, sb))
    (hr : 0 < beNat rb) (hr' : beNat rb < 2 ^ 256) (hs : 0 < beNat sb) (hs' : beNat sb < N) :
    P256.swap sig = some (encSig (beNat rb) (N - beNat sb)) ∧ (P256.swap sig).bind P256.swap = some sig := by
  have e := (minimal_der_unique sig rb sb hl h).1
  constructor
  · rw [e]; exact swap_is_twin _ _ hr hr' hs hs'
  · have := swap_involutive _ _ hr hr' hs hs'
    rw [← e] at this; exact this

/-! ### Non-vacuity: the class the encoder loops exist for — `N - s` with 31 leading zero bytes -/

example : P256.swap (encSig 5 (N - 1)) = some [0x30, 0x06, 0x02, 0x01, 0x05, 0x02, 0x01, 0x01] := by
  rw [swap_is_twin 5 (N - 1) (by decide) (by decide) (by decide) (by decide)]; decide

example : decSig [0x30, 0x06, 0x02, 0x01, 0x05, 0x02, 0x01, 0x01] = some (5, 1) := by decide

example : decSig [0x30, 0x07, 0x02, 0x01, 0x05, 0x02, 0x02, 0x00, 0x01] = none ∧
    lenientSig [0x30, 0x07, 0x02, 0x01, 0x05, 0x02, 0x02, 0x00, 0x01] = some (5, 1) := by decide

example : wellFormed 5 1 = true ∧ areTwins (encSig 5 1) (twinSig 5 1) = true := by decide

end Nebula.Props.C02
