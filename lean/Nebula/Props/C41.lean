import Nebula.Spec.Routes
namespace Nebula.Props.C41
open Nebula.Routes Nebula.Spec.Routes

example : parseInt 32 "100" = some 100 := by decide

end Nebula.Props.C41
