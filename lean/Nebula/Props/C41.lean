/-
C41 — Route configuration parses exactly.

"Routes and unsafe routes load only if every entry is well formed, with routes inside and unsafe routes
outside the node's overlay networks, and numeric fields (MTU, metric, gateway weight) given as integers
or as decimal strings take exactly the stated value. Out-of-range values are refused rather than
replaced."  — for all configuration values (any YAML type in any position), all overlay network sets,
and every behaviour of the address parsers (`o : Oracle` is universally quantified).
-/
import Nebula.Lemmas.RoutesComplete

namespace Nebula.Props.C41
open Nebula.Net Nebula.Routes Nebula.Spec.Routes Nebula.Lemmas.Routes

/-- `parseRoutes` loads exactly what the specification says loads, with exactly those routes. -/
theorem routes_load_iff (o : Oracle) (nets : List Prefix) (v : Option Yaml) (rs : List Route) :
    parseRoutes o nets v = .ok rs ↔ specLoad (specRoute o nets) v = some rs :=
  top_ok _ _ (routeEntry_ok o nets) v rs

/-- `parseUnsafeRoutes` loads exactly what the specification says loads, with exactly those routes. -/
theorem unsafe_routes_load_iff (o : Oracle) (nets : List Prefix) (v : Option Yaml) (rs : List Route) :
    parseUnsafeRoutes o nets v = .ok rs ↔ specLoad (specUnsafe o nets) v = some rs :=
  top_ok _ _ (unsafeEntry_ok o nets) v rs

/-- No configuration value makes either parser panic (every type assertion is checked). -/
theorem never_panics (o : Oracle) (nets : List Prefix) (v : Option Yaml) :
    parseRoutes o nets v ≠ .panic ∧ parseUnsafeRoutes o nets v ≠ .panic :=
  ⟨top_no_panic _ (routeEntry_no_panic o nets) v, top_no_panic _ (unsafeEntry_no_panic o nets) v⟩

/-- … so everything that does not load is refused with an error. -/
theorem refused_otherwise (o : Oracle) (nets : List Prefix) (v : Option Yaml)
    (h : specLoad (specUnsafe o nets) v = none) : ∃ e, parseUnsafeRoutes o nets v = .err e := by
  cases hp : parseUnsafeRoutes o nets v with
  | ok rs => have := (unsafe_routes_load_iff o nets v rs).mp hp; rw [h] at this; cases this
  | err e => exact ⟨e, rfl⟩
  | panic => exact absurd hp (never_panics o nets v).2

/-- Routes load only if every entry is well formed (`RouteOK`): a map whose `mtu` states the loaded
MTU (an integer, or a decimal string — exactly its value) which is at least 500, and whose `route`
parses to the loaded prefix, which lies inside one of the overlay networks. -/
theorem routes_wellformed (o : Oracle) (nets : List Prefix) (v : Option Yaml) (rs : List Route)
    (h : parseRoutes o nets v = .ok rs) : Loads (RouteOK o nets) v rs :=
  specLoad_sound _ _ (specRoute_sound o nets) v rs ((routes_load_iff o nets v rs).mp h)

/-- Unsafe routes load only if every entry is well formed (`UnsafeOK`): `mtu`, `metric` and every
gateway `weight` — absent, integer or decimal string — take exactly the stated value (defaults 0, 0,
1), MTU is 0 or ≥ 500, metric within 0…2³¹−1, weights within 1…2³¹−1, `via` is an address or a list of
well-formed gateways, `install` is a boolean word, `route` parses and lies outside every overlay
network. -/
theorem unsafe_routes_wellformed (o : Oracle) (nets : List Prefix) (v : Option Yaml) (rs : List Route)
    (h : parseUnsafeRoutes o nets v = .ok rs) : Loads (UnsafeOK o nets) v rs :=
  specLoad_sound _ _ (specUnsafe_sound o nets) v rs ((unsafe_routes_load_iff o nets v rs).mp h)

/-- A field value that states no number (malformed string, bool, float, nil, list, map), or a number
outside the field's range, is refused — never replaced by a default. Stated for `metric`; the same
lemmas (`unsafeMtu_ok`, `gatewayEntry_ok`) give it for `mtu` and `weight`. -/
theorem bad_metric_refused (o : Oracle) (nets : List Prefix) (m : List (String × Yaml)) (rM : Yaml)
    (hm : lookup "metric" m = some rM)
    (hbad : ∀ n, stated rM = some n → ¬ (0 ≤ n ∧ n ≤ 2147483647)) :
    specUnsafe o nets (.map m) = none := by
  cases h : specUnsafe o nets (.map m) with
  | none => rfl
  | some r =>
    obtain ⟨m', hm', _, _, h3, h4, h5, _⟩ := specUnsafe_sound o nets _ r h
    injection hm' with hm'
    subst hm'
    rw [hm] at h3
    exact absurd ⟨h4, h5⟩ (hbad _ h3)

/-- Both directions, in the declarative terms of the property: routes load as `rs` exactly when the
value is absent/null (no routes) or a list whose entries are all well formed and denote `rs`. -/
theorem routes_load_iff_wellformed (o : Oracle) (nets : List Prefix) (v : Option Yaml) (rs : List Route) :
    parseRoutes o nets v = .ok rs ↔ Loads (RouteOK o nets) v rs :=
  ⟨routes_wellformed o nets v rs, fun h =>
    (routes_load_iff o nets v rs).mpr (specLoad_complete _ _ (specRoute_complete o nets) v rs h)⟩

/-- The same for unsafe routes: in particular a well-formed entry whose metric or gateway weight is a
decimal string is *accepted with that value* (the two symptoms of F04 were a discarded value and a
refusal). -/
theorem unsafe_routes_load_iff_wellformed (o : Oracle) (nets : List Prefix) (v : Option Yaml) (rs : List Route) :
    parseUnsafeRoutes o nets v = .ok rs ↔ Loads (UnsafeOK o nets) v rs :=
  ⟨unsafe_routes_wellformed o nets v rs, fun h =>
    (unsafe_routes_load_iff o nets v rs).mpr (specLoad_complete _ _ (specUnsafe_complete o nets) v rs h)⟩

/-- The reader used for all three numeric fields returns exactly the stated number (64-bit fields). -/
theorem number_exact (v : Yaml) : numField 64 v = stated v := numField64 v

/-! Non-vacuity: the F04 witnesses, now loading with the stated values or refused. -/

def exO : Oracle where
  parsePrefix s := if s = "1.0.0.0/8" then some { addr := { fam := .v4, val := 0x01000000 }, len := 8 } else none
  parseAddr s := if s = "10.0.0.2" then some { fam := .v4, val := 0x0a000002 } else none
def exNets : List Prefix := [{ addr := { fam := .v4, val := 0x0a000001 }, len := 24 }]

example : stated (.str "100") = some 100 ∧ stated (.str "+5") = some 5 ∧ stated (.str "1.5") = none ∧
    stated (.bool true) = none ∧ stated (.str "9223372036854775808") = none := by decide +kernel

example : parseUnsafeRoutes exO exNets (some (.list [.map [("metric", .str "100"), ("via", .str "10.0.0.2"),
      ("route", .str "1.0.0.0/8")]])) =
    .ok [{ mtu := 0, metric := 100, cidr := { addr := { fam := .v4, val := 0x01000000 }, len := 8 },
           via := [{ addr := { fam := .v4, val := 0x0a000002 }, weight := 1 }], install := true }] := by
  decide +kernel

example : parseUnsafeRoutes exO exNets (some (.list [.map [("via", .list [.map [("gateway", .str "10.0.0.2"),
      ("weight", .str "5")]]), ("route", .str "1.0.0.0/8")]])) =
    .ok [{ mtu := 0, metric := 0, cidr := { addr := { fam := .v4, val := 0x01000000 }, len := 8 },
           via := [{ addr := { fam := .v4, val := 0x0a000002 }, weight := 5 }], install := true }] := by
  decide +kernel

example : parseUnsafeRoutes exO exNets (some (.list [.map [("mtu", .bool true), ("via", .str "10.0.0.2"),
      ("route", .str "1.0.0.0/8")]])) = .err "1:mtu-not-int" := by decide +kernel

end Nebula.Props.C41
