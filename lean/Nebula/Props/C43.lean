import Nebula.Model.CertKeys
namespace Nebula.Props.C43
theorem placeholder : True := trivial
end Nebula.Props.C43
