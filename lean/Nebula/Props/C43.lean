/-
C43 — Encrypted private keys open only with the right passphrase.

"An encrypted signing key decrypts back to exactly the original key with the passphrase used to encrypt it
and is refused with any other passphrase or any alteration of the encrypted data. Key PEM encodings
round-trip for every curve and are refused under the wrong banner."

Structural layer only (`Model/CertKeys.lean`): PEM framing is an opaque (banner, bytes) pair, Argon2id and
AES-256-GCM are uninterpreted functions with the laws of `LawfulKeyCrypto` (round trip, idealised
authenticity, KDF injectivity) — hypotheses, never axioms. The protobuf round trip of
`RawNebulaEncryptedData` is proved (`Lemmas/CertKeysPb.lean`, on the shared varint lemmas of `Lemmas/Wire.lean`),
so `decrypt_encrypt` has no codec hypothesis.
-/
import Nebula.Lemmas.CertKeys
import Nebula.Lemmas.CertKeysPb

namespace Nebula.Props.C43
open Nebula.CertKeys Nebula.Lemmas.CertKeys Nebula.Lemmas.CertKeysPb
open Nebula.Cert (curve25519 curveP256)

/-- The ten key banners are pairwise different (regenerated constants). -/
theorem banners_distinct :
    [Gen.cert_X25519PrivateKeyBanner, Gen.cert_X25519PublicKeyBanner, Gen.cert_P256PrivateKeyBanner,
     Gen.cert_P256PublicKeyBanner, Gen.cert_EncryptedECDSAP256PrivateKeyBanner, Gen.cert_ECDSAP256PrivateKeyBanner,
     Gen.cert_ECDSAP256PublicKeyBanner, Gen.cert_EncryptedEd25519PrivateKeyBanner, Gen.cert_Ed25519PrivateKeyBanner,
     Gen.cert_Ed25519PublicKeyBanner].Nodup := by decide

/-- **Key PEM round trips for every curve and all four key kinds**: the banner each `Marshal…ToPEM` function
writes for a curve is read back by the matching reader with that curve and the same bytes, iff the length is
the one the curve prescribes (32 / 65 public, 32 ECDH private, 64 / 32 signing private). -/
theorem key_pem_roundtrip (b : Bytes) :
    (unmarshalPublicKey Gen.cert_X25519PublicKeyBanner b = if b.length = 32 then .ok (b, curve25519) else .error .length) ∧
    (unmarshalPublicKey Gen.cert_P256PublicKeyBanner b = if b.length = 65 then .ok (b, curveP256) else .error .length) ∧
    (unmarshalSigningPublicKey Gen.cert_Ed25519PublicKeyBanner b = if b.length = 32 then .ok (b, curve25519) else .error .length) ∧
    (unmarshalSigningPublicKey Gen.cert_ECDSAP256PublicKeyBanner b = if b.length = 65 then .ok (b, curveP256) else .error .length) ∧
    (unmarshalPrivateKey Gen.cert_X25519PrivateKeyBanner b = if b.length = 32 then .ok (b, curve25519) else .error .length) ∧
    (unmarshalPrivateKey Gen.cert_P256PrivateKeyBanner b = if b.length = 32 then .ok (b, curveP256) else .error .length) ∧
    (unmarshalSigningPrivateKey Gen.cert_Ed25519PrivateKeyBanner b = if b.length = 64 then .ok (b, curve25519) else .error .length) ∧
    (unmarshalSigningPrivateKey Gen.cert_ECDSAP256PrivateKeyBanner b = if b.length = 32 then .ok (b, curveP256) else .error .length) := by
  refine ⟨?_, ?_, ?_, ?_, ?_, ?_, ?_, ?_⟩ <;>
    simp [unmarshalPublicKey, unmarshalSigningPublicKey, unmarshalPrivateKey, unmarshalSigningPrivateKey,
      Gen.cert_X25519PublicKeyBanner, Gen.cert_P256PublicKeyBanner, Gen.cert_Ed25519PublicKeyBanner,
      Gen.cert_ECDSAP256PublicKeyBanner, Gen.cert_X25519PrivateKeyBanner, Gen.cert_P256PrivateKeyBanner,
      Gen.cert_Ed25519PrivateKeyBanner, Gen.cert_ECDSAP256PrivateKeyBanner, Gen.cert_EncryptedEd25519PrivateKeyBanner,
      Gen.cert_EncryptedECDSAP256PrivateKeyBanner]

/-- The banner tables of the writers (unknown curves give no PEM at all). -/
theorem marshal_banners :
    publicKeyBanner curve25519 = some Gen.cert_X25519PublicKeyBanner ∧ publicKeyBanner curveP256 = some Gen.cert_P256PublicKeyBanner ∧
    signingPublicKeyBanner curve25519 = some Gen.cert_Ed25519PublicKeyBanner ∧
    signingPublicKeyBanner curveP256 = some Gen.cert_ECDSAP256PublicKeyBanner ∧
    privateKeyBanner curve25519 = some Gen.cert_X25519PrivateKeyBanner ∧ privateKeyBanner curveP256 = some Gen.cert_P256PrivateKeyBanner ∧
    signingPrivateKeyBanner curve25519 = some Gen.cert_Ed25519PrivateKeyBanner ∧
    signingPrivateKeyBanner curveP256 = some Gen.cert_ECDSAP256PrivateKeyBanner ∧
    encryptedKeyBanner curve25519 = some Gen.cert_EncryptedEd25519PrivateKeyBanner ∧
    encryptedKeyBanner curveP256 = some Gen.cert_EncryptedECDSAP256PrivateKeyBanner ∧
    (∀ c, c ≠ curve25519 → c ≠ curveP256 → publicKeyBanner c = none ∧ signingPublicKeyBanner c = none ∧
      privateKeyBanner c = none ∧ signingPrivateKeyBanner c = none ∧ encryptedKeyBanner c = none) := by
  refine ⟨by decide, by decide, by decide, by decide, by decide, by decide, by decide, by decide, by decide, by decide, ?_⟩
  intro c h0 h1
  simp [publicKeyBanner, signingPublicKeyBanner, privateKeyBanner, signingPrivateKeyBanner, encryptedKeyBanner, h0, h1]

/-- Wrong banner refused: each reader accepts exactly its own two banners, whatever the bytes. -/
theorem wrong_banner_refused (bn : String) (b : Bytes) :
    ((∃ r, unmarshalPublicKey bn b = .ok r) → bn = Gen.cert_X25519PublicKeyBanner ∨ bn = Gen.cert_P256PublicKeyBanner) ∧
    ((∃ r, unmarshalSigningPublicKey bn b = .ok r) → bn = Gen.cert_Ed25519PublicKeyBanner ∨ bn = Gen.cert_ECDSAP256PublicKeyBanner) ∧
    ((∃ r, unmarshalPrivateKey bn b = .ok r) → bn = Gen.cert_X25519PrivateKeyBanner ∨ bn = Gen.cert_P256PrivateKeyBanner) ∧
    ((∃ r, unmarshalSigningPrivateKey bn b = .ok r) → bn = Gen.cert_Ed25519PrivateKeyBanner ∨ bn = Gen.cert_ECDSAP256PrivateKeyBanner) := by
  refine ⟨?_, ?_, ?_, ?_⟩
  · unfold unmarshalPublicKey; rintro ⟨r, h⟩
    repeat' split at h
    all_goals first | (cases h; done) | simp_all
  · unfold unmarshalSigningPublicKey; rintro ⟨r, h⟩
    repeat' split at h
    all_goals first | (cases h; done) | simp_all
  · unfold unmarshalPrivateKey; rintro ⟨r, h⟩
    repeat' split at h
    all_goals first | (cases h; done) | simp_all
  · unfold unmarshalSigningPrivateKey; rintro ⟨r, h⟩
    repeat' split at h
    all_goals first | (cases h; done) | simp_all

/-- An encrypted key is never returned by the plain signing-key reader. -/
theorem encrypted_banner_not_plain (b : Bytes) :
    unmarshalSigningPrivateKey Gen.cert_EncryptedEd25519PrivateKeyBanner b = .error .encrypted ∧
    unmarshalSigningPrivateKey Gen.cert_EncryptedECDSAP256PrivateKeyBanner b = .error .encrypted := by
  constructor <;>
    simp [unmarshalSigningPrivateKey, Gen.cert_EncryptedEd25519PrivateKeyBanner, Gen.cert_EncryptedECDSAP256PrivateKeyBanner]

/-- Parameter bounds: the range check passes exactly for memory ≥ 1, 1 ≤ parallelism ≤ 255, iterations ≥ 1. -/
theorem params_bounds (a : Argon) :
    checkArgon a = none ↔ 0 < a.memory ∧ 0 < a.parallelism ∧ a.parallelism ≤ 255 ∧ 0 < a.iterations := by
  unfold checkArgon
  by_cases h1 : a.memory = 0
  · simp [h1]
  · by_cases h2 : a.parallelism = 0 ∨ a.parallelism > 255
    · simp only [h1, h2, if_false, if_true, reduceCtorEq, false_iff]; omega
    · by_cases h3 : a.iterations = 0
      · simp [h1, h2, h3]
      · simp only [h1, h2, h3, if_false, true_iff]; omega

/-- What a successful decryption went through: the banner is the encrypted-key banner of the returned curve,
the parameters are within bounds, the Argon2 version and algorithm are the supported ones, the salt has at
least 128 bits, and the key has the curve's length. -/
theorem decrypt_ok_bounds (K : KeyCrypto) (pass : Bytes) (banner : String) (body : Bytes) (curve : Nat) (key : Bytes)
    (h : decrypt K pass banner body = .ok (curve, key)) :
    bannerCurve banner = some curve ∧ keyLengthOK curve key = true ∧
    ∃ d md a, decEncData (body.length + 1) {} body = some d ∧ d.metadata = some md ∧ md.argon = some a ∧
      checkArgon a = none ∧ md.algorithm = algAES ∧ a.version = argonVersion ∧ 16 ≤ a.salt.length := by
  unfold decrypt at h
  cases hb : bannerCurve banner with
  | none => rw [hb] at h; cases h
  | some c =>
    rw [hb] at h; simp only at h
    split at h
    · cases h
    · cases hd : decEncData (body.length + 1) {} body with
      | none => rw [hd] at h; cases h
      | some d =>
        rw [hd] at h; simp only at h
        obtain ⟨rfl, md, a, hm, ha, hc, h1, h2, h3, -, -, hk⟩ := (decryptMsg_ok_iff K pass c d curve key).mp h
        exact ⟨rfl, hk, d, md, a, rfl, hm, ha, hc, h1, h2, h3⟩

/-- **decrypt ∘ encrypt = key** for every lawful crypto, curve, key of the curve's length, passphrase,
parameters within bounds and 12-byte nonce — stated for *any* body that decodes to the message (`hpb`); the
body `encrypt` itself produces is `decrypt_encrypt` below. -/
theorem decrypt_of_decoding (K : LawfulKeyCrypto) (curve : Nat) (key pass : Bytes) (a : Argon) (nonce : Bytes)
    (banner : String) (body : Bytes)
    (hlen : curve = curve25519 ∧ key.length = 64 ∨ curve = curveP256 ∧ key.length = 32)
    (hparams : checkArgon a = none) (hnonce : nonce.length = nonceSize)
    (he : encrypt K.toKeyCrypto curve key pass a nonce = some (banner, body))
    (hbody : body.length ≠ 0)
    (hpb : decEncData (body.length + 1) {} body =
      some { metadata := some { algorithm := algAES, argon := some a },
             ciphertext := nonce ++ K.aeadSeal (K.kdf pass a) nonce key }) :
    decrypt K.toKeyCrypto pass banner body = .ok (curve, key) := by
  unfold encrypt at he
  by_cases hv : a.version ≠ argonVersion ∨ a.salt.length < 16
  · simp [hv] at he
  · simp only [hv, if_false] at he
    have hv1 : a.version = argonVersion := Classical.not_not.mp (fun h => hv (Or.inl h))
    have hs : 16 ≤ a.salt.length := by
      have : ¬ a.salt.length < 16 := fun h => hv (Or.inr h)
      omega
    cases hb : encryptedKeyBanner curve with
    | none => rw [hb] at he; cases he
    | some bn =>
      rw [hb] at he
      simp only [Option.some.injEq, Prod.mk.injEq] at he
      obtain ⟨rfl, -⟩ := he
      have hcur : bannerCurve bn = some curve := by
        unfold encryptedKeyBanner at hb
        unfold bannerCurve
        rcases hlen with ⟨hc, -⟩ | ⟨hc, -⟩
        · subst hc; simp only [if_true, Option.some.injEq] at hb; subst hb; simp
        · subst hc
          simp [curveP256, curve25519, Gen.cert_Curve_P256, Gen.cert_Curve_CURVE25519] at hb
          subst hb
          simp [Gen.cert_EncryptedECDSAP256PrivateKeyBanner, Gen.cert_EncryptedEd25519PrivateKeyBanner]
      unfold decrypt
      rw [hcur]; simp only [hbody, if_false, hpb]
      rw [decryptMsg_ok_iff]
      obtain ⟨h4, h5⟩ := take_drop_nonce nonce (K.aeadSeal (K.kdf pass a) nonce key) hnonce
      refine ⟨rfl, _, a, rfl, rfl, hparams, rfl, hv1, hs, ?_, ?_, ?_⟩
      · simp only [List.length_append, K.seal_length, hnonce]; omega
      · simp only [h4, h5, K.open_of_seal]
      · unfold keyLengthOK
        rcases hlen with ⟨hc, hk⟩ | ⟨hc, hk⟩
        · subst hc; simp [hk]; decide
        · subst hc; simp [hk]; decide

/-- **Any other passphrase is refused**: if the original ciphertext does not open under the key derived from
`pass'` (`hwrong`: AEAD authenticity + KDF collision freedom for this pair of passphrases — the crypto
assumption), decryption of the message `encrypt` produced never succeeds under `pass'`, whatever the banner. -/
theorem wrong_passphrase_refused (K : LawfulKeyCrypto) (key pass pass' : Bytes) (a : Argon) (nonce : Bytes)
    (banner : String) (body : Bytes) (hnonce : nonce.length = nonceSize)
    (hwrong : K.aeadOpen (K.kdf pass' a) nonce (K.aeadSeal (K.kdf pass a) nonce key) = none)
    (hpb : decEncData (body.length + 1) {} body =
      some { metadata := some { algorithm := algAES, argon := some a },
             ciphertext := nonce ++ K.aeadSeal (K.kdf pass a) nonce key }) :
    ∀ r, decrypt K.toKeyCrypto pass' banner body ≠ .ok r := by
  rintro ⟨c, k⟩ h
  unfold decrypt at h
  cases hb : bannerCurve banner with
  | none => rw [hb] at h; cases h
  | some cv =>
    rw [hb] at h; simp only at h
    split at h
    · cases h
    · rw [hpb] at h; simp only at h
      obtain ⟨-, md, a', hm, ha, -, -, -, -, -, ho, -⟩ := (decryptMsg_ok_iff _ _ _ _ _ _).mp h
      simp only [Option.some.injEq] at hm
      subst hm
      simp only [Option.some.injEq] at ha
      subst ha
      obtain ⟨h4, h5⟩ := take_drop_nonce nonce (K.aeadSeal (K.kdf pass a) nonce key) hnonce
      simp only [h4, h5] at ho
      rw [hwrong] at ho; cases ho

/-- **Any alteration of the ciphertext is refused or changes nothing**: if under the key derived from the right
passphrase and this nonce only the original ciphertext opens (AEAD authenticity for this key/nonce, `hauth`),
then every body that decodes to the same parameters and nonce and decrypts at all yields the original key. -/
theorem tamper_refused_or_same (K : LawfulKeyCrypto) (key pass : Bytes) (a : Argon) (nonce ct' : Bytes) (alg : Bytes)
    (banner : String) (body' : Bytes) (hnonce : nonce.length = nonceSize)
    (hauth : ∀ c m, K.aeadOpen (K.kdf pass a) nonce c = some m → c = K.aeadSeal (K.kdf pass a) nonce key)
    (hpb : decEncData (body'.length + 1) {} body' =
      some { metadata := some { algorithm := alg, argon := some a }, ciphertext := nonce ++ ct' })
    (curve : Nat) (k' : Bytes) (h : decrypt K.toKeyCrypto pass banner body' = .ok (curve, k')) : k' = key := by
  unfold decrypt at h
  cases hb : bannerCurve banner with
  | none => rw [hb] at h; cases h
  | some cv =>
    rw [hb] at h; simp only at h
    split at h
    · cases h
    · rw [hpb] at h; simp only at h
      obtain ⟨-, md, a', hm, ha, -, -, -, -, -, ho, -⟩ := (decryptMsg_ok_iff _ _ _ _ _ _).mp h
      simp only [Option.some.injEq] at hm
      subst hm
      simp only [Option.some.injEq] at ha
      subst ha
      obtain ⟨h4, h5⟩ := take_drop_nonce nonce ct' hnonce
      simp only [h4, h5] at ho
      have hc := hauth _ _ ho
      rw [hc, K.open_of_seal] at ho
      exact (Option.some.inj ho).symm

/-- **decrypt ∘ encrypt = key**, no codec hypothesis: for every lawful AEAD/KDF, both curves, every key of the
curve's length, every passphrase, every parameter set inside the Go types (`ArgonWF`) that passes the range
check, every salt of 16 … 2^32 bytes and every 12-byte nonce, decrypting what `encrypt` produced with the same
passphrase returns exactly the curve and the key. -/
theorem decrypt_encrypt (K : LawfulKeyCrypto) (curve : Nat) (key pass : Bytes) (a : Argon) (nonce : Bytes)
    (banner : String) (body : Bytes)
    (hlen : curve = curve25519 ∧ key.length = 64 ∨ curve = curveP256 ∧ key.length = 32)
    (hparams : checkArgon a = none) (hwf : ArgonWF a) (hsalt : a.salt.length < 2 ^ 32) (hnonce : nonce.length = nonceSize)
    (he : encrypt K.toKeyCrypto curve key pass a nonce = some (banner, body)) :
    decrypt K.toKeyCrypto pass banner body = .ok (curve, key) := by
  have hb : (nonce ++ K.aeadSeal (K.kdf pass a) nonce key).length < 2 ^ 64 := by
    rw [List.length_append, K.seal_length, hnonce]
    rcases hlen with ⟨-, hk⟩ | ⟨-, hk⟩ <;> rw [hk] <;> decide
  have hrt := decEncData_encrypted a hwf (nonce ++ K.aeadSeal (K.kdf pass a) nonce key) hsalt hb
  have hbody : body = encEncData (msgOf a (nonce ++ K.aeadSeal (K.kdf pass a) nonce key)) := by
    unfold encrypt at he
    split at he
    · cases he
    · split at he
      · cases he
      · simp only [Option.some.injEq, Prod.mk.injEq] at he
        exact he.2.symm
  subst hbody
  exact decrypt_of_decoding K curve key pass a nonce banner _ hlen hparams hnonce he hrt.2 hrt.1

/-- **Any other passphrase is refused**, for the body `encrypt` produced (no codec hypothesis). -/
theorem wrong_passphrase_refused_encrypted (K : LawfulKeyCrypto) (curve : Nat) (key pass pass' : Bytes) (a : Argon)
    (nonce : Bytes) (banner banner' : String) (body : Bytes) (hwf : ArgonWF a) (hsalt : a.salt.length < 2 ^ 32)
    (hkey : key.length < 2 ^ 32) (hnonce : nonce.length = nonceSize)
    (he : encrypt K.toKeyCrypto curve key pass a nonce = some (banner, body))
    (hwrong : K.aeadOpen (K.kdf pass' a) nonce (K.aeadSeal (K.kdf pass a) nonce key) = none) :
    ∀ r, decrypt K.toKeyCrypto pass' banner' body ≠ .ok r := by
  have hb : (nonce ++ K.aeadSeal (K.kdf pass a) nonce key).length < 2 ^ 64 := by
    rw [List.length_append, K.seal_length, hnonce]; unfold nonceSize; omega
  have hrt := decEncData_encrypted a hwf (nonce ++ K.aeadSeal (K.kdf pass a) nonce key) hsalt hb
  have hbody : body = encEncData (msgOf a (nonce ++ K.aeadSeal (K.kdf pass a) nonce key)) := by
    unfold encrypt at he
    split at he
    · cases he
    · split at he
      · cases he
      · simp only [Option.some.injEq, Prod.mk.injEq] at he
        exact he.2.symm
  subst hbody
  exact wrong_passphrase_refused K key pass pass' a nonce banner' _ hnonce hwrong hrt.1

/-! ### Non-vacuity: a lawful crypto exists and the hypotheses of the conditional theorems are satisfiable -/

example : ∃ K : LawfulKeyCrypto, ∀ k n m, K.aeadOpen k n (K.aeadSeal k n m) = some m := ⟨toyCrypto, toyCrypto.open_of_seal⟩

example : decrypt toyCrypto.toKeyCrypto [1] Gen.cert_EncryptedECDSAP256PrivateKeyBanner toyBody = .ok (curveP256, toyKey) := by
  decide

example : encrypt toyCrypto.toKeyCrypto curveP256 toyKey [1] toyArgon toyNonce =
    some (Gen.cert_EncryptedECDSAP256PrivateKeyBanner, toyBody) := by decide

example : checkArgon toyArgon = none := by decide

example : ArgonWF toyArgon ∧ toyArgon.salt.length < 2 ^ 32 := by unfold ArgonWF; decide

end Nebula.Props.C43
