/-
C35 — Lighthouse information is accepted only from authorized senders.

"A lighthouse records underlay addresses and relays for overlay address A only from a tunnel authenticated as
A, and answers queries only when it is configured as a lighthouse. A non-lighthouse node accepts query
answers and punch requests only from its configured lighthouses, and ignores host updates and queries."

Quantifier: all lighthouse messages (`Msg`: every type value, v1 `oldVpn` / v2 `vpn` addressing or none, arbitrary
claimed addresses, relays, missing Details), from any sender (`from_` = the overlay addresses the tunnel was
authenticated for: lighthouses, ordinary and multi-address peers), to lighthouse and non-lighthouse nodes, in
any cache state `s`.

Partial in one respect only: "authenticated as A" is the `fromVpnAddrs` argument the packet path passes to
`HandleRequest` (the tunnel's certified addresses, C05/C09); gogo-protobuf decoding is exercised by the
correspondence stream, not modelled.
-/
import Nebula.Lemmas.Lighthouse

namespace Nebula.Props.C35
open Nebula.Net Nebula.RemoteList Nebula.Lighthouse Nebula.Lemmas.Lighthouse
open Nebula.Spec.Lighthouse (fromLighthouse mayRecord)

/-- A node that is not a lighthouse ignores queries and host updates: no state change, nothing sent, nothing
scheduled. -/
theorem nonlh_ignores_updates_and_queries (c : Cfg) (s : LH) (from_ : List Addr) (m : Msg)
    (hn : c.amLighthouse = false) (ht : m.typ = typHostQuery ∨ m.typ = typHostUpdateNotification) :
    (handleRequest c s from_ m).1 = s ∧ (handleRequest c s from_ m).2.sent = [] ∧
    (handleRequest c s from_ m).2.punches = [] ∧ (handleRequest c s from_ m).2.trigger = none := by
  rcases ht with ht | ht <;>
    simp [handleRequest, ht, typHostQuery, typHostQueryReply, typHostUpdateNotification,
      typHostPunchNotification, Gen.lh_NebulaMeta_HostQuery, Gen.lh_NebulaMeta_HostQueryReply,
      Gen.lh_NebulaMeta_HostUpdateNotification, Gen.lh_NebulaMeta_HostPunchNotification,
      handleHostQuery, handleHostUpdateNotification, updateAccepted, hn]

/-- Query replies and punch notifications from anyone who is not one of my lighthouses have no effect at
all (on lighthouses and non-lighthouses alike). -/
theorem accepts_only_from_lighthouses (c : Cfg) (s : LH) (from_ : List Addr) (m : Msg)
    (hn : fromLighthouse c from_ = false) (ht : m.typ = typHostQueryReply ∨ m.typ = typHostPunchNotification) :
    (handleRequest c s from_ m).1 = s ∧ (handleRequest c s from_ m).2.sent = [] ∧
    (handleRequest c s from_ m).2.punches = [] ∧ (handleRequest c s from_ m).2.trigger = none := by
  have hl : isAnyLighthouseAddr c from_ = false := hn
  rcases ht with ht | ht <;>
    simp [handleRequest, ht, typHostQuery, typHostQueryReply, typHostUpdateNotification,
      typHostPunchNotification, Gen.lh_NebulaMeta_HostQuery, Gen.lh_NebulaMeta_HostQueryReply,
      Gen.lh_NebulaMeta_HostUpdateNotification, Gen.lh_NebulaMeta_HostPunchNotification,
      handleHostQueryReply, handleHostPunchNotification, hl]

/-- Every other message type has no effect. -/
theorem other_types_ignored (c : Cfg) (s : LH) (from_ : List Addr) (m : Msg)
    (h1 : m.typ ≠ typHostQuery) (h2 : m.typ ≠ typHostQueryReply) (h3 : m.typ ≠ typHostUpdateNotification)
    (h4 : m.typ ≠ typHostPunchNotification) :
    (handleRequest c s from_ m).1 = s ∧ (handleRequest c s from_ m).2.sent = [] ∧
    (handleRequest c s from_ m).2.punches = [] ∧ (handleRequest c s from_ m).2.trigger = none := by
  simp [handleRequest, h1, h2, h3, h4]


/-- Only a lighthouse ever answers: whatever the message, a non-lighthouse sends nothing. -/
theorem answers_only_if_lighthouse (c : Cfg) (s : LH) (from_ : List Addr) (m : Msg)
    (hs : (handleRequest c s from_ m).2.sent ≠ []) : c.amLighthouse = true := by
  cases hn : c.amLighthouse with
  | true => rfl
  | false =>
    exfalso; apply hs
    by_cases h1 : m.typ = typHostQuery
    · exact (nonlh_ignores_updates_and_queries c s from_ m hn (Or.inl h1)).2.1
    by_cases h3 : m.typ = typHostUpdateNotification
    · exact (nonlh_ignores_updates_and_queries c s from_ m hn (Or.inr h3)).2.1
    by_cases h2 : m.typ = typHostQueryReply
    · simp only [handleRequest, h2, typHostQuery, typHostQueryReply, Gen.lh_NebulaMeta_HostQuery,
        Gen.lh_NebulaMeta_HostQueryReply, handleHostQueryReply]
      simp
      split
      · rfl
      · split <;> rfl
    by_cases h4 : m.typ = typHostPunchNotification
    · simp only [handleRequest, h4, typHostQuery, typHostQueryReply, typHostUpdateNotification,
        typHostPunchNotification, Gen.lh_NebulaMeta_HostQuery, Gen.lh_NebulaMeta_HostQueryReply,
        Gen.lh_NebulaMeta_HostUpdateNotification, Gen.lh_NebulaMeta_HostPunchNotification,
        handleHostPunchNotification]
      simp
      split
      · rfl
      · split <;> rfl
    exact (other_types_ignored c s from_ m h1 h2 h3 h4).2.1


/-- Punches and handshake triggers happen only for messages from one of my configured lighthouses. -/
theorem acts_only_for_lighthouses (c : Cfg) (s : LH) (from_ : List Addr) (m : Msg)
    (h : (handleRequest c s from_ m).2.punches ≠ [] ∨ (handleRequest c s from_ m).2.trigger ≠ none) :
    fromLighthouse c from_ = true := by
  cases hn : fromLighthouse c from_ with
  | true => rfl
  | false =>
    exfalso
    have hall : (handleRequest c s from_ m).2.punches = [] ∧ (handleRequest c s from_ m).2.trigger = none := by
      by_cases h2 : m.typ = typHostQueryReply
      · exact (accepts_only_from_lighthouses c s from_ m hn (Or.inl h2)).2.2
      by_cases h4 : m.typ = typHostPunchNotification
      · exact (accepts_only_from_lighthouses c s from_ m hn (Or.inr h4)).2.2
      by_cases h1 : m.typ = typHostQuery
      · have := query_keeps_state c s from_ (m.details.getD {})
        simp only [handleRequest, h1, typHostQuery, Gen.lh_NebulaMeta_HostQuery] at this ⊢
        simpa using this.2
      by_cases h3 : m.typ = typHostUpdateNotification
      · have := update_no_punch c s from_ (m.details.getD {})
        simp only [handleRequest, h3, typHostQuery, typHostQueryReply, typHostUpdateNotification,
          Gen.lh_NebulaMeta_HostQuery, Gen.lh_NebulaMeta_HostQueryReply,
          Gen.lh_NebulaMeta_HostUpdateNotification] at this ⊢
        simpa using this
      exact (other_types_ignored c s from_ m h1 h2 h3 h4).2.2
    rcases h with h | h
    · exact h hall.1
    · exact h hall.2

/-- The cache changes only on a lighthouse receiving a host update, or on a query reply from one of my
lighthouses. -/
theorem records_only_when_authorized (c : Cfg) (s : LH) (from_ : List Addr) (m : Msg)
    (h : mayRecord c from_ m.typ = false) : (handleRequest c s from_ m).1 = s := by
  simp only [mayRecord, Bool.or_eq_false_iff, Bool.and_eq_false_iff] at h
  by_cases h1 : m.typ = typHostQuery
  · have := query_keeps_state c s from_ (m.details.getD {})
    simp only [handleRequest, h1, typHostQuery, Gen.lh_NebulaMeta_HostQuery] at this ⊢
    simpa using this.1
  by_cases h4 : m.typ = typHostPunchNotification
  · have := punch_keeps_state c s from_ (m.details.getD {})
    simp only [handleRequest, h4, typHostQuery, typHostQueryReply, typHostUpdateNotification,
      typHostPunchNotification, Gen.lh_NebulaMeta_HostQuery, Gen.lh_NebulaMeta_HostQueryReply,
      Gen.lh_NebulaMeta_HostUpdateNotification, Gen.lh_NebulaMeta_HostPunchNotification] at this ⊢
    simpa using this
  by_cases h3 : m.typ = typHostUpdateNotification
  · have hl : c.amLighthouse = false := by
      rcases h.1 with h' | h'
      · simp [h3] at h'
      · exact h'
    exact (nonlh_ignores_updates_and_queries c s from_ m hl (Or.inr h3)).1
  by_cases h2 : m.typ = typHostQueryReply
  · have hl : fromLighthouse c from_ = false := by
      rcases h.2 with h' | h'
      · simp [h2] at h'
      · exact h'
    exact (accepts_only_from_lighthouses c s from_ m hl (Or.inl h2)).1
  exact (other_types_ignored c s from_ m h1 h2 h3 h4).1

/-- MAIN (ownership): whatever message arrives from a tunnel authenticated for `from_`, in every remote list
the entry recorded under an owner `A` other than the sender's primary authenticated address is unchanged —
addresses and relays "for A" are written only by a tunnel authenticated as A. (`none` on the right: the
list did not exist before and has no entry for `A`.) -/
theorem records_only_owner (c : Cfg) (s : LH) (from_ : List Addr) (m : Msg) (id : Nat) (rl' : RL) (A : Addr)
    (hA : A ≠ from_.headD ⟨.v4, 0⟩) (h : (handleRequest c s from_ m).1.getList id = some rl') :
    getOwner rl'.cache A = ((s.getList id).map (fun rl => getOwner rl.cache A)).getD none := by
  by_cases h3 : m.typ = typHostUpdateNotification
  · simp only [handleRequest, h3, typHostQuery, typHostQueryReply, typHostUpdateNotification,
      Gen.lh_NebulaMeta_HostQuery, Gen.lh_NebulaMeta_HostQueryReply,
      Gen.lh_NebulaMeta_HostUpdateNotification] at h
    exact update_other_owner c s from_ _ id rl' A hA (by simpa using h)
  by_cases h2 : m.typ = typHostQueryReply
  · simp only [handleRequest, h2, typHostQuery, typHostQueryReply, Gen.lh_NebulaMeta_HostQuery,
      Gen.lh_NebulaMeta_HostQueryReply] at h
    exact reply_other_owner c s from_ _ id rl' A hA (by simpa using h)
  have hs : (handleRequest c s from_ m).1 = s := by
    apply records_only_when_authorized
    simp [mayRecord, h2, h3]
  rw [hs] at h; rw [h]; rfl

/-- A host update that names an overlay address the sender is not authenticated for is dropped entirely. -/
theorem spoofed_owner_rejected (c : Cfg) (s : LH) (from_ : List Addr) (d : Details) (a : Addr)
    (ha : (updDetailsVpn d).1 = some a) (hf : memB from_ a = false) :
    handleRequest c s from_ { typ := typHostUpdateNotification, details := some d } = (s, {}) := by
  have := update_spoofed_dropped c s from_ d a ha hf
  simpa [handleRequest, typHostQuery, typHostQueryReply, typHostUpdateNotification,
    Gen.lh_NebulaMeta_HostQuery, Gen.lh_NebulaMeta_HostQueryReply,
    Gen.lh_NebulaMeta_HostUpdateNotification] using this

/-- Histories: if no message of a history came from a tunnel whose primary authenticated address is `A`, no
remote list holds anything recorded under `A` (starting from an empty cache). -/
theorem history_records_only_owner (c : Cfg) (A : Addr) (msgs : List (List Addr × Msg))
    (hno : ∀ x ∈ msgs, A ≠ x.1.headD ⟨.v4, 0⟩) :
    ∀ s : LH, (∀ id rl, s.getList id = some rl → getOwner rl.cache A = none) →
      ∀ id rl, (msgs.foldl (fun s x => (handleRequest c s x.1 x.2).1) s).getList id = some rl →
        getOwner rl.cache A = none := by
  induction msgs with
  | nil => intro s hs id rl h; exact hs id rl h
  | cons x rest ih =>
    intro s hs
    apply ih (fun y hy => hno y (by simp [hy]))
    intro id rl h
    rw [records_only_owner c s x.1 x.2 id rl A (hno x (by simp)) h]
    cases hg : s.getList id with
    | none => rfl
    | some rl0 => simp [hs id rl0 hg]

-- non-vacuity: on a lighthouse a host update from 10.128.0.10 is recorded under that owner and acknowledged;
-- the same update claiming to be 10.128.0.11 is dropped; a non-lighthouse ignores it
example :
    let c : Cfg := { amLighthouse := true, myNets := [⟨⟨.v4, 0x0a800001⟩, 24⟩], lighthouses := [],
                     ral := { allowList := none, inside := none }, initV := 2, staticList := [] }
    let peer : Addr := ⟨.v4, 0x0a80000a⟩
    let d : Details := { vpn := some ⟨.v6, 0xffff0a80000a⟩, v4 := [⟨⟨.v4, 0x01010101⟩, 4242⟩, ⟨⟨.v4, 0x0a800063⟩, 1⟩] }
    let r := handleRequest c {} [peer] { typ := typHostUpdateNotification, details := some d }
    (r.1.getList 0).map (fun rl => (getOwner rl.cache peer).map (·.v4r)) = some (some [⟨⟨.v4, 0x01010101⟩, 4242⟩]) ∧
    r.2.sent.length = 1 ∧
    let spoof : Msg := { typ := typHostUpdateNotification, details := some { d with vpn := some ⟨.v6, 0xffff0a80000b⟩ } }
    (handleRequest c {} [peer] spoof).2.sent = [] ∧
    (handleRequest { c with amLighthouse := false } {} [peer] { typ := typHostUpdateNotification, details := some d }).2.sent = [] := by
  decide


/-! ### configuration reloads: the gates follow the configuration in force at the time of the message -/

/-- every element of a run is one step of the node that was current at that time. -/
theorem trace_is_steps (n : Node) (evs : List NEv) :
    ∀ x ∈ runTrace n evs, x.2.2 = stepNode x.1 x.2.1 := by
  induction evs generalizing n with
  | nil => intro x hx; simp [runTrace] at hx
  | cons e rest ih =>
    intro x hx
    simp only [runTrace, List.mem_cons] at hx
    rcases hx with hx | hx
    · subst hx; rfl
    · exact ih _ x hx

/-- Over any history with reloads: a query reply / punch notification whose sender is not a lighthouse
*under the configuration in force when it arrives* changes nothing and triggers nothing. -/
theorem history_accepts_only_from_lighthouses_in_force (n : Node) (evs : List NEv)
    (b a : Node) (o : Outp) (f : List Addr) (m : Msg)
    (hx : (b, NEv.ev (.msg f m), a, o) ∈ runTrace n evs)
    (hn : fromLighthouse b.cfg f = false) (ht : m.typ = typHostQueryReply ∨ m.typ = typHostPunchNotification) :
    a.lh = b.lh ∧ o.sent = [] ∧ o.punches = [] ∧ o.trigger = none := by
  have hs := trace_is_steps n evs _ hx
  simp only [stepNode, Prod.mk.injEq] at hs
  obtain ⟨ha, ho⟩ := hs
  subst ha; subst ho
  exact accepts_only_from_lighthouses b.cfg b.lh f m hn ht

/-- … and whatever the history, something is sent / the cache changes on a query or host update only if the
node is a lighthouse under the configuration in force. -/
theorem history_nonlh_ignores_updates_and_queries (n : Node) (evs : List NEv)
    (b a : Node) (o : Outp) (f : List Addr) (m : Msg)
    (hx : (b, NEv.ev (.msg f m), a, o) ∈ runTrace n evs)
    (hn : b.cfg.amLighthouse = false) (ht : m.typ = typHostQuery ∨ m.typ = typHostUpdateNotification) :
    a.lh = b.lh ∧ o.sent = [] ∧ o.punches = [] ∧ o.trigger = none := by
  have hs := trace_is_steps n evs _ hx
  simp only [stepNode, Prod.mk.injEq] at hs
  obtain ⟨ha, ho⟩ := hs
  subst ha; subst ho
  exact nonlh_ignores_updates_and_queries b.cfg b.lh f m hn ht

/-- `am_lighthouse` is not reloadable: a reload never changes whether the node answers as a lighthouse. -/
theorem reload_keeps_am_lighthouse (n : Node) (new : RawCfg) :
    (reloadNode n new).cfg.amLighthouse = n.cfg.amLighthouse := by
  have h2 : ∀ (c : Cfg) (hosts : List Addr), (reloadHosts c hosts).amLighthouse = c.amLighthouse := by
    intro c hosts; unfold reloadHosts; split <;> rfl
  have h3 : ∀ (c : Cfg) (s : LH) (a b : Bool), (reloadApply c s a b new).1.amLighthouse = c.amLighthouse := by
    intro c s a b; cases a <;> cases b <;> simp [reloadApply, reloadStatics, h2]
  unfold reloadNode
  simp only
  split
  · rfl
  · rename_i c hc
    rw [h3]
    split at hc
    · split at hc
      · cases hc
      · simp only [Option.some.injEq] at hc; subst hc; rfl
    · simp only [Option.some.injEq] at hc; subst hc; rfl

/-- A reload whose remote allow lists are valid and whose `lighthouse.hosts` changed installs exactly the
configured list — additions, removals, permutations and replacements alike — provided every configured host
has a static entry (otherwise the reload of that key is refused and the list stays). -/
theorem reload_installs_configured_lighthouses (n : Node) (new : RawCfg)
    (hal : ∃ ral, parseRemoteAllow new.g new.ranges = .ok ral) (hch : new.hosts ≠ n.raw.hosts)
    (hst : ∀ h ∈ new.hosts, memB (staticsAfter n new) h = true) :
    (reloadNode n new).cfg.lighthouses = new.hosts := by
  obtain ⟨ral, hral⟩ := hal
  have hall : new.hosts.all (fun h => memB (staticsAfter n new) h) = true := List.all_eq_true.mpr hst
  have key : ∀ (c : Cfg), c.staticList = n.cfg.staticList →
      (reloadApply c n.lh (decide (new.statics ≠ n.raw.statics)) (decide (new.hosts ≠ n.raw.hosts)) new).1.lighthouses
        = new.hosts := by
    intro c hc
    have hH : decide (new.hosts ≠ n.raw.hosts) = true := by simpa using hch
    rw [hH]
    unfold staticsAfter at hall
    by_cases h2 : new.statics ≠ n.raw.statics
    · have hS : decide (new.statics ≠ n.raw.statics) = true := by simpa using h2
      rw [if_pos h2] at hall
      simp [reloadApply, hS, reloadStatics, reloadHosts, hall]
    · have hS : decide (new.statics ≠ n.raw.statics) = false := by simpa using h2
      rw [if_neg h2] at hall
      simp [reloadApply, hS, reloadHosts, hc, hall]
  unfold reloadNode
  simp only [hral]
  split
  · rename_i hc
    split at hc <;> cases hc
  · rename_i c hc
    apply key
    split at hc <;> (simp only [Option.some.injEq] at hc; subst hc; rfl)

/-- A lighthouse removed from `lighthouse.hosts` by a reload loses its authority at once: its query replies
and punch notifications have no effect under the reloaded configuration. -/
theorem demoted_lighthouse_loses_authority (n : Node) (new : RawCfg)
    (hal : ∃ ral, parseRemoteAllow new.g new.ranges = .ok ral) (hch : new.hosts ≠ n.raw.hosts)
    (hst : ∀ h ∈ new.hosts, memB (staticsAfter n new) h = true)
    (f : List Addr) (hf : f.any (fun a => memB new.hosts a) = false) (m : Msg)
    (ht : m.typ = typHostQueryReply ∨ m.typ = typHostPunchNotification) :
    let n' := reloadNode n new
    (handleRequest n'.cfg n'.lh f m).1 = n'.lh ∧ (handleRequest n'.cfg n'.lh f m).2.sent = [] ∧
    (handleRequest n'.cfg n'.lh f m).2.punches = [] ∧ (handleRequest n'.cfg n'.lh f m).2.trigger = none := by
  intro n'
  apply accepts_only_from_lighthouses
  · simp only [fromLighthouse, n', reload_installs_configured_lighthouses n new hal hch hst]; exact hf
  · exact ht

-- non-vacuity: L1 and L2 configured; a reload removes L2; a punch notification from L2 then does nothing,
-- one from L1 still schedules
example :
    let l1 : Addr := ⟨.v4, 0x0a800002⟩
    let l2 : Addr := ⟨.v4, 0x0a800003⟩
    let st : List (Addr × List AP) := [(l1, [⟨⟨.v4, 0x46010102⟩, 4242⟩]), (l2, [⟨⟨.v4, 0x46010103⟩, 4242⟩])]
    let c : Cfg := { amLighthouse := false, myNets := [⟨⟨.v4, 0x0a800001⟩, 24⟩], lighthouses := [l1, l2],
                     ral := { allowList := none, inside := none }, initV := 2, staticList := [l1, l2] }
    let n : Node := { cfg := c, lh := {}, raw := { hosts := [l1, l2], statics := st } }
    let n' := reloadNode n { hosts := [l1], statics := st }
    let d : Details := { oldVpn := 0x0a800014, v4 := [⟨⟨.v4, 0x01010101⟩, 4242⟩] }
    n'.cfg.lighthouses = [l1] ∧
    (handleRequest n.cfg n.lh [l2] { typ := typHostPunchNotification, details := some d }).2.punches.length = 2 ∧
    (handleRequest n'.cfg n'.lh [l2] { typ := typHostPunchNotification, details := some d }).2.punches = [] ∧
    (handleRequest n'.cfg n'.lh [l1] { typ := typHostPunchNotification, details := some d }).2.punches.length = 2 := by
  decide


/-! ### the reused decode scratch: undecodable packets with a decodable prefix -/

/-- merging a packet into a reset scratch yields the packet's own content. -/
theorem merge_into_reset_is_identity (p : Packet) :
    unmarshalInto 0 {} p = (p.msg.typ, p.details.getD {}) := by
  cases p with
  | mk typ details ok =>
    cases details with
    | none => rfl
    | some d =>
      cases d with
      | mk oldVpn vpn v4 v6 oldRelays relays =>
        simp only [unmarshalInto, mergeDetails, Packet.msg, Option.getD_some, List.nil_append]
        congr 1
        cases vpn <;> by_cases h : oldVpn = 0 <;> simp [h]

/-- Every decode starts from a reset scratch: what `HandleRequest` does with a packet — cache, messages
sent, punches, trigger, and the scratch it leaves — does not depend on what earlier packets left in the
scratch. (This is the fact the handler relies on; it holds because `resetMeta` is the first statement.) -/
theorem decode_starts_from_reset (c : Cfg) (h : HState) (t : Nat) (x : Details) (f : List Addr) (p : Packet) :
    handlePacket c { h with scratchTyp := t, scratch := x } f p = handlePacket c h f p := rfl

/-- a decodable packet is handled as the message it carries, whatever the scratch held. -/
theorem packet_is_its_own_message (c : Cfg) (h : HState) (f : List Addr) (p : Packet) (hok : p.ok = true) :
    (handlePacket c h f p).1.lh = (handleRequest c h.lh f p.msg).1 ∧
    (handlePacket c h f p).2 = (handleRequest c h.lh f p.msg).2 := by
  have hm := merge_into_reset_is_identity p
  simp only [handlePacket, HState.resetMeta, hok, Bool.not_true, Bool.false_eq_true, if_false, hm]
  exact ⟨rfl, rfl⟩

/-- an undecodable packet — whatever its decodable prefix carries — changes nothing and sends nothing. -/
theorem undecodable_no_effect (c : Cfg) (h : HState) (f : List Addr) (p : Packet) (hbad : p.ok = false) :
    (handlePacket c h f p).1.lh = h.lh ∧ (handlePacket c h f p).2.sent = [] ∧
    (handlePacket c h f p).2.punches = [] ∧ (handlePacket c h f p).2.trigger = none := by
  simp [handlePacket, HState.resetMeta, hbad]

/-- The lighthouse gate holds for every packet after any earlier packets (decodable or not): a query reply /
punch notification from a sender that is not a configured lighthouse has no effect, whatever residue the
scratch holds. -/
theorem packets_accept_only_from_lighthouses (c : Cfg) (h : HState) (f : List Addr) (p : Packet)
    (hn : fromLighthouse c f = false)
    (ht : p.msg.typ = typHostQueryReply ∨ p.msg.typ = typHostPunchNotification) :
    (handlePacket c h f p).1.lh = h.lh ∧ (handlePacket c h f p).2.sent = [] ∧
    (handlePacket c h f p).2.punches = [] ∧ (handlePacket c h f p).2.trigger = none := by
  cases hok : p.ok with
  | false => exact undecodable_no_effect c h f p hok
  | true =>
    obtain ⟨h1, h2⟩ := packet_is_its_own_message c h f p hok
    rw [h1, h2]
    exact accepts_only_from_lighthouses c h.lh f p.msg hn ht

/-- MAIN over packet histories: with undecodable packets (carrying arbitrary addresses, relays and claimed
owners in their decodable prefix) interleaved at will, from any senders: if no DECODABLE packet came from a
tunnel whose primary authenticated address is `A`, nothing is ever recorded under `A` — in particular an
undecodable packet of one sender never leaks into the next sender's message. -/
theorem packets_records_only_owner (c : Cfg) (A : Addr) (pkts : List (List Addr × Packet))
    (hno : ∀ x ∈ pkts, x.2.ok = true → A ≠ x.1.headD ⟨.v4, 0⟩) :
    ∀ h : HState, (∀ id rl, h.lh.getList id = some rl → getOwner rl.cache A = none) →
      ∀ id rl, (runPackets c h pkts).lh.getList id = some rl → getOwner rl.cache A = none := by
  induction pkts with
  | nil => intro h hs id rl hg; exact hs id rl hg
  | cons x rest ih =>
    intro h hs
    obtain ⟨f, p⟩ := x
    simp only [runPackets]
    apply ih (fun y hy => hno y (List.mem_cons_of_mem _ hy))
    intro id rl hg
    cases hok : p.ok with
    | false =>
      rw [(undecodable_no_effect c h f p hok).1] at hg
      exact hs id rl hg
    | true =>
      rw [(packet_is_its_own_message c h f p hok).1] at hg
      rw [records_only_owner c h.lh f p.msg id rl A (hno (f, p) (by simp) hok) hg]
      cases hg0 : h.lh.getList id with
      | none => rfl
      | some rl0 => simp [hs id rl0 hg0]

-- non-vacuity: on a lighthouse, peer P's undecodable packet carrying "evil" addresses and relays, then V's host
-- update: what is recorded under V is V's own report only, and the scratch residue of P's packet is gone
example :
    let c : Cfg := { amLighthouse := true, myNets := [⟨⟨.v4, 0x0a800001⟩, 24⟩], lighthouses := [],
                     ral := { allowList := none, inside := none }, initV := 2, staticList := [] }
    let pP : Addr := ⟨.v4, 0x0a80000b⟩
    let pV : Addr := ⟨.v4, 0x0a80000a⟩
    let evilD : Details := { oldVpn := 0x0a80000a, v4 := [⟨⟨.v4, 0x06060606⟩, 666⟩], oldRelays := [0x0a80001e], relays := [⟨.v6, 0xffff0a80001f⟩] }
    let evil : Packet := { typ := some typHostUpdateNotification, ok := false, details := some evilD }
    let good : Packet := { typ := some typHostUpdateNotification, details := some { v4 := [⟨⟨.v4, 0x01010101⟩, 4242⟩] } }
    let h := runPackets c {} [([pP], evil), ([pV], good)]
    (h.lh.getList 0).map (fun rl => (getOwner rl.cache pV).map (fun oc => (oc.v4r, oc.relay))) =
      some (some ([⟨⟨.v4, 0x01010101⟩, 4242⟩], [])) ∧
    (handlePacket c {} [pP] evil).1.scratch.v4 = [⟨⟨.v4, 0x06060606⟩, 666⟩] := by
  decide

end Nebula.Props.C35
