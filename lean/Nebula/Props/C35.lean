import Nebula.Model.Lighthouse
import Nebula.Spec.Lighthouse
namespace Nebula.Props.C35
theorem stub : True := trivial
end Nebula.Props.C35
