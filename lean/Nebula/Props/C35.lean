/-
C35 — Lighthouse information is accepted only from authorized senders.

"A lighthouse records underlay addresses and relays for overlay address A only from a tunnel authenticated as
A, and answers queries only when it is configured as a lighthouse. A non-lighthouse node accepts query
answers and punch requests only from its configured lighthouses, and ignores host updates and queries."

Quantifier: all lighthouse messages (`Msg`: every type value, v1 `oldVpn` / v2 `vpn` addressing or none, arbitrary
claimed addresses, relays, missing Details), from any sender (`from_` = the overlay addresses the tunnel was
authenticated for: lighthouses, ordinary and multi-address peers), to lighthouse and non-lighthouse nodes, in
any cache state `s`.

Partial in one respect only: "authenticated as A" is the `fromVpnAddrs` argument the packet path passes to
`HandleRequest` (the tunnel's certified addresses, C05/C09); gogo-protobuf decoding is exercised by the
correspondence stream, not modelled.
-/
import Nebula.Lemmas.Lighthouse

namespace Nebula.Props.C35
open Nebula.Net Nebula.RemoteList Nebula.Lighthouse Nebula.Lemmas.Lighthouse
open Nebula.Spec.Lighthouse (fromLighthouse mayRecord)

/-- A node that is not a lighthouse ignores queries and host updates: no state change, nothing sent, nothing
scheduled. -/
theorem nonlh_ignores_updates_and_queries (c : Cfg) (s : LH) (from_ : List Addr) (m : Msg)
    (hn : c.amLighthouse = false) (ht : m.typ = typHostQuery ∨ m.typ = typHostUpdateNotification) :
    (handleRequest c s from_ m).1 = s ∧ (handleRequest c s from_ m).2.sent = [] ∧
    (handleRequest c s from_ m).2.punches = [] ∧ (handleRequest c s from_ m).2.trigger = none := by
  rcases ht with ht | ht <;>
    simp [handleRequest, ht, typHostQuery, typHostQueryReply, typHostUpdateNotification,
      typHostPunchNotification, Gen.lh_NebulaMeta_HostQuery, Gen.lh_NebulaMeta_HostQueryReply,
      Gen.lh_NebulaMeta_HostUpdateNotification, Gen.lh_NebulaMeta_HostPunchNotification,
      handleHostQuery, handleHostUpdateNotification, updateAccepted, hn]

/-- Query replies and punch notifications from anyone who is not one of my lighthouses have no effect at
all (on lighthouses and non-lighthouses alike). -/
theorem accepts_only_from_lighthouses (c : Cfg) (s : LH) (from_ : List Addr) (m : Msg)
    (hn : fromLighthouse c from_ = false) (ht : m.typ = typHostQueryReply ∨ m.typ = typHostPunchNotification) :
    (handleRequest c s from_ m).1 = s ∧ (handleRequest c s from_ m).2.sent = [] ∧
    (handleRequest c s from_ m).2.punches = [] ∧ (handleRequest c s from_ m).2.trigger = none := by
  have hl : isAnyLighthouseAddr c from_ = false := hn
  rcases ht with ht | ht <;>
    simp [handleRequest, ht, typHostQuery, typHostQueryReply, typHostUpdateNotification,
      typHostPunchNotification, Gen.lh_NebulaMeta_HostQuery, Gen.lh_NebulaMeta_HostQueryReply,
      Gen.lh_NebulaMeta_HostUpdateNotification, Gen.lh_NebulaMeta_HostPunchNotification,
      handleHostQueryReply, handleHostPunchNotification, hl]

/-- Every other message type has no effect. -/
theorem other_types_ignored (c : Cfg) (s : LH) (from_ : List Addr) (m : Msg)
    (h1 : m.typ ≠ typHostQuery) (h2 : m.typ ≠ typHostQueryReply) (h3 : m.typ ≠ typHostUpdateNotification)
    (h4 : m.typ ≠ typHostPunchNotification) :
    (handleRequest c s from_ m).1 = s ∧ (handleRequest c s from_ m).2.sent = [] ∧
    (handleRequest c s from_ m).2.punches = [] ∧ (handleRequest c s from_ m).2.trigger = none := by
  simp [handleRequest, h1, h2, h3, h4]


/-- Only a lighthouse ever answers: whatever the message, a non-lighthouse sends nothing. -/
theorem answers_only_if_lighthouse (c : Cfg) (s : LH) (from_ : List Addr) (m : Msg)
    (hs : (handleRequest c s from_ m).2.sent ≠ []) : c.amLighthouse = true := by
  cases hn : c.amLighthouse with
  | true => rfl
  | false =>
    exfalso; apply hs
    by_cases h1 : m.typ = typHostQuery
    · exact (nonlh_ignores_updates_and_queries c s from_ m hn (Or.inl h1)).2.1
    by_cases h3 : m.typ = typHostUpdateNotification
    · exact (nonlh_ignores_updates_and_queries c s from_ m hn (Or.inr h3)).2.1
    by_cases h2 : m.typ = typHostQueryReply
    · simp only [handleRequest, h2, typHostQuery, typHostQueryReply, Gen.lh_NebulaMeta_HostQuery,
        Gen.lh_NebulaMeta_HostQueryReply, handleHostQueryReply]
      simp
      split
      · rfl
      · split <;> rfl
    by_cases h4 : m.typ = typHostPunchNotification
    · simp only [handleRequest, h4, typHostQuery, typHostQueryReply, typHostUpdateNotification,
        typHostPunchNotification, Gen.lh_NebulaMeta_HostQuery, Gen.lh_NebulaMeta_HostQueryReply,
        Gen.lh_NebulaMeta_HostUpdateNotification, Gen.lh_NebulaMeta_HostPunchNotification,
        handleHostPunchNotification]
      simp
      split
      · rfl
      · split <;> rfl
    exact (other_types_ignored c s from_ m h1 h2 h3 h4).2.1


/-- Punches and handshake triggers happen only for messages from one of my configured lighthouses. -/
theorem acts_only_for_lighthouses (c : Cfg) (s : LH) (from_ : List Addr) (m : Msg)
    (h : (handleRequest c s from_ m).2.punches ≠ [] ∨ (handleRequest c s from_ m).2.trigger ≠ none) :
    fromLighthouse c from_ = true := by
  cases hn : fromLighthouse c from_ with
  | true => rfl
  | false =>
    exfalso
    have hall : (handleRequest c s from_ m).2.punches = [] ∧ (handleRequest c s from_ m).2.trigger = none := by
      by_cases h2 : m.typ = typHostQueryReply
      · exact (accepts_only_from_lighthouses c s from_ m hn (Or.inl h2)).2.2
      by_cases h4 : m.typ = typHostPunchNotification
      · exact (accepts_only_from_lighthouses c s from_ m hn (Or.inr h4)).2.2
      by_cases h1 : m.typ = typHostQuery
      · have := query_keeps_state c s from_ (m.details.getD {})
        simp only [handleRequest, h1, typHostQuery, Gen.lh_NebulaMeta_HostQuery] at this ⊢
        simpa using this.2
      by_cases h3 : m.typ = typHostUpdateNotification
      · have := update_no_punch c s from_ (m.details.getD {})
        simp only [handleRequest, h3, typHostQuery, typHostQueryReply, typHostUpdateNotification,
          Gen.lh_NebulaMeta_HostQuery, Gen.lh_NebulaMeta_HostQueryReply,
          Gen.lh_NebulaMeta_HostUpdateNotification] at this ⊢
        simpa using this
      exact (other_types_ignored c s from_ m h1 h2 h3 h4).2.2
    rcases h with h | h
    · exact h hall.1
    · exact h hall.2

/-- The cache changes only on a lighthouse receiving a host update, or on a query reply from one of my
lighthouses. -/
theorem records_only_when_authorized (c : Cfg) (s : LH) (from_ : List Addr) (m : Msg)
    (h : mayRecord c from_ m.typ = false) : (handleRequest c s from_ m).1 = s := by
  simp only [mayRecord, Bool.or_eq_false_iff, Bool.and_eq_false_iff] at h
  by_cases h1 : m.typ = typHostQuery
  · have := query_keeps_state c s from_ (m.details.getD {})
    simp only [handleRequest, h1, typHostQuery, Gen.lh_NebulaMeta_HostQuery] at this ⊢
    simpa using this.1
  by_cases h4 : m.typ = typHostPunchNotification
  · have := punch_keeps_state c s from_ (m.details.getD {})
    simp only [handleRequest, h4, typHostQuery, typHostQueryReply, typHostUpdateNotification,
      typHostPunchNotification, Gen.lh_NebulaMeta_HostQuery, Gen.lh_NebulaMeta_HostQueryReply,
      Gen.lh_NebulaMeta_HostUpdateNotification, Gen.lh_NebulaMeta_HostPunchNotification] at this ⊢
    simpa using this
  by_cases h3 : m.typ = typHostUpdateNotification
  · have hl : c.amLighthouse = false := by
      rcases h.1 with h' | h'
      · simp [h3] at h'
      · exact h'
    exact (nonlh_ignores_updates_and_queries c s from_ m hl (Or.inr h3)).1
  by_cases h2 : m.typ = typHostQueryReply
  · have hl : fromLighthouse c from_ = false := by
      rcases h.2 with h' | h'
      · simp [h2] at h'
      · exact h'
    exact (accepts_only_from_lighthouses c s from_ m hl (Or.inl h2)).1
  exact (other_types_ignored c s from_ m h1 h2 h3 h4).1

/-- MAIN (ownership): whatever message arrives from a tunnel authenticated for `from_`, in every remote list
the entry recorded under an owner `A` other than the sender's primary authenticated address is unchanged —
addresses and relays "for A" are written only by a tunnel authenticated as A. (`none` on the right: the
list did not exist before and has no entry for `A`.) -/
theorem records_only_owner (c : Cfg) (s : LH) (from_ : List Addr) (m : Msg) (id : Nat) (rl' : RL) (A : Addr)
    (hA : A ≠ from_.headD ⟨.v4, 0⟩) (h : (handleRequest c s from_ m).1.getList id = some rl') :
    getOwner rl'.cache A = ((s.getList id).map (fun rl => getOwner rl.cache A)).getD none := by
  by_cases h3 : m.typ = typHostUpdateNotification
  · simp only [handleRequest, h3, typHostQuery, typHostQueryReply, typHostUpdateNotification,
      Gen.lh_NebulaMeta_HostQuery, Gen.lh_NebulaMeta_HostQueryReply,
      Gen.lh_NebulaMeta_HostUpdateNotification] at h
    exact update_other_owner c s from_ _ id rl' A hA (by simpa using h)
  by_cases h2 : m.typ = typHostQueryReply
  · simp only [handleRequest, h2, typHostQuery, typHostQueryReply, Gen.lh_NebulaMeta_HostQuery,
      Gen.lh_NebulaMeta_HostQueryReply] at h
    exact reply_other_owner c s from_ _ id rl' A hA (by simpa using h)
  have hs : (handleRequest c s from_ m).1 = s := by
    apply records_only_when_authorized
    simp [mayRecord, h2, h3]
  rw [hs] at h; rw [h]; rfl

/-- A host update that names an overlay address the sender is not authenticated for is dropped entirely. -/
theorem spoofed_owner_rejected (c : Cfg) (s : LH) (from_ : List Addr) (d : Details) (a : Addr)
    (ha : (updDetailsVpn d).1 = some a) (hf : memB from_ a = false) :
    handleRequest c s from_ { typ := typHostUpdateNotification, details := some d } = (s, {}) := by
  have := update_spoofed_dropped c s from_ d a ha hf
  simpa [handleRequest, typHostQuery, typHostQueryReply, typHostUpdateNotification,
    Gen.lh_NebulaMeta_HostQuery, Gen.lh_NebulaMeta_HostQueryReply,
    Gen.lh_NebulaMeta_HostUpdateNotification] using this

/-- Histories: if no message of a history came from a tunnel whose primary authenticated address is `A`, no
remote list holds anything recorded under `A` (starting from an empty cache). -/
theorem history_records_only_owner (c : Cfg) (A : Addr) (msgs : List (List Addr × Msg))
    (hno : ∀ x ∈ msgs, A ≠ x.1.headD ⟨.v4, 0⟩) :
    ∀ s : LH, (∀ id rl, s.getList id = some rl → getOwner rl.cache A = none) →
      ∀ id rl, (msgs.foldl (fun s x => (handleRequest c s x.1 x.2).1) s).getList id = some rl →
        getOwner rl.cache A = none := by
  induction msgs with
  | nil => intro s hs id rl h; exact hs id rl h
  | cons x rest ih =>
    intro s hs
    apply ih (fun y hy => hno y (by simp [hy]))
    intro id rl h
    rw [records_only_owner c s x.1 x.2 id rl A (hno x (by simp)) h]
    cases hg : s.getList id with
    | none => rfl
    | some rl0 => simp [hs id rl0 hg]

-- non-vacuity: on a lighthouse a host update from 10.128.0.10 is recorded under that owner and acknowledged;
-- the same update claiming to be 10.128.0.11 is dropped; a non-lighthouse ignores it
example :
    let c : Cfg := { amLighthouse := true, myNets := [⟨⟨.v4, 0x0a800001⟩, 24⟩], lighthouses := [],
                     ral := { allowList := none, inside := none }, initV := 2, staticList := [] }
    let peer : Addr := ⟨.v4, 0x0a80000a⟩
    let d : Details := { vpn := some ⟨.v6, 0xffff0a80000a⟩, v4 := [⟨⟨.v4, 0x01010101⟩, 4242⟩, ⟨⟨.v4, 0x0a800063⟩, 1⟩] }
    let r := handleRequest c {} [peer] { typ := typHostUpdateNotification, details := some d }
    (r.1.getList 0).map (fun rl => (getOwner rl.cache peer).map (·.v4r)) = some (some [⟨⟨.v4, 0x01010101⟩, 4242⟩]) ∧
    r.2.sent.length = 1 ∧
    let spoof : Msg := { typ := typHostUpdateNotification, details := some { d with vpn := some ⟨.v6, 0xffff0a80000b⟩ } }
    (handleRequest c {} [peer] spoof).2.sent = [] ∧
    (handleRequest { c with amLighthouse := false } {} [peer] { typ := typHostUpdateNotification, details := some d }).2.sent = [] := by
  decide

end Nebula.Props.C35
