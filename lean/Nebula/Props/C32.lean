/-
C32 — Pending handshakes retry, give up, and release queued packets correctly.

"A pending handshake is retransmitted with linearly growing delay and abandoned after the configured
number of attempts, removing its pending state. At most 100 packets are queued per pending handshake,
and when the handshake completes each queued packet is sent exactly once, in order, and only if the
outbound firewall allows it."

Model: StartHandshake / handleOutbound(For) / NextOutboundHandshakeTimerTick / cachePacket / continueHandshake
of Model/HsManager.lean — the code AFTER the repair "fix: handshake retry timers only drive the pending
handshake they were armed for": a timer entry carries the identity of the pending handshake it was armed
for, entries of other (earlier) handshakes are ignored, a lighthouse-triggered attempt never re-arms.
`hsTimeout` and `maxCachedPackets` are regenerated from the source.

Retry schedule, FULL: over every history of a node (any mix of starts, restarts after wrong responders,
re-handshakes to an address that already has a tunnel or a stale timer, triggers, completions, ticks at any
times, index draws …) every pending handshake owns EXACTLY ONE timer entry, filed under its address and tagged
with its identity (`one_timer_per_handshake`); entries with any other tag change nothing when they fire
(`stale_timer_ignored`); and the firing of its own entry makes attempt k+1 and arms the one successor entry
with delay interval·(k+1) (`retry_schedule`) — so attempt k+1 is scheduled interval·k after attempt k, on
one timer chain, for every history. (How the wheel rounds a delay to ticks is C33.)

Before the repair the statement was false (known finding `c32-stale-timer-extra-attempt`, now `fixed`): the
witness history is kept below (`stale_timer_no_longer_doubles`) and in corpus/hsmanager/c32-stale-timer.ops.
-/
import Nebula.Lemmas.HsManagerStep
import Nebula.Lemmas.HsPendingHist
import Nebula.Lemmas.HsRouted
import Nebula.Spec.HsRetry

namespace Nebula.Props.C32
open Nebula.HsManager Nebula.Lemmas.HsManager Nebula.Lemmas.HsPending Nebula.Lemmas.HsWheel Nebula.Gen

/-- Retry schedule, one firing (every state): the timer entry armed for the pending, ready handshake `hh`
with `counter < retries` raises the counter by one, retransmits the same stage-1 packet to the current
remote list, and arms ONE successor entry — same address, same handshake — with delay
`interval · (counter + 1)`: linear back-off. -/
theorem retry_schedule (c : Cfg) (mi : List (Nat × HostInfo)) (p : PSide) (a : Addr) (now : Nat)
    (hh : Pending) (hl : alookup a p.vpnIps = some hh) (hr : hh.ready = true) (hc : hh.counter < c.retries)
    (rid : Nat) (hrem : hh.remotes = some rid) :
    (p.handleOutbound c mi a false now (some hh.id)).1.wheel =
      p.wheel.add (a, hh.id) ((c.interval : Int) * (hh.counter + 1)) ∧
    (p.handleOutbound c mi a false now (some hh.id)).2.tx = stage0Tx hh.pkt0 (p.lh.get rid).out ∧
    (p.handleOutbound c mi a false now (some hh.id)).1.vpnIps =
      (p.setPending { hh with counter := hh.counter + 1, remotes := some rid, lastRemotes := (p.lh.get rid).out }).vpnIps := by
  have hc' : ¬ hh.counter ≥ c.retries := by omega
  simp only [PSide.handleOutbound, hl, hc', PSide.attempt, hr, remoteListOf, hrem]
  simp [PSide.setPending, Out.app]

/-- A timer entry armed for any OTHER handshake than the one now pending for the address (an earlier one that
completed, failed or was restarted) is ignored: nothing is transmitted, nothing changes, nothing is re-armed. -/
theorem stale_timer_ignored (c : Cfg) (mi : List (Nat × HostInfo)) (p : PSide) (a : Addr) (trig : Bool) (now : Nat)
    (hh : Pending) (hl : alookup a p.vpnIps = some hh) (id : Nat) (hid : id ≠ hh.id) :
    p.handleOutbound c mi a trig now (some id) = (p, {}) := by
  have : (id != hh.id) = true := by simp [hid]
  simp [PSide.handleOutbound, hl, this]

/-- … and so is an entry for an address without a pending handshake. -/
theorem orphan_timer_ignored (c : Cfg) (mi : List (Nat × HostInfo)) (p : PSide) (a : Addr) (trig : Bool) (now : Nat)
    (armed : Option Nat) (hl : alookup a p.vpnIps = none) : p.handleOutbound c mi a trig now armed = (p, {}) := by
  simp [PSide.handleOutbound, hl]

/-- Retry schedule, every history (sane configuration: positive interval, non-negative wheel span): each
pending handshake owns exactly one timer entry in the wheel, every entry tagged with its identity is filed
under its address, and no two pending handshakes share an identity or an address. Together with
`retry_schedule` and `stale_timer_ignored`: the attempts of a pending handshake are driven by one timer
chain whose k-th link has delay interval·k — including after restarts and re-handshakes to the same address. -/
theorem one_timer_per_handshake (cfg : Cfg) (hs : Cfg.sane cfg) (evs : List Ev) (a : Addr) (hh : Pending)
    (hm : (a, hh) ∈ ((Node.init cfg).run evs).p.vpnIps) :
    cnt ((Node.init cfg).run evs).p.wheel hh.id = 1 ∧
    (∀ it ∈ ((Node.init cfg).run evs).p.wheel.slots.flatten, it.2 = hh.id → it.1 = a) ∧
    (∀ a' hh', (a', hh') ∈ ((Node.init cfg).run evs).p.vpnIps → hh'.id = hh.id → a' = a ∧ hh' = hh) := by
  have h := run_pinv (Node.init cfg) evs (init_pinv cfg hs)
  refine ⟨by simpa [cntL_nil] using h.one a hh hm, fun it hi e => h.tAddr a hh it hm (Or.inl hi) e,
    fun a' hh' hm' e => same_of_id h hm' hm e⟩

/-- A lighthouse-triggered attempt counts as an attempt but never re-arms the timer (ready or not). -/
theorem trigger_does_not_rearm (c : Cfg) (mi : List (Nat × HostInfo)) (p : PSide) (a : Addr) (now : Nat)
    (hh : Pending) (hl : alookup a p.vpnIps = some hh) (hc : hh.counter < c.retries) :
    (p.handleOutbound c mi a true now).1.wheel = p.wheel := by
  have hc' : ¬ hh.counter ≥ c.retries := by omega
  simp only [PSide.handleOutbound, hl, hc', Option.any_none, Bool.false_eq_true, if_false, if_true]
  have s := (attempt_same c mi p { hh with counter := hh.counter + 1 } a true now).1
  simp [PSide.setPending, s.w]

/-- Giving up: a firing that finds `counter ≥ retries` transmits nothing and removes the pending entry and
its index (the entry is stored under its own address and owns its index — `one_timer_per_handshake`'s
invariant gives the first for every history). -/
theorem gives_up (c : Cfg) (mi : List (Nat × HostInfo)) (p : PSide) (a : Addr) (trig : Bool) (now : Nat)
    (hh : Pending) (hl : alookup a p.vpnIps = some hh) (hkey : hh.vpnAddr = a) (hc : hh.counter ≥ c.retries)
    (hidx : alookup hh.localIndex p.pindexes = some hh.id ∨ alookup hh.localIndex p.pindexes = none) :
    (p.handleOutbound c mi a trig now (some hh.id)).2.tx = [] ∧
    alookup a (p.handleOutbound c mi a trig now (some hh.id)).1.vpnIps = none ∧
    alookup hh.localIndex (p.handleOutbound c mi a trig now (some hh.id)).1.pindexes = none := by
  simp only [PSide.handleOutbound, hl, hc, if_true, PSide.deletePending, hkey]
  rcases hidx with h | h <;> simp [alookup_aerase, h]

/-- No attempt is ever made beyond the configured number: a firing transmits only when `counter < retries`. -/
theorem no_attempt_after_retries (c : Cfg) (mi : List (Nat × HostInfo)) (p : PSide) (a : Addr) (trig : Bool)
    (now : Nat) (hh : Pending) (hl : alookup a p.vpnIps = some hh) (hc : hh.counter ≥ c.retries) :
    (p.handleOutbound c mi a trig now).2.tx = [] := by
  simp [PSide.handleOutbound, hl, hc]

/-- Queue bound: cachePacket never lets a queue grow beyond maxCachedPackets (= 100, regenerated). -/
theorem queue_bound (hh : Pending) (q : Cached) (h : hh.store.length ≤ hsm_maxCachedPackets) :
    (hh.cache q).store.length ≤ hsm_maxCachedPackets := by
  unfold Pending.cache
  split
  · simp; omega
  · exact h

theorem queue_cap_is_100 : hsm_maxCachedPackets = 100 := rfl

/-- a full queue drops the packet, a non-full queue appends it at the end (order of arrival) -/
theorem queue_fifo (hh : Pending) (q : Cached) :
    (hh.cache q).store = if hh.store.length < hsm_maxCachedPackets then hh.store ++ [q] else hh.store := by
  unfold Pending.cache; split <;> rfl

/-- Flush on completion: when the right host answers, exactly the queued packets the outbound firewall
allows are transmitted, each once, in queue order, to the answering remote — and nothing else. -/
theorem flush_in_order_if_allowed (n : Node) (via : UNode) (idx : Nat) (c : Completed)
    (hh : Pending) (hl : (alookup idx n.p.pindexes).bind n.p.pendingById = some hh) (hr : hh.ready = true)
    (hself : c.certAddrs.any (fun a => n.cfg.myAddrs.contains a) = false)
    (hw : hh.vpnAddr ∈ c.certAddrs) :
    (n.continueHandshake via idx (.completed c)).2.tx =
      (hh.store.filter n.cfg.allowed).map (fun q => Tx.msg q.len via) := by
  have hs : ¬ ∃ x, x ∈ c.certAddrs ∧ x ∈ n.cfg.myAddrs := by simpa using hself
  unfold Node.continueHandshake
  rw [hl]
  simp [hr, hs, hw]

/-- … completion removes the pending index (which the pending handshake owns), and a stage-2 message for an
index that is not pending does nothing at all. -/
theorem completion_removes_index (n : Node) (via : UNode) (idx : Nat) (c : Completed)
    (hh : Pending) (hl : (alookup idx n.p.pindexes).bind n.p.pendingById = some hh) (hr : hh.ready = true)
    (hli : hh.localIndex = idx) (hown : alookup idx n.p.pindexes = some hh.id)
    (hself : c.certAddrs.any (fun a => n.cfg.myAddrs.contains a) = false)
    (hw : hh.vpnAddr ∈ c.certAddrs) :
    alookup idx (n.continueHandshake via idx (.completed c)).1.p.pindexes = none := by
  have hs : ¬ ∃ x, x ∈ c.certAddrs ∧ x ∈ n.cfg.myAddrs := by simpa using hself
  unfold Node.continueHandshake
  rw [hl]
  simp [hr, hs, hw, PSide.deletePending, hli, hown, alookup_aerase]

theorem no_pending_no_flush (n : Node) (via : UNode) (idx : Nat) (res : S2Res)
    (hl : alookup idx n.p.pindexes = none) :
    n.continueHandshake via idx res = (n, {}) := by
  unfold Node.continueHandshake
  simp [hl]

/-- hsTimeout as translated from the source equals the arithmetic-series sum ⌊n/2⌋·(n+1)·interval for the
default interval and every retry count below 64 (complete table, kernel-evaluated): for even n the sum
of all back-off delays, for odd n less than that — but never less than the largest single delay
n·interval except for n = 1, where the wheel clamps the delay and still fires two ticks later
(`retries_one_fires_like_the_others`). -/
theorem hsTimeout_table :
    (List.range 64).all (fun n => hsm_hsTimeout (BitVec.ofNat 64 n) 100000000#64 ==
      BitVec.ofNat 64 (n / 2 * (n + 1) * 100000000)) = true := by decide

/-- F17 (suspected in the design, NOT a defect): with retries = 1 the wheel span is 0 and the single
back-off delay is clamped, but the slot chosen is still the one reached after two ticks — the same as for
an unclamped one-interval delay on a larger wheel. -/
theorem retries_one_fires_like_the_others :
    let w1 := (Node.init { node := 0, myAddrs := [1], hasV1 := false, hasV2 := true, retries := 1, interval := 100000000 }).p.wheel
    let w3 := (Node.init { node := 0, myAddrs := [1], hasV1 := false, hasV2 := true, retries := 3, interval := 100000000 }).p.wheel
    w1.len = 2 ∧ w1.wheelDur = 0 ∧
    ((w1.add (7, 0) 100000000).step1.1.step1.2 = [(7, 0)] ∧ (w1.add (7, 0) 100000000).step1.2 = []) ∧
    ((w3.add (7, 0) 100000000).step1.1.step1.2 = [(7, 0)] ∧ (w3.add (7, 0) 100000000).step1.2 = []) := by decide

/-- The witness history of the repaired defect: node 0 completes a handshake as initiator with address 2,
immediately starts a new handshake to the same address (what tryRehandshake or a wrong-responder restart
does), and one clock tick later. Before the repair the new pending handshake had made TWO attempts at that
point (the first handshake's timer entry fired for it); now it has made one, as the countdown specification
demands, and the stale entry is still recognisable in the wheel by its tag. -/
def cfgW : Cfg := { node := 0, myAddrs := [1], hasV1 := false, hasV2 := true, retries := 10, interval := 100000000 }
def histW : List Ev :=
  [.lh 2 1, .hs 2, .tick 0, .tick 100000000, .tick 200000000,          -- first attempt at the third tick
   .stage2 1 1001 (.completed { certAddrs := [2], certVer := 2, remoteIndex := 2001, time := 5 }),
   .rehs 2, .tick 400000000]

theorem stale_timer_no_longer_doubles :
    (alookup 2 ((Node.init cfgW).run histW).p.vpnIps).map (·.counter) = some 1 ∧
    (let spec : Spec.HsRetry.St := { retries := 10, interval := 100000000 }
     let spec := (((spec.start 2 0).tick 0).tick 100000000).tick 200000000   -- the first handshake
     let spec := ((spec.drop 0).start 2 1).tick 400000000                      -- completed; restarted; one tick
     spec.view = [(2, 1)]) := by decide

/-- Queue invariant, every history: each pending handshake's queue is exactly the first maxCachedPackets
packets handed to cachePacket for it (for a restarted handshake: for it and its predecessors), in the order
they were offered — hence never longer than maxCachedPackets (= 100) and FIFO. -/
theorem queue_invariant (cfg : Cfg) (hs : Cfg.sane cfg) (evs : List Ev) (a : Addr) (hh : Pending)
    (hm : (a, hh) ∈ ((Node.init cfg).run evs).p.vpnIps) :
    hh.store = hh.offered.take hsm_maxCachedPackets ∧ hh.store.length ≤ hsm_maxCachedPackets := by
  have h := run_pinv (Node.init cfg) evs (init_pinv cfg hs)
  have e := h.fifo a hh hm
  exact ⟨e, by rw [e]; simp; omega⟩

/-- `offered` really records every packet, in order: cachePacket appends to it whether or not it stores. -/
theorem offered_records_every_packet (hh : Pending) (q : Cached) : (hh.cache q).offered = hh.offered ++ [q] := by
  unfold Pending.cache; split <;> rfl

/-- Flush exactly once, every history: along any history no pending handshake's queue is released twice —
the identities in the log of released queues are pairwise distinct. (What is released, and in which order,
is `flush_in_order_if_allowed`; with `queue_invariant` it is the first 100 offered packets the firewall
allows, in order.) -/
theorem flush_exactly_once (cfg : Cfg) (hs : Cfg.sane cfg) (evs : List Ev) :
    ((flushLog (Node.init cfg) evs).map (·.1)).Nodup := by
  have := flushLog_nodup (Node.init cfg) evs [] (init_pinv cfg hs) List.nodup_nil (fun _ h => by simp at h)
  simpa using this

/-- the log entry of a completion is the pending handshake's identity and exactly the released packets -/
theorem flush_log_entry (n : Node) (via : UNode) (idx : Nat) (c : Completed)
    (hh : Pending) (hl : (alookup idx n.p.pindexes).bind n.p.pendingById = some hh) (hr : hh.ready = true)
    (hself : c.certAddrs.any (fun a => n.cfg.myAddrs.contains a) = false)
    (hw : hh.vpnAddr ∈ c.certAddrs) :
    (n.continueHandshake via idx (.completed c)).2.flushed = [(hh.id, hh.store.filter n.cfg.allowed)] := by
  have hs : ¬ ∃ x, x ∈ c.certAddrs ∧ x ∈ n.cfg.myAddrs := by simpa using hself
  unfold Node.continueHandshake
  rw [hl]
  simp [hr, hs, hw]

/-- Multi-gateway unsafe routes (getOrHandshakeConsiderRouting, ECMP branch), every history: a tun packet into the
routed network is transmitted AT MOST ONCE, and if it is transmitted — through the flow-hash-chosen gateway or,
when that one has no tunnel, through the first other gateway that has one — NO pending handshake's queue changes:
a packet that left through a fallback gateway is not also waiting on the chosen gateway's handshake (so it cannot
be released a second time, `flush_in_order_if_allowed` only ever releases what the queue holds). -/
theorem routed_packet_sent_or_queued_not_both (cfg : Cfg) (hs : Cfg.sane cfg) (evs : List Ev) (q : Cached) :
    let n := (Node.init cfg).run evs
    (n.sendRouted q).2.tx.length ≤ 1 ∧
    ((n.sendRouted q).2.tx ≠ [] → ∀ b, queueOf (n.sendRouted q).1.p b = queueOf n.p b) :=
  sendRouted_sent_not_queued _ q (run_pinv (Node.init cfg) evs (init_pinv cfg hs))

/-- … and the same for a packet to an overlay address (no routing): transmitted at most once. -/
theorem inside_packet_sent_at_most_once (n : Node) (h : PInv n.p) (a : Addr) (q : Cached) :
    (n.sendInside a q).2.tx.length ≤ 1 := by
  unfold Node.sendInside
  split
  · simp
  · split
    · exact (sendRouted_sent_not_queued n q h).1
    · split
      · simp
      · cases hp : n.main.primary a with
        | some hi => simp only [Node.getOrHandshake, hp]; exact sendVia_le_one ..
        | none => simp [Node.getOrHandshake, hp]

-- ECMP: gateways 2, 3, 4 (weights 1, 1, 2); only gateway 3 has a tunnel. Six packets whose flow hashes pick different
-- gateways all leave through gateway 3 at once, handshakes to 2 and 4 are started, and their queues stay empty.
def cfgE : Cfg := { cfgW with routes := [(2, 1), (3, 1), (4, 2)] }
def histE : List Ev :=
  [.lh 2 1, .lh 3 2, .lh 4 3, .hs 3, .tick 0, .tick 100000000, .tick 200000000,
   .stage2 2 1001 (.completed { certAddrs := [3], certVer := 2, remoteIndex := 3001, time := 5 })]

example : ((List.range 6).map (fun i => (((Node.init cfgE).run histE).sendInside 201 { len := 30 + i, port := 1000 + i }).2.tx)) =
    (List.range 6).map (fun i => [Tx.msg (30 + i) 2]) := by decide
def histE6 : List Ev := histE ++ (List.range 6).map (fun i => Ev.send 201 { len := 30 + i, port := 1000 + i })
example : (((Node.init cfgE).run histE6).p.vpnIps.map (fun x => x.2.store.length)) = [0, 0] := by decide

-- non-vacuity: the sane configurations include the defaults and the small retry counts
example : Cfg.sane cfgW := by unfold Cfg.sane; decide
example : Cfg.sane { cfgW with retries := 1 } ∧ Cfg.sane { cfgW with retries := 0 } := by unfold Cfg.sane; decide
-- a pending, ready handshake below the retry limit exists
example : ∃ hh, alookup 2 ((Node.init cfgW).run (histW.take 5)).p.vpnIps = some hh ∧ hh.ready = true ∧
    hh.counter < cfgW.retries ∧ hh.remotes = some 0 := by decide
-- … and one at the limit (retries = 1) that the next firing abandons
example : (alookup 2 ((Node.init { cfgW with retries := 1 }).run
    [.lh 2 1, .hs 2, .tick 0, .tick 100000000, .tick 200000000, .tick 400000000]).p.vpnIps).isNone = true := by decide
-- flush: three queued packets, the second one refused by the outbound firewall (port 2500); released once
example : ((Node.init cfgW).run [.lh 2 1, .send 2 { len := 40, port := 1500 }, .send 2 { len := 41, port := 2500 }, .send 2 { len := 42, port := 1501 }, .tick 0,
      .tick 100000000, .tick 200000000]).step
      (.stage2 1 1001 (.completed { certAddrs := [2], certVer := 2, remoteIndex := 2001, time := 5 })) |>.2.tx
    = [.msg 40 1, .msg 42 1] := by decide
example : flushLog (Node.init cfgW) [.lh 2 1, .send 2 { len := 40, port := 1500 }, .send 2 { len := 41, port := 2500 }, .tick 0, .tick 100000000, .tick 200000000,
      .stage2 1 1001 (.completed { certAddrs := [2], certVer := 2, remoteIndex := 2001, time := 5 }),
      .stage2 1 1001 (.completed { certAddrs := [2], certVer := 2, remoteIndex := 2001, time := 5 })]
    = [(0, [{ len := 40, port := 1500 }])] := by decide

end Nebula.Props.C32
