/-
C32 — Pending handshakes retry, give up, and release queued packets correctly.

"A pending handshake is retransmitted with linearly growing delay and abandoned after the configured
number of attempts, removing its pending state. At most 100 packets are queued per pending handshake,
and when the handshake completes each queued packet is sent exactly once, in order, and only if the
outbound firewall allows it."

Model: handleOutbound / cachePacket / continueHandshake of Model/HsManager.lean, for every state and every
configuration (retries, interval). `hsTimeout` and `maxCachedPackets` are regenerated from the source.

FULL STATEMENT (not provable for the code as it is): "between two consecutive attempts of one pending
handshake, with attempt counter k after the first, exactly k + 1 wheel ticks pass". It fails because the
timer wheel is keyed by overlay address only: a timer entry left behind by an EARLIER handshake to the same
address (completed, or restarted after a wrong responder) fires for the new one and starts a second
timer chain (`stale_timer_double_attempt`, `C32_full_false`). Proved instead (`…_partial`): every attempt
of a non-triggered firing schedules its successor with delay interval · counter — the schedule of ONE
timer chain; the missing hypothesis for the full statement is "the wheel holds no other entry for the
address when the handshake starts" (class `c32-stale-timer-extra-attempt` in the correspondence oracle,
which compares against the countdown specification Spec/HsRetry.lean).
-/
import Nebula.Lemmas.HsManagerStep
import Nebula.Spec.HsRetry

namespace Nebula.Props.C32
open Nebula.HsManager Nebula.Lemmas.HsManager Nebula.Gen

/-- Retry schedule of one timer chain (partial, see header): a timer firing for a pending, ready handshake
with `counter < retries` raises the counter by one, retransmits the same stage-1 packet to the current
remote list, and re-arms the wheel with delay `interval · (counter + 1)` — linear back-off. -/
theorem retry_schedule_partial (c : Cfg) (mi : List (Nat × HostInfo)) (p : PSide) (a : Addr) (now : Nat)
    (hh : Pending) (hl : alookup a p.vpnIps = some hh) (hr : hh.ready = true) (hc : hh.counter < c.retries)
    (rid : Nat) (hrem : hh.remotes = some rid) :
    (p.handleOutbound c mi a false now).1.wheel = p.wheel.add a ((c.interval : Int) * (hh.counter + 1)) ∧
    (p.handleOutbound c mi a false now).2.tx =
      stage0Tx hh.pkt0 (p.lh.get rid).out ∧
    (p.handleOutbound c mi a false now).1.vpnIps =
      (p.setPending { hh with counter := hh.counter + 1, remotes := some rid, lastRemotes := (p.lh.get rid).out }).vpnIps := by
  have hc' : ¬ hh.counter ≥ c.retries := by omega
  simp only [PSide.handleOutbound, hl, hc', hr, hrem]
  simp [PSide.setPending, Out.app]

/-- A lighthouse-triggered attempt counts as an attempt but never re-arms the timer. -/
theorem trigger_does_not_rearm (c : Cfg) (mi : List (Nat × HostInfo)) (p : PSide) (a : Addr) (now : Nat)
    (hh : Pending) (hl : alookup a p.vpnIps = some hh) (hr : hh.ready = true) (hc : hh.counter < c.retries)
    (rid : Nat) (hrem : hh.remotes = some rid) :
    (p.handleOutbound c mi a true now).1.wheel = p.wheel := by
  have hc' : ¬ hh.counter ≥ c.retries := by omega
  simp only [PSide.handleOutbound, hl, hc', hr, hrem]
  simp only [if_false, Bool.not_true, Bool.false_eq_true, ite_true, if_true]
  split <;> simp [PSide.setPending]

/-- Giving up: a firing that finds `counter ≥ retries` transmits nothing and removes the pending entry and
its index (the entry is stored under its own address — true of every entry StartHandshake creates). -/
theorem gives_up (c : Cfg) (mi : List (Nat × HostInfo)) (p : PSide) (a : Addr) (trig : Bool) (now : Nat)
    (hh : Pending) (hl : alookup a p.vpnIps = some hh) (hkey : hh.vpnAddr = a) (hc : hh.counter ≥ c.retries) :
    (p.handleOutbound c mi a trig now).2.tx = [] ∧
    alookup a (p.handleOutbound c mi a trig now).1.vpnIps = none ∧
    alookup hh.localIndex (p.handleOutbound c mi a trig now).1.pindexes = none := by
  simp only [PSide.handleOutbound, hl, hc, if_true, PSide.deletePending, hkey]
  simp [alookup_aerase]

/-- No attempt is ever made beyond the configured number: a firing transmits only when `counter < retries`. -/
theorem no_attempt_after_retries (c : Cfg) (mi : List (Nat × HostInfo)) (p : PSide) (a : Addr) (trig : Bool)
    (now : Nat) (hh : Pending) (hl : alookup a p.vpnIps = some hh) (hc : hh.counter ≥ c.retries) :
    (p.handleOutbound c mi a trig now).2.tx = [] := by
  simp only [PSide.handleOutbound, hl, hc, if_true]

/-- Queue bound: cachePacket never lets a queue grow beyond maxCachedPackets (= 100, regenerated). -/
theorem queue_bound (hh : Pending) (q : Cached) (h : hh.store.length ≤ hsm_maxCachedPackets) :
    (hh.cache q).store.length ≤ hsm_maxCachedPackets := by
  unfold Pending.cache
  split
  · simp; omega
  · exact h

theorem queue_cap_is_100 : hsm_maxCachedPackets = 100 := rfl

/-- a full queue drops the packet, a non-full queue appends it at the end (order of arrival) -/
theorem queue_fifo (hh : Pending) (q : Cached) :
    (hh.cache q).store = if hh.store.length < hsm_maxCachedPackets then hh.store ++ [q] else hh.store := by
  unfold Pending.cache; split <;> rfl

/-- Flush on completion: when the right host answers, exactly the queued packets the outbound firewall
allows are transmitted, each once, in queue order, to the answering remote — and nothing else. -/
theorem flush_in_order_if_allowed (n : Node) (via : UNode) (idx : Nat) (c : Completed)
    (hh : Pending) (hl : (alookup idx n.p.pindexes).bind n.p.pendingById = some hh) (hr : hh.ready = true)
    (hself : c.certAddrs.any (fun a => n.cfg.myAddrs.contains a) = false)
    (hw : hh.vpnAddr ∈ c.certAddrs) :
    (n.continueHandshake via idx (.completed c)).2.tx =
      (hh.store.filter n.cfg.allowed).map (fun q => Tx.msg q.len via) := by
  have hs : ¬ ∃ x, x ∈ c.certAddrs ∧ x ∈ n.cfg.myAddrs := by simpa using hself
  unfold Node.continueHandshake
  rw [hl]
  simp [hr, hs, hw]

/-- … exactly once: completion removes the pending index, and a stage-2 message for an index that is
not pending does nothing at all (so the queue can never be flushed a second time). -/
theorem completion_removes_index (n : Node) (via : UNode) (idx : Nat) (c : Completed)
    (hh : Pending) (hl : (alookup idx n.p.pindexes).bind n.p.pendingById = some hh) (hr : hh.ready = true)
    (hself : c.certAddrs.any (fun a => n.cfg.myAddrs.contains a) = false)
    (hw : hh.vpnAddr ∈ c.certAddrs) :
    alookup hh.localIndex (n.continueHandshake via idx (.completed c)).1.p.pindexes = none := by
  have hs : ¬ ∃ x, x ∈ c.certAddrs ∧ x ∈ n.cfg.myAddrs := by simpa using hself
  unfold Node.continueHandshake
  rw [hl]
  simp [hr, hs, hw, PSide.deletePending, alookup_aerase]

theorem no_pending_no_flush (n : Node) (via : UNode) (idx : Nat) (res : S2Res)
    (hl : alookup idx n.p.pindexes = none) :
    n.continueHandshake via idx res = (n, {}) := by
  unfold Node.continueHandshake
  simp [hl]

/-- hsTimeout as translated from the source equals the arithmetic-series sum ⌊n/2⌋·(n+1)·interval for the
default interval and every retry count below 64 (complete table, kernel-evaluated): for even n the sum
of all back-off delays, for odd n less than that — but never less than the largest single delay
n·interval except for n = 1, where the wheel clamps the delay and still fires two ticks later
(`retries_one_fires_like_the_others`). -/
theorem hsTimeout_table :
    (List.range 64).all (fun n => hsm_hsTimeout (BitVec.ofNat 64 n) 100000000#64 ==
      BitVec.ofNat 64 (n / 2 * (n + 1) * 100000000)) = true := by decide

/-- F17 (suspected in the design, NOT a defect): with retries = 1 the wheel span is 0 and the single
back-off delay is clamped, but the slot chosen is still the one reached after two ticks — the same as for
an unclamped one-interval delay on a larger wheel. -/
theorem retries_one_fires_like_the_others :
    let w1 := (Node.init { node := 0, myAddrs := [1], hasV1 := false, hasV2 := true, retries := 1, interval := 100000000 }).p.wheel
    let w3 := (Node.init { node := 0, myAddrs := [1], hasV1 := false, hasV2 := true, retries := 3, interval := 100000000 }).p.wheel
    w1.len = 2 ∧ w1.wheelDur = 0 ∧
    ((w1.add 7 100000000).step1.1.step1.2 = [7] ∧ (w1.add 7 100000000).step1.2 = []) ∧
    ((w3.add 7 100000000).step1.1.step1.2 = [7] ∧ (w3.add 7 100000000).step1.2 = []) := by decide

/-- Witness of the defect recorded as a known finding: node 0 completes a handshake as initiator with
address 2, immediately starts a new handshake to the same address (what tryRehandshake or a
wrong-responder restart does), and ONE clock tick later the new pending handshake has made TWO attempts
(counter 2, two transmissions) — the first handshake's timer entry fired for it. -/
def cfgW : Cfg := { node := 0, myAddrs := [1], hasV1 := false, hasV2 := true, retries := 10, interval := 100000000 }
def histW : List Ev :=
  [.lh 2 1, .hs 2, .tick 0, .tick 100000000, .tick 200000000,          -- first attempt at the third tick
   .stage2 1 1001 (.completed { certAddrs := [2], certVer := 2, remoteIndex := 2001, time := 5 }),
   .rehs 2, .tick 400000000]

theorem stale_timer_double_attempt :
    (alookup 2 ((Node.init cfgW).run histW).p.vpnIps).map (·.counter) = some 2 := by decide

/-- The full retry-schedule statement is false for the model of the code as it is: the countdown
specification expects one attempt (counter 1) at that tick. -/
theorem C32_full_false :
    let spec : Spec.HsRetry.St := { retries := 10, interval := 100000000 }
    let spec := (((spec.start 2 0).tick 0).tick 100000000).tick 200000000   -- the first handshake
    let spec := ((spec.drop 0).start 2 1).tick 400000000                      -- completed; restarted; one tick
    spec.view = [(2, 1)] ∧
    (alookup 2 ((Node.init cfgW).run histW).p.vpnIps).map (·.counter) ≠ some 1 := by decide

-- non-vacuity of the conditional theorems: a pending, ready handshake below the retry limit exists
example : ∃ hh, alookup 2 ((Node.init cfgW).run (histW.take 5)).p.vpnIps = some hh ∧ hh.ready = true ∧
    hh.counter < cfgW.retries ∧ hh.remotes = some 0 := by decide
-- … and one at the limit (retries = 1) that the next firing abandons
example : (alookup 2 ((Node.init { cfgW with retries := 1 }).run
    [.lh 2 1, .hs 2, .tick 0, .tick 100000000, .tick 200000000, .tick 400000000]).p.vpnIps).isNone = true := by decide
-- flush: three queued packets, the second one refused by the outbound firewall (port 2500)
example : ((Node.init cfgW).run [.lh 2 1, .send 2 ⟨40, 1500⟩, .send 2 ⟨41, 2500⟩, .send 2 ⟨42, 1501⟩, .tick 0,
      .tick 100000000, .tick 200000000]).step
      (.stage2 1 1001 (.completed { certAddrs := [2], certVer := 2, remoteIndex := 2001, time := 5 })) |>.2.tx
    = [.msg 40 1, .msg 42 1] := by decide

end Nebula.Props.C32
