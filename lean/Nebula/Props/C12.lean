/-
C12 — A data packet is delivered at most once.

"However receive work is interleaved across goroutines, each authenticated data, control, lighthouse,
test or relayed packet on a tunnel is acted upon at most once, and a replayed copy (arriving directly
or through a relay) is never delivered to the tun device."

Model: `Model/Decrypt.lean`. Every goroutine handling a received UDP packet walks through the packet's
layers, outermost first; on each layer it runs Check (atomic, under that tunnel's `decryptLock`) → AEAD
open (oracle `authOK`) → Update (atomic) on the window of the layer's tunnel (`Model/Bits.lean`, the C11
model) and acts on the layer only when all three succeed: one layer for a direct packet (`Decrypt`) or
for a relay packet at a forwarding relay (`VerifyRelay`); two layers for a relayed packet at its
terminal peer (`VerifyRelay` on the relay tunnel's window, then `readOutsidePackets` recurses and
`Decrypt` runs on the end-to-end tunnel's window). Quantifier: every list of thread identifiers (= every
interleaving of any number of goroutines), every packet table (any nesting, counters, duplicates,
replays, forged layers), any number of tunnels, every power-of-two window length per tunnel.

Assumed (DESIGN §3): `sync.Mutex` gives mutual exclusion, so the two locked regions are atomic steps
(tied by the lock-bracketing facts extracted from connection_state.go and the dispatch-order facts
extracted from outside.go); the AEAD is an oracle.
-/
import Nebula.Lemmas.DecryptWindow

namespace Nebula.Props.C12
open Nebula.Bits Nebula.Decrypt Nebula.Lemmas.Decrypt Nebula.Lemmas.Bits Nebula.Spec

/-- On every tunnel, the layers acted upon are exactly the accepted `Update`s of one sequential
history on that tunnel's window, and every layer acted upon is an authentic layer of its thread's
packet — every schedule, every packet table, any starting windows. -/
theorem deliveries_are_sequential_updates (pk : Nat → Pkt) (b0 : Nat → Bits) (sched : List Nat) :
    (∀ T, ((run pk (init b0) sched).win T, onTunnel T (run pk (init b0) sched).delivered)
        = feed (b0 T) ((run pk (init b0) sched).hist T)) ∧
    (∀ t T c, (t, T, c) ∈ (run pk (init b0) sched).delivered →
        ∃ li : Nat, (pk t)[li]? = some ({ tunnel := T, ctr := c, authOK := true } : Layer)) := by
  have h := run_inv sched (init b0) (inv_init pk b0)
  exact ⟨h.hist, fun t T c hm => let ⟨li, _, h2⟩ := h.auth t T c hm; ⟨li, h2⟩⟩

/-- DELIVER AT MOST ONCE, per (tunnel, counter), nested delivery included: whatever windows of
power-of-two length the tunnels start with, under every interleaving of any number of goroutines over
any packets, no (tunnel, counter) is acted upon twice — neither by two copies of a direct packet, nor by
two copies of a relay packet, nor by a relayed and a direct copy of the same inner packet
(corollary of C11's refinement over each tunnel's sequential history of `Update` steps). -/
theorem deliver_at_most_once (L : Nat → Nat) (b0 : Nat → Bits) (hb : ∀ T, R (b0 T) (L T) Window.init)
    (pk : Nat → Pkt) (sched : List Nat) :
    ((run pk (init b0) sched).delivered.map (fun e => (e.2.1, e.2.2))).Nodup := by
  apply nodup_pairs
  intro T
  have h := (run_inv sched (init b0) (inv_init pk b0)).hist T
  have hn := feed_nodup (hb T) ((run pk (init b0) sched).hist T)
  rw [← h] at hn
  exact hn

/-- … in particular for freshly created windows `NewBits(2^(k T))` on every tunnel `T`. -/
theorem deliver_at_most_once_fresh (k : Nat → Nat) (hk : ∀ T, k T ≤ 63) (pk : Nat → Pkt) (sched : List Nat) :
    ∃ b0 : Nat → Bits, (∀ T, newBits (BitVec.ofNat 64 (2 ^ k T)) = some (b0 T)) ∧
      ((run pk (init b0) sched).delivered.map (fun e => (e.2.1, e.2.2))).Nodup := by
  have hex : ∀ T, ∃ b, newBits (BitVec.ofNat 64 (2 ^ k T)) = some b ∧ R b (2 ^ k T) Window.init :=
    fun T => newBits_R (k T) (hk T)
  refine ⟨fun T => Classical.choose (hex T), fun T => (Classical.choose_spec (hex T)).1, ?_⟩
  exact deliver_at_most_once (fun T => 2 ^ k T) _ (fun T => (Classical.choose_spec (hex T)).2) pk sched

/-- REPLAY NOT DELIVERED: once (tunnel, counter) has been acted upon, no continuation of the schedule —
whatever packets (copies of the original, forged, relayed, nested) other goroutines handle — acts on it again. -/
theorem replay_not_delivered (L : Nat → Nat) (b0 : Nat → Bits) (hb : ∀ T, R (b0 T) (L T) Window.init)
    (pk : Nat → Pkt) (sched more : List Nat) (t T : Nat) (c : U64)
    (hm : (t, T, c) ∈ (run pk (init b0) sched).delivered) :
    ∃ new, (run pk (init b0) (sched ++ more)).delivered = new ++ (run pk (init b0) sched).delivered ∧
      ∀ t', (t', T, c) ∉ new := by
  have hnd := deliver_at_most_once L b0 hb pk (sched ++ more)
  have e : run pk (init b0) (sched ++ more) = run pk (run pk (init b0) sched) more := by
    simp [run, List.foldl_append]
  obtain ⟨new, hnew⟩ := delivered_suffix pk more (run pk (init b0) sched)
  rw [← e] at hnew
  refine ⟨new, hnew, ?_⟩
  intro t' hm'
  rw [hnew, List.map_append] at hnd
  have := (List.nodup_append.mp hnd).2.2 (T, c) (List.mem_map.mpr ⟨(t', T, c), hm', rfl⟩) (T, c)
    (List.mem_map.mpr ⟨(t, T, c), hm, rfl⟩)
  exact this rfl

/-- Only authenticated layers are acted upon, with the counter of their header, and counter 0 never. -/
theorem only_authenticated_delivered (L : Nat → Nat) (b0 : Nat → Bits) (hb : ∀ T, R (b0 T) (L T) Window.init)
    (pk : Nat → Pkt) (sched : List Nat) (t T : Nat) (c : U64)
    (hm : (t, T, c) ∈ (run pk (init b0) sched).delivered) :
    (∃ li : Nat, (pk t)[li]? = some ({ tunnel := T, ctr := c, authOK := true } : Layer)) ∧ c ≠ 0#64 := by
  have hi := run_inv sched (init b0) (inv_init pk b0)
  obtain ⟨li, _, h2⟩ := hi.auth t T c hm
  refine ⟨⟨li, h2⟩, ?_⟩
  intro e
  subst e
  have hz := feed_zero (hb T) ((run pk (init b0) sched).hist T)
  rw [← hi.hist T] at hz
  apply hz
  simp only [onTunnel, List.mem_filterMap]
  exact ⟨(t, T, 0#64), hm, by simp⟩

/-- NESTING: an inner layer is acted upon only after every layer outside it was acted upon by the same
goroutine — the carried packet of a relay envelope is processed only if the envelope passed the relay
tunnel's replay window (and authenticated). -/
theorem inner_only_after_outer (pk : Nat → Pkt) (b0 : Nat → Bits) (sched : List Nat) (t T : Nat) (c : U64)
    (hm : (t, T, c) ∈ (run pk (init b0) sched).delivered) :
    ∃ (li : Nat) (ly : Layer), (pk t)[li]? = some ly ∧ ly.tunnel = T ∧ ly.ctr = c ∧
      ∀ li', li' < li → ∃ ly' : Layer, (pk t)[li']? = some ly' ∧
        (t, ly'.tunnel, ly'.ctr) ∈ (run pk (init b0) sched).delivered :=
  (run_chain sched (init b0) (chain_init pk b0)).chain t T c hm

-- non-vacuity: tunnel 0 = end-to-end, tunnel 1 = relay. Goroutines 0 and 1 carry the same inner packet
-- (counter 5 on tunnel 0) inside two different relay envelopes (counters 7 and 8 on tunnel 1), goroutine
-- 2 carries a direct copy of it; all three are authentic. Whatever the interleaving, counter 5 is acted
-- upon once on tunnel 0.
example : ∃ b0 : Nat → Bits, (∀ T, newBits (BitVec.ofNat 64 (2 ^ 4)) = some (b0 T)) ∧
    ((run (fun t => if t = 2 then [⟨0, 5#64, true⟩] else [⟨1, BitVec.ofNat 64 (7 + t), true⟩, ⟨0, 5#64, true⟩])
        (init b0) [0, 1, 2, 0, 1, 2, 0, 1, 2, 0, 1, 0, 1, 0, 1]).delivered.map (fun e => (e.2.1, e.2.2))).Nodup :=
  deliver_at_most_once_fresh (fun _ => 4) (fun _ => by decide) _ _

end Nebula.Props.C12
