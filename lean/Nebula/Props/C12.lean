/-
C12 — A data packet is delivered at most once.

"However receive work is interleaved across goroutines, each authenticated data, control, lighthouse,
test or relayed packet on a tunnel is acted upon at most once, and a replayed copy (arriving directly
or through a relay) is never delivered to the tun device."

Model: `Model/Decrypt.lean` — every goroutine handling a received packet runs Check (atomic, under
`decryptLock`) → AEAD open (oracle `authOK`) → Update (atomic, under `decryptLock`) on the tunnel's
window (`Model/Bits.lean`, the C11 model); a packet is delivered only when all three succeed
(`Decrypt` for direct packets, `VerifyRelay` for relayed ones run the same program on the window of
the tunnel they arrived on). Quantifier: every list of thread identifiers (= every interleaving of
any number of goroutines), every packet table (any counters, duplicates, replays, forged packets),
every power-of-two window length.

Assumed (DESIGN §3): `sync.Mutex` gives mutual exclusion, so the two locked regions are atomic steps
(tied by the lock-bracketing facts extracted from connection_state.go); the AEAD is an oracle.
-/
import Nebula.Lemmas.DecryptWindow

namespace Nebula.Props.C12
open Nebula.Bits Nebula.Decrypt Nebula.Lemmas.Decrypt Nebula.Lemmas.Bits Nebula.Spec

/-- Deliveries are exactly the accepted `Update`s of one sequential history on the tunnel's window;
delivered packets are authentic; no goroutine delivers twice — every schedule, every packet table,
any starting window. -/
theorem deliveries_are_sequential_updates (pk : Nat → Pkt) (b0 : Bits) (sched : List Nat) :
    (let s := run pk (init b0) sched
     (s.window, s.delivered.map (·.2)) = feed b0 s.hist ∧
     (∀ t c, (t, c) ∈ s.delivered → (pk t).authOK = true ∧ (pk t).ctr = c) ∧
     (s.delivered.map (·.1)).Nodup) := by
  have h := run_inv sched (init b0) (inv_init pk b0)
  exact ⟨h.hist, fun t c hm => ⟨(h.auth t c hm).1, (h.auth t c hm).2.1⟩, h.once⟩

/-- DELIVER AT MOST ONCE: on a fresh tunnel window of any power-of-two length, under every
interleaving of any number of goroutines over any packets, no message counter is delivered twice
(corollary of C11's refinement over the sequential history of `Update` steps). -/
theorem deliver_at_most_once (k : Nat) (hk : k ≤ 63) (pk : Nat → Pkt) (sched : List Nat) :
    ∃ b0, newBits (BitVec.ofNat 64 (2 ^ k)) = some b0 ∧
      ((run pk (init b0) sched).delivered.map (·.2)).Nodup := by
  obtain ⟨b0, hb, r0⟩ := newBits_R k hk
  refine ⟨b0, hb, ?_⟩
  have h := (run_inv sched (init b0) (inv_init pk b0)).hist
  have hn := feed_nodup r0 (run pk (init b0) sched).hist
  rw [← h] at hn
  exact hn

/-- REPLAY NOT DELIVERED: once a counter has been delivered, no continuation of the schedule —
whatever packets (copies of the original, forged, relayed) other goroutines handle — delivers it again. -/
theorem replay_not_delivered (k : Nat) (hk : k ≤ 63) (pk : Nat → Pkt) (sched more : List Nat)
    (t : Nat) (c : U64) :
    ∃ b0, newBits (BitVec.ofNat 64 (2 ^ k)) = some b0 ∧
      ((t, c) ∈ (run pk (init b0) sched).delivered →
        ∃ new, (run pk (init b0) (sched ++ more)).delivered = new ++ (run pk (init b0) sched).delivered ∧
          ∀ t', (t', c) ∉ new) := by
  obtain ⟨b0, hb, hnd⟩ := deliver_at_most_once k hk pk (sched ++ more)
  refine ⟨b0, hb, fun hm => ?_⟩
  have e : run pk (init b0) (sched ++ more) = run pk (run pk (init b0) sched) more := by
    simp [run, List.foldl_append]
  obtain ⟨new, hnew⟩ := delivered_suffix pk more (run pk (init b0) sched)
  rw [← e] at hnew
  refine ⟨new, hnew, ?_⟩
  intro t' hm'
  rw [hnew, List.map_append] at hnd
  have := (List.nodup_append.mp hnd).2.2 c (List.mem_map.mpr ⟨(t', c), hm', rfl⟩) c
    (List.mem_map.mpr ⟨(t, c), hm, rfl⟩)
  exact this rfl

/-- Only authenticated packets are delivered, with the counter of their header, and counter 0 never. -/
theorem only_authenticated_delivered (k : Nat) (hk : k ≤ 63) (pk : Nat → Pkt) (sched : List Nat) :
    ∃ b0, newBits (BitVec.ofNat 64 (2 ^ k)) = some b0 ∧
      ∀ t c, (t, c) ∈ (run pk (init b0) sched).delivered →
        (pk t).authOK = true ∧ (pk t).ctr = c ∧ c ≠ 0#64 := by
  obtain ⟨b0, hb, r0⟩ := newBits_R k hk
  refine ⟨b0, hb, fun t c hm => ?_⟩
  have hi := run_inv sched (init b0) (inv_init pk b0)
  refine ⟨(hi.auth t c hm).1, (hi.auth t c hm).2.1, ?_⟩
  intro e
  subst e
  have hz := feed_zero r0 (run pk (init b0) sched).hist
  rw [← hi.hist] at hz
  exact hz (List.mem_map.mpr ⟨(t, 0#64), hm, rfl⟩)

-- non-vacuity: two goroutines race on copies of counter 5 (both pass Check, both authenticate);
-- exactly one of them delivers. Threads 0,1: counter 5 authentic; thread 2: counter 5 forged.
example : ∃ b0, newBits (BitVec.ofNat 64 (2 ^ 4)) = some b0 ∧
    ((run (fun t => { ctr := 5#64, authOK := t != 2 }) (init b0) [0, 1, 2, 0, 1, 2, 0, 1, 2]).delivered.map (·.2)).Nodup :=
  deliver_at_most_once 4 (by decide) _ _

end Nebula.Props.C12
