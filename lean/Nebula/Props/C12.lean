import Nebula.Lemmas.Decrypt

namespace Nebula.Props.C12
open Nebula.Bits Nebula.Decrypt Nebula.Lemmas.Decrypt

/-- Deliveries are exactly the accepted `Update`s of one sequential history on the tunnel's window;
delivered packets are authentic; no thread delivers twice — every schedule, every packet table. -/
theorem deliveries_are_sequential_updates (pk : Nat → Pkt) (b0 : Bits) (sched : List Nat) :
    let s := run pk (init b0) sched
    (s.window, s.delivered.map (·.2)) = feed b0 s.hist ∧
    (∀ t c, (t, c) ∈ s.delivered → (pk t).authOK = true ∧ (pk t).ctr = c) ∧
    (s.delivered.map (·.1)).Nodup := by
  have h := run_inv sched (init b0) (inv_init pk b0)
  exact ⟨h.hist, fun t c hm => ⟨(h.auth t c hm).1, (h.auth t c hm).2.1⟩, h.once⟩

end Nebula.Props.C12
