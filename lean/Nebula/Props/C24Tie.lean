/-
C24 — source tie of `virtio.CorrectHdrLen` (overlay/tio/virtio/segment_linux.go).

The wrapping `uint16` sums `hdr.CsumStart + 8` / `hdr.CsumStart + tcpHLen` / `hdr.CsumStart + hdr.CsumOffset`, the TCP
data-offset extraction `uint16(pkt[…] >> 4 * 4)` and every comparison of the function (`len(pkt) <= int(…)`,
`tcpHLen < tcpHeaderMinLen || tcpHLen > tcpHeaderMaxLen`, `len(pkt) < int(hdr.HdrLen)`, `hdr.HdrLen < hdr.CsumStart`,
`cSumAt+1 >= len(pkt)`) are regenerated from the source on every run (`Gen.tie_ties1_seg_*`) and the hand model
`Nebula.Segment.correctHdrLen` is proved to be the function built from exactly those pieces. Hand-written remain the
control skeleton, the GSO-type test (a method call) and the position of the one byte read.
-/
import Nebula.Lemmas.Ties1SegTie

namespace Nebula.Props.C24Tie
open Nebula.Gen Nebula.Segment Nebula.Lemmas.Ties1SegTie

/-- What `tailT` is: the three checks after the header length is known, each condition a regenerated comparison. -/
theorem correctHdrLen_tail_is_translated (pkt : List UInt8) (h : Hdr) (hdrLen : Nat) :
    tailT pkt h hdrLen =
      (failIf (tie_ties1_seg_len_lt_hdr (BitVec.ofNat 64 pkt.length) (BitVec.ofNat 16 hdrLen) = true) .lenLtHdrLen
        >>= fun _ =>
       failIf (tie_ties1_seg_hdr_lt_csum (BitVec.ofNat 16 hdrLen) (BitVec.ofNat 16 h.csumStart) = true) .hdrLtCsum
        >>= fun _ =>
       failIf (tie_ties1_seg_csum_off_bad
          (tie_ties1_seg_cSumAt (BitVec.ofNat 16 h.csumStart) (BitVec.ofNat 16 h.csumOffset))
          (BitVec.ofNat 64 pkt.length) = true) .csumOff >>= fun _ =>
       pure hdrLen) := rfl

/-- For every packet (shorter than 2^62 bytes) and every virtio header with `uint16` fields: the model's
`correctHdrLen` is the regenerated arithmetic and comparisons in the control skeleton of the Go function. -/
theorem correctHdrLen_is_translated (pkt : List UInt8) (h : Hdr) (hcs : h.csumStart < 65536)
    (hco : h.csumOffset < 65536) (hn : pkt.length < 2 ^ 62) :
    correctHdrLen pkt h =
      if h.gso = GSO_UDP_L4 then
        tailT pkt h (tie_ties1_seg_udp_hdrLen (BitVec.ofNat 16 h.csumStart)).toNat
      else
        failIf (tie_ties1_seg_tcp_short (BitVec.ofNat 64 pkt.length) (BitVec.ofNat 16 h.csumStart) = true) .tcpShort
          >>= fun _ =>
        rd pkt ((h.csumStart + virtio_tcpDataOffOff) % 65536) >>= fun d =>
        failIf (tie_ties1_seg_tcp_hlen_bad (tie_ties1_seg_tcp_hlen (BitVec.ofNat 8 d)) = true) .tcpHLen >>= fun _ =>
        tailT pkt h (tie_ties1_seg_tcp_hdrLen (BitVec.ofNat 16 h.csumStart)
          (tie_ties1_seg_tcp_hlen (BitVec.ofNat 8 d))).toNat :=
  correctHdrLen_eq pkt h hcs hco hn

-- the regenerated pieces compute, including the uint16 wrap: CsumStart 65530 + 8 wraps to 2; data offset 0xF0 is 60 bytes
example : (tie_ties1_seg_udp_hdrLen 65530#16).toNat = 2 ∧ (tie_ties1_seg_tcp_hlen 0xF0#8).toNat = 60
    ∧ tie_ties1_seg_tcp_hlen_bad 16#16 = true ∧ tie_ties1_seg_tcp_hlen_bad 20#16 = false := by decide

end Nebula.Props.C24Tie
