/-
C47 — source tie of the header arithmetic.

`header.Encode` and `H.Parse` are regenerated from header/header.go on every run (one `BitVec` definition per byte
stored / per field assigned; `binary.BigEndian.PutUintN` / `UintN` expanded to byte stores / shifted ORs by the
translator) and proved here to be the hand-written model `Nebula.Header.encode` / `parse` that the C47 theorems are
about. An edit of a shift, mask, byte order or offset in the Go code changes a regenerated definition and these
theorems stop checking.
-/
import Nebula.Lemmas.Ties1HeaderTie

namespace Nebula.Props.C47Tie
open Nebula.Header Nebula.Lemmas.Ties1HeaderTie

/-- For every value of the Go parameter types (`v`, `t`, `st : uint8`, `ri : uint32`, `c : uint64`) the sixteen
bytes `Encode` stores, as regenerated from the source, are exactly the model's `encode`. -/
theorem encode_is_translated (v t st : BitVec 8) (ri : BitVec 32) (c : BitVec 64) :
    (encodeBytes v t st ri c).map BitVec.toNat = encode v.toNat t.toNat st.toNat ri.toNat c.toNat :=
  encode_eq v t st ri c

/-- For every input of at least sixteen bytes (any sixteen bytes, any tail) the model's `parse` returns, field by
field, the value the regenerated assignment `h.<Field> = …` of `H.Parse` computes from the same bytes. -/
theorem parse_is_translated (b0 b1 b2 b3 b4 b5 b6 b7 b8 b9 b10 b11 b12 b13 b14 b15 : BitVec 8) (rest : List Nat) :
    parse ([b0.toNat, b1.toNat, b2.toNat, b3.toNat, b4.toNat, b5.toNat, b6.toNat, b7.toNat, b8.toNat, b9.toNat,
        b10.toNat, b11.toNat, b12.toNat, b13.toNat, b14.toNat, b15.toNat] ++ rest) =
      some { version := (Gen.tie_ties1_hdr_parseVersion b0).toNat
             type := (Gen.tie_ties1_hdr_parseType b0).toNat
             subtype := (Gen.tie_ties1_hdr_parseSubtype b1).toNat
             reserved := (Gen.tie_ties1_hdr_parseReserved b2 b3).toNat
             remoteIndex := (Gen.tie_ties1_hdr_parseRemoteIndex b4 b5 b6 b7).toNat
             counter := (Gen.tie_ties1_hdr_parseMessageCounter b8 b9 b10 b11 b12 b13 b14 b15).toNat } :=
  parse_eq b0 b1 b2 b3 b4 b5 b6 b7 b8 b9 b10 b11 b12 b13 b14 b15 rest

-- the regenerated definitions compute (a header with every field non-trivial)
example : (encodeBytes 1#8 3#8 1#8 0x01020304#32 0x1112131415161718#64).map BitVec.toNat
    = [0x13, 1, 0, 0, 1, 2, 3, 4, 0x11, 0x12, 0x13, 0x14, 0x15, 0x16, 0x17, 0x18] := by decide

end Nebula.Props.C47Tie
