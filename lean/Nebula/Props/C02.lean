import Nebula.Model.CertV2
namespace Nebula.Props.C02
theorem placeholder : True := trivial
end Nebula.Props.C02
