/-
C02 — Tampered certificates are rejected.

"Any alteration of a trusted certificate's encoding that still decodes is rejected by verification unless the
decoded identity (name, networks, unsafe networks, groups, CA flag, validity, issuer, curve and public key)
is unchanged. The only other signature accepted for unchanged content is the P-256 low/high-S twin, and
blocklisting either twin's fingerprint rejects both."

v2: the signed bytes are `rawDetails ‖ curve ‖ publicKey`; `rawDetails` is one self-delimiting TLV element
(`Lemmas/Der.lean`), so the signed bytes split uniquely and determine every decoded field
(`signed_determines_identity_v2`, for any two byte strings, standard or handshake form). Unforgeability of
the signature scheme is a hypothesis (`tamper_rejected_v2`), never an axiom. The twin statements are the
scalar theorems of C04 and the blocklist theorem of C01, restated here.
v1: the signed bytes are the re-marshalled details; the protobuf round trip of that message is proved
(`Lemmas/CertV1Pb.lean`), so `signed_determines_identity_v1` has no codec hypothesis either.
-/
import Nebula.Lemmas.CertV2
import Nebula.Lemmas.CAPool
import Nebula.Model.CertV1
import Nebula.Model.P256
import Nebula.Lemmas.CertV1RT

namespace Nebula.Props.C02
open Nebula.Net Nebula.Cert Nebula.Der Nebula.Lemmas.Der Nebula.Lemmas.CertV2 Nebula.Spec.Trust

/-- identity of a certificate: everything but the signature. -/
def identity (c : Cert) : Cert := { c with signature := [] }

/-- **v2: the signed bytes determine the identity.** For any two byte strings that decode (standard form, or
handshake form recombined with any key and curve), equal signed bytes imply equal name, networks, unsafe
networks, groups, CA flag, validity, issuer, curve and public key. -/
theorem signed_determines_identity_v2 (b b' pk pk' : List UInt8) (cv cv' : Nat) (c c' : Cert) (rd rd' : List UInt8)
    (h : V2.unmarshal b pk cv = .ok (c, rd)) (h' : V2.unmarshal b' pk' cv' = .ok (c', rd'))
    (hs : V2.signedBytes rd c.curve c.publicKey = V2.signedBytes rd' c'.curve c'.publicKey) :
    identity c = identity c' ∧ rd = rd' := by
  obtain ⟨⟨t, ht, hte⟩, hcv, d, hd, hv⟩ := unmarshal_ok b pk cv c rd h
  obtain ⟨⟨t', ht', hte'⟩, hcv', d', hd', hv'⟩ := unmarshal_ok b' pk' cv' c' rd' h'
  unfold V2.signedBytes at hs
  simp only [List.append_assoc] at hs
  obtain ⟨hrd, hrest⟩ := elem_prefix_unique rd rd' _ _ t t' ht hte ht' hte' hs
  subst hrd
  simp only [List.cons_append, List.nil_append, List.cons.injEq] at hrest
  obtain ⟨hcurve, hpub⟩ := hrest
  have hc : c.curve = c'.curve := by
    have := congrArg UInt8.toNat hcurve
    simp only [UInt8.toNat_ofNat'] at this
    omega
  rw [hd] at hd'
  cases hd'
  have h1 := validateV2_signature _ _ [] hv
  have h2 := validateV2_signature _ _ [] hv'
  simp only at h1 h2
  rw [hc, hpub] at h1
  rw [h1] at h2
  have e := Except.ok.inj h2
  refine ⟨?_, rfl⟩
  unfold identity
  rw [← e, hc, hpub]

/-- **Tampered v2 certificates are rejected unless the identity is unchanged**, for every verifier state: if the
altered encoding decodes and `VerifyCertificate` accepts it, and signatures are unforgeable in the sense that
the only message the CA key has signed with these signed bytes' …  — formally: whenever a signature check under
the CA key succeeds the signed bytes are the original's (`hEUF`) — then the decoded identity is the original's. -/
theorem tamper_rejected_v2 (K : Crypto) (p : Pool) (t : Int) (b b' pk pk' : List UInt8) (cv cv' : Nat)
    (c c' : Cert) (rd rd' : List UInt8) (ca : Cert)
    (h : V2.unmarshal b pk cv = .ok (c, rd)) (h' : V2.unmarshal b' pk' cv' = .ok (c', rd'))
    (hca : p.cas.lookup c'.issuer = some ca)
    (hEUF : K.checkSig c' ca.publicKey = true →
      V2.signedBytes rd' c'.curve c'.publicKey = V2.signedBytes rd c.curve c.publicKey)
    (hacc : ∃ cc, p.verifyCertificate K t c' = .ok cc) :
    identity c' = identity c := by
  obtain ⟨-, -, ca', hl, -, -, -, hsig, -⟩ := (Nebula.Lemmas.CAPool.accept_iff K p t c').mp hacc
  rw [hca] at hl
  cases hl
  exact (signed_determines_identity_v2 b' b pk' pk cv' cv c' c rd' rd h' h (hEUF hsig)).1

/-- The v2 fingerprint covers the signature bytes: certificates with equal raw details, curve and key have
equal fingerprint preimages iff their signatures are equal (so the low/high-S twin has a different
fingerprint, which is why both are checked against the blocklist). -/
theorem fingerprint_preimage_v2 (rd : List UInt8) (curve : Nat) (pk s s' : List UInt8) :
    V2.fingerprintBytes rd curve pk s = V2.fingerprintBytes rd curve pk s' ↔ s = s' := by
  unfold V2.fingerprintBytes
  constructor
  · intro h; exact List.append_cancel_left h
  · intro h; rw [h]

/-- **The twin**: on the scalar level the only other `S` accepted by ECDSA for the same `(r, message)` is
`N - S` (a hypothesis about ECDSA, not proved); the model's `Swap` maps a valid scalar to exactly that value,
is an involution, never a fixed point, and exactly one of the two forms is low-S. -/
theorem twin_scalar (s : Nat) (h1 : 0 < s) (h2 : s < P256.N) :
    P256.swapS (P256.swapS s) = s ∧ P256.swapS s ≠ s ∧ 0 < P256.swapS s ∧ P256.swapS s < P256.N ∧
    P256.isLowS s ≠ P256.isLowS (P256.swapS s) := by
  unfold P256.swapS P256.isLowS P256.halfN P256.N at *
  simp only [ne_eq, decide_eq_decide]
  omega

/-- **Blocklisting either twin's fingerprint rejects both**: a certificate whose fingerprint or alternate
(twin) fingerprint is on the blocklist is never accepted; since the twin's own fingerprints are the same two
values swapped, one blocklist entry rejects both forms. (The cached re-check is covered by C01
`blocklisting_either_form_rejects`.) -/
theorem blocklisting_either_twin_rejects (K : Crypto) (p : Pool) (t : Int) (c tw : Cert) (f1 f2 : String)
    (hc : K.fingerprint c = some f1 ∧ K.altFingerprint c = some f2)
    (htw : K.fingerprint tw = some f2 ∧ K.altFingerprint tw = some f1) (hne : f1 ≠ "" ∧ f2 ≠ "")
    (fp : String) (hfp : fp = f1 ∨ fp = f2) (hb : fp ∈ p.block) :
    (¬ ∃ cc, p.verifyCertificate K t c = .ok cc) ∧ (¬ ∃ cc, p.verifyCertificate K t tw = .ok cc) := by
  constructor
  · rw [Nebula.Lemmas.CAPool.accept_iff]
    rintro ⟨⟨g1, hg1, hb1, g2, hg2, hb2⟩, -⟩
    rw [hc.1] at hg1; rw [hc.2] at hg2; cases hg1; cases hg2
    rcases hfp with rfl | rfl
    · exact hb1 hb
    · rcases hb2 with h | h
      · exact hne.2 h
      · exact h hb
  · rw [Nebula.Lemmas.CAPool.accept_iff]
    rintro ⟨⟨g1, hg1, hb1, g2, hg2, hb2⟩, -⟩
    rw [htw.1] at hg1; rw [htw.2] at hg2; cases hg1; cases hg2
    rcases hfp with rfl | rfl
    · rcases hb2 with h | h
      · exact hne.1 h
      · exact h hb
    · exact hb1 hb

open Nebula.Lemmas.CertV1RT Nebula.Lemmas.CertV1Pb in
/-- **v1: the signed bytes determine the identity**, no codec hypothesis. The signed bytes are
`proto.Marshal(getRawDetails())`; for any two decoded certificates (any bytes, standard or handshake form) with
equal signed bytes, name, networks, unsafe networks, groups, CA flag, validity, issuer, curve and public key are
equal. (`V1Sized` / `hi`: byte strings shorter than 2^64.) -/
theorem signed_determines_identity_v1 (b b' pk pk' : List UInt8) (c c' : Cert)
    (h : V1.unmarshal b pk = .ok c) (h' : V1.unmarshal b' pk' = .ok c')
    (hs : V1Sized c) (hs' : V1Sized c')
    (hi : ∀ ib, c.issuer = hexEnc ib → ib.length < 2 ^ 64) (hi' : ∀ ib, c'.issuer = hexEnc ib → ib.length < 2 ^ 64)
    (sb : List UInt8) (hsb : V1.signedBytes c = some sb) (hsb' : V1.signedBytes c' = some sb) :
    identity c = identity c' := by
  have ok := v1ok_of_decoded b pk c h hs hi
  have ok' := v1ok_of_decoded b' pk' c' h' hs' hi'
  unfold V1.signedBytes at hsb hsb'
  have w := detailsWF_of c c.publicKey ok ok.pk_len (groups_utf8_of_encode _ sb hsb)
  have w' := detailsWF_of c' c'.publicKey ok' ok'.pk_len (groups_utf8_of_encode _ sb hsb')
  have r := decDetails_encodeDetails _ w sb hsb _ (Nat.le_refl _)
  have r' := decDetails_encodeDetails _ w' sb hsb' _ (Nat.le_refl _)
  rw [r] at r'
  have hrd := Option.some.inj r'
  have hpk : c.publicKey = c'.publicKey := by
    have := congrArg V1.RawDetails.publicKey hrd
    exact this
  have e := certOfRaw_rawDetailsOf c ok c.publicKey
  have e' := certOfRaw_rawDetailsOf c' ok' c'.publicKey
  unfold identity
  rw [← e, ← e', hrd, hpk]
  rfl

/-! ### Non-vacuity -/

example : V2.unmarshal exV2Bytes [] 0 = .ok (exV2Cert, exV2Raw) := by decide
example : V2.unmarshal (V2.marshalForHandshakes exV2Raw [9, 9]) [1, 2, 3] 0 = .ok (exV2Cert, exV2Raw) := by decide

end Nebula.Props.C02
