/-
C47 — The packet header encoding is exact.

"Encoding a header and parsing it back yields the same version, type, subtype, index and counter with
the reserved field zero, parsing never reads beyond 16 bytes or accepts shorter input, and only the
documented type/subtype combinations are considered valid."  — for all field values and byte strings.
-/
import Nebula.Lemmas.Header
import Nebula.Lemmas.HeaderTable

namespace Nebula.Props.C47
open Nebula.Header Nebula.Lemmas.Header

/-- Round trip for every value of the Go parameter types (`v`, `t : uint8` arbitrary, `st : uint8`,
`ri : uint32`, `c : uint64`): version and type survive in their 4-bit wire fields, everything else
exactly, and the reserved field parses as zero. -/
theorem parse_encode (v t st ri c : Nat) (hst : st < 256) (hri : ri < 2 ^ 32) (hc : c < 2 ^ 64) :
    parse (encode v t st ri c) =
      some { version := v % 16, type := t % 16, subtype := st, reserved := 0,
             remoteIndex := ri, counter := c } := by
  have h4 := beVal_beBytes 4 ri (by simpa using hri)
  have h8 := beVal_beBytes 8 c (by simpa using hc)
  have ha := b0_hi v t
  have hb := b0_lo v t
  simp only [encode, Nat.mod_eq_of_lt hri, Nat.mod_eq_of_lt hc, Nat.mod_eq_of_lt hst]
  simp only [beBytes] at h4 h8 ⊢
  simp only [parse, Gen.header_Len]
  simp only [List.cons_append, List.nil_append, List.length_cons, List.length_nil]
  simp only [List.take, List.drop, List.getD_cons_zero, List.getD_cons_succ]
  simp [ha, hb, beVal]
  omega

/-- With version and type inside the protocol's 4-bit ranges nothing is lost at all. -/
theorem parse_encode_exact (v t st ri c : Nat) (hv : v < 16) (ht : t < 16) (hst : st < 256)
    (hri : ri < 2 ^ 32) (hc : c < 2 ^ 64) :
    parse (encode v t st ri c) =
      some { version := v, type := t, subtype := st, reserved := 0, remoteIndex := ri, counter := c } := by
  rw [parse_encode v t st ri c hst hri hc, Nat.mod_eq_of_lt hv, Nat.mod_eq_of_lt ht]

-- non-vacuity / sanity on a concrete header
example : parse (encode 1 5 0 0xdeadbeef 0x0102030405060708) =
    some { version := 1, type := 5, subtype := 0, reserved := 0, remoteIndex := 0xdeadbeef,
           counter := 0x0102030405060708 } := by decide

/-- The encoding is always exactly 16 bytes. -/
theorem encode_length (v t st ri c : Nat) : (encode v t st ri c).length = 16 := by
  simp [encode, beBytes]

/-- The reserved bytes are written as zero. -/
theorem reserved_zero (v t st ri c : Nat) :
    (encode v t st ri c).getD 2 1 = 0 ∧ (encode v t st ri c).getD 3 1 = 0 := by
  simp [encode]

/-- Input shorter than 16 bytes is never accepted. -/
theorem short_rejected (b : List Nat) (h : b.length < 16) : parse b = none := by
  simp [parse, Gen.header_Len, h]

/-- Input of at least 16 bytes is always accepted. -/
theorem long_accepted (b : List Nat) (h : 16 ≤ b.length) : (parse b).isSome := by
  simp [parse, Gen.header_Len]; omega

/-- Parsing never reads beyond 16 bytes: the result is a function of the first 16 bytes only. -/
theorem parse_reads_16 (b : List Nat) (extra extra' : List Nat) (h : b.length = 16) :
    parse (b ++ extra) = parse (b ++ extra') := by
  have e1 : ¬ (16 + extra.length < 16) := by omega
  have e2 : ¬ (16 + extra'.length < 16) := by omega
  simp [parse, Gen.header_Len, h, e1, e2]

/-- Only the documented type/subtype combinations are valid — whole `uint8 × uint8` table, for the
function *as translated from the current source*. -/
theorem valid_subtypes_eq_documented (t s : Nat) (ht : t < 256) (hs : s < 256) :
    isValidSubType t s = Spec.Header.validSubType t s := by
  have h := Nebula.Lemmas.header_valid_table
  rw [List.all_eq_true] at h
  have h1 := h t (List.mem_range.mpr ht)
  rw [List.all_eq_true] at h1
  simpa using h1 s (List.mem_range.mpr hs)

end Nebula.Props.C47
