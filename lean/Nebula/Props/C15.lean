/-
C15 — Relays never see or alter end-to-end traffic.

"Traffic carried through a relay stays encrypted under the two endpoints' own tunnel keys, so the relay
never holds the plaintext and cannot change it undetected. A packet that arrives through a relay is
attributed only to the endpoint whose tunnel key authenticates it, whatever addresses the relay claims."
— all relayed sessions (terminal and forwarding relays, relays that lie about the relayed-from address or
rewrite relayed payloads).

Models: sender / forwarder byte layout `Nebula.RelaySend` (Model/RelaySend.lean); receiver
`Nebula.Outside.readOutside` (Model/Outside.lean). AEAD authenticity is a hypothesis (see C14).
-/
import Nebula.Model.RelaySend
import Nebula.Model.ViaRemote
import Nebula.Props.C14

namespace Nebula.Props.C15
open Nebula.Outside Nebula.Gen Nebula.Spec.Outside Nebula.RelaySend

/-- **relay_sees_only_ciphertext**: the bytes handed to the relay are a function of the end-to-end
ciphertext `aead kE cE hdrE pt` (and headers): two plaintexts with the same end-to-end ciphertext give the
same bytes on the relay's wire — the plaintext itself never enters the relay-visible datagram. -/
theorem relay_sees_only_ciphertext {K : Type} (aead : K → Nat → Bytes → Bytes → Bytes) (kE kR : K)
    (hdrE : Bytes) (cE : Nat) (hdrR : Bytes) (cR : Nat) (pt pt' : Bytes)
    (h : aead kE cE hdrE pt = aead kE cE hdrE pt') :
    relayWire aead kE kR hdrE cE hdrR cR pt = relayWire aead kE kR hdrE cE hdrR cR pt' := by
  unfold relayWire innerPacket
  rw [h]

/-- the relay-visible datagram is literally `hdrR ‖ hdrE ‖ ciphertext ‖ tagR`: it factors through a
function `g` that is never given the plaintext nor the end-to-end key. -/
theorem relay_wire_factors {K : Type} (aead : K → Nat → Bytes → Bytes → Bytes) (kR : K)
    (hdrE : Bytes) (hdrR : Bytes) (cR : Nat) :
    ∃ g : Bytes → Bytes, ∀ (kE : K) (cE : Nat) (pt : Bytes),
      relayWire aead kE kR hdrE cE hdrR cR pt = g (aead kE cE hdrE pt) :=
  ⟨fun ct => outerPacket aead kR hdrR cR (hdrE ++ ct), fun _ _ _ => rfl⟩

/-- **forwarding relay passes the end-to-end packet on unchanged**: with a 16-byte relay header and an
`overhead`-byte tag, what the forwarding relay re-wraps for the next hop is exactly the sender's
end-to-end packet — computed without the end-to-end key. -/
theorem relay_forward_preserves_inner {K : Type} (aead : K → Nat → Bytes → Bytes → Bytes) (overhead : Nat)
    (kE kR kT : K) (hdrE : Bytes) (cE : Nat) (hdrR : Bytes) (cR : Nat) (hdrT : Bytes) (cT : Nat) (pt : Bytes)
    (hh : hdrR.length = 16)
    (htag : (aead kR cR (hdrR ++ innerPacket aead kE hdrE cE pt) []).length = overhead) :
    relayForward aead overhead kT hdrT cT (relayWire aead kE kR hdrE cE hdrR cR pt)
      = outerPacket aead kT hdrT cT (innerPacket aead kE hdrE cE pt) := by
  unfold relayForward
  congr 1
  unfold signedPayload relayWire outerPacket
  generalize innerPacket aead kE hdrE cE pt = inner at htag ⊢
  generalize aead kR cR (hdrR ++ inner) [] = tag at htag ⊢
  have h1 : (hdrR ++ inner ++ tag).drop 16 = inner ++ tag := by
    rw [List.append_assoc, List.drop_append_of_le_length (by omega)]
    rw [show 16 = hdrR.length from hh.symm, List.drop_length]
    rfl
  rw [h1]
  simp only [List.length_append, hh, htag]
  rw [show 16 + inner.length + overhead - 16 - overhead = inner.length by omega]
  exact List.take_left' rfl

theorem dispatch_attributed (h : Hdr) (l : Look) (hid x : Nat) (e : Effect)
    (he : e ∈ dispatch h l hid) (ha : attributed e = some x) : x = hid := by
  unfold dispatch at he
  repeat' (split at he)
  all_goals first
    | (simp at he; done)
    | (simp at he; subst he; simp [attributed] at ha; exact ha.symm)

theorem encrypted_attributed (relayed : Bool) (h : Hdr) (l : Look) (hi : HostL) (e : Effect) (hid : Nat)
    (he : e ∈ encryptedPath relayed h l hi []) (ha : attributed e = some hid) : hi.id = hid := by
  unfold encryptedPath at he
  split at he
  · simp at he; subst he; simp [attributed] at ha
  · split at he
    · split at he
      · simp at he
      · have := C14.relayPath_attributed relayed h hi [] e he
        simp [ha] at this
    · split at he
      · simp at he
      · rw [List.mem_append, List.mem_append] at he
        rcases he with (he | he) | he
        · split at he <;> simp at he; subst he; simp [attributed] at ha
        · simp at he; subst he; simp [attributed] at ha
        · exact (dispatch_attributed h l hi.id hid e he ha).symm

/-- one level: everything attributed to a hostinfo comes from the authenticated dispatch for the hostinfo
selected by THIS level's index. -/
theorem level_attribution (relayed : Bool) (h : Hdr) (l : Look) (e : Effect) (hid : Nat)
    (he : e ∈ readOutside relayed (.mk h l none)) (ha : attributed e = some hid) :
    l.authOK = true ∧ ∃ hi, l.host = some hi ∧ hi.id = hid := by
  have hg : gated e = true := by cases e <;> simp_all [attributed, gated]
  refine ⟨C14.gated_effect_needs_outer_auth relayed h l none e he hg, ?_⟩
  simp only [readOutside] at he
  unfold readLevel at he
  repeat' (split at he)
  all_goals first
    | (simp at he; done)
    | (simp at he; subst he; simp [attributed] at ha; done)
    | (have := C14.handleRecvError_not_gated _ e he; rw [hg] at this; exact Bool.noConfusion this)
    | (have := C14.unknownIndex_not_gated _ _ _ e he; rw [hg] at this; exact Bool.noConfusion this)
    | (rename_i hi hhost _
       exact ⟨hi, hhost, encrypted_attributed relayed h l hi e hid he ha⟩)

/-- **attribution**: whatever is delivered / answered / closed / handled on behalf of a packet that came
through a relay is attributed to the hostinfo selected by the INNER index, and only if the INNER
authentication (the end-to-end tunnel key) succeeded — the relay's tunnel and relay record play no role. -/
theorem attribution (relayed : Bool) (h : Hdr) (l : Look) (h2 : Hdr) (l2 : Look) (e : Effect) (hid : Nat)
    (hrel : h.type = header_Message ∧ h.sub = header_MessageRelay)
    (he : e ∈ readOutside relayed (.mk h l (some (.mk h2 l2 none)))) (ha : attributed e = some hid) :
    l2.authOK = true ∧ ∃ hi2, l2.host = some hi2 ∧ hi2.id = hid := by
  rcases C14.relayed_effects relayed h l (.mk h2 l2 none) hrel e he with h1 | h1
  · exact level_attribution true h2 l2 e hid h1 ha
  · rw [ha] at h1; cases h1

/-- **the relay's claim is irrelevant**: the address a Terminal relay record (or a lying relay) claims the
traffic is relayed from does not influence the result at all. -/
theorem claim_irrelevant (relayed : Bool) (h : Hdr) (l : Look) (hi : HostL) (ty p1 p2 : Nat) (f : FwdL) (ie : List Effect) :
    readLevel relayed h { l with host := some { hi with relayRec := some { type := ty, peer := p1, fwd := f } } } ie
      = readLevel relayed h { l with host := some { hi with relayRec := some { type := ty, peer := p2, fwd := f } } } ie := by
  rfl

/-- a relay that rewrote the relayed payload (so that the end-to-end authentication fails, by the AEAD
hypothesis — C14 `forged_packet_no_effect`) gets nothing delivered or attributed. -/
theorem rewritten_payload_not_attributed (relayed : Bool) (h : Hdr) (l : Look) (h2 : Hdr) (l2 : Look)
    (hrel : h.type = header_Message ∧ h.sub = header_MessageRelay) (hforged : l2.authOK = false) :
    ∀ e ∈ readOutside relayed (.mk h l (some (.mk h2 l2 none))), attributed e = none := by
  intro e he
  cases ha : attributed e with
  | none => rfl
  | some hid =>
    have := (attribution relayed h l h2 l2 e hid hrel he ha).1
    rw [hforged] at this
    exact Bool.noConfusion this

-- non-vacuity: an honest relayed data packet IS delivered and attributed to the inner hostinfo (3), not
-- to the relay's hostinfo (2); with a forged inner packet only the relay's own tunnel is marked.
example : readOutside false (.mk { ver := 1, type := 1, sub := 1, idx := 50 }
      { host := some { id := 2, relayRec := some { type := 2, peer := 99 } }, authOK := true }
      (some (.mk { ver := 1, type := 1, sub := 0, idx := 9 } { host := some { id := 3 }, authOK := true } none)))
    = [.markIn 2, .relayUsed 50, .markIn 3, .deliver 3] := by decide

example : readOutside false (.mk { ver := 1, type := 1, sub := 1, idx := 50 }
      { host := some { id := 2, relayRec := some { type := 2, peer := 99 } }, authOK := true }
      (some (.mk { ver := 1, type := 1, sub := 0, idx := 9 } { host := some { id := 3 }, authOK := false } none)))
    = [.markIn 2, .relayUsed 50] := by decide


-- ---------------------------------------------------------------------------------------------
-- "whatever addresses the relay claims": the relay's underlay address is never recorded for the endpoint

section ViaRemote
open Nebula.ViaRemote Nebula.Net

/-- **a relayed via never changes a hostinfo's remote** (`SetRemoteIfPreferred`): whatever the current
remote (unset for relay-only tunnels, or a direct one), whatever `preferred_ranges` contains — even the
relay's own underlay address — the hostinfo is returned unchanged and the result is `false`. Excludes the
reviewer changes seeded/C15-1 (unset remote) and seeded/C15-2 (preferred-range comparison). -/
theorem relayed_via_keeps_remote (pref : List Prefix) (h : HostR) (via : Via) (hr : via.isRelayed = true) :
    setRemoteIfPreferred pref h via = (h, false) := by
  unfold setRemoteIfPreferred; simp [hr]

/-- the same for roaming and for handshake completion through a relay. -/
theorem relayed_via_never_roams (allowed recent : Bool) (h : HostR) (via : Via) (hr : via.isRelayed = true) :
    handleHostRoaming allowed recent h via = h := by
  unfold handleHostRoaming; simp [hr]

theorem relayed_completion_has_no_remote (via : Via) (hr : via.isRelayed = true) :
    (completeHandshake via).remote = none := by
  unfold completeHandshake; simp [hr]

/-- whenever ANY of the three consumers changes / sets a remote, the via was direct and the new remote is
exactly the address the datagram came from. -/
theorem remote_changes_only_from_direct_via (pref : List Prefix) (allowed recent : Bool) (h : HostR) (via : Via) :
    ((setRemoteIfPreferred pref h via).1.remote ≠ h.remote → via.isRelayed = false ∧ (setRemoteIfPreferred pref h via).1.remote = some via.udp) ∧
    ((handleHostRoaming allowed recent h via).remote ≠ h.remote → via.isRelayed = false ∧ (handleHostRoaming allowed recent h via).remote = some via.udp) ∧
    ((completeHandshake via).remote ≠ none → via.isRelayed = false ∧ (completeHandshake via).remote = some via.udp) := by
  refine ⟨?_, ?_, ?_⟩
  · intro hne
    cases hr : via.isRelayed
    · refine ⟨rfl, ?_⟩
      unfold setRemoteIfPreferred at hne ⊢
      simp only [hr] at hne ⊢
      cases hrem : h.remote with
      | none => simp
      | some cur =>
        simp only [hrem] at hne ⊢
        cases hl : prefLoop cur.1 via.udp.1 pref false with
        | none => simp [hl, hrem] at hne
        | some b => cases b <;> simp [hl, hrem] at hne ⊢
    · rw [relayed_via_keeps_remote pref h via hr] at hne; exact absurd rfl hne
  · intro hne
    cases hr : via.isRelayed
    · refine ⟨rfl, ?_⟩
      unfold handleHostRoaming at hne ⊢
      simp only [hr] at hne ⊢
      repeat' (split at hne)
      all_goals first
        | exact absurd rfl hne
        | (repeat' split
           all_goals first
             | rfl
             | (exfalso; simp_all))
    · rw [relayed_via_never_roams allowed recent h via hr] at hne; exact absurd rfl hne
  · intro hne
    cases hr : via.isRelayed
    · exact ⟨rfl, by unfold completeHandshake; simp [hr]⟩
    · rw [relayed_completion_has_no_remote via hr] at hne; exact absurd rfl hne

/-- **the preferred_ranges comparison is only for direct vias**: when `SetRemoteIfPreferred` moves a
tunnel that already has a remote, the via was direct, its address lies in some preferred range, and the
old remote lies in none of the ranges examined (so it is a genuine upgrade to a preferred path). -/
theorem preferred_move_is_direct_upgrade (pref : List Prefix) (h : HostR) (via : Via) (cur : AddrPort)
    (hc : h.remote = some cur) (hm : (setRemoteIfPreferred pref h via).2 = true) :
    via.isRelayed = false ∧ prefLoop cur.1 via.udp.1 pref false = some true ∧
      (setRemoteIfPreferred pref h via).1 = { remote := some via.udp, lastRoamRemote := some cur } := by
  cases hr : via.isRelayed
  · unfold setRemoteIfPreferred at hm ⊢
    simp only [hr, hc] at hm ⊢
    cases hl : prefLoop cur.1 via.udp.1 pref false with
    | none => simp [hl] at hm
    | some b => cases b <;> simp [hl] at hm ⊢
  · rw [relayed_via_keeps_remote pref h via hr] at hm; exact Bool.noConfusion hm

theorem prefLoop_true_means_in_range (cur new : Addr) (pref : List Prefix) :
    ∀ acc, prefLoop cur new pref acc = some true → acc = true ∨ ∃ l ∈ pref, l.contains new = true := by
  induction pref with
  | nil => intro acc h; simp [prefLoop] at h; exact Or.inl h
  | cons l ls ih =>
    intro acc h
    unfold prefLoop at h
    split at h
    · simp at h
    · rcases ih _ h with h1 | ⟨l', hl', hc⟩
      · cases hacc : acc
        · simp [hacc] at h1; exact Or.inr ⟨l, List.mem_cons_self, h1⟩
        · exact Or.inl rfl
      · exact Or.inr ⟨l', List.mem_cons_of_mem _ hl', hc⟩

-- non-vacuity: a direct duplicate from a preferred address does move the tunnel; the same packet through a
-- relay whose underlay address is preferred does not (seed C15-2's scenario), nor does it give a relay-only
-- tunnel a remote (seed C15-1's scenario)
example :
    let relayAddr : AddrPort := ({ fam := .v4, val := 0xc0000203 }, 4242)
    let peerAddr : AddrPort := ({ fam := .v4, val := 0xc0000202 }, 4242)
    let pref : List Prefix := [{ addr := { fam := .v4, val := 0xc0000203 }, len := 32 }]
    setRemoteIfPreferred pref { remote := some peerAddr } { udp := relayAddr, isRelayed := false }
        = ({ remote := some relayAddr, lastRoamRemote := some peerAddr }, true) ∧
    setRemoteIfPreferred pref { remote := some peerAddr } { udp := relayAddr, isRelayed := true }
        = ({ remote := some peerAddr }, false) ∧
    setRemoteIfPreferred pref {} { udp := relayAddr, isRelayed := true } = ({}, false) := by
  decide

end ViaRemote

end Nebula.Props.C15
