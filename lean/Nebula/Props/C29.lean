/-
C29 — Local tunnel indexes are unique and never zero. (work in progress)
-/
import Nebula.Lemmas.HostMapInv

namespace Nebula.Props.C29
open Nebula.HostMap

/-- `generateIndex` never yields zero, whatever `crypto/rand` produces. -/
theorem generated_index_nonzero (st : List Nat) (i : Nat) (r : List Nat) (h : genIndex st = some (i, r)) : i ≠ 0 :=
  genIndex_nonzero h

end Nebula.Props.C29
