/-
C29 — Local tunnel indexes are unique and never zero.

"Every local index a node hands out for a pending or established tunnel, or for a relay, is non-zero and distinct from
every other index it currently holds in the same namespace, and an index is only released by removing the tunnel that
owns it.  A remote index entry is only removed by the tunnel it points to."

For all histories (`Op` sequences, any tunnel ids, any `crypto/rand` stream).  Schedules: every `Op` runs under the
hostmap / handshake-manager locks (structural facts `hostmap.*` extracted from the source on every run), so every
interleaving of the real entry points is one of the sequences quantified over here.
-/
import Nebula.Lemmas.HostMapRun

namespace Nebula.Props.C29
open Nebula.HostMap Nebula.HostMap.FMap

/-- `generateIndex` never yields zero, whatever `crypto/rand` produces -/
theorem generated_index_nonzero (st : List Nat) (i : Nat) (r : List Nat) (h : genIndex st = some (i, r)) : i ≠ 0 :=
  genIndex_nonzero h

/-- an index handed out by `allocateIndex` is non-zero and was held neither by a pending nor by an established
tunnel; afterwards the pending tunnel owns it (no invariant needed: any state, any stream) -/
theorem allocated_index_fresh (s t : State) (h : Nat) (st : List Nat) (idx : Nat)
    (e : allocateIndex s h st = (t, .ok idx)) :
    idx ≠ 0 ∧ s.pidx.get idx = none ∧ s.indexes.get idx = none ∧ t.pidx.get idx = some h ∧ (t.obj h).lidx = idx := by
  unfold allocateIndex at e
  rcases allocLoop_spec h 32 s st with ⟨idx', e', hz, hp, hi⟩ | ⟨_, hne⟩
  · rw [e'] at e
    simp only [Prod.mk.injEq, AllocRes.ok.injEq] at e
    obtain ⟨e1, e2⟩ := e
    subst e2; subst e1
    exact ⟨hz, hp, hi, by simp [get_set], by simp [State.obj, State.setObj, get_set]⟩
  · rw [e] at hne; exact absurd rfl (hne idx)

/-- a failed `allocateIndex` changes nothing -/
theorem allocation_failure_is_noop (s : State) (h : Nat) (st : List Nat)
    (hne : ∀ idx, (allocateIndex s h st).2 ≠ .ok idx) : (allocateIndex s h st).1 = s := by
  unfold allocateIndex at hne ⊢
  rcases allocLoop_spec h 32 s st with ⟨idx', e', _⟩ | ⟨e, _⟩
  · rw [e'] at hne; exact absurd rfl (hne idx')
  · exact e

/-- a relay index handed out by `AddRelay` is non-zero, was not held in `Relays`, goes to a live tunnel only, and is
owned by it afterwards -/
theorem relay_index_fresh (s : State) (i : Inv s) (h : Nat) (rel : Relay) (st : List Nat) (idx : Nat)
    (e : (addRelay s h rel st).2 = AllocRes.ok idx) :
    idx ≠ 0 ∧ s.relays.get idx = none ∧ Live s h ∧ (addRelay s h rel st).1.relays.get idx = some h :=
  (relayLoop_inv h rel 32 s st i).2 idx e

/-- in every reachable state: all held indexes are non-zero, filed under their owner's `localIndexId`, and the pending
and established namespaces do not overlap -/
theorem held_indexes_wellformed (ops : List Op) (k h : Nat) :
    let s := run {} ops
    (s.indexes.get k = some h → k ≠ 0 ∧ (s.obj h).lidx = k) ∧
    (s.pidx.get k = some h → k ≠ 0 ∧ (s.obj h).lidx = k ∧ s.indexes.get k = none) ∧
    (s.relays.get k = some h → k ≠ 0 ∧ ((s.rstate h).byIdx.get k).isSome = true) := by
  have i := run_inv ops {} inv_init
  refine ⟨fun e => ?_, fun e => ?_, fun e => ?_⟩
  · obtain ⟨p1, p2⟩ := i.core.idx k h e; exact ⟨p2, p1⟩
  · obtain ⟨p1, p2, p3, _⟩ := i.core.pidx k h e; exact ⟨p2, p1, p3⟩
  · obtain ⟨_, p2, p3⟩ := i.core.rel k h e; exact ⟨p3, p2⟩

/-- distinctness: two tunnels the node holds (pending or established) never carry the same local index -/
theorem unique_in_namespace (ops : List Op) (x y : Nat) :
    let s := run {} ops
    (s.indexes.get (s.obj x).lidx = some x ∨ s.pidx.get (s.obj x).lidx = some x) →
    (s.indexes.get (s.obj y).lidx = some y ∨ s.pidx.get (s.obj y).lidx = some y) →
    (s.obj x).lidx = (s.obj y).lidx → x = y := by
  have i := run_inv ops {} inv_init
  intro s hx hy e
  rw [← e] at hy
  rcases hx with hx | hx <;> rcases hy with hy | hy
  · rw [hx] at hy; exact Option.some.inj hy
  · have := (i.core.pidx _ y hy).2.2.1; rw [hx] at this; cases this
  · have := (i.core.pidx _ x hx).2.2.1; rw [hy] at this; cases this
  · rw [hx] at hy; exact Option.some.inj hy

/-- a tunnel that is still referenced anywhere in the main hostmap still holds its index: an index entry can only
disappear together with its tunnel -/
theorem index_held_while_tunnel_held (ops : List Op) (h : Nat) :
    let s := run {} ops
    ((∃ a, h ∈ hostList s a) ∨ (∃ k, s.rindexes.get k = some h) ∨ (∃ k, s.relays.get k = some h)) →
    s.indexes.get (s.obj h).lidx = some h := by
  have i := run_inv ops {} inv_init
  intro s hr
  rcases hr with ⟨a, ha⟩ | ⟨k, hk⟩ | ⟨k, hk⟩
  · exact (i.core.listOk a h ha).1.resolve_left (by simp)
  · exact (i.core.ridx k h hk).1
  · exact (i.core.rel k h hk).1

/-- `HostMap.DeleteHostInfo(h)` releases only `h`'s own entries (this is what F08 broke: a stale second delete used to
erase the entry of the tunnel that had been handed the index since) — any state with duplicate-free lists, in
particular every reachable one -/
theorem release_only_by_owner (s : State) (i : Inv s) (h k x : Nat) (hx : x ≠ h) :
    (s.indexes.get k = some x → (deleteHost s h).1.indexes.get k = some x) ∧
    (s.relays.get k = some x → (deleteHost s h).1.relays.get k = some x) ∧
    (s.pidx.get k = some x → (deleteHost s h).1.pidx.get k = some x) := by
  have d := deleteHost_spec s h i.core.rep i.core.nodup
  refine ⟨fun e => ?_, fun e => ?_, fun e => by rw [d.pidx]; exact e⟩
  · rw [d.indexes, if_neg]; exact e
    rintro ⟨_, h2⟩; rw [e] at h2; exact hx (Option.some.inj h2)
  · rw [d.relays, if_neg]; exact e
    rintro ⟨_, h2⟩; rw [e] at h2; exact hx (Option.some.inj h2)

/-- the same on the pending side: `HandshakeManager.DeleteHostInfo(h)` releases only `h`'s pending index and touches
no established index (any state) -/
theorem pending_release_only_by_owner (s : State) (h k x : Nat) (hx : x ≠ h) :
    (s.pidx.get k = some x → (pendingDelete s h).pidx.get k = some x) ∧
    (s.vpnIps.get k = some x → (pendingDelete s h).vpnIps.get k = some x) ∧
    (pendingDelete s h).indexes = s.indexes ∧ (pendingDelete s h).relays = s.relays := by
  have d := pendingDelete_spec s h
  refine ⟨fun e => ?_, fun e => ?_, d.indexes, d.relays⟩
  · rw [d.pidx, if_neg]; exact e
    rintro ⟨_, h2⟩; rw [e] at h2; exact hx (Option.some.inj h2)
  · rw [d.vpnIps, if_neg]; exact e
    rintro ⟨_, h2⟩; rw [e] at h2; exact hx (Option.some.inj h2)

/-- a remote index entry is only removed by the tunnel it points to -/
theorem remote_index_only_by_owner (s : State) (i : Inv s) (h k x : Nat) (hx : x ≠ h)
    (e : s.rindexes.get k = some x) : (deleteHost s h).1.rindexes.get k = some x := by
  have d := deleteHost_spec s h i.core.rep i.core.nodup
  rw [d.rindexes, if_neg]; exact e
  rintro ⟨_, h2⟩; rw [e] at h2; exact hx (Option.some.inj h2)

/-- promotions and failed relay requests release nothing -/
theorem promotion_releases_nothing (s : State) (i : Inv s) (h : Nat) :
    (makePrimary s h).1.indexes = s.indexes ∧ (makePrimary s h).1.rindexes = s.rindexes ∧
    (makePrimary s h).1.relays = s.relays ∧ (makePrimary s h).1.pidx = s.pidx := by
  obtain ⟨_, same, _⟩ := makePrimary_inv i h
  exact ⟨same.indexes, same.rindexes, same.relays, same.pidx⟩

-- non-vacuity: collisions in a two-value index space, and the F08 history on the fixed model
example : (allocateIndex (run {} [.start 1]) 1 [0, 0, 7]).2 = .ok 7 := by decide
example : (allocateIndex (run {} [.start 1, .alloc 1 [7], .start 2]) 2 [7, 0, 7, 8]).2 = .ok 8 := by decide
example : (opResp (run {} [.start 1, .alloc 1 [7]]) [2] 1 1 1 [7]).map (·.2.2.2) = some (.collision 1) := by decide
example : (run {} [.start 2, .alloc 2 [5], .pdel 1, .start 2, .alloc 2 [5], .pdel 1]).pidx.get 5 = some 2 := by decide
example : (addRelay (run {} [.resp [1] 7 1 1 [5], .relay 1 { type := 2, state := 2, peer := 3 } [9]]) 1
    { type := 1, state := 0, peer := 3 } [9, 9, 4]).2 = .ok 4 := by decide

end Nebula.Props.C29
