/-
C13 — Nonces are never reused and the counter ceiling is enforced.

"Under any interleaving of concurrent senders on a tunnel, no two encryptions under the same key use
the same message counter, every counter used is above those consumed by the handshake, and no
encryption uses a counter at or beyond the exhaustion ceiling. When a cipher that requires increasing
nonces is active, encryptions reach it in strictly increasing counter order."

Quantifier: every list of atomic steps (`Model/Counter.lean`: any number of threads, any interleaving
of hot-path and `NextMessageCounter` sends), every start value `ctr0 ≤ RejectAfterMessages`.

FULL STATEMENT (not provable, see `C13_wrap_witness` / `C13_reuse_witness`):
    ∀ ctr0 ≤ reject, ∀ sched, let s := run (init ctr0) sched;
      s.emitted.Nodup ∧ ∀ c ∈ s.emitted, ctr0 < c ∧ c < reject
Proved: the ceiling clause in full (`ceiling`), and the rest as `C13_partial` under the explicit
hypothesis `Headroom`: along the schedule fewer than `RejectHeadroom` (2^40) `messageCounter.Add(1)`
steps ever accumulate past the ceiling without an intervening `Store(RejectAfterMessages)`.
-/
import Nebula.Lemmas.Counter

namespace Nebula.Props.C13
open Nebula.Counter Nebula.Lemmas.Counter

/-- No encryption ever uses a counter at or beyond the ceiling — every schedule, no hypothesis. -/
theorem ceiling (ctr0 : U64) (sched : List Step) :
    ∀ c ∈ (run (init ctr0) sched).emitted, c < reject :=
  ceiling_run sched (init ctr0) (by simp [init])

/-- No reuse, above the handshake's counters, below the ceiling — every schedule satisfying the
headroom hypothesis. -/
theorem C13_partial (ctr0 : U64) (h0 : ctr0 ≤ reject) (sched : List Step)
    (hh : Headroom (init ctr0) sched) :
    (run (init ctr0) sched).emitted.Nodup ∧
    ∀ c ∈ (run (init ctr0) sched).emitted, ctr0 < c ∧ c < reject := by
  have hi := run_inv h0 sched (init ctr0) (inv_init ctr0 h0) hh
  exact ⟨hi.nodup, fun c hc => ⟨(hi.em c hc).1, (hi.em c hc).2.1⟩⟩

/-- Counters reserved but not yet encrypted are also distinct from each other and from every nonce
already used (so the encryptions still to come cannot collide either). -/
theorem reserved_distinct_partial (ctr0 : U64) (h0 : ctr0 ≤ reject) (sched : List Step)
    (hh : Headroom (init ctr0) sched) (t t' : Nat) (k k' : Bool) (c : U64)
    (h1 : (run (init ctr0) sched).pend t = some (k, c)) (hc : c < reject) :
    c ∉ (run (init ctr0) sched).emitted ∧
    ((run (init ctr0) sched).pend t' = some (k', c) → t = t') := by
  have hi := run_inv h0 sched (init ctr0) (inv_init ctr0 h0) hh
  exact ⟨(hi.pd t k c h1 hc).2.2, fun h2 => hi.inj t t' k k' c h1 h2 hc⟩

/-- FIPS / boring mode (`writeLock` held across `Add` … `EncryptDanger`): nonces reach the cipher in
strictly increasing order (`emitted` is most-recent-first). -/
theorem locked_monotone_partial (ctr0 : U64) (h0 : ctr0 ≤ reject) (sends : List (Bool × Nat))
    (hh : Headroom (init ctr0) (locked sends)) :
    (run (init ctr0) (locked sends)).emitted.Pairwise (fun newer older => older < newer) := by
  have h := run_locked_inv h0 sends (init ctr0)
    ⟨inv_init ctr0 h0, by intro t; simp [init], by simp [init]⟩ hh
  exact h.sorted

/-- The hypothesis is satisfiable, and by a lot: every schedule shorter than 2^40 steps has it. -/
theorem headroom_of_short_schedule (ctr0 : U64) (sched : List Step) (h : sched.length < headroom) :
    Headroom (init ctr0) sched :=
  headroom_of_short _ _ (by simpa [init] using h)

-- non-vacuity: a concrete interleaving across the ceiling (three senders, two of them racing past
-- `Reject`, the control sender pinning the counter) satisfies the hypothesis …
example : Headroom (init (reject - 2#64))
    [.add false 0, .add true 1, .add false 2, .fin 1, .fin 0, .fin 2, .add true 3, .fin 3] :=
  headroom_of_short_schedule _ _ (by decide)

-- … and behaves as the theorem says: exactly one nonce (Reject-1) is used, the rest is refused, and
-- the counter ends pinned to the ceiling.
example : (run (init (reject - 2#64))
    [.add false 0, .add true 1, .add false 2, .fin 1, .fin 0, .fin 2, .add true 3, .fin 3]).emitted
      = [reject - 1#64] := by decide
example : (run (init (reject - 2#64))
    [.add false 0, .add true 1, .add false 2, .fin 1, .fin 0, .fin 2, .add true 3, .fin 3]).ctr
      = reject := by decide

-- locked mode, concrete
example : (run (init 5#64) (locked [(false, 0), (true, 1), (false, 0)])).emitted = [8#64, 7#64, 6#64] := by
  decide

/-- The hypothesis is necessary (F14): from `ctr0 = Reject`, 2^40 + 1 refused hot-path sends wrap the
counter, and the next nonce that reaches the cipher is 0 — not above the handshake's counters. -/
theorem C13_wrap_witness :
    ∃ sched : List Step, ∃ c ∈ (run (init reject) sched).emitted, ¬ reject < c := by
  refine ⟨hotSends headroom ++ hotSends 1, 0#64, ?_, by decide⟩
  rw [run_append]
  obtain ⟨hc, hp⟩ := ctr_hotSends headroom (init reject) (by simp [init])
  have hc0 : (run (init reject) (hotSends headroom)).ctr + 1#64 = 0#64 := by
    rw [hc]; decide
  have := hotSend_emits _ hp (by rw [hc0]; decide)
  rw [this, hc0]
  simp

/-- … and with enough of them a nonce is used twice under the same key. -/
theorem C13_reuse_witness :
    ∃ ctr0 : U64, ctr0 ≤ reject ∧ ∃ sched : List Step, ¬ (run (init ctr0) sched).emitted.Nodup := by
  refine ⟨0#64, by decide, hotSends 1 ++ hotSends (2 ^ 64 - 1) ++ hotSends 1, ?_⟩
  rw [run_append, run_append]
  have e1 := hotSend_emits (init 0#64) (by simp [init]) (by decide)
  have hp1 : (run (init 0#64) (hotSends 1)).pend 0 = none :=
    (ctr_hotSends 1 (init 0#64) (by simp [init])).2
  have hc1 : (run (init 0#64) (hotSends 1)).ctr = 1#64 := by
    rw [(ctr_hotSends 1 (init 0#64) (by simp [init])).1]; decide
  obtain ⟨hc2, hp2⟩ := ctr_hotSends (2 ^ 64 - 1) (run (init 0#64) (hotSends 1)) hp1
  have hc2' : (run (run (init 0#64) (hotSends 1)) (hotSends (2 ^ 64 - 1))).ctr + 1#64 = 1#64 := by
    rw [hc2, hc1]; decide
  have e3 := hotSend_emits _ hp2 (by rw [hc2']; decide)
  rw [e3, hc2']
  intro hnd
  have hmem : (1#64 : U64) ∈ (run (run (init 0#64) (hotSends 1)) (hotSends (2 ^ 64 - 1))).emitted := by
    apply emitted_mono
    rw [e1]; simp [init]
  exact (List.nodup_cons.mp hnd).1 hmem

end Nebula.Props.C13
