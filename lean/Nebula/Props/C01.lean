/-
C01 — Certificate acceptance equals the documented trust rule.

"A peer certificate is accepted at time t if and only if neither of its signature forms is blocklisted, its
issuer is a trusted CA with the same curve, the CA and the certificate are both valid at t, the signature
verifies under the CA key, and the certificate stays inside the CA's validity window, group list, network
ranges and unsafe-network ranges. Re-checking a previously accepted certificate against the same trust
state and time gives the same verdict as a full check."

All theorems are for every crypto oracle `K` (fingerprint, alternate fingerprint, signature check are
uninterpreted), every pool (any number of CAs, any blocklist), every certificate and every time.
-/
import Nebula.Lemmas.CAPool

namespace Nebula.Props.C01
open Nebula.Net Nebula.Cert Nebula.Spec.Trust Nebula.Lemmas.Trust Nebula.Lemmas.CAPool

/-- The guard loops of `checkCAConstraints` decide exactly the documented window / groups / networks /
unsafe-networks relation. -/
theorem constraints_iff_within (ca c : Cert) : checkCA ca c = none ↔ within ca c :=
  checkCA_none_iff ca c

/-- Validity is the closed interval `[NotBefore, NotAfter]` (times in nanoseconds). -/
theorem expired_boundary (c : Cert) (t : Int) : c.expired t = false ↔ c.notBefore ≤ t ∧ t ≤ c.notAfter :=
  expired_false_iff c t

/-- Exact boundary instants: valid at `NotBefore` and at `NotAfter` themselves, expired any positive
amount `d` (one nanosecond, one second, …) outside. -/
theorem expired_exact_seconds (c : Cert) (h : c.notBefore ≤ c.notAfter) (d : Int) (hd : 0 < d) :
    c.expired c.notBefore = false ∧ c.expired c.notAfter = false ∧
    c.expired (c.notBefore - d) = true ∧ c.expired (c.notAfter + d) = true := by
  unfold Cert.expired
  refine ⟨?_, ?_, ?_, ?_⟩ <;> simp <;> omega

example : exLeaf.notBefore ≤ exLeaf.notAfter := by decide

/-- **Acceptance = trust rule.** `VerifyCertificate` returns a cached certificate iff the rule holds. -/
theorem accept_iff (K : Crypto) (p : Pool) (t : Int) (c : Cert) :
    (∃ cc, p.verifyCertificate K t c = .ok cc) ↔ trusted K p t c :=
  Nebula.Lemmas.CAPool.accept_iff K p t c

/-- What the accepted record contains: the certificate itself, both fingerprints, and the issuer as signer. -/
theorem accept_record (K : Crypto) (p : Pool) (t : Int) (c : Cert) (cc : Cached)
    (h : p.verifyCertificate K t c = .ok cc) :
    cc.cert = c ∧ K.fingerprint c = some cc.fingerprint ∧ K.altFingerprint c = some cc.fingerprint2 ∧
      cc.signerFingerprint = c.issuer ∧ cc.signerFingerprint ≠ "" := by
  obtain ⟨fp, fp2, hf, ha, hv, -, rfl⟩ := (verifyCertificate_ok_iff K p t c cc).mp h
  have hi := ((verify_full_ok_iff K p c t fp c.issuer).mp hv).2.1
  exact ⟨rfl, hf, ha, rfl, hi⟩

/-- Success of the cached re-check, spelled out: only blocklist (both forms), presence of the CA under the
recorded fingerprint, curve and the two validity intervals are looked at. -/
theorem cached_ok_iff (K : Crypto) (p : Pool) (t : Int) (cc : Cached) (hs : cc.signerFingerprint ≠ "") :
    p.verifyCached K t cc = .ok () ↔
      (cc.fingerprint2 = "" ∨ cc.fingerprint2 ∉ p.block) ∧ cc.fingerprint ∉ p.block ∧
      cc.cert.issuer ≠ "" ∧ cc.signerFingerprint = cc.cert.issuer ∧
      ∃ ca, p.cas.lookup cc.cert.issuer = some ca ∧ ca.curve = cc.cert.curve ∧
        ca.expired t = false ∧ cc.cert.expired t = false := by
  unfold Pool.verifyCached Pool.isBlocklisted
  by_cases h2 : cc.fingerprint2 ≠ "" ∧ p.block.contains cc.fingerprint2 = true
  · have : ¬ (cc.fingerprint2 = "" ∨ cc.fingerprint2 ∉ p.block) := by
      have hm : cc.fingerprint2 ∈ p.block := by simpa using h2.2
      intro h; rcases h with h | h
      · exact h2.1 h
      · exact h hm
    rw [if_pos h2]
    simp only [reduceCtorEq, false_iff]
    rintro ⟨h, -⟩
    exact this h
  · have h2' : cc.fingerprint2 = "" ∨ cc.fingerprint2 ∉ p.block := by
      by_cases he : cc.fingerprint2 = ""
      · exact Or.inl he
      · right; intro hm; apply h2; exact ⟨he, by simpa using hm⟩
    rw [if_neg h2]
    cases hv : p.verify K cc.cert t cc.fingerprint cc.signerFingerprint with
    | error e =>
      simp only [reduceCtorEq, false_iff]
      rintro ⟨-, hb, hi, hq, ca, hl, hc, he1, he2⟩
      have := (verify_cached_ok_iff K p cc.cert t cc.fingerprint cc.signerFingerprint hs cc.cert.issuer).mpr
        ⟨hb, hi, rfl, hq, ca, hl, hc, he1, he2⟩
      rw [hv] at this; cases this
    | ok s =>
      obtain ⟨hb, hi, -, hq, ca, hl, hc, he1, he2⟩ :=
        (verify_cached_ok_iff K p cc.cert t cc.fingerprint cc.signerFingerprint hs s).mp hv
      simp only [true_iff]
      exact ⟨h2', hb, hi, hq, ca, hl, hc, he1, he2⟩

/-- **Cached = full, under any later trust state that still maps the issuer fingerprint to the same CA
certificate (or to nothing).** `p` is the pool at acceptance time `t₀`; `p'` is *any* pool — other CAs
added or removed, expired CAs, any blocklist — and `t` any time. -/
theorem cached_eq_full_general (K : Crypto) (p p' : Pool) (t₀ t : Int) (c : Cert) (cc : Cached)
    (h : p.verifyCertificate K t₀ c = .ok cc)
    (hsame : p'.cas.lookup c.issuer = p.cas.lookup c.issuer ∨ p'.cas.lookup c.issuer = none) :
    p'.verifyCached K t cc = .ok () ↔ ∃ cc', p'.verifyCertificate K t c = .ok cc' := by
  obtain ⟨fp, fp2, hf, ha, hv, hb2, rfl⟩ := (verifyCertificate_ok_iff K p t₀ c cc).mp h
  obtain ⟨hb, hi, -, ca, hl, hc, he1, he2, hs, hk⟩ := (verify_full_ok_iff K p c t₀ fp c.issuer).mp hv
  rw [cached_ok_iff K p' t _ hi]
  simp only
  constructor
  · rintro ⟨g2, gb, -, -, ca', hl', hc', e1, e2⟩
    have : ca' = ca := by
      rcases hsame with hsame | hsame
      · rw [hsame, hl] at hl'; exact (Option.some.inj hl').symm
      · rw [hsame] at hl'; cases hl'
    subst this
    exact ⟨_, (verifyCertificate_ok_iff K p' t c _).mpr ⟨fp, fp2, hf, ha,
      (verify_full_ok_iff K p' c t fp c.issuer).mpr ⟨gb, hi, rfl, ca', hl', hc', e1, e2, hs, hk⟩, g2, rfl⟩⟩
  · rintro ⟨cc', h'⟩
    obtain ⟨fp', fp2', hf', ha', hv', hb2', -⟩ := (verifyCertificate_ok_iff K p' t c cc').mp h'
    rw [hf] at hf'; rw [ha] at ha'
    cases hf'; cases ha'
    obtain ⟨gb, -, -, ca', hl', hc', e1, e2, -, -⟩ := (verify_full_ok_iff K p' c t fp c.issuer).mp hv'
    exact ⟨hb2', gb, hi, trivial, ca', hl', hc', e1, e2⟩

/-- **Cached = full** for the same trust state and any time (the statement of the property). -/
theorem cached_eq_full (K : Crypto) (p : Pool) (t₀ t : Int) (c : Cert) (cc : Cached)
    (h : p.verifyCertificate K t₀ c = .ok cc) :
    p.verifyCached K t cc = .ok () ↔ ∃ cc', p.verifyCertificate K t c = .ok cc' :=
  cached_eq_full_general K p p t₀ t c cc h (Or.inl rfl)

/-- A full check that succeeds is never contradicted by the cached re-check, in *any* trust state: the
cached path is at most as strict. -/
theorem full_implies_cached (K : Crypto) (p p' : Pool) (t₀ t : Int) (c : Cert) (cc cc' : Cached)
    (h : p.verifyCertificate K t₀ c = .ok cc) (h' : p'.verifyCertificate K t c = .ok cc') :
    p'.verifyCached K t cc = .ok () := by
  obtain ⟨fp, fp2, hf, ha, hv, hb2, rfl⟩ := (verifyCertificate_ok_iff K p t₀ c cc).mp h
  have hi := ((verify_full_ok_iff K p c t₀ fp c.issuer).mp hv).2.1
  rw [cached_ok_iff K p' t _ hi]
  obtain ⟨fp', fp2', hf', ha', hv', hb2', -⟩ := (verifyCertificate_ok_iff K p' t c cc').mp h'
  rw [hf] at hf'; rw [ha] at ha'
  cases hf'; cases ha'
  obtain ⟨gb, -, -, ca', hl', hc', e1, e2, -, -⟩ := (verify_full_ok_iff K p' c t fp c.issuer).mp hv'
  exact ⟨hb2', gb, hi, rfl, ca', hl', hc', e1, e2⟩

/-- The only way the cached re-check can accept where a full check would refuse: the pool now holds a
*different* CA certificate under the recorded issuer fingerprint (impossible for SHA-256 fingerprints
unless they collide — the case the code comment "either the root is no longer trusted or everything is
fine" leaves out). -/
theorem cached_stale_only_if_ca_replaced (K : Crypto) (p p' : Pool) (t₀ t : Int) (c : Cert) (cc : Cached)
    (h : p.verifyCertificate K t₀ c = .ok cc) (hc : p'.verifyCached K t cc = .ok ())
    (hf : ¬ ∃ cc', p'.verifyCertificate K t c = .ok cc') :
    ∃ ca ca', p.cas.lookup c.issuer = some ca ∧ p'.cas.lookup c.issuer = some ca' ∧ ca' ≠ ca := by
  obtain ⟨fp, fp2, hfp, ha, hv, hb2, hcc⟩ := (verifyCertificate_ok_iff K p t₀ c cc).mp h
  obtain ⟨-, hi, -, ca, hl, -⟩ := (verify_full_ok_iff K p c t₀ fp c.issuer).mp hv
  cases hl' : p'.cas.lookup c.issuer with
  | none => exact absurd ((cached_eq_full_general K p p' t₀ t c cc h (Or.inr hl')).mp hc) hf
  | some ca' =>
    refine ⟨ca, ca', hl, rfl, ?_⟩
    intro he
    subst he
    exact absurd ((cached_eq_full_general K p p' t₀ t c cc h (Or.inl (hl'.trans hl.symm))).mp hc) hf

/-! ### The trusted set: what `AddCA` admits -/

/-- Every CA in the pool is a CA certificate, self-signed, stored under its own fingerprint. -/
def PoolWF (K : Crypto) (p : Pool) : Prop :=
  ∀ k ca, p.cas.lookup k = some ca → ca.isCA = true ∧ K.checkSig ca ca.publicKey = true ∧ K.fingerprint ca = some k

/-- Pools reachable through the API: empty pool, `AddCA` (at any wall-clock time, whatever it returns),
`BlocklistFingerprint`, `ResetCertBlocklist`. -/
inductive Reachable (K : Crypto) : Pool → Prop
  | empty : Reachable K {}
  | addCA (p : Pool) (now : Int) (c : Cert) : Reachable K p → Reachable K (p.addCA K now c).1
  | blocklist (p : Pool) (fp : String) : Reachable K p → Reachable K (p.blocklist fp)
  | reset (p : Pool) : Reachable K p → Reachable K p.resetBlocklist

/-- `AddCA` either refuses (not a CA, not self-signed, no fingerprint) and leaves the pool alone, or stores
the certificate under its fingerprint — also when it reports `expired`. -/
theorem addCA_effect (K : Crypto) (p : Pool) (now : Int) (c : Cert) :
    ((p.addCA K now c).2 ∈ [some AddErr.notCA, some .notSelfSigned, some .fingerprint] ∧ (p.addCA K now c).1 = p) ∨
    (c.isCA = true ∧ K.checkSig c c.publicKey = true ∧ ∃ fp, K.fingerprint c = some fp ∧
      (p.addCA K now c).1 = { p with cas := mapSet fp c p.cas } ∧
      (p.addCA K now c).2 = (if c.expired now then some .expired else none)) := by
  unfold Pool.addCA
  cases h1 : c.isCA
  · simp
  · cases h2 : K.checkSig c c.publicKey
    · simp
    · cases h3 : K.fingerprint c with
      | none => simp
      | some fp =>
        right
        cases h4 : c.expired now <;> simp

theorem reachable_wf (K : Crypto) (p : Pool) (h : Reachable K p) : PoolWF K p := by
  induction h with
  | empty => intro k ca hl; simp [List.lookup] at hl
  | addCA p now c _ ih =>
    rcases addCA_effect K p now c with ⟨-, he⟩ | ⟨h1, h2, fp, h3, he, -⟩
    · rw [he]; exact ih
    · rw [he]
      intro k ca hl
      by_cases hk : k = fp
      · subst hk
        simp only [lookup_mapSet_self, Option.some.injEq] at hl
        subst hl
        exact ⟨h1, h2, h3⟩
      · simp only [lookup_mapSet_other fp k hk] at hl
        exact ih k ca hl
  | blocklist p fp _ ih => exact ih
  | reset p _ ih => exact ih

/-- With a pool built through the API, an accepted certificate's issuer is a self-signed CA certificate whose
fingerprint is the certificate's `issuer` field ("its issuer is a trusted CA"). -/
theorem accepted_issuer_is_ca (K : Crypto) (p : Pool) (hp : Reachable K p) (t : Int) (c : Cert) (cc : Cached)
    (h : p.verifyCertificate K t c = .ok cc) :
    ∃ ca, p.cas.lookup c.issuer = some ca ∧ ca.isCA = true ∧ K.checkSig ca ca.publicKey = true ∧
      K.fingerprint ca = some c.issuer := by
  obtain ⟨-, -, ca, hl, -⟩ := (accept_iff K p t c).mp ⟨cc, h⟩
  exact ⟨ca, hl, reachable_wf K p hp _ _ hl⟩

/-- Blocklisting either signature form of an accepted certificate makes both the full and the cached check
refuse it, whatever else the pool contains. -/
theorem blocklisting_either_form_rejects (K : Crypto) (p : Pool) (t : Int) (c : Cert) (cc : Cached) (fp : String)
    (h : K.fingerprint c = some cc.fingerprint ∧ K.altFingerprint c = some cc.fingerprint2 ∧ cc.cert = c ∧
      cc.signerFingerprint ≠ "")
    (hfp : fp = cc.fingerprint ∨ (fp = cc.fingerprint2 ∧ fp ≠ "")) (hb : fp ∈ p.block) :
    (¬ ∃ cc', p.verifyCertificate K t c = .ok cc') ∧ p.verifyCached K t cc ≠ .ok () := by
  obtain ⟨hf, ha, hc, hs⟩ := h
  constructor
  · rw [accept_iff]
    rintro ⟨⟨fp1, hf1, hb1, fp2, ha2, hb2⟩, -⟩
    rw [hf] at hf1; rw [ha] at ha2; cases hf1; cases ha2
    rcases hfp with rfl | ⟨rfl, hne⟩
    · exact hb1 hb
    · rcases hb2 with h | h
      · exact hne h
      · exact h hb
  · rw [Ne, cached_ok_iff K p t cc hs]
    rintro ⟨hb2, hb1, -⟩
    rcases hfp with rfl | ⟨rfl, hne⟩
    · exact hb1 hb
    · rcases hb2 with h | h
      · exact hne h
      · exact h hb

/-! ### Non-vacuity: a concrete pool, CA and leaf for which the rule holds, and boundary instants -/

example : Reachable exK exPool := Reachable.addCA _ _ _ Reachable.empty

example : (exPool.verifyCertificate exK 100000000000 exLeaf).toBool = true := by decide
example : (exPool.verifyCertificate exK 900000000000 exLeaf).toBool = true := by decide
example : exPool.verifyCertificate exK 99999999999 exLeaf = .error .rootExpired := by decide
example : exPool.verifyCertificate exK 900000000001 exLeaf = .error .rootExpired := by decide
example : (exPool.blocklist "a1f0").verifyCertificate exK 500000000000 exLeaf = .error .blocklisted := by decide
example : exPool.verifyCertificate exK 500000000000 { exLeaf with groups := [[3]] } = .error (.constraint .group) := by decide
example : exPool.verifyCertificate exK 500000000000 { exLeaf with networks := [⟨⟨.v4, 0x0b000001⟩, 24⟩] } =
    .error (.constraint .network) := by decide
example : trusted exK exPool 500000000000 exLeaf :=
  (accept_iff _ _ _ _).mp ⟨⟨exLeaf, "1eaf", "a1f0", "ca01"⟩, by decide⟩

end Nebula.Props.C01
