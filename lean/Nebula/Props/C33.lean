import Nebula.Model.Wheel
import Nebula.Spec.Wheel
namespace Nebula.Props.C33
theorem placeholder : True := trivial
end Nebula.Props.C33
