/-
C33 — Timer wheel fires each item once, on time.

"Every item added to a timing wheel that was advanced to the current time is returned exactly once, no
earlier than its timeout rounded up to the wheel's tick (timeouts beyond the wheel's span are capped) and
no later than two ticks after that, regardless of how irregularly the wheel is advanced."  — for all
add/advance/purge histories, tick and span sizes, timeouts, advance gaps.

Setting of the theorems: a wheel built by `NewTimerWheel(tick, span)` with `tick, span ≥ 1` (`Params`,
established by `new_wheel`), advanced to `now₀` (so `lastTick = T₀` with `T₀ ≤ now₀ < T₀ + tick`,
`advanced_to`), an item `x` not in the wheel is added with an arbitrary timeout `t`, followed by an
arbitrary history `ops` of Add (of other items) / Advance (clock not running backwards) / Purge.
`R = rounded tick span t` is the capped timeout rounded up to the tick; the due time is `D = T₀ + R + tick`.
-/
import Nebula.Lemmas.Wheel
import Nebula.Lemmas.WheelTie

namespace Nebula.Props.C33
open Nebula.Wheel Nebula.Lemmas.Wheel
open Nebula.Spec.Wheel (clamp ticksFor rounded)

/-- `NewTimerWheel(tick, span)` yields a well-formed wheel of `span/tick + 2` empty slots. -/
theorem new_wheel (tick span : Int) (ht : 1 ≤ tick) (hs : 1 ≤ span) :
    WF (Wheel.new tick span : TW Nat) ∧ Params (Wheel.new tick span : TW Nat) ∧
      ∀ x, Gone (Wheel.new tick span : TW Nat) x := by
  obtain ⟨a, b⟩ := new_wf tick span ht hs
  refine ⟨a, b, fun x => ⟨fun s _ => ?_, by simp [Wheel.new]⟩⟩
  simp only [Wheel.new, slot]
  cases h : (List.replicate (span.tdiv tick + 2).toNat ([] : List Nat))[s]? with
  | none => simp
  | some l =>
    have := List.mem_of_getElem? h
    rw [List.mem_replicate] at this
    simp [this.2]

/-- "advanced to the current time": after `Advance(now)` (first call, or any later call with the clock not
behind `lastTick`) the wheel's `lastTick` is within one tick below `now`. -/
theorem advanced_to (tw : TW Nat) (now : Int) (ht : 1 ≤ tw.tickDuration)
    (hm : ∀ T, tw.lastTick = some T → T ≤ now) :
    ∃ T', (advance tw now).lastTick = some T' ∧ T' ≤ now ∧ now < T' + tw.tickDuration := by
  cases hl : tw.lastTick with
  | none => rw [advance_first tw now hl]; exact ⟨now, rfl, by omega, by omega⟩
  | some T =>
    obtain ⟨adv, _, e, h1, h2⟩ := advance_spec tw T now hl ht (hm T hl)
    exact ⟨_, by rw [e], h1, h2⟩

/-- The rounding is the documented one: the timeout is capped to `[tick, span]` (to `tick` when
below, to `span` when above) and `R` is the least multiple of the tick that is `≥` the capped timeout. -/
theorem rounded_is_ceiling (tick span t : Int) (ht : 1 ≤ tick) :
    clamp tick span t ≤ rounded tick span t ∧ rounded tick span t < clamp tick span t + tick ∧
      ∃ k, rounded tick span t = k * tick :=
  ⟨(ticksFor_ceil tick _ ht).1, (ticksFor_ceil tick _ ht).2, _, rfl⟩

/-- `findWheel` never leaves the wheel and wraps at most once: the slot is the one `current` reaches after
`⌈capped timeout / tick⌉ + 1` ticks, and that count is at most `wheelLen` (it equals `wheelLen`, i.e. the slot
is `current` itself, exactly when the span is not a multiple of the tick and the timeout is near the span). -/
theorem findWheel_in_range (tw : TW Nat) (h : WF tw) (hp : Params tw) (t : Int) :
    findWheel tw t < tw.wheelLen ∧
    ∃ k : Nat, (k : Int) * tw.tickDuration = rounded tw.tickDuration tw.wheelDuration t ∧ k + 1 ≤ tw.wheelLen ∧
      findWheel tw t = slotOf tw.wheelLen tw.current (k + 1) := by
  obtain ⟨k, hk, k1, k2, hf⟩ := findWheel_slot tw h hp t
  refine ⟨?_, k, by unfold rounded; rw [hk], k2, hf⟩
  rw [hf]; unfold slotOf; have := h.2; split <;> omega

/-- Tie to the source: `findWheel` as regenerated from timeout.go (Go `int`/`time.Duration` arithmetic on
`BitVec 64`, truncating division, both clamps, the single wrap) computes exactly the model's `findWheel`, for every
`int64` timeout, whenever tick and span are below 2^62 ns and the wheel has fewer than 2^61 slots. An arithmetic
edit of the Go function changes the regenerated definition and this theorem no longer checks. -/
theorem findWheel_is_translated (tw : TW Nat) (t : Int)
    (ht : -(2 ^ 63) ≤ t ∧ t < 2 ^ 63) (htick : 1 ≤ tw.tickDuration ∧ tw.tickDuration < 2 ^ 62)
    (hspan : 0 ≤ tw.wheelDuration ∧ tw.wheelDuration < 2 ^ 62)
    (hcur : (tw.current : Int) < 2 ^ 61) (hlen : (tw.wheelLen : Int) < 2 ^ 61) :
    (Gen.wheel_findWheel (BitVec.ofInt 64 t) (BitVec.ofInt 64 tw.tickDuration) (BitVec.ofInt 64 tw.wheelDuration)
      (BitVec.ofInt 64 tw.current) (BitVec.ofInt 64 tw.wheelLen)).toInt.toNat = findWheel tw t := by
  rw [Nebula.Lemmas.WheelTie.fw_eq t _ _ _ _ ht htick hspan ⟨by omega, hcur⟩ ⟨by omega, hlen⟩]
  rfl

/-- … and the wheel length `NewTimerWheel` computes (`int(max/min + 2)`, regenerated from source) is the model's. -/
theorem wheelLen_is_translated (tick span : Int) (ht : 1 ≤ tick ∧ tick < 2 ^ 62) (hs : 0 ≤ span ∧ span < 2 ^ 62) :
    (Gen.wheel_newLen (BitVec.ofInt 64 tick) (BitVec.ofInt 64 span)).toInt.toNat = (Wheel.new tick span : TW Nat).wheelLen := by
  rw [Nebula.Lemmas.WheelTie.newLen_eq tick span ht hs]
  rfl

/-- Main theorem.  For every history after the add:
 * the due time `D` lies in `(now₀ + R, now₀ + R + tick]`;
 * `x` is returned by `Purge` at most once, and wheel + expired list + returned values always hold it
   exactly once (never lost, never duplicated);
 * not early: if `x` has been returned, or merely moved to the expired list, then some `Advance` was called
   with a time `≥ D > now₀ + R`;
 * not late: as soon as an `Advance` with a time `≥ D` (in particular any time `≥ now₀ + R + tick`) has
   happened — however long or irregular the gaps, including more than a full revolution — `x` is no longer
   in any slot: it is on the expired list, from which `Purge` returns it, or has already been returned. -/
theorem fires_once_on_time (tw0 : TW Nat) (tick span T0 now0 : Int) (x : Nat) (t : Int) (ops : List Op)
    (hwf : WF tw0) (hp : Params tw0) (htick : tw0.tickDuration = tick) (hspan : tw0.wheelDuration = span)
    (hl : tw0.lastTick = some T0) (hadv : T0 ≤ now0 ∧ now0 < T0 + tick)
    (hfresh : Gone tw0 x) (hno : ∀ v t', Op.add v t' ∈ ops → v ≠ x) (hmono : Mono now0 ops) :
    ∃ tw1, add tw0 x t = some tw1 ∧
      let D := T0 + rounded tick span t + tick
      let fin := run (tw1, []) ops
      let last := lastAdvance now0 ops
      now0 + rounded tick span t < D ∧ D ≤ now0 + rounded tick span t + tick ∧
      fin.2.count x ≤ 1 ∧
      ((fin.2.count x = 0 ∧ last < D ∧ fin.1.expired.count x = 0 ∧ ∃ r, At fin.1 x r) ∨
       (fin.2.count x = 0 ∧ D ≤ last ∧ Fired fin.1 x) ∨
       (fin.2.count x = 1 ∧ D ≤ last ∧ Gone fin.1 x)) := by
  obtain ⟨tw1, k, hadd, w1, p1, l1, td1, wd1, hk, hat⟩ := add_tracked tw0 hwf hp x t hfresh
  refine ⟨tw1, hadd, ?_⟩
  have hR : rounded tick span t = (k : Int) * tick := by unfold rounded; rw [hk, htick, hspan]
  have ht1 : 1 ≤ tick := by rw [← htick]; exact hp.1
  have hR0 : 0 ≤ rounded tick span t := by rw [hR]; exact Int.mul_nonneg (by omega) (by omega)
  have hk1 : ((k + 1 : Nat) : Int) * tick = rounded tick span t + tick := by
    rw [hR, Int.natCast_add, Int.add_mul]; simp
  generalize rounded tick span t = R at *
  have hinv0 : Inv tick span (T0 + R + tick) x (tw1, []) now0 := by
    refine ⟨w1, p1, by rw [td1, htick], by rw [wd1, hspan], T0, by rw [l1, hl], hadv.1, Or.inl ⟨by simp, by omega, k + 1, hat, by omega⟩⟩
  have hfin := inv_run tick span _ x ops (tw1, []) now0 hinv0 hno hmono
  obtain ⟨_, _, _, _, T, _, _, hcase⟩ := hfin
  refine ⟨by omega, by omega, ?_, ?_⟩
  · rcases hcase with ⟨c, _⟩ | ⟨c, _⟩ | ⟨c, _⟩ <;> omega
  · rcases hcase with ⟨c1, c2, r, c3, _⟩ | ⟨c1, c2, c3⟩ | ⟨c1, c2, c3⟩
    · exact Or.inl ⟨c1, c2, c3.2.2.2, r, c3⟩
    · exact Or.inr (Or.inl ⟨c1, c2, c3⟩)
    · exact Or.inr (Or.inr ⟨c1, c2, c3⟩)

/-- Once on the expired list the item is what `Purge` hands out: `Fired` means it is a member of the list
that `Purge` pops from the front, so at most `expired.length` calls to `Purge` return it. -/
theorem fired_is_purgeable (tw : TW Nat) (x : Nat) (h : Fired tw x) : x ∈ tw.expired := by
  have := h.2
  exact List.count_pos_iff.mp (by omega)

-- non-vacuity: a concrete wheel (tick 10, span 25: the span is not a multiple of the tick and a timeout of
-- 25 wraps onto `current`), advanced to 3, item 7 added with timeout 25; advanced to 42 it is still pending,
-- advanced to 43 (= T₀ + 30 + 10) it fires, one Purge returns it.
example : WF (Wheel.new 10 25 : TW Nat) ∧ Params (Wheel.new 10 25 : TW Nat) :=
  ⟨(new_wheel 10 25 (by decide) (by decide)).1, (new_wheel 10 25 (by decide) (by decide)).2.1⟩

example : findWheel (advance (Wheel.new 10 25 : TW Nat) 3) 25 = 0 ∧ rounded 10 25 25 = 30 := by decide

example : (run (advance (Wheel.new 10 25 : TW Nat) 3, []) [.add 7 25, .advance 42, .purge]).2 = [] ∧
    (run (advance (Wheel.new 10 25 : TW Nat) 3, []) [.add 7 25, .advance 42, .advance 43, .purge, .purge]).2 = [7] := by
  decide

example : Mono 3 [.advance 42, .advance 43, .purge] := by simp [Mono]

end Nebula.Props.C33
