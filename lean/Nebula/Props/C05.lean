/-
C05 — A handshake completes only with an authenticated peer.

"A handshake completes on either side only if the peer's certificate was accepted by the trust check
and carries exactly the static public key the peer proved it holds in the Noise exchange; the
completed result reports that certificate. No sequence of forged, replayed, reordered, truncated,
cross-session or corrupted handshake messages makes a handshake complete with any other certificate
or key."

Proved here (machine logic, for every history — any number of `Initiate` / `ProcessPacket` calls with
*arbitrary* packets and arbitrary answers of the noise library, `cert.Recombine`, the verifier, the
index allocator and the clock, both roles, any message-flag table):
a completion reports a certificate `cert` such that in some step of the history the noise read
succeeded, the certificate recombined from that message carried exactly that message's `PeerStatic()`,
and the trust check returned `cert` for it.

PARTIAL — not proved: that `PeerStatic()` of a successful flynn/noise IX read is a key whose private
half the sender of that message holds (Noise IX authentication: X25519/P-256, AEAD, SHA-256 and the
faithfulness of flynn/noise enter as the oracle `ReadOut`; the symbolic Dolev-Yao model `ix_auth` of
DESIGN.md was not built).  Full statement, for reference:
  complete r  →  ∃ honest session in which holder(sk(r.remoteCert.publicKey)) sent the message read.
-/
import Nebula.Lemmas.MachineTrace
import Nebula.Lemmas.NoiseIXAuth

namespace Nebula.Props.C05
open Nebula.Wire Nebula.Machine Nebula.Spec.Handshake

/-- Whenever any call in any history returns a Result, the reported certificate was accepted by the
trust check in a step of that history whose noise read succeeded and whose recombined certificate
carried exactly the `PeerStatic()` of that read — and the public key of the reported certificate
(`Result.RemoteCert.Certificate.PublicKey()`) *is* that `PeerStatic()`. -/
theorem complete_implies_verified_partial (c : Cfg) (s0 : St) (h0 : s0.remoteCertSet = false)
    (evs : List Ev) (e : Ev) (s' : St) (sent : Option Sent) (r : Result)
    (h : stepEv c (runState c s0 evs) e = (s', .ok sent (some r))) :
    ∃ cert, r.remoteCert = some cert ∧
      ∃ e' ∈ evs ++ [e], e'.accepts cert = true ∧ e'.peerStatic = some r.remoteKey := by
  have hinv0 : CertInv s0 [] := by intro hs; rw [h0] at hs; simp at hs
  have hinv := certInv_step c _ _ e (certInv_run c evs s0 [] hinv0)
  rw [h] at hinv
  cases e with
  | init now wr =>
    simp only [stepEv, initiate] at h
    split at h; · simp at h
    split at h; · simp at h
    split at h; · simp at h
    split at h <;> simp at h
  | pkt len st rd co now wr =>
    simp only [stepEv, processPacket] at h
    obtain ⟨hc, _, _, hr, _⟩ := pp_result true c _ s' len st rd co now wr sent r h
    obtain ⟨cert, h1, e', h2, h3, h4⟩ := hinv hc
    refine ⟨cert, ?_, e', by simpa using h2, h3, ?_⟩
    · rw [hr]; simpa [completed] using h1
    · rw [hr]; simpa [completed] using h4

/-- `accepts` unfolded: what the accepting step looked like. -/
theorem accepts_means (rd : ReadOut) (co : CertOut) (cert : CertId) (h : accepts rd co cert = true) :
    ∃ msg k1 k2 ps ver, rd = .ok msg k1 k2 ps ∧ co.recombine = some (ps, ver) ∧ co.verify = some cert := by
  unfold accepts at h
  split at h
  · rename_i msg k1 k2 ps pub ver v hrc hv
    simp at h
    exact ⟨msg, k1, k2, ps, ver, rfl, by rw [hrc, h.1], by rw [hv, h.2]⟩
  · simp at h

/-- A Result is only returned with both the payload and the certificate received, by a Machine that
is not failed, from a call that actually reached the noise library and whose read succeeded; the
Result reports the Machine's certificate, remote index and message index. -/
theorem no_result_without_payload_and_cert (c : Cfg) (s s' : St) (len st : Nat) (rd : ReadOut) (co : CertOut)
    (now : Nat) (wr : WriteOut) (sent : Option Sent) (r : Result)
    (h : processPacket c s len st rd co now wr = (s', .ok sent (some r))) :
    s'.remoteCertSet = true ∧ s'.payloadSet = true ∧ s'.failed = false ∧
    r.remoteCert = s'.remoteCert ∧ r.remoteIndex = s'.remoteIndex ∧ r.messageIndex = s'.msgIdx ∧
    reachesNoise c s len st = true ∧ ∃ msg k1 k2 ps, rd = .ok msg k1 k2 ps := by
  obtain ⟨h1, h2, h3, hr, h5, msg, k1, k2, ps, h6, _⟩ := pp_result true c s s' len st rd co now wr sent r h
  refine ⟨h1, h2, h3, ?_, ?_, ?_, h5, msg, k1, k2, ps, h6⟩ <;> (rw [hr]; simp [completed])

/-- `Initiate` never returns a Result. -/
theorem initiate_never_completes (c : Cfg) (s : St) (now : Nat) (wr : WriteOut) (sent : Option Sent) (r : Result) :
    (initiate c s now wr).2 ≠ .ok sent (some r) := by
  unfold initiate
  split; · simp
  split; · simp
  split; · simp
  split <;> simp

/-- Once failed, a Machine refuses every input and never changes again. -/
theorem failed_absorbing (c : Cfg) (s : St) (h : s.failed = true) (evs : List Ev) (e : Ev) :
    runState c s evs = s ∧ (stepEv c s e).2 = .err .machineFailed := by
  refine ⟨runState_failed c evs s h, ?_⟩
  cases e with
  | init now wr => simp [stepEv, initiate_failed c s now wr h]
  | pkt len st rd co now wr => simp [stepEv, processPacket, pp_failed true c s len st rd co now wr h]

-- non-vacuity: an honest responder step completes, and its history contains the accepting step
example :
    let c : Cfg := { initiator := false, subtype := 0, msgs := ixMsgs, haveCred := fun v => v == 2,
                     credVersion := id, alloc := some 7 }
    let msg := Payload.marshalPayload [] { cert := [1, 2, 3], initiatorIndex := 9, time := 5, certVersion := 2 }
    (processPacket c { myVersion := 2 } 100 0 (.ok msg false false [7, 7]) ⟨some ([7, 7], 2), some "peer"⟩ 11
      (.ok true true)).2 =
      .ok (some ⟨9, 7, 11, true, 2, 9, 2⟩)
        (some { eKey := .cs2, dKey := .cs1, remoteCert := some "peer", remoteKey := [7, 7], remoteIndex := 9, localIndex := 7,
                handshakeTime := 5, messageIndex := 2, initiator := false }) := by
  decide

-- a certificate whose own key is not the noise static key (any encoding the decoder lets through)
-- does not complete
example :
    let c : Cfg := { initiator := false, subtype := 0, msgs := ixMsgs, haveCred := fun v => v == 2,
                     credVersion := id, alloc := some 7 }
    let msg := Payload.marshalPayload [] { cert := [1, 2, 3], initiatorIndex := 9, time := 5, certVersion := 0 }
    (processPacket c { myVersion := 2 } 100 0 (.ok msg false false [7, 7]) ⟨some ([6, 6], 1), some "victim"⟩ 11
      (.ok true true)) = (fail { myVersion := 2, msgIdx := 1, payloadSet := true, remoteIndex := 9, handshakeTime := 5 },
        .err .publicKeyMismatch) := by
  decide

-- a stolen certificate (trust check refuses the recombined certificate) does not complete
example :
    let c : Cfg := { initiator := false, subtype := 0, msgs := ixMsgs, haveCred := fun v => v == 2,
                     credVersion := id, alloc := some 7 }
    let msg := Payload.marshalPayload [] { cert := [1, 2, 3], initiatorIndex := 9, time := 5, certVersion := 2 }
    (processPacket c { myVersion := 2 } 100 0 (.ok msg false false [7, 7]) ⟨some ([7, 7], 2), none⟩ 11
      (.ok true true)).2 = .err .verify := by
  decide

/-! ### SYMBOLIC Noise IX (`Spec/NoiseIX`): what "the peer proved it holds the key" rests on.

Everything below is about the symbolic (Dolev-Yao, free-constructor) model of the IX token sequence,
not about bytes: computational soundness of X25519 / P-256 / AEAD / SHA-256 / HKDF for this abstraction
and the faithfulness of flynn/noise to the token sequence remain ASSUMPTIONS.  The link to the Machine
theorems above: `PeerStatic()` of a successful read of message 2 is the `pub rs` of `InitiatorAccepts`;
of message 1, the `pub y` a responder session received. -/

open Nebula.Spec.NoiseIX in
/-- INITIATOR side (explicit authentication, injective agreement).  Against an adversary who owns the
network (drop, duplicate, reorder, truncate, splice, replay, cross-session, build any term from what he
knows), for any set of honest sessions: if an honest initiator whose ephemeral is secret accepts a
message 2 — so that its `PeerStatic()` is `pub rs` — then either the private key `rs` is in the
adversary's hands, or an honest responder holding `rs` produced exactly this message 2 in a session in
which it had read exactly this initiator's message 1 (same ephemeral, static key and payload). -/
theorem ix_auth_symbolic (W : World) (hp : W.payloadsPublic) (i : InitSession) (he : W.Secret i.e)
    (m : Term) (rs : Nat) (p2 : Term) (hk : Knows W m) (ha : InitiatorAccepts i m rs p2) :
    ¬ W.Secret rs ∨
    ∃ r, W.resps r ∧ r.s = rs ∧ r.x = i.e ∧ r.y = i.s ∧ r.p1 = i.p1 ∧ r.p2 = p2 ∧
      m = msg2 r.x r.y r.p1 r.e r.s r.p2 :=
  initiator_auth W hp i he m rs p2 hk ha

open Nebula.Spec.NoiseIX in
/-- RESPONDER side.  IX gives the responder no explicit authentication at the moment it completes
(it completes on message 1, which anybody can build: `responder_completion_is_not_explicit_auth`).
What it has is implicit: the session keys it derives for a peer static key `pub is` cannot be known
to anybody unless the private key `is` is in the adversary's hands — so only the certificate's owner
can ever use the tunnel. Likewise for the initiator's keys and the responder static key it accepted. -/
theorem ix_key_secrecy_symbolic (W : World) (hp : W.payloadsPublic) (ie is re rs : Nat) :
    (W.Secret re → W.Secret is → ¬ Knows W (ck3 ie is re rs)) ∧
    (W.Secret ie → W.Secret rs → ¬ Knows W (ck3 ie is re rs)) :=
  ⟨responder_key_secrecy W hp ie is re rs, initiator_key_secrecy W hp ie is re rs⟩

open Nebula.Spec.NoiseIX in
/-- The invariant both rest on: whatever the adversary can ever know "may be public"; in particular
secret private keys stay secret. -/
theorem ix_secrets_stay_secret (W : World) (hp : W.payloadsPublic) (n : Nat) (hs : W.Secret n) :
    ¬ Knows W (Term.name n) :=
  secret_not_known W hp n hs

open Nebula.Spec.NoiseIX in
/-- Not a property of IX: explicit authentication of the initiator when the responder completes. The
adversary knows a well-formed message 1 naming anybody's static public key, with no honest session. -/
theorem ix_responder_not_explicitly_authenticated (W : World) (a x : Nat) (p : Term) (hpk : Knows W p) :
    Knows W (msg1 x a p) :=
  responder_completion_is_not_explicit_auth W a x p hpk

-- non-vacuity of the symbolic theorems: a world with one honest initiator (static 1, ephemeral 2) and
-- one honest responder (static 3, ephemeral 4) that answered it; everything else belongs to the adversary
namespace IXExample
open Nebula.Spec.NoiseIX

def W0 : World where
  Secret n := n = 1 ∨ n = 2 ∨ n = 3 ∨ n = 4
  inits i := i.s = 1 ∧ i.e = 2 ∧ i.p1 = Term.const 7
  resps r := r.s = 3 ∧ r.e = 4 ∧ r.x = 2 ∧ r.y = 1 ∧ r.p1 = Term.const 7 ∧ r.p2 = Term.const 8

end IXExample

example : IXExample.W0.payloadsPublic :=
  ⟨fun i h => by rw [h.2.2]; trivial, fun r h => by rw [h.2.2.2.2.2]; trivial⟩

example : Spec.NoiseIX.Knows IXExample.W0 (Spec.NoiseIX.msg2 2 1 (.const 7) 4 3 (.const 8)) :=
  Spec.NoiseIX.Knows.resp ⟨3, 4, 2, 1, .const 7, .const 8⟩ ⟨rfl, rfl, rfl, rfl, rfl, rfl⟩

example : Spec.NoiseIX.InitiatorAccepts ⟨1, 2, .const 7⟩ (Spec.NoiseIX.msg2 2 1 (.const 7) 4 3 (.const 8)) 3 (.const 8) :=
  ⟨4, _, _, rfl, rfl, rfl⟩

end Nebula.Props.C05
