/-
C11 — source tie of the anti-replay window arithmetic.

Every index computation (`i & b.lengthMask`, `pos >> 6`), bit mask (`1 << (pos & 63)`, the partial-word masks of
`clearRange`), comparison (`i > b.current`, `i-b.current == 1`, `end-b.current > b.length`, `count >= b.length`,
`remaining >= 64`, …) and stored word of bits.go is regenerated from the source on every run as a `BitVec 64`
definition (`Gen.tie_ties1_bits_*`; the comparisons as they stand after the F01 fix). Each function of the hand
model `Nebula.Bits` that the C11 theorems are about is proved here to be exactly the composition of those regenerated
pieces; what stays hand-written is the control skeleton, the array reads/writes (`wordAt`, `setIfInBounds`) and the
recursion of the word-clearing loop. An arithmetic edit of bits.go (`>> 6` to `>> 5`, `& 63` to `& 31`, `>` to `>=`,
a changed mask) changes a regenerated definition and these theorems stop checking.
-/
import Nebula.Lemmas.Ties1BitsTie

namespace Nebula.Props.C11Tie
open Nebula.Gen Nebula.Bits

/-- `b.get(i)`: mask and test are the regenerated return expression, applied to the word at `(i & lengthMask) >> 6`. -/
theorem get_is_translated (b : Bits) (i : U64) :
    get b i = tie_ties1_bits_get i b.lengthMask (wordAt b.bits ((i &&& b.lengthMask) >>> 6)) :=
  Nebula.Lemmas.Ties1BitsTie.get_eq b i

/-- `b.set(i)`: the word stored is the regenerated `b.bits[pos>>6] |= 1 << (pos & 63)`. -/
theorem set_is_translated (b : Bits) (i : U64) :
    set b i =
      (let word := (i &&& b.lengthMask) >>> 6
       let new := tie_ties1_bits_set i b.lengthMask (wordAt b.bits word)
       { b with bits := b.bits.setIfInBounds word.toNat new }) :=
  Nebula.Lemmas.Ties1BitsTie.set_eq b i

/-- `b.Check`: the "next number" test is the regenerated `i > b.current` (the window test is `Gen.bits_strictlyWithinWindow`
already). -/
theorem check_is_translated (b : Bits) (i : U64) :
    check b i = if tie_ties1_bits_check_next i b.current then true
      else if strictlyWithinWindow b i then !get b i else false :=
  Nebula.Lemmas.Ties1BitsTie.check_eq b i

/-- `b.Update`: fast-path condition, word index and stored word are the regenerated ones. -/
theorem update_is_translated (b : Bits) (i : U64) :
    update b i =
      if tie_ties1_bits_update_fast i b.current then
        let word := tie_ties1_bits_update_word i b.lengthMask
        let new := tie_ties1_bits_update_store i b.lengthMask b.length (wordAt b.bits word)
        ({ b with bits := b.bits.setIfInBounds word.toNat new, current := i }, true)
      else updateSlow b i :=
  Nebula.Lemmas.Ties1BitsTie.update_eq b i

/-- `b.updateSlow`: jump test, clamped `count`, `startPos`, the duplicate test, word index, mask and stored word of the
in-window branch are the regenerated ones. -/
theorem updateSlow_is_translated (b : Bits) (i : U64) :
    updateSlow b i =
      if tie_ties1_bits_slow_jump i b.current then
        let b' := clearRange b (tie_ties1_bits_slow_startPos i b.current b.length b.lengthMask)
          (tie_ties1_bits_slow_count i b.current b.length)
        let b' := set b' i
        ({ b' with current := i }, true)
      else if strictlyWithinWindow b i then
        let word := tie_ties1_bits_slow_word i b.lengthMask
        let w := wordAt b.bits word
        if tie_ties1_bits_slow_dup i b.current w (tie_ties1_bits_slow_mask i b.lengthMask) then (b, false)
        else ({ b with bits := b.bits.setIfInBounds word.toNat (tie_ties1_bits_slow_store i b.lengthMask w) }, true)
      else (b, false) :=
  Nebula.Lemmas.Ties1BitsTie.updateSlow_eq b i

/-- `b.clearRange`: the whole-window test, first word index, first (partial-word) store, and the `remaining` / `pos`
handed to the word loop are the regenerated ones (the `w` parameter of the last three is unused by them). -/
theorem clearRange_is_translated (b : Bits) (startPos count : U64) :
    clearRange b startPos count =
      if tie_ties1_bits_clear_all count b.length then { b with bits := Array.replicate b.bits.size 0#64 }
      else
        let word := tie_ties1_bits_clear_word startPos count b.length b.lengthMask 0#64
        let bits := b.bits.setIfInBounds word.toNat
          (tie_ties1_bits_clear_first startPos count b.length b.lengthMask (wordAt b.bits word))
        let r := clearWords bits b.lengthMask
          (tie_ties1_bits_clear_pos startPos count b.length b.lengthMask 0#64)
          (tie_ties1_bits_clear_remaining startPos count b.length b.lengthMask 0#64)
        { b with bits := lastPartial r.1 r.2.1 r.2.2 } :=
  Nebula.Lemmas.Ties1BitsTie.clearRange_eq b startPos count

/-- One iteration of `for remaining >= 64 { … }`: loop test, word index, stored word (zero), new `pos` and `remaining`
are the regenerated loop body. -/
theorem clearWords_is_translated (bits : Array U64) (lengthMask pos remaining : U64) :
    clearWords bits lengthMask pos remaining =
      if tie_ties1_bits_clear_loop_cond remaining then
        clearWords (bits.setIfInBounds (tie_ties1_bits_clear_loop_word pos remaining lengthMask).toNat
            (tie_ties1_bits_clear_loop_store pos remaining lengthMask)) lengthMask
          (tie_ties1_bits_clear_loop_pos pos remaining lengthMask)
          (tie_ties1_bits_clear_loop_remaining pos remaining lengthMask)
      else (bits, pos, remaining) :=
  Nebula.Lemmas.Ties1BitsTie.clearWords_eq bits lengthMask pos remaining

/-- The trailing partial word of `clearRange`. -/
theorem lastPartial_is_translated (bits : Array U64) (pos remaining : U64) :
    lastPartial bits pos remaining =
      if tie_ties1_bits_clear_last_cond remaining then
        let word := tie_ties1_bits_clear_last_word pos remaining
        bits.setIfInBounds word.toNat (tie_ties1_bits_clear_last_store pos remaining (wordAt bits word))
      else bits :=
  Nebula.Lemmas.Ties1BitsTie.lastPartial_eq bits pos remaining

/-- `NewBits`: the power-of-two test and the word count are the regenerated ones. -/
theorem newBits_is_translated (length : U64) :
    newBits length =
      if tie_ties1_bits_new_bad length then none
      else
        let nWords := tie_ties1_bits_new_nWords length
        let nWords := if nWords == 0#64 then 1#64 else nWords
        some { length := length, lengthMask := length - 1#64, current := 0#64,
               bits := (Array.replicate nWords.toNat 0#64).setIfInBounds 0 1#64 } :=
  Nebula.Lemmas.Ties1BitsTie.newBits_eq length

-- the regenerated pieces compute: counter 8191+64 in an 8192-bit window lands in word 0, bit 63
example : tie_ties1_bits_update_word 8255#64 8191#64 = 0#64 ∧ tie_ties1_bits_update_mask 8255#64 8191#64 = 1#64 <<< 63 := by
  decide

end Nebula.Props.C11Tie
