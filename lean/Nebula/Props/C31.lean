/-
C31 — Concurrent handshakes converge to one working tunnel.

"When two nodes start handshakes with each other in any order and with any delivery interleaving,
traffic flows in both directions as soon as either handshake completes, at most one of the two nodes
ever decides to swap its primary tunnel, and once the network is quiet both nodes end with a single
tunnel whose indexes match each other."

Abstract two-node model (Model/HsRace.lean) with an adversarial scheduler: start / retransmit / give up on
either side, delivery of ANY in-flight message ANY number of times in ANY order, loss, connection-manager
swap and tunnel deletion at any time — all schedules, unbounded (induction over the step list).

Proved: the two SAFETY parts, for all schedules INCLUDING connection-manager traffic checks (`check`: the
makeTrafficDecision model of C30, Model/ConnMgr.lean, applied to one tunnel with scheduler-chosen in/out flags),
and BOUNDED PROGRESS of those checks: they never add a tunnel, a tunnel that sees no inbound traffic is marked
at one check and deleted at the next, inbound traffic clears the mark. The LIVENESS part stays open (C31_partial):

  quiescent_single (NOT proved): from any reachable state, if no further message is lost and the
  connection-manager ticks continue, after a bounded number of ticks both sides hold exactly one tunnel
  `t` / `t.mirror`.
  As written it is FALSE on this model for an idle network: after a simultaneous initiation without any data
  traffic each side deletes its non-primary tunnel and keeps its own primary — X the tunnel it initiated, Y the
  tunnel it initiated — two single tunnels that are NOT mirrors, stable under every further idle check
  (`idle_mismatch_is_stable`). Convergence needs traffic: with traffic on the primaries the side allowed to swap
  follows the peer's primary and the other tunnel dies on both sides within two checks
  (`race_converges_with_traffic`, one schedule); in the code the idle mismatch is resolved later by recv_error once
  traffic starts. (The scheduler of this model chooses the traffic flags freely; in the code hostinfo.out starts true, so
  the first check of every tunnel sends a test packet — an idle schedule of exactly this shape needs that exchange
  to be lost.) Missing for a proof: a model of which tunnel carries traffic (in/out flags derived from the
  primaries, test packets and their replies, recv_error) and a termination measure over it.
-/
import Nebula.Lemmas.HsRaceLive
import Nebula.Lemmas.HsManagerStep

namespace Nebula.Props.C31
open Nebula.HsRace Nebula.Lemmas.HsRace

/-- usable_on_complete, part 1 (all schedules): every tunnel a side holds as INITIATOR — in particular the
primary it gets the moment its handshake completes — is a tunnel the other side installed with the
mirrored indexes, and still holds unless that side itself deleted or evicted it (`removed`). The receiver
looks tunnels up by index among all it holds, so traffic sent on such a tunnel is accepted. -/
theorem usable_on_complete (ax ay : Nat) (steps : List Step) :
    let s := (St.init ax ay).run steps
    (∀ t ∈ s.x.tunnels, t.init = true → t.mirror ∈ s.y.tunnels ∨ t.mirror ∈ s.y.removed) ∧
    (∀ t ∈ s.y.tunnels, t.init = true → t.mirror ∈ s.x.tunnels ∨ t.mirror ∈ s.x.removed) := by
  have h := run_inv (St.init ax ay) steps (init_inv ax ay)
  refine ⟨fun t ht hi => ?_, fun t ht hi => ?_⟩
  · have := h.1.1 t ht hi; simpa [Side.held] using this
  · have := h.2.1 t ht hi; simpa [Side.held] using this

/-- usable_on_complete, part 2: every reply in flight describes a tunnel its sender really installed, so
whichever reply an initiator accepts — first, duplicate, late, after a re-handshake — the tunnel it
installs is paired. -/
theorem replies_are_backed (ax ay : Nat) (steps : List Step) :
    let s := (St.init ax ay).run steps
    (∀ hs r i, Msg.m2 hs r i ∈ s.x.inbox → ({ loc := r, rem := i, hs := hs, init := false } : Tun) ∈ s.y.held) ∧
    (∀ hs r i, Msg.m2 hs r i ∈ s.y.inbox → ({ loc := r, rem := i, hs := hs, init := false } : Tun) ∈ s.x.held) := by
  have h := run_inv (St.init ax ay) steps (init_inv ax ay)
  exact ⟨fun hs r i hm => h.1.2 _ hm, fun hs r i hm => h.2.2 _ hm⟩

/-- at_most_one_swapper (all schedules): the two nodes have different overlay addresses (C09: nobody
holds a tunnel to its own address), and the connection manager swaps only on the side whose address is
not greater than the peer's — so at most one of the two sides ever swaps its primary. -/
theorem at_most_one_swapper (ax ay : Nat) (hne : ax ≠ ay) (steps : List Step) :
    ((St.init ax ay).run steps).x.swaps = 0 ∨ ((St.init ax ay).run steps).y.swaps = 0 := by
  have h := run_swapinv (St.init ax ay) steps (by simp [SwapInv, St.init])
  obtain ⟨⟨h1, h2⟩, hax, hay⟩ := h
  rw [hax, hay] at h1 h2
  have e1 : (St.init ax ay).x.addr = ax := rfl
  have e2 : (St.init ax ay).y.addr = ay := rfl
  rw [e1, e2] at h1 h2
  by_cases hx : ((St.init ax ay).run steps).x.swaps = 0
  · left; exact hx
  · by_cases hy : ((St.init ax ay).run steps).y.swaps = 0
    · right; exact hy
    · have := h1 (by omega); have := h2 (by omega); omega

/-- the decision itself is antisymmetric -/
theorem swap_decision_antisymmetric (a b : Side) (hne : a.addr ≠ b.addr) :
    ¬ (shouldSwap a b = true ∧ shouldSwap b a = true) := by
  simp only [shouldSwap, decide_eq_true_eq]; omega

/-- bounded progress 1: a traffic check never adds a tunnel (and leaves the other side alone) -/
theorem check_never_adds (s : St) (onX : Bool) (j : Nat) (inT outT : Bool) :
    ((s.stepAll (.check onX j inT outT)).get onX).tunnels.length ≤ (s.get onX).tunnels.length ∧
    (s.stepAll (.check onX j inT outT)).get (!onX) = s.get (!onX) := by
  cases onX <;> simp only [St.stepAll, St.get, St.set, Bool.not_true, Bool.not_false, if_true, if_false, Bool.false_eq_true]
  · exact ⟨(check_shrink s.y s.x j inT outT).2.2.2.2.2, trivial⟩
  · exact ⟨(check_shrink s.x s.y j inT outT).2.2.2.2.2, trivial⟩

/-- bounded progress 2: a tunnel without inbound traffic — non-primary, or primary but sending (the test packet
got no answer) — is gone after two checks: the first only marks it, the second deletes it. -/
theorem dead_tunnel_deleted_in_two_checks (me peer peer' : Side) (j : Nat) (t : Tun) (o1 o2 : Bool)
    (ht : me.tunnels[j]? = some t) (hp : me.pdl.contains t = false) (hj : j ≠ 0 ∨ o1 = true) :
    ((me.check peer j false o1).check peer' j false o2).tunnels = me.tunnels.eraseIdx j ∧
    t ∈ ((me.check peer j false o1).check peer' j false o2).removed := by
  have h1 := check_marks me peer j t o1 ht hp hj
  have ht' : (me.check peer j false o1).tunnels[j]? = some t := by rw [h1.1]; exact ht
  have h2 := check_deletes_marked (me.check peer j false o1) peer' j t o2 ht' h1.2
  rw [h1.1] at h2; exact h2

/-- bounded progress 3: inbound traffic keeps a tunnel (possibly promoting it) and clears its mark -/
theorem live_tunnel_kept (me peer : Side) (j : Nat) (t : Tun) (outT : Bool) (ht : me.tunnels[j]? = some t) :
    (me.check peer j true outT).tunnels.length = me.tunnels.length ∧
    (me.check peer j true outT).pdl.contains t = false := check_alive_keeps me peer j t outT ht

/-! The connection manager's traffic check in the NODE model (Model/HsManager.lean `Node.trafficCheck`, driven against
the real connectionManager.doTrafficCheck by the `cmcheck` op of the hsmanager stream, two-node races included). -/

section
open Nebula.HsManager Nebula.Lemmas.HsManager

/-- a tunnel with inbound traffic whose peer certificate is not blocklisted is never deleted by a traffic check, and its
pendingDeletion mark is cleared — primary or not -/
theorem live_tunnel_survives_check (n : Node) (li : Nat) (hi : HostInfo) (outT : Bool)
    (hk : alookup li n.main.indexes = some hi) (hb : n.blocked.contains hi.certId = false) :
    alookup li (n.trafficCheck li true outT).1.main.indexes = some hi ∧
    (n.trafficCheck li true outT).1.pdl.contains hi.id = false := by
  have hb' : hi.certId ∉ n.blocked := by simpa using hb
  unfold Node.trafficCheck
  simp only [hk]
  simp only [Node.checkIn, Nebula.ConnMgr.trafficDecision, Nebula.ConnMgr.isInvalidCertificate, hb, hb']
  simp only [Nebula.Lemmas.HsRace.rejectAfter_ne, Bool.not_true, Bool.false_eq_true, if_false, Bool.true_and, decide_eq_true_eq,
    Nat.le_zero_eq, if_true]
  have contra : ∀ {d : Nebula.ConnMgr.Decision},
      (if (match n.main.primary (hi.vpnAddrs.headD 0) with
            | some p => p.id == hi.id
            | none => true) = true then Nebula.ConnMgr.Decision.tryRehandshake
        else if Nebula.ConnMgr.shouldSwapPrimary (decide (hi.vpnAddrs.headD 0 < n.cfg.myAddrs.headD 0)) 0 true true = true
          then Nebula.ConnMgr.Decision.swapPrimary else Nebula.ConnMgr.Decision.migrateRelays) = d →
      d = .tryRehandshake ∨ d = .swapPrimary ∨ d = .migrateRelays := by
    intro d h
    repeat' split at h
    all_goals first
      | (left; exact h.symm)
      | (right; left; exact h.symm)
      | (right; right; exact h.symm)
  split
  all_goals (rename_i heq; have := contra heq)
  all_goals first
    | (simp at this; done)
    | (split <;> simp [hk, List.mem_filter])
    | simp [makePrimary_indexes, hk, List.mem_filter]

end

-- non-vacuity: the simultaneous-initiation race — both start, both first messages delivered, both replies
-- delivered: each side holds two tunnels, each initiator tunnel mirrored on the other side, and the
-- primaries DIFFER (X's primary is the tunnel it initiated, Y's the one it initiated): exactly the
-- situation shouldSwapPrimary resolves, and only side X (address 1 < 2) may swap.
def race : List Step :=
  [.start true 1 2, .start false 3 4, .deliver false 0 5, .deliver true 0 6, .deliver true 1 0, .deliver false 1 0]

example : ((St.init 1 2).run race).x.tunnels.length = 2 ∧ ((St.init 1 2).run race).y.tunnels.length = 2 := by decide
example : (((St.init 1 2).run race).x.tunnels.head?.map Tun.mirror) ≠ ((St.init 1 2).run race).y.tunnels.head? := by decide
example : ((St.init 1 2).run (race ++ [.swap true 1, .swap false 1])).x.swaps = 1 ∧
          ((St.init 1 2).run (race ++ [.swap true 1, .swap false 1])).y.swaps = 0 := by decide
-- after X's swap both primaries are the two ends of one tunnel
example : (((St.init 1 2).run (race ++ [.swap true 1])).x.tunnels.head?.map Tun.mirror) =
          ((St.init 1 2).run (race ++ [.swap true 1])).y.tunnels.head? := by decide

-- idle network after the race: both sides check their tunnels twice with no traffic at all; each keeps only its own
-- primary, the two survivors are not mirrors, and every further idle check changes nothing
def idle : List Step :=
  [.check true 1 false false, .check true 1 false false, .check false 1 false false, .check false 1 false false,
   .check true 0 false false, .check false 0 false false]

theorem idle_mismatch_is_stable :
    let s := (St.init 1 2).run (race ++ idle)
    s.x.tunnels.length = 1 ∧ s.y.tunnels.length = 1 ∧
    s.x.tunnels.head?.map Tun.mirror ≠ s.y.tunnels.head? ∧
    (s.stepAll (.check true 0 false false)).x.tunnels = s.x.tunnels ∧
    (s.stepAll (.check false 0 false false)).y.tunnels = s.y.tunnels := by decide

-- with traffic on the primaries: X's non-primary tunnel (the one Y initiated) sees Y's traffic, X (smaller address)
-- swaps to it; the other tunnel then sees no inbound traffic on either side and is deleted within two checks:
-- one tunnel each, mirrors of each other
def busy : List Step :=
  [.check true 1 true false,                                   -- X: inbound on the non-primary -> swapPrimary
   .check true 1 false false, .check true 1 false false,       -- X: old primary, no inbound any more -> marked, deleted
   .check false 1 false false, .check false 1 false false]     -- Y: its non-primary never sees traffic -> marked, deleted

theorem race_converges_with_traffic :
    let s := (St.init 1 2).run (race ++ busy)
    s.x.tunnels.length = 1 ∧ s.y.tunnels.length = 1 ∧ s.x.tunnels.head?.map Tun.mirror = s.y.tunnels.head? ∧
    s.x.swaps = 1 ∧ s.y.swaps = 0 := by decide

end Nebula.Props.C31
