/-
C31 — Concurrent handshakes converge to one working tunnel.

"When two nodes start handshakes with each other in any order and with any delivery interleaving,
traffic flows in both directions as soon as either handshake completes, at most one of the two nodes
ever decides to swap its primary tunnel, and once the network is quiet both nodes end with a single
tunnel whose indexes match each other."

Abstract two-node model (Model/HsRace.lean) with an adversarial scheduler: start / retransmit / give up on
either side, delivery of ANY in-flight message ANY number of times in ANY order, loss, connection-manager
swap and tunnel deletion at any time — all schedules, unbounded (induction over the step list).

Everything the code takes from crypto/rand or a clock (handshake identity, indexes, the outcome of the
ErrExistingHostInfo clock comparison) is chosen by the scheduler of the abstract model.

Proved on the abstract model: the two SAFETY parts, for all schedules INCLUDING connection-manager traffic checks
(`check`: the makeTrafficDecision model of C30, Model/ConnMgr.lean, applied to one tunnel with scheduler-chosen in/out
flags); BOUNDED PROGRESS of those checks; and LIVENESS under the explicit fairness assumption "traffic follows the
primaries" (`quiescent_single_with_traffic`): from EVERY state — in particular after every race schedule prefix — whose
non-swapping side's primary is unmarked and mirrored on the swapping side, every quiet-phase schedule of three fair
rounds (the checks of a round in any order) ends with one tunnel per side, mirrors of each other.

  quiescent_single, full strength (NOT provable): from any reachable state, if no further message is lost and the
  connection-manager ticks continue, after a bounded number of ticks both sides hold exactly one tunnel `t` / `t.mirror`.
  As written it is FALSE on this model for an idle network (`idle_mismatch_is_stable`): without traffic each side keeps
  the tunnel it initiated — two single tunnels that are NOT mirrors, stable under every further idle check. It is also
  false without the `Ready` hypothesis: if the peer deleted the mirror of a side's primary, both sides can end with no
  tunnel at all (in the code the next packet then starts a new handshake; recv_error is not modelled).

SIMULATION (node model → abstract model). The node model (Model/HsManager.lean, `Node.step`) is the one the
correspondence harness ties to the real code. `Rel ax ay nx ny s` relates two nodes with single-address certificates
to an abstract state (tunnel lists = main-hostmap lists of the peer address, primary first; pending handshake once its
first packet exists; pendingDeletion marks; addresses). Forward simulation is proved per step kind
(`node_step_simulated_partial`): connection-manager swap, tunnel deletion, traffic check (delete / swap / mark /
tryRehandshake), starting a handshake, delivery of a first message (fresh, duplicate = cached answer, rejected =
ErrExistingHostInfo / ErrLocalIndexCollision / own address), delivery of a reply (completing, duplicate, late,
unmatched); loss is the empty step. Each is matched by at most one abstract step, so the abstract invariants — hence
usable_on_complete and at_most_one_swapper — transfer to every run of these kinds from a related pair
(`node_usable_on_complete_partial`, `node_at_most_one_swapper_partial`). NOT covered (the `_partial`): (1) handleOutbound
— the first transmission (buildStage0Packet), retransmission and give-up of `tick` / `trig`, whose abstract steps are
`start` / `resend` / `giveUp`; (2) the bookkeeping of the symbolic network (Model/HsNet.lean): that the handle table
returns for every transmission in the log the contents recorded when the packet was made — the delivery guard
`PEv.guard` assumes the delivered message is in the abstract inbox; (3) certificates with several addresses, config
reloads (blocklist), inside packets (`send`) and deliveries to a node other than the addressee.
-/
import Nebula.Lemmas.HsRaceQuiet
import Nebula.Lemmas.HsSimPair
import Nebula.Lemmas.HsManagerStep

namespace Nebula.Props.C31
open Nebula.HsRace Nebula.Lemmas.HsRace

/-- usable_on_complete, part 1 (all schedules): every tunnel a side holds as INITIATOR — in particular the
primary it gets the moment its handshake completes — is a tunnel the other side installed with the
mirrored indexes, and still holds unless that side itself deleted or evicted it (`removed`). The receiver
looks tunnels up by index among all it holds, so traffic sent on such a tunnel is accepted. -/
theorem usable_on_complete (ax ay : Nat) (steps : List Step) :
    let s := (St.init ax ay).run steps
    (∀ t ∈ s.x.tunnels, t.init = true → t.mirror ∈ s.y.tunnels ∨ t.mirror ∈ s.y.removed) ∧
    (∀ t ∈ s.y.tunnels, t.init = true → t.mirror ∈ s.x.tunnels ∨ t.mirror ∈ s.x.removed) := by
  have h := run_inv (St.init ax ay) steps (init_inv ax ay)
  refine ⟨fun t ht hi => ?_, fun t ht hi => ?_⟩
  · have := h.1.1 t ht hi; simpa [Side.held] using this
  · have := h.2.1 t ht hi; simpa [Side.held] using this

/-- usable_on_complete, part 2: every reply in flight describes a tunnel its sender really installed, so
whichever reply an initiator accepts — first, duplicate, late, after a re-handshake — the tunnel it
installs is paired. -/
theorem replies_are_backed (ax ay : Nat) (steps : List Step) :
    let s := (St.init ax ay).run steps
    (∀ hs r i, Msg.m2 hs r i ∈ s.x.inbox → ({ loc := r, rem := i, hs := hs, init := false } : Tun) ∈ s.y.held) ∧
    (∀ hs r i, Msg.m2 hs r i ∈ s.y.inbox → ({ loc := r, rem := i, hs := hs, init := false } : Tun) ∈ s.x.held) := by
  have h := run_inv (St.init ax ay) steps (init_inv ax ay)
  exact ⟨fun hs r i hm => h.1.2 _ hm, fun hs r i hm => h.2.2 _ hm⟩

/-- at_most_one_swapper (all schedules): the two nodes have different overlay addresses (C09: nobody
holds a tunnel to its own address), and the connection manager swaps only on the side whose address is
not greater than the peer's — so at most one of the two sides ever swaps its primary. -/
theorem at_most_one_swapper (ax ay : Nat) (hne : ax ≠ ay) (steps : List Step) :
    ((St.init ax ay).run steps).x.swaps = 0 ∨ ((St.init ax ay).run steps).y.swaps = 0 := by
  have h := run_swapinv (St.init ax ay) steps (by simp [SwapInv, St.init])
  obtain ⟨⟨h1, h2⟩, hax, hay⟩ := h
  rw [hax, hay] at h1 h2
  have e1 : (St.init ax ay).x.addr = ax := rfl
  have e2 : (St.init ax ay).y.addr = ay := rfl
  rw [e1, e2] at h1 h2
  by_cases hx : ((St.init ax ay).run steps).x.swaps = 0
  · left; exact hx
  · by_cases hy : ((St.init ax ay).run steps).y.swaps = 0
    · right; exact hy
    · have := h1 (by omega); have := h2 (by omega); omega

/-- the decision itself is antisymmetric -/
theorem swap_decision_antisymmetric (a b : Side) (hne : a.addr ≠ b.addr) :
    ¬ (shouldSwap a b = true ∧ shouldSwap b a = true) := by
  simp only [shouldSwap, decide_eq_true_eq]; omega

/-- bounded progress 1: a traffic check never adds a tunnel (and leaves the other side alone) -/
theorem check_never_adds (s : St) (onX : Bool) (j : Nat) (inT outT : Bool) :
    ((s.stepAll (.check onX j inT outT)).get onX).tunnels.length ≤ (s.get onX).tunnels.length ∧
    (s.stepAll (.check onX j inT outT)).get (!onX) = s.get (!onX) := by
  cases onX <;> simp only [St.stepAll, St.get, St.set, Bool.not_true, Bool.not_false, if_true, if_false, Bool.false_eq_true]
  · exact ⟨(check_shrink s.y s.x j inT outT).2.2.2.2.2, trivial⟩
  · exact ⟨(check_shrink s.x s.y j inT outT).2.2.2.2.2, trivial⟩

/-- bounded progress 2: a tunnel without inbound traffic — non-primary, or primary but sending (the test packet
got no answer) — is gone after two checks: the first only marks it, the second deletes it. -/
theorem dead_tunnel_deleted_in_two_checks (me peer peer' : Side) (j : Nat) (t : Tun) (o1 o2 : Bool)
    (ht : me.tunnels[j]? = some t) (hp : me.pdl.contains t = false) (hj : j ≠ 0 ∨ o1 = true) :
    ((me.check peer j false o1).check peer' j false o2).tunnels = me.tunnels.eraseIdx j ∧
    t ∈ ((me.check peer j false o1).check peer' j false o2).removed := by
  have h1 := check_marks me peer j t o1 ht hp hj
  have ht' : (me.check peer j false o1).tunnels[j]? = some t := by rw [h1.1]; exact ht
  have h2 := check_deletes_marked (me.check peer j false o1) peer' j t o2 ht' h1.2
  rw [h1.1] at h2; exact h2

/-- bounded progress 3: inbound traffic keeps a tunnel (possibly promoting it) and clears its mark -/
theorem live_tunnel_kept (me peer : Side) (j : Nat) (t : Tun) (outT : Bool) (ht : me.tunnels[j]? = some t) :
    (me.check peer j true outT).tunnels.length = me.tunnels.length ∧
    (me.check peer j true outT).pdl.contains t = false := check_alive_keeps me peer j t outT ht

/-! The connection manager's traffic check in the NODE model (Model/HsManager.lean `Node.trafficCheck`, driven against
the real connectionManager.doTrafficCheck by the `cmcheck` op of the hsmanager stream, two-node races included). -/

section
open Nebula.HsManager Nebula.Lemmas.HsManager

/-- a tunnel with inbound traffic whose peer certificate is not blocklisted is never deleted by a traffic check, and its
pendingDeletion mark is cleared — primary or not -/
theorem live_tunnel_survives_check (n : Node) (li : Nat) (hi : HostInfo) (outT : Bool)
    (hk : alookup li n.main.indexes = some hi) (hb : n.blocked.contains hi.certId = false) :
    alookup li (n.trafficCheck li true outT).1.main.indexes = some hi ∧
    (n.trafficCheck li true outT).1.pdl.contains hi.id = false := by
  have hb' : hi.certId ∉ n.blocked := by simpa using hb
  unfold Node.trafficCheck
  simp only [hk]
  simp only [Node.checkIn, Nebula.ConnMgr.trafficDecision, Nebula.ConnMgr.isInvalidCertificate, hb, hb']
  simp only [Nebula.Lemmas.HsRace.rejectAfter_ne, Bool.not_true, Bool.false_eq_true, if_false, Bool.true_and, decide_eq_true_eq,
    Nat.le_zero_eq, if_true]
  have contra : ∀ {d : Nebula.ConnMgr.Decision},
      (if (match n.main.primary (hi.vpnAddrs.headD 0) with
            | some p => p.id == hi.id
            | none => true) = true then Nebula.ConnMgr.Decision.tryRehandshake
        else if Nebula.ConnMgr.shouldSwapPrimary (decide (hi.vpnAddrs.headD 0 < n.cfg.myAddrs.headD 0)) 0 true true = true
          then Nebula.ConnMgr.Decision.swapPrimary else Nebula.ConnMgr.Decision.migrateRelays) = d →
      d = .tryRehandshake ∨ d = .swapPrimary ∨ d = .migrateRelays := by
    intro d h
    repeat' split at h
    all_goals first
      | (left; exact h.symm)
      | (right; left; exact h.symm)
      | (right; right; exact h.symm)
  split
  all_goals (rename_i heq; have := contra heq)
  all_goals first
    | (simp at this; done)
    | (split <;> simp [hk, List.mem_filter])
    | simp [makePrimary_indexes, hk, List.mem_filter]

end

/-! ### simulation: node model → abstract model -/

section
open Nebula.HsManager Nebula.Lemmas.HsSim

/-- FORWARD SIMULATION per step kind (`PEv`: swap, delete, traffic check, start, delivery of a first message, delivery
of a reply — duplicates and rejected deliveries included; loss = no step): one event of the NODE model on X (`onX`) or Y
keeps the pair related to the abstract state reached by at most one abstract step. Partial: see the header for the
kinds not covered (handleOutbound, the network's handle table, multi-address certificates). -/
theorem node_step_simulated_partial {ax ay : Addr} {nx ny : Node} {s : St} (r : Rel ax ay nx ny s) (onX : Bool) (e : PEv)
    (g : if onX then e.guard nx ay s.x.inbox else e.guard ny ax s.y.inbox) :
    ∃ steps : List Step, steps.length ≤ 1 ∧
      if onX then Rel ax ay (nx.step (e.ev ay)).1 ny (s.run steps) else Rel ax ay nx (ny.step (e.ev ax)).1 (s.run steps) :=
  rel_step r onX e g

/-- the starting point: two freshly initialised nodes with single-address certificates are related to `St.init` -/
theorem node_init_related (cx cy : Cfg) (ax ay : Addr) (hx : cx.myAddrs = [ax]) (hy : cy.myAddrs = [ay]) :
    Rel ax ay (Node.init cx) (Node.init cy) (St.init ax ay) := rel_init cx cy ax ay hx hy

/-- usable_on_complete on the NODE model: in every related pair — every pair reached from a related pair by steps of the
covered kinds — each tunnel a node holds as initiator has its counterpart (indexes crossed, same first packet, responder)
in the peer's main hostmap, unless the peer removed it itself -/
theorem node_usable_on_complete_partial {ax ay : Addr} {nx ny : Node} {s : St} (r : Rel ax ay nx ny s) :
    (∀ t, t ∈ nx.main.getList ay → t.initiator = true →
      (∃ u, u ∈ ny.main.getList ax ∧ u.localIndex = t.remoteIndex ∧ u.remoteIndex = t.localIndex ∧ u.pkt0 = t.pkt0 ∧
        u.initiator = false) ∨ (absTun t).mirror ∈ s.y.removed) ∧
    (∀ t, t ∈ ny.main.getList ax → t.initiator = true →
      (∃ u, u ∈ nx.main.getList ay ∧ u.localIndex = t.remoteIndex ∧ u.remoteIndex = t.localIndex ∧ u.pkt0 = t.pkt0 ∧
        u.initiator = false) ∨ (absTun t).mirror ∈ s.x.removed) := by
  have h := usable_transfer s nx ny ax ay r.srx r.sry r.inv
  have key : ∀ (u t : HostInfo), t.initiator = true → absTun u = (absTun t).mirror →
      u.localIndex = t.remoteIndex ∧ u.remoteIndex = t.localIndex ∧ u.pkt0 = t.pkt0 ∧ u.initiator = false := by
    intro u t ht e
    simp only [absTun, Tun.mirror, Tun.mk.injEq] at e
    exact ⟨e.1, e.2.1, encH_inj.mp e.2.2.1, by rw [e.2.2.2, ht]; rfl⟩
  constructor
  · intro t ht hin
    rcases h.1 t ht hin with ⟨u, hu, e⟩ | h'
    · exact Or.inl ⟨u, hu, key u t hin e⟩
    · exact Or.inr h'
  · intro t ht hin
    rcases h.2 t ht hin with ⟨u, hu, e⟩ | h'
    · exact Or.inl ⟨u, hu, key u t hin e⟩
    · exact Or.inr h'

/-- at_most_one_swapper on the NODE model: along every run of the covered kinds from a related pair, the swaps the two
nodes performed (counted by the matching abstract steps) are all on one side -/
theorem node_at_most_one_swapper_partial {ax ay : Addr} {nx ny : Node} {s : St} (r : Rel ax ay nx ny s) (hne : ax ≠ ay) :
    s.x.swaps = 0 ∨ s.y.swaps = 0 := one_swapper_transfer r hne

end

/-! ### liveness under "traffic follows the primaries" -/

/-- quiescent_single_with_traffic: see the header. `Ready s`, `coversRound s b` are decidable predicates on the state
at the start of the quiet phase and on the schedule; `qrun` runs connection-manager checks whose traffic flags are
derived from the two primaries (`qcheck_is_check`: each is a `check` step of the model). -/
theorem quiescent_single_with_traffic (s : St) (hr : Ready s = true) (b1 b2 b3 : List (Bool × Tun))
    (c1 : coversRound s b1 = true) (c2 : coversRound s b2 = true) (c3 : coversRound s b3 = true) :
    ∃ t, (qrun (qrun (qrun s b1) b2) b3).x.tunnels = [t] ∧ (qrun (qrun (qrun s b1) b2) b3).y.tunnels = [t.mirror] :=
  quiet_converges s hr b1 b2 b3 c1 c2 c3

/-- the same after EVERY race schedule prefix (all start / delivery orders, duplications, losses, deletions, checks) -/
theorem quiescent_single_after_any_prefix (ax ay : Nat) (steps : List Step) (b1 b2 b3 : List (Bool × Tun))
    (hr : Ready ((St.init ax ay).run steps) = true)
    (c1 : coversRound ((St.init ax ay).run steps) b1 = true) (c2 : coversRound ((St.init ax ay).run steps) b2 = true)
    (c3 : coversRound ((St.init ax ay).run steps) b3 = true) :
    ∃ t, (qrun (qrun (qrun ((St.init ax ay).run steps) b1) b2) b3).x.tunnels = [t] ∧
         (qrun (qrun (qrun ((St.init ax ay).run steps) b1) b2) b3).y.tunnels = [t.mirror] :=
  quiet_converges _ hr b1 b2 b3 c1 c2 c3

/-- once the two primaries are the two ends of one tunnel, two fair rounds suffice and no mark matters -/
theorem mirrored_primaries_converge_in_two_rounds (s : St) (m : Tun) (hx : s.x.tunnels.head? = some m)
    (hy : s.y.tunnels.head? = some m.mirror) (xnd : s.x.tunnels.Nodup) (ynd : s.y.tunnels.Nodup)
    (b2 b3 : List (Bool × Tun)) (c2 : coversRound s b2 = true) (c3 : coversRound s b3 = true) :
    (qrun (qrun s b2) b3).x.tunnels = [m] ∧ (qrun (qrun s b2) b3).y.tunnels = [m.mirror] :=
  mirrored_primaries_converge s s m m.mirror ⟨hx, hy, rfl, xnd, ynd⟩ (fun _ h => h) (fun _ h => h) b2 b3 c2 c3

-- non-vacuity: the simultaneous-initiation race — both start, both first messages delivered, both replies
-- delivered: each side holds two tunnels, each initiator tunnel mirrored on the other side, and the
-- primaries DIFFER (X's primary is the tunnel it initiated, Y's the one it initiated): exactly the
-- situation shouldSwapPrimary resolves, and only side X (address 1 < 2) may swap.
def race : List Step :=
  [.start true 1 2, .start false 3 4, .deliver false 0 5, .deliver true 0 6, .deliver true 1 0, .deliver false 1 0]

example : ((St.init 1 2).run race).x.tunnels.length = 2 ∧ ((St.init 1 2).run race).y.tunnels.length = 2 := by decide
example : (((St.init 1 2).run race).x.tunnels.head?.map Tun.mirror) ≠ ((St.init 1 2).run race).y.tunnels.head? := by decide
example : ((St.init 1 2).run (race ++ [.swap true 1, .swap false 1])).x.swaps = 1 ∧
          ((St.init 1 2).run (race ++ [.swap true 1, .swap false 1])).y.swaps = 0 := by decide
-- after X's swap both primaries are the two ends of one tunnel
example : (((St.init 1 2).run (race ++ [.swap true 1])).x.tunnels.head?.map Tun.mirror) =
          ((St.init 1 2).run (race ++ [.swap true 1])).y.tunnels.head? := by decide

-- idle network after the race: both sides check their tunnels twice with no traffic at all; each keeps only its own
-- primary, the two survivors are not mirrors, and every further idle check changes nothing
def idle : List Step :=
  [.check true 1 false false, .check true 1 false false, .check false 1 false false, .check false 1 false false,
   .check true 0 false false, .check false 0 false false]

theorem idle_mismatch_is_stable :
    let s := (St.init 1 2).run (race ++ idle)
    s.x.tunnels.length = 1 ∧ s.y.tunnels.length = 1 ∧
    s.x.tunnels.head?.map Tun.mirror ≠ s.y.tunnels.head? ∧
    (s.stepAll (.check true 0 false false)).x.tunnels = s.x.tunnels ∧
    (s.stepAll (.check false 0 false false)).y.tunnels = s.y.tunnels := by decide

-- with traffic on the primaries: X's non-primary tunnel (the one Y initiated) sees Y's traffic, X (smaller address)
-- swaps to it; the other tunnel then sees no inbound traffic on either side and is deleted within two checks:
-- one tunnel each, mirrors of each other
def busy : List Step :=
  [.check true 1 true false,                                   -- X: inbound on the non-primary -> swapPrimary
   .check true 1 false false, .check true 1 false false,       -- X: old primary, no inbound any more -> marked, deleted
   .check false 1 false false, .check false 1 false false]     -- Y: its non-primary never sees traffic -> marked, deleted

theorem race_converges_with_traffic :
    let s := (St.init 1 2).run (race ++ busy)
    s.x.tunnels.length = 1 ∧ s.y.tunnels.length = 1 ∧ s.x.tunnels.head?.map Tun.mirror = s.y.tunnels.head? ∧
    s.x.swaps = 1 ∧ s.y.swaps = 0 := by decide

-- non-vacuity of quiescent_single_with_traffic: the state after the simultaneous-initiation race is `Ready` (Y, the side
-- that may not swap, has an unmarked primary whose mirror X holds), and a round that checks Y's tunnels first and X's
-- afterwards — the order in which Y's primary is marked before X follows — is fair
def raceState : St := (St.init 1 2).run race
def roundYX : List (Bool × Tun) :=
  (raceState.y.tunnels.map (fun t => (false, t))) ++ (raceState.x.tunnels.map (fun t => (true, t)))

example : Ready raceState = true := by decide
example : coversRound raceState roundYX = true := by decide
example : (qrun (qrun (qrun raceState roundYX) roundYX) roundYX).x.tunnels.length = 1 ∧
    (qrun (qrun (qrun raceState roundYX) roundYX) roundYX).x.tunnels.head?.map Tun.mirror =
    (qrun (qrun (qrun raceState roundYX) roundYX) roundYX).y.tunnels.head? := by decide
-- the idle mismatch is NOT a quiet phase of this kind: with no traffic at all the flags are not those of `qcheck`
example : Ready ((St.init 1 2).run (race ++ idle)) = false := by decide

end Nebula.Props.C31
