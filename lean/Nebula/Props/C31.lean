/-
C31 — Concurrent handshakes converge to one working tunnel.

"When two nodes start handshakes with each other in any order and with any delivery interleaving,
traffic flows in both directions as soon as either handshake completes, at most one of the two nodes
ever decides to swap its primary tunnel, and once the network is quiet both nodes end with a single
tunnel whose indexes match each other."

Abstract two-node model (Model/HsRace.lean) with an adversarial scheduler: start / retransmit / give up on
either side, delivery of ANY in-flight message ANY number of times in ANY order, loss, connection-manager
swap and tunnel deletion at any time — all schedules, unbounded (induction over the step list).

Proved: the two SAFETY parts. The LIVENESS part is left open (C31_partial):

  quiescent_single (NOT proved): from any reachable state, if no further message is lost and the
  connection-manager ticks continue, after a bounded number of ticks both sides hold exactly one tunnel
  `t` / `t.mirror`.   Missing: a model of the traffic-driven liveness decisions (in/out flags,
  pendingDeletion, test packets — C30) and a termination measure over them.
-/
import Nebula.Lemmas.HsRaceSwap

namespace Nebula.Props.C31
open Nebula.HsRace Nebula.Lemmas.HsRace

/-- usable_on_complete, part 1 (all schedules): every tunnel a side holds as INITIATOR — in particular the
primary it gets the moment its handshake completes — is a tunnel the other side installed with the
mirrored indexes, and still holds unless that side itself deleted or evicted it (`removed`). The receiver
looks tunnels up by index among all it holds, so traffic sent on such a tunnel is accepted. -/
theorem usable_on_complete (ax ay : Nat) (steps : List Step) :
    let s := (St.init ax ay).run steps
    (∀ t ∈ s.x.tunnels, t.init = true → t.mirror ∈ s.y.tunnels ∨ t.mirror ∈ s.y.removed) ∧
    (∀ t ∈ s.y.tunnels, t.init = true → t.mirror ∈ s.x.tunnels ∨ t.mirror ∈ s.x.removed) := by
  have h := run_inv (St.init ax ay) steps (init_inv ax ay)
  refine ⟨fun t ht hi => ?_, fun t ht hi => ?_⟩
  · have := h.1.1 t ht hi; simpa [Side.held] using this
  · have := h.2.1 t ht hi; simpa [Side.held] using this

/-- usable_on_complete, part 2: every reply in flight describes a tunnel its sender really installed, so
whichever reply an initiator accepts — first, duplicate, late, after a re-handshake — the tunnel it
installs is paired. -/
theorem replies_are_backed (ax ay : Nat) (steps : List Step) :
    let s := (St.init ax ay).run steps
    (∀ hs r i, Msg.m2 hs r i ∈ s.x.inbox → ({ loc := r, rem := i, hs := hs, init := false } : Tun) ∈ s.y.held) ∧
    (∀ hs r i, Msg.m2 hs r i ∈ s.y.inbox → ({ loc := r, rem := i, hs := hs, init := false } : Tun) ∈ s.x.held) := by
  have h := run_inv (St.init ax ay) steps (init_inv ax ay)
  exact ⟨fun hs r i hm => h.1.2 _ hm, fun hs r i hm => h.2.2 _ hm⟩

/-- at_most_one_swapper (all schedules): the two nodes have different overlay addresses (C09: nobody
holds a tunnel to its own address), and the connection manager swaps only on the side whose address is
not greater than the peer's — so at most one of the two sides ever swaps its primary. -/
theorem at_most_one_swapper (ax ay : Nat) (hne : ax ≠ ay) (steps : List Step) :
    ((St.init ax ay).run steps).x.swaps = 0 ∨ ((St.init ax ay).run steps).y.swaps = 0 := by
  have h := run_swapinv (St.init ax ay) steps (by simp [SwapInv, St.init])
  obtain ⟨⟨h1, h2⟩, hax, hay⟩ := h
  rw [hax, hay] at h1 h2
  have e1 : (St.init ax ay).x.addr = ax := rfl
  have e2 : (St.init ax ay).y.addr = ay := rfl
  rw [e1, e2] at h1 h2
  by_cases hx : ((St.init ax ay).run steps).x.swaps = 0
  · left; exact hx
  · by_cases hy : ((St.init ax ay).run steps).y.swaps = 0
    · right; exact hy
    · have := h1 (by omega); have := h2 (by omega); omega

/-- the decision itself is antisymmetric -/
theorem swap_decision_antisymmetric (a b : Side) (hne : a.addr ≠ b.addr) :
    ¬ (shouldSwap a b = true ∧ shouldSwap b a = true) := by
  simp only [shouldSwap, decide_eq_true_eq]; omega

-- non-vacuity: the simultaneous-initiation race — both start, both first messages delivered, both replies
-- delivered: each side holds two tunnels, each initiator tunnel mirrored on the other side, and the
-- primaries DIFFER (X's primary is the tunnel it initiated, Y's the one it initiated): exactly the
-- situation shouldSwapPrimary resolves, and only side X (address 1 < 2) may swap.
def race : List Step :=
  [.start true, .start false, .deliver false 0, .deliver true 0, .deliver true 1, .deliver false 1]

example : ((St.init 1 2).run race).x.tunnels.length = 2 ∧ ((St.init 1 2).run race).y.tunnels.length = 2 := by decide
example : (((St.init 1 2).run race).x.tunnels.head?.map Tun.mirror) ≠ ((St.init 1 2).run race).y.tunnels.head? := by decide
example : ((St.init 1 2).run (race ++ [.swap true 1, .swap false 1])).x.swaps = 1 ∧
          ((St.init 1 2).run (race ++ [.swap true 1, .swap false 1])).y.swaps = 0 := by decide
-- after X's swap both primaries are the two ends of one tunnel
example : (((St.init 1 2).run (race ++ [.swap true 1])).x.tunnels.head?.map Tun.mirror) =
          ((St.init 1 2).run (race ++ [.swap true 1])).y.tunnels.head? := by decide

end Nebula.Props.C31
