/-
C20 — Packet classification matches what the host will process.

"Parsing an inner IP packet never panics, and either rejects it or reports the addresses, upper-layer
protocol, ports (or ICMP identifier), fragment status and header length that an independent IPv4/IPv6
parser finds, oriented for the direction. For IPv6 the reported protocol is the real upper-layer protocol
after the extension header chain, never an extension header, and a chain that cannot be fully resolved
is rejected."  — for all byte strings.

Model: `Model/PktParse.lean` (newPacket / parseV4 / parseV6 / IPv6FindUpperProtocol as repaired by the
`fix:` commit for F03).  Independent parser: `Spec/IP.lean` (no limit on the chain length).
-/
import Nebula.Lemmas.PktParse
import Nebula.Lemmas.PktParseComplete
import Nebula.Lemmas.PktParsePorts

namespace Nebula.Props.C20
open Nebula.Pkt Nebula.Spec.IP Nebula.Lemmas.PktParse

/-- Every Go index / slice expression on the parse path is guarded: for all byte strings and both
directions the model never takes a `panic` branch. -/
theorem no_panic (d : List UInt8) (incoming : Bool) : newPacket d incoming ≠ .panic :=
  newPacket_no_panic d incoming

/-- Whenever the packet is accepted, the independent parser parses the same bytes, and the reported
addresses (oriented), protocol, fragment status, any-fragment flag, header length and ports / ICMP
identifier are the ones it finds (`Spec.IP.acceptable`). No bound on length, options or chain. -/
theorem agree (d : List UInt8) (incoming : Bool) (fp : Parsed) (h : newPacket d incoming = .ok fp) :
    ∃ sp, parse d = some sp ∧ acceptable sp incoming (toClass fp) = true :=
  newPacket_agree d incoming fp h

/-- The individual fields of `agree`, spelled out. -/
theorem agree_fields (d : List UInt8) (incoming : Bool) (fp : Parsed) (h : newPacket d incoming = .ok fp) :
    ∃ sp, parse d = some sp ∧
      fp.proto = sp.proto ∧ fp.fragment = sp.nonFirstFrag ∧ fp.fragAny = sp.anyFrag ∧ fp.ipHdrLen = sp.hdrLen ∧
      (if incoming then fp.remoteAddr = sp.src ∧ fp.localAddr = sp.dst
       else fp.localAddr = sp.src ∧ fp.remoteAddr = sp.dst) ∧
      portsOK sp incoming (toClass fp) = true := by
  obtain ⟨sp, h1, h2⟩ := newPacket_agree d incoming fp h
  refine ⟨sp, h1, ?_⟩
  simp only [acceptable, addrsOK, toClass, Bool.and_eq_true, beq_iff_eq] at h2
  obtain ⟨⟨⟨⟨⟨ha, k1⟩, k2⟩, k3⟩, k4⟩, k5⟩ := h2
  refine ⟨k1, k2, k3, k4, ?_, k5⟩
  cases incoming <;> simpa [Bool.and_eq_true, beq_iff_eq] using ha

/-- IPv6: the reported protocol of an accepted packet that is not a non-first fragment is never one of
the extension header types (0, 43, 44, 51, 60). -/
theorem v6_proto_not_ext (d : List UInt8) (incoming : Bool) (fp : Parsed)
    (h : parseV6 d incoming = .ok fp) (hnf : fp.fragment = false) : isExtHeader fp.proto = false :=
  (parseV6_proto d incoming fp h).1 hnf

/-- IPv6 non-first fragment (there is no upper-layer header in such a packet): the reported protocol is
the next-header byte of the fragment header the reported header length points at, which lies inside the
packet. (Reading: for a non-first fragment "the real upper-layer protocol" is what its fragment header
names — the independent parser and gopacket report the same.) -/
theorem v6_nonfirst_fragment_proto (d : List UInt8) (incoming : Bool) (fp : Parsed)
    (h : parseV6 d incoming = .ok fp) (hf : fp.fragment = true) :
    fp.proto = byte d fp.ipHdrLen ∧ fp.ipHdrLen + 8 ≤ d.length ∧ fp.fragAny = true :=
  (parseV6_proto d incoming fp h).2 hf

/-- A packet the independent parser cannot resolve (IPv6: truncated header, a header that claims more
bytes than are present, a chain that ends in an extension header; IPv4: bad IHL / short header; unknown
version) is rejected with an error — never accepted, never a panic. -/
theorem unresolved_rejected (d : List UInt8) (incoming : Bool) (h : parse d = none) :
    ∃ e, newPacket d incoming = .err e := by
  cases hr : newPacket d incoming with
  | ok fp =>
    obtain ⟨sp, h1, _⟩ := newPacket_agree d incoming fp hr
    rw [h] at h1; cases h1
  | err e => exact ⟨e, rfl⟩
  | panic => exact absurd hr (newPacket_no_panic d incoming)

/-- the IPv6 instance of `unresolved_rejected`, in the property's words -/
theorem v6_unresolved_rejected (d : List UInt8) (incoming : Bool) (b : UInt8) (tl : List UInt8)
    (hd : d = b :: tl) (hv : b.toNat / 16 = 6) (h : parse6 d = none) :
    ∃ e, newPacket d incoming = .err e := by
  apply unresolved_rejected
  subst hd
  simp only [parse, hv, show ¬ ((6 : Nat) = 4) by decide, if_false, if_true]
  exact h

/-- The independent parser really is unbounded: its fuel is never the reason for `unresolved` (any two
fuels above the number of remaining bytes agree), so chains of any length are walked. -/
theorem spec_walk_unbounded (f1 f2 nh : Nat) (rest : List UInt8) (off : Nat) (af : Bool) (k : Nat)
    (h1 : rest.length < f1) (h2 : rest.length < f2) : walk f1 nh rest off af k = walk f2 nh rest off af k :=
  walk_fuel f1 f2 nh rest off af k h1 h2

/-- Completeness (the direction `agree` leaves open): every packet the independent parser resolves, whose
upper-layer header holds the bytes the classification reads (`Spec.IP.Pkt.classifiable`) and whose chain
has at most `maxIPv6ExtHeaders` (regenerated from the source: 8) extension headers — every such IPv4 packet,
IPv4 has no chain — is *accepted*, and with exactly the fields the independent parser finds. -/
theorem spec_resolved_accepted (d : List UInt8) (incoming : Bool) (sp : Pkt) (h : parse d = some sp)
    (hc : sp.classifiable = true) (hk : sp.nExt ≤ maxIPv6ExtHeaders) :
    ∃ fp, newPacket d incoming = .ok fp ∧ acceptable sp incoming (toClass fp) = true := by
  obtain ⟨fp, hfp⟩ := newPacket_complete d incoming sp h hc hk
  obtain ⟨sp', h1, h2⟩ := newPacket_agree d incoming fp hfp
  rw [h] at h1
  cases h1
  exact ⟨fp, hfp, h2⟩

/-- Acceptance characterised exactly. The walk limit is the only gap between `newPacket` and the
independent parser: a packet is accepted iff the parser resolves it, it is classifiable, and its chain has
at most `maxIPv6ExtHeaders` extension headers (a terminating non-first fragment header included). -/
theorem accepted_iff (d : List UInt8) (incoming : Bool) :
    (∃ fp, newPacket d incoming = .ok fp) ↔
      ∃ sp, parse d = some sp ∧ sp.classifiable = true ∧ sp.nExt ≤ maxIPv6ExtHeaders := by
  constructor
  · rintro ⟨fp, h⟩
    exact newPacket_ok_classifiable d incoming fp h
  · rintro ⟨sp, h, hc, hk⟩
    exact newPacket_complete d incoming sp h hc hk

/-- The gap, stated: beyond the limit nothing is accepted, whatever the independent parser makes of it. -/
theorem beyond_walk_limit_rejected (d : List UInt8) (incoming : Bool) (sp : Pkt) (h : parse d = some sp)
    (hk : maxIPv6ExtHeaders < sp.nExt) : ∃ e, newPacket d incoming = .err e := by
  cases hr : newPacket d incoming with
  | ok fp =>
    obtain ⟨sp', h1, _, h3⟩ := newPacket_ok_classifiable d incoming fp hr
    rw [h] at h1; cases h1; omega
  | err e => exact ⟨e, rfl⟩
  | panic => exact absurd hr (newPacket_no_panic d incoming)

/-- Every reported port is *found in the packet* (`Spec.IP.portsFromPacket`, the ports clause with no case
left free): for all byte strings and both directions, whenever the packet is accepted the independent
parser parses the same bytes and the reported (localPort, remotePort) are — non-first fragment: 0/0;
TCP/UDP: the oriented first two 16-bit words of the upper-layer header; ICMP/ICMPv6: local 0, remote the
word at upper-layer offset 4 (for a type without an identifier alternatively 0); any other protocol: 0/0
or the oriented first four upper-layer bytes. So no reported port can be anything but a function of
(bytes, direction): a value left over in the reused ParsedPacket is not acceptable. -/
theorem model_ports_from_packet (d : List UInt8) (incoming : Bool) (fp : Parsed)
    (h : newPacket d incoming = .ok fp) :
    ∃ sp, parse d = some sp ∧ portsFromPacket sp incoming (toClass fp) = true := by
  obtain ⟨sp, h1, _, h3⟩ := newPacket_agree_strict d incoming fp h
  exact ⟨sp, h1, h3⟩

/-- `agree` and `model_ports_from_packet` about the same parse: the oracle the driver applies to the
implementation's answers (`acceptableStrict = acceptable && portsFromPacket`) holds of the model's. -/
theorem agree_strict (d : List UInt8) (incoming : Bool) (fp : Parsed) (h : newPacket d incoming = .ok fp) :
    ∃ sp, parse d = some sp ∧ acceptableStrict sp incoming (toClass fp) = true := by
  obtain ⟨sp, h1, h2, h3⟩ := newPacket_agree_strict d incoming fp h
  exact ⟨sp, h1, by simp [acceptableStrict, h2, h3]⟩

/-- The strict ports clause only adds demands: it implies the ports clause of `acceptable`. -/
theorem ports_from_packet_strengthens (p : Pkt) (incoming : Bool) (c : Class)
    (h : portsFromPacket p incoming c = true) : portsOK p incoming c = true :=
  portsFromPacket_portsOK p incoming c h

/-- Where the strict clause leaves a choice it is between two readings of the packet, nothing else: two
classifications of the same packet and direction that both satisfy it and agree on whether any port is
reported at all (both 0/0 or both not) report the same ports. -/
theorem ports_from_packet_determined (p : Pkt) (incoming : Bool) (c1 c2 : Class)
    (h1 : portsFromPacket p incoming c1 = true) (h2 : portsFromPacket p incoming c2 = true)
    (hz : (c1.localPort = 0 ∧ c1.remotePort = 0) ↔ (c2.localPort = 0 ∧ c2.remotePort = 0)) :
    c1.localPort = c2.localPort ∧ c1.remotePort = c2.remotePort := by
  simp only [portsFromPacket, firstFourOriented, Pkt.icmpTypeHasId] at h1 h2
  by_cases hnf : p.nonFirstFrag = true
  · simp only [hnf, if_true, Bool.and_eq_true, beq_iff_eq] at h1 h2; omega
  · simp only [hnf, Bool.false_eq_true, if_false] at h1 h2
    by_cases hp : p.proto = 6 ∨ p.proto = 17
    · cases incoming <;>
        simp only [hp, Bool.and_eq_true, beq_iff_eq, decide_eq_true_eq, if_true, Bool.false_eq_true, if_false] at h1 h2 <;>
        omega
    · by_cases hi : p.isIcmp = true
      · simp only [hp, hi, if_true, if_false, Bool.and_eq_true, Bool.or_eq_true, beq_iff_eq, decide_eq_true_eq] at h1 h2
        omega
      · cases incoming <;>
          simp only [hp, hi, Bool.and_eq_true, Bool.or_eq_true, beq_iff_eq, decide_eq_true_eq, if_true,
            Bool.false_eq_true, if_false] at h1 h2 <;>
          omega

/-- the walk limit the theorems speak about is the constant of the current source -/
example : maxIPv6ExtHeaders = 8 := by decide

-- ---------------------------------------------------------------------------------------------------
-- non-vacuity / sanity on concrete packets

/-- IPv6 fixed header with next-header `nh`, then `k` eight-byte destination-option headers, the last of
which names UDP, then a UDP header. -/
def chain (k : Nat) : List UInt8 :=
  let fixed : List UInt8 := [0x60, 0, 0, 0, 0, 0, (if k = 0 then 17 else 60), 64] ++ List.replicate 15 0 ++ [1] ++ List.replicate 15 0 ++ [2]
  let exts : List UInt8 := (List.range k).flatMap (fun i => [if i + 1 = k then 17 else 60, 0, 1, 4, 0, 0, 0, 0])
  fixed ++ exts ++ [0x12, 0x34, 0x00, 0x35, 0, 8, 0, 0]

set_option maxRecDepth 100000

-- 8 extension headers: accepted, protocol UDP, header length 40 + 64, ports oriented
example : newPacket (chain 8) true =
    .ok { localAddr := List.replicate 15 0 ++ [2], remoteAddr := List.replicate 15 0 ++ [1], localPort := 0x35,
          remotePort := 0x1234, proto := 17, fragment := false, ipHdrLen := 104, fragAny := false } := by decide

-- 9 extension headers (F03): the independent parser resolves the chain to UDP at offset 112 …
example : (parse (chain 9)).map (fun p => (p.proto, p.hdrLen, p.nExt)) = some (17, 112, 9) := by decide
-- … and the (repaired) classifier rejects instead of reporting protocol 60
example : newPacket (chain 9) true = .err .v6PacketTooShort := by decide

-- the hypotheses of `spec_resolved_accepted` hold for the 8-header chain, those of
-- `beyond_walk_limit_rejected` for the 9-header chain
example : (parse (chain 8)).map (fun p => (p.classifiable, decide (p.nExt ≤ maxIPv6ExtHeaders))) = some (true, true) := by decide
example : (parse (chain 9)).map (fun p => decide (maxIPv6ExtHeaders < p.nExt)) = some true := by decide

-- a chain cut inside its last header is unresolved for the specification and rejected by the model
example : parse ((chain 3).take 62) = none ∧ newPacket ((chain 3).take 62) false = .err .v6PacketTooShort := by decide

-- IPv4 with options, outgoing TCP
example : newPacket ([0x46, 0, 0, 32, 0, 0, 0, 0, 64, 6, 0, 0, 10, 0, 0, 1, 10, 0, 0, 2, 1, 1, 1, 0,
                      0x00, 0x50, 0x1f, 0x90, 0, 0, 0, 0]) false =
    .ok { localAddr := [10, 0, 0, 1], remoteAddr := [10, 0, 0, 2], localPort := 80, remotePort := 8080, proto := 6,
          fragment := false, ipHdrLen := 24, fragAny := false } := by decide

-- ports found in the packet (`model_ports_from_packet`), on the packets of the seeded change C20-4:
/-- IPv6, upper protocol `nh` (no extension headers), eight upper-layer bytes `01 02 03 04 05 06 07 08` -/
def v6other (nh : UInt8) : List UInt8 :=
  [0x60, 0, 0, 0, 0, 8, nh, 64] ++ List.replicate 15 0 ++ [1] ++ List.replicate 15 0 ++ [2] ++ [1, 2, 3, 4, 5, 6, 7, 8]
/-- a classification of `v6other nh`, incoming, with the given ports -/
def v6otherClass (nh lp rp : Nat) : Class :=
  { localAddr := List.replicate 15 0 ++ [2], remoteAddr := List.replicate 15 0 ++ [1], localPort := lp,
    remotePort := rp, proto := nh, fragment := false, ipHdrLen := 40, fragAny := false }

-- SCTP over IPv6: the model reports 0/0 …
example : (match newPacket (v6other 132) true with | .ok fp => some (toClass fp) | _ => none) = some (v6otherClass 132 0 0) := by
  decide
-- … the strict oracle accepts 0/0 and the oriented first four bytes (0x0304 local, 0x0102 remote), and
-- refuses the ports a reused ParsedPacket held before (0xdead / 0xbeef), which `acceptable` alone lets pass
example : (parse (v6other 132)).map (fun p =>
      (acceptableStrict p true (v6otherClass 132 0 0), acceptableStrict p true (v6otherClass 132 0x0304 0x0102),
       acceptable p true (v6otherClass 132 0xdead 0xbeef), portsFromPacket p true (v6otherClass 132 0xdead 0xbeef),
       portsFromPacket p true (v6otherClass 132 0x0102 0x0304)))
    = some (true, true, true, false, false) := by decide
-- ICMPv6 without an identifier (type 1, destination unreachable): remote port 0 or the word at offset 4, nothing else
example : (parse (v6other 58)).map (fun p =>
      (portsFromPacket p true (v6otherClass 58 0 0), portsFromPacket p true (v6otherClass 58 0 0x0506),
       acceptable p true (v6otherClass 58 0 0xbeef), portsFromPacket p true (v6otherClass 58 0 0xbeef)))
    = some (true, true, true, false) := by decide
-- IPv4 GRE (47), outgoing: the model reports the first four payload bytes, oriented; 0/0 would pass too, stale ports not
example : newPacket ([0x45, 0, 0, 24, 0, 0, 0, 0, 64, 47, 0, 0, 10, 0, 0, 1, 10, 0, 0, 2, 0xaa, 0xbb, 0xcc, 0xdd]) false =
    .ok { localAddr := [10, 0, 0, 1], remoteAddr := [10, 0, 0, 2], localPort := 0xaabb, remotePort := 0xccdd, proto := 47,
          fragment := false, ipHdrLen := 20, fragAny := false } := by decide
def greClass (lp rp : Nat) : Class :=
  { localAddr := [10, 0, 0, 1], remoteAddr := [10, 0, 0, 2], localPort := lp, remotePort := rp,
    proto := 47, fragment := false, ipHdrLen := 20, fragAny := false }
example : (parse ([0x45, 0, 0, 24, 0, 0, 0, 0, 64, 47, 0, 0, 10, 0, 0, 1, 10, 0, 0, 2, 0xaa, 0xbb, 0xcc, 0xdd])).map (fun p =>
      (acceptableStrict p false (greClass 0xaabb 0xccdd), acceptableStrict p false (greClass 0 0),
       acceptableStrict p false (greClass 0xdead 0xbeef)))
    = some (true, true, false) := by decide

end Nebula.Props.C20
