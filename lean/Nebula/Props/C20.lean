import Nebula.Model.PktParse
import Nebula.Spec.IP
namespace Nebula.Props.C20
theorem stub : True := trivial
end Nebula.Props.C20
