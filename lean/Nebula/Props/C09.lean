/-
C09 — Tunnels are bound to the certified overlay address.

"A tunnel that a node uses for overlay address A always comes from a completed handshake whose verified
peer certificate lists A, and the peer addresses recorded for the tunnel are exactly the certificate's
addresses. An initiator never installs a tunnel when a different host answers, and no node ever installs
a tunnel to one of its own addresses."

Stated over the handshake-manager model `Node.step` (Model/HsManager.lean) for ALL histories of events of
one node — lighthouse answers, handshake starts, timer ticks, triggers, received stage-1 / stage-2
messages with ARBITRARY Machine results, inside packets, index draws, tunnel deletions and primary swaps —
and all configurations. The Machine's completed result (`Completed`: verified certificate addresses,
indexes, time) is an input: that it is only produced for an authenticated peer is C05.
-/
import Nebula.Lemmas.HsManagerStep
import Nebula.Lemmas.HsCompose
import Nebula.Lemmas.HsVia
import Nebula.Lemmas.HsNetVia

namespace Nebula.Props.C09
open Nebula.HsManager Nebula.Lemmas.HsManager

/-- Every tunnel listed for address `a` after any history: `a` is one of the tunnel's recorded addresses,
the recorded addresses are exactly the address list of the verified certificate of a completed handshake
result that occurred in the history (so that certificate lists `a`), and none of them is an address of
the node itself. -/
theorem tunnels_bound_to_certified_address (cfg : Cfg) (evs : List Ev) (a : Addr) (h : HostInfo)
    (hm : h ∈ ((Node.init cfg).run evs).main.getList a) :
    a ∈ h.vpnAddrs ∧ (∃ c ∈ comps evs, h.vpnAddrs = c.certAddrs ∧ a ∈ c.certAddrs) ∧
      ∀ x ∈ h.vpnAddrs, x ∉ cfg.myAddrs := by
  have g := (run_good evs (Node.init cfg) [] (Good.empty _)).2
  have := g.1 a h hm
  obtain ⟨ha, hself, c, hc, e⟩ := this
  refine ⟨ha, ⟨c, by simpa using hc, e, e ▸ ha⟩, hself⟩

/-- The same for every tunnel reachable through the local-index table (what the data plane looks up). -/
theorem indexed_tunnels_certified (cfg : Cfg) (evs : List Ev) (k : Nat) (h : HostInfo)
    (hk : alookup k ((Node.init cfg).run evs).main.indexes = some h) :
    (∃ c ∈ comps evs, h.vpnAddrs = c.certAddrs) ∧ ∀ x ∈ h.vpnAddrs, x ∉ cfg.myAddrs := by
  have g := (run_good evs (Node.init cfg) [] (Good.empty _)).2
  obtain ⟨hself, c, hc, e⟩ := g.2 k h hk
  exact ⟨⟨c, by simpa using hc, e⟩, hself⟩

/-- No node ever holds a tunnel for one of its own addresses. -/
theorem no_tunnel_to_own_address (cfg : Cfg) (evs : List Ev) (a : Addr) (ha : a ∈ cfg.myAddrs) :
    ((Node.init cfg).run evs).main.getList a = [] := by
  cases hl : ((Node.init cfg).run evs).main.getList a with
  | nil => rfl
  | cons h t =>
    have hm : h ∈ ((Node.init cfg).run evs).main.getList a := by rw [hl]; simp
    have := tunnels_bound_to_certified_address cfg evs a h hm
    exact absurd ha (this.2.2 a this.1)

/-- Initiator, in any state: when the completed result's certificate does not list the address the
pending handshake was started for (a different host answered), nothing is installed. -/
theorem wrong_responder_installs_nothing (n : Node) (via : UNode) (idx : Nat) (c : Completed)
    (hh : Pending) (hl : (alookup idx n.p.pindexes).bind n.p.pendingById = some hh)
    (hw : hh.vpnAddr ∉ c.certAddrs) :
    (n.continueHandshake via idx (.completed c)).1.main = n.main := by
  unfold Node.continueHandshake
  rw [hl]
  dsimp only
  split
  · rfl
  · split
    · rfl
    · simp [hw]

/-- … and, unless the certificate claims one of the node's own addresses, the answering remote is told to
close, and the handshake for the intended address starts over as a NEW pending entry. -/
theorem wrong_responder_restarts (n : Node) (via : UNode) (idx : Nat) (c : Completed)
    (hh : Pending) (hl : (alookup idx n.p.pindexes).bind n.p.pendingById = some hh) (hr : hh.ready = true)
    (hself : c.certAddrs.any (fun a => n.cfg.myAddrs.contains a) = false)
    (hw : hh.vpnAddr ∉ c.certAddrs) :
    (n.continueHandshake via idx (.completed c)).2.tx = [.close via] := by
  have hs : ¬ ∃ x, x ∈ c.certAddrs ∧ x ∈ n.cfg.myAddrs := by simpa using hself
  unfold Node.continueHandshake
  rw [hl]
  simp [hr, hs, hw]

/-- Both roles, any state: a completed result whose certificate lists one of the node's own addresses
installs nothing and answers nothing. -/
theorem own_address_claim_refused_responder (n : Node) (via : UNode) (pkt : Handle) (c : Completed) (rv now : Nat)
    (hself : c.certAddrs.any (fun a => n.cfg.myAddrs.contains a) = true) :
    (n.beginHandshake via pkt (some c) rv now).1.main = n.main ∧
    (n.beginHandshake via pkt (some c) rv now).2.tx = [] := by
  have hs : ∃ x, x ∈ c.certAddrs ∧ x ∈ n.cfg.myAddrs := by simpa using hself
  unfold Node.beginHandshake
  simp [peerCertOk, hs]

theorem own_address_claim_refused_initiator (n : Node) (via : UNode) (idx : Nat) (c : Completed)
    (hself : c.certAddrs.any (fun a => n.cfg.myAddrs.contains a) = true) :
    (n.continueHandshake via idx (.completed c)).1.main = n.main ∧
    (n.continueHandshake via idx (.completed c)).2.tx = [] := by
  unfold Node.continueHandshake
  split
  · exact ⟨rfl, rfl⟩
  · dsimp only
    split
    · exact ⟨rfl, rfl⟩
    · simp [hself]

/-- What IS installed: when the right host answers, the tunnel's addresses are the certificate's. -/
theorem right_responder_installs_certificate_addresses (n : Node) (via : UNode) (idx : Nat) (c : Completed)
    (hh : Pending) (hl : (alookup idx n.p.pindexes).bind n.p.pendingById = some hh) (hr : hh.ready = true)
    (hself : c.certAddrs.any (fun a => n.cfg.myAddrs.contains a) = false)
    (hw : hh.vpnAddr ∈ c.certAddrs) :
    (n.continueHandshake via idx (.completed c)).1.main = n.main.addHostInfo (initiatorHostInfo hh via c) ∧
    (initiatorHostInfo hh via c).vpnAddrs = c.certAddrs := by
  have hs : ¬ ∃ x, x ∈ c.certAddrs ∧ x ∈ n.cfg.myAddrs := by simpa using hself
  unfold Node.continueHandshake
  rw [hl]
  simp [hr, hs, hw, initiatorHostInfo]

/-- Without a completed Machine result nothing is installed: a Machine error on stage 2 (recoverable or fatal — e.g. the
verifier refusing a certificate that a config reload has just blocklisted, C05) and a stage 1 the Machine rejects
leave the main hostmap untouched. Which certificates the verifier accepts is the Machine's business (C05); the
correspondence stream checks on the real code that it consults the CURRENT trust store (`block` op, class
`c09-complete-with-untrusted-cert`). -/
theorem machine_error_installs_nothing (n : Node) (via : UNode) (idx : Nat) (failed : Bool) :
    (n.continueHandshake via idx (.err failed)).1.main = n.main := by
  unfold Node.continueHandshake
  split
  · rfl
  · split
    · rfl
    · dsimp only
      split <;> rfl

theorem rejected_stage1_installs_nothing (n : Node) (via : UNode) (pkt : Handle) (rv now : Nat) :
    n.beginHandshake via pkt none rv now = (n, {}) := rfl

-- non-vacuity: a concrete history in which a responder installs a tunnel for address 2 of a two-address peer
def cfg0 : Cfg := { node := 0, myAddrs := [1], hasV1 := false, hasV2 := true, retries := 3, interval := 100000000 }
def c0 : Completed := { certAddrs := [2, 5], certVer := 2, remoteIndex := 2001, time := 7 }

example : (((Node.init cfg0).run [.stage1 1 77 (some c0) 2 0]).main.getList 2).map (·.vpnAddrs) = [[2, 5]] := by
  decide

example : (((Node.init cfg0).run [.stage1 1 77 (some c0) 2 0]).main.getList 5).length = 1 := by decide

-- a peer claiming the node's own address 1 installs nothing
example : ((Node.init cfg0).run [.stage1 1 77 (some { c0 with certAddrs := [1, 5] }) 2 0]).main = {} := by decide

-- a node (addresses 1 and 20) dials its OWN address 20 and is answered by a host whose certificate lists 20: nothing
-- is installed (instance of `own_address_claim_refused_initiator` / `no_tunnel_to_own_address`)
def cfgOwn : Cfg := { node := 0, myAddrs := [1, 20], hasV1 := true, hasV2 := true, retries := 5, interval := 100000000 }
example : ((Node.init cfgOwn).run [.lh 20 1, .rehs 20, .tick 0, .tick 100000000, .tick 200000000,
    .stage2 1 1001 (.completed { certAddrs := [5, 20], certVer := 2, remoteIndex := 2001, time := 3 })]).main = {} := by decide

/-! ### Composition with the handshake.Machine model (C05)

Above, the Machine's completed result is an arbitrary input of the `stage1` / `stage2` events. Below it is not an
input any more: the composed system (`Lemmas/HsCompose.lean`) owns Machine-model instances — a fresh responder
Machine per received first message, one Machine per pending handshake — drives them with ARBITRARY packets and
ARBITRARY answers of the noise library, cert.Recombine, the trust check, the index allocator and the clock, and
turns their return values into manager steps the way beginHandshake / continueHandshake do (`glue`, `stage2Res`).
The "verified certificate" hypothesis is discharged by C05's `complete_implies_verified_partial`. -/

section
open Nebula.HsCompose

/-- every completed result the manager ever acts on, in any history of the composed system, is VERIFIED: its
addresses and version are those of a certificate object the trust check returned in a Machine call whose noise
read succeeded and whose recombined certificate carried exactly that read's PeerStatic() -/
theorem manager_installs_only_verified (cfg : Cfg) (info : Machine.CertId → CertInfo) (cevs : List CEv) :
    let s := (Sys.init cfg).run info cevs
    s.node = (Node.init cfg).run s.fed ∧ ∀ c ∈ comps s.fed, Verified info s.mlog c := by
  have h := run_cinv cfg info cevs (Sys.init cfg) (CInv.init cfg info)
  exact ⟨h.node, h.ver⟩

/-- C09 with the hypothesis discharged: after ANY history of the composed system, every tunnel listed for
address `a` has `a` among its recorded addresses, none of them is an own address, and the recorded addresses are
exactly the addresses of a certificate `cert` (which therefore lists `a`) that the trust check accepted in a
Machine call of that history — `e.accepts cert`: the noise read of that call succeeded, the certificate
recombined from its message carried exactly that read's PeerStatic() (`key`), and the verifier returned `cert`
(`accepts_means` of Props/C05 spells it out). What remains assumed is C05's: that PeerStatic() of a successful
flynn/noise IX read belongs to the sender (Noise/crypto oracles; symbolic model `ix_auth_symbolic`). -/
theorem tunnels_bound_to_verified_certificate (cfg : Cfg) (info : Machine.CertId → CertInfo) (cevs : List CEv)
    (a : Addr) (h : HostInfo) (hm : h ∈ ((Sys.init cfg).run info cevs).node.main.getList a) :
    a ∈ h.vpnAddrs ∧ (∀ x ∈ h.vpnAddrs, x ∉ cfg.myAddrs) ∧
    ∃ cert, h.vpnAddrs = (info cert).addrs ∧ a ∈ (info cert).addrs ∧
      ∃ e ∈ ((Sys.init cfg).run info cevs).mlog, e.accepts cert = true ∧ ∃ key, e.peerStatic = some key := by
  obtain ⟨hn, hv⟩ := manager_installs_only_verified cfg info cevs
  rw [hn] at hm
  obtain ⟨ha, ⟨c, hc, he, hac⟩, hself⟩ := tunnels_bound_to_certified_address cfg _ a h hm
  obtain ⟨cert, e1, _, e, hel, hacc, key, hk⟩ := hv c hc
  exact ⟨ha, hself, cert, by rw [he, e1], by rw [← e1]; exact hac, e, hel, hacc, key, hk⟩

/-- … and what such an accepting call looked like (C05's `accepts_means`): a packet call whose noise read
returned PeerStatic() = `ps`, whose recombined certificate has public key `ps`, and whose trust check returned `cert`. -/
theorem accepting_call_shape (e : Machine.Ev) (cert : Machine.CertId) (h : e.accepts cert = true) :
    ∃ len st rd co now wr msg k1 k2 ps ver, e = .pkt len st rd co now wr ∧ rd = .ok msg k1 k2 ps ∧
      co.recombine = some (ps, ver) ∧ co.verify = some cert := by
  cases e with
  | init now wr => simp [Machine.Ev.accepts] at h
  | pkt len st rd co now wr =>
    obtain ⟨msg, k1, k2, ps, ver, h1, h2, h3⟩ := Nebula.Props.C05.accepts_means rd co cert (by simpa [Machine.Ev.accepts] using h)
    exact ⟨len, st, rd, co, now, wr, msg, k1, k2, ps, ver, rfl, h1, h2, h3⟩

/-- no tunnel for an own address, in the composed system too -/
theorem no_tunnel_to_own_address_composed (cfg : Cfg) (info : Machine.CertId → CertInfo) (cevs : List CEv)
    (a : Addr) (ha : a ∈ cfg.myAddrs) : ((Sys.init cfg).run info cevs).node.main.getList a = [] := by
  obtain ⟨hn, _⟩ := manager_installs_only_verified cfg info cevs
  rw [hn]; exact no_tunnel_to_own_address cfg _ a ha

-- non-vacuity: a responder Machine (the honest step of Props/C05's example) accepts certificate "peer" with
-- networks [2, 5]; the composed system installs the tunnel under both addresses
def infoEx : Machine.CertId → CertInfo := fun _ => { addrs := [2, 5], ver := 2, id := 12 }
def callEx : Machine.Ev :=
  .pkt 100 0 (.ok (Nebula.Payload.marshalPayload [] { cert := [1, 2, 3], initiatorIndex := 9, time := 5, certVersion := 2 }) false false [7, 7])
    ⟨some ([7, 7], 2), some "peer"⟩ 11 (.ok true true)
def mcEx : Machine.Cfg := { initiator := false, subtype := 0, msgs := Machine.ixMsgs, haveCred := fun v => v == 2,
                            credVersion := id, alloc := some 7 }

example : ((((Sys.init cfg0).run infoEx [.recv1 1 77 2 0 mcEx 2 callEx]).node.main.getList 5).map (·.vpnAddrs)) = [[2, 5]] := by
  decide
-- the same call with the trust check refusing the certificate installs nothing
example : (((Sys.init cfg0).run infoEx [.recv1 1 77 2 0 mcEx 2
    (.pkt 100 0 (.ok (Nebula.Payload.marshalPayload [] { cert := [1, 2, 3], initiatorIndex := 9, time := 5, certVersion := 2 }) false false [7, 7])
      ⟨some ([7, 7], 2), none⟩ 11 (.ok true true))]).node.main) = {} := by decide

end

/-! ### Remote allow list (lighthouse.remote_allow_list / remote_allow_ranges) and relayed handshake packets

Stated over the extended model (Model/HsManagerVia.lean): `NodeX.beginHandshake` / `NodeX.continueHandshake` are
HandleIncoming + beginHandshake / continueHandshake with the allow list `al` as a PARAMETER (any predicate pair) and the
sender `via` either direct (underlay address) or relayed. -/

/-- HandleIncoming's first check: a sender the main list refuses is dropped before anything is looked at or run. -/
theorem denied_unknown_drops (al : AllowList) (x : NodeX) (u : UNode) (hd : al.unknown u = false)
    (pkt : Handle) (res : Option Completed) (rv now idx : Nat) (res2 : S2Res) :
    x.beginHandshake al (.direct u) pkt res rv now = (x, {}) ∧
    x.continueHandshake al (.direct u) idx res2 = (x, {}) := by
  constructor
  · unfold NodeX.beginHandshake; simp [Via.allowedUnknown, hd]
  · unfold NodeX.continueHandshake; simp [Via.allowedUnknown, hd]

/-- Responder, every state: a first message whose VERIFIED certificate has ANY address for which the list refuses the
sender's underlay address creates no state: main hostmap, pending tables, lighthouse cache, timer wheel, object
allocation, relay bookkeeping untouched; nothing is sent, no packet is made (only the index and the handle the
Machine had already consumed are gone). -/
theorem denied_underlay_installs_nothing_responder (al : AllowList) (x : NodeX) (u : UNode) (pkt : Handle)
    (c : Completed) (rv now : Nat) (hd : al.all c.certAddrs u = false) :
    let r := x.beginHandshake al (.direct u) pkt (some c) rv now
    r.1.n.main = x.n.main ∧ r.1.n.p.vpnIps = x.n.p.vpnIps ∧ r.1.n.p.pindexes = x.n.p.pindexes ∧
    r.1.n.p.lh = x.n.p.lh ∧ r.1.n.p.wheel = x.n.p.wheel ∧ r.1.n.p.nextObj = x.n.p.nextObj ∧
    r.1.relays = x.relays ∧ r.2 = {} := by
  intro r
  have hr : r = x.beginHandshake al (.direct u) pkt (some c) rv now := rfl
  unfold NodeX.beginHandshake at hr
  by_cases h0 : (!Via.allowedUnknown al (.direct u)) = true
  · rw [if_pos h0] at hr
    rw [hr]; exact ⟨rfl, rfl, rfl, rfl, rfl, rfl, rfl, rfl⟩
  · rw [if_neg h0] at hr
    have h1 : (!peerCertOk x.n.cfg c || !Via.allowedAll al c.certAddrs (.direct u)) = true := by
      simp [Via.allowedAll, hd]
    dsimp only at hr
    rw [if_pos h1] at hr
    rw [hr]
    have g := genIndexX_frame x.n.cfg 8 x.n.p
    exact ⟨rfl, g.1, g.2.1, g.2.2.1, g.2.2.2.1, g.2.2.2.2, rfl, rfl⟩

/-- Initiator, every state: a continuation message from an underlay address the list refuses for the DIALLED address
changes nothing at all (it is dropped before the Machine sees it: the pending handshake stays as it was). -/
theorem denied_underlay_installs_nothing_initiator (al : AllowList) (x : NodeX) (u : UNode) (idx : Nat) (res : S2Res)
    (hh : Pending) (hl : (alookup idx x.n.p.pindexes).bind x.n.p.pendingById = some hh)
    (hd : al.all [hh.vpnAddr] u = false) :
    x.continueHandshake al (.direct u) idx res = (x, {}) := by
  unfold NodeX.continueHandshake
  dsimp only
  rw [hl]
  simp [Via.allowedAll, hd]

/-- What the list is asked, responder: the outcome of a first message depends on the allow list ONLY through its
answers to AllowUnknownVpnAddr(sender) and AllowAll(addresses of the VERIFIED certificate, sender) — two lists that
agree on these two questions are indistinguishable, whatever they say about any other address. -/
theorem allowlist_checked_on_certified_addresses (al1 al2 : AllowList) (x : NodeX) (u : UNode) (pkt : Handle)
    (c : Completed) (rv now : Nat)
    (h0 : al1.unknown u = al2.unknown u) (h1 : al1.all c.certAddrs u = al2.all c.certAddrs u) :
    x.beginHandshake al1 (.direct u) pkt (some c) rv now = x.beginHandshake al2 (.direct u) pkt (some c) rv now := by
  unfold NodeX.beginHandshake
  cases hA : al1.unknown u <;> cases hB : al1.all c.certAddrs u <;> rw [hA] at h0 <;> rw [hB] at h1 <;>
    simp only [Via.allowedUnknown, Via.allowedAll, hA, hB, ← h0, ← h1]

/-- What the list is asked, initiator: AllowUnknownVpnAddr(sender) and AllowAll([dialled address], sender) — the
pending hostinfo's address, which for every installed tunnel is one of the verified certificate's addresses
(`initiator_asked_address_is_certified`) but is NOT all of them (`initiator_not_asked_about_other_certificate_addresses`). -/
theorem allowlist_checked_on_dialled_address_initiator (al1 al2 : AllowList) (x : NodeX) (u : UNode) (idx : Nat) (res : S2Res)
    (h0 : al1.unknown u = al2.unknown u)
    (h1 : ∀ hh, (alookup idx x.n.p.pindexes).bind x.n.p.pendingById = some hh → al1.all [hh.vpnAddr] u = al2.all [hh.vpnAddr] u) :
    x.continueHandshake al1 (.direct u) idx res = x.continueHandshake al2 (.direct u) idx res := by
  unfold NodeX.continueHandshake
  dsimp only
  cases hl : (alookup idx x.n.p.pindexes).bind x.n.p.pendingById with
  | none => cases hA : al1.unknown u <;> rw [hA] at h0 <;> simp [Via.allowedUnknown, hA, ← h0]
  | some hh =>
    have h1 := h1 hh hl
    cases hA : al1.unknown u <;> cases hB : al1.all [hh.vpnAddr] u <;> rw [hA] at h0 <;> rw [hB] at h1 <;>
      simp only [Via.allowedUnknown, Via.allowedAll, hA, hB, ← h0, ← h1]

/-- whenever the initiator installs anything, the address the allow list was asked about is one of the certificate's -/
theorem initiator_asked_address_is_certified (al : AllowList) (x : NodeX) (via : Via) (idx : Nat) (c : Completed)
    (hne : (x.continueHandshake al via idx (.completed c)).1.n.main ≠ x.n.main) :
    ∃ hh, (alookup idx x.n.p.pindexes).bind x.n.p.pendingById = some hh ∧ hh.vpnAddr ∈ c.certAddrs ∧
      via.allowedAll al [hh.vpnAddr] = true ∧
      (x.continueHandshake al via idx (.completed c)).1.n.main = x.n.main.addHostInfo (initiatorHostInfoX hh via c) := by
  revert hne
  unfold NodeX.continueHandshake
  dsimp only
  split
  · intro h; exact absurd rfl h
  split
  · intro h; exact absurd rfl h
  rename_i hh hl
  split
  · intro h; exact absurd rfl h
  rename_i hall
  split
  · intro h; exact absurd rfl h
  split
  · intro h; exact absurd rfl h
  split
  · intro h; exact absurd rfl h
  · rename_i hw
    intro _
    refine ⟨hh, hl, ?_, by simpa using hall, ?_⟩
    · simpa using hw
    · cases via <;> rfl


/-- underlay address 1 is refused for overlay address 5 only (a remote_allow_ranges entry for 5) -/
def alDeny5 : AllowList := { base := fun _ => true, inside := fun a u => !(a == 5 && u == 1) }

/-- the state of an initiator that dialled address 2 and has sent its first message -/
def xDial2 : NodeX := (NodeX.init cfg0).run alDeny5 [.base (.lh 2 1), .base (.rehs 2), .base (.tick 0), .base (.tick 100000000), .base (.tick 200000000)]

/-- OBSERVATION (outside C09 — the property says nothing about the allow list; not a finding): the responder's form of
`denied_underlay_installs_nothing` (sender refused for ANY certificate address ⇒ nothing installed) does NOT hold for the
initiator: continueHandshake asks the list about the dialled address before the certificate is known and never again.
Witness: the list refuses underlay 1 for overlay address 5 only; a responder refuses the certificate [2, 5] from
underlay 1, an initiator that dialled 2 installs the tunnel from underlay 1 under both 2 and 5. -/
theorem initiator_not_asked_about_other_certificate_addresses :
    alDeny5.all c0.certAddrs 1 = false ∧
    -- responder: refused
    ((NodeX.init cfg0).beginHandshake alDeny5 (.direct 1) 77 (some c0) 2 0).1.n.main = {} ∧
    -- initiator that dialled 2: the tunnel is installed under BOTH addresses, 5 included
    (((xDial2.continueHandshake alDeny5 (.direct 1) 1001 (.completed c0)).1.n.main.getList 5).map (·.vpnAddrs)) = [[2, 5]] := by
  decide

/-- The binding theorem over ALL histories of the extended node — every base event, direct and relayed first and
continuation messages with arbitrary Machine results, relay set-ups — for EVERY allow list. -/
theorem tunnels_bound_to_certified_address_x (al : AllowList) (cfg : Cfg) (evs : List EvX) (a : Addr) (h : HostInfo)
    (hm : h ∈ ((NodeX.init cfg).run al evs).n.main.getList a) :
    a ∈ h.vpnAddrs ∧ (∃ c ∈ compsX evs, h.vpnAddrs = c.certAddrs ∧ a ∈ c.certAddrs) ∧
      ∀ y ∈ h.vpnAddrs, y ∉ cfg.myAddrs := by
  have g := (runX_good al evs (NodeX.init cfg) [] (Good.empty _)).2
  obtain ⟨ha, hself, c, hc, e⟩ := g.1 a h hm
  exact ⟨ha, ⟨c, by simpa using hc, e, e ▸ ha⟩, hself⟩

theorem no_tunnel_to_own_address_x (al : AllowList) (cfg : Cfg) (evs : List EvX) (a : Addr) (ha : a ∈ cfg.myAddrs) :
    ((NodeX.init cfg).run al evs).n.main.getList a = [] := by
  cases hl : ((NodeX.init cfg).run al evs).n.main.getList a with
  | nil => rfl
  | cons h t =>
    have hm : h ∈ ((NodeX.init cfg).run al evs).n.main.getList a := by rw [hl]; simp
    have := tunnels_bound_to_certified_address_x al cfg evs a h hm
    exact absurd ha (this.2.2 a this.1)

/-- not weaker: with a list that allows the sender, a direct first message is handled exactly as in the base model
(unless it is a duplicate for a tunnel without a remote, which only relayed handshakes create) -/
theorem direct_allowed_stage1_is_base (al : AllowList) (x : NodeX) (u : UNode) (pkt : Handle) (res : Option Completed)
    (rv now : Nat) (h0 : al.unknown u = true) (h1 : ∀ c, res = some c → al.all c.certAddrs u = true)
    (hrem : ∀ b h, h ∈ x.n.main.getList b → h.remote.isSome) :
    x.beginHandshake al (.direct u) pkt res rv now =
      ({ x with n := (x.n.beginHandshake u pkt res rv now).1 }, (x.n.beginHandshake u pkt res rv now).2.toX) := by
  unfold NodeX.beginHandshake Node.beginHandshake
  cases res with
  | none => simp [Via.allowedUnknown, h0, Out.toX]
  | some c =>
    have h1 := h1 c rfl
    simp only [Via.allowedUnknown, Via.allowedAll, h0, h1, prepareResponderX_direct]
    by_cases hok : peerCertOk x.n.cfg c = true
    · simp only [hok]
      generalize hprep : x.n.p.prepareResponder x.n.cfg u pkt c rv = r
      obtain ⟨p, hi, rid⟩ := r
      simp only [Bool.not_true, Bool.or_self, Bool.false_eq_true, ↓reduceIte]
      cases hcac : checkAndComplete x.n.main p.pindexes hi with
      | none => simp [NodeX.sendResponse, Out.toX]
      | some e =>
        cases e with
        | alreadySeen ex =>
          have hex : ex.remote.isSome := by
            unfold checkAndComplete at hcac
            dsimp only at hcac
            split at hcac
            · rename_i e he
              split at he
              · split at he
                · rename_i t ht
                  simp only [Option.some.injEq] at he
                  subst he
                  simp only [Option.some.injEq, CacErr.alreadySeen.injEq] at hcac
                  subst hcac
                  exact hrem _ _ (List.mem_of_find?_eq_some ht)
                · split at he
                  · simp only [Option.some.injEq] at he; subst he; simp at hcac
                  · simp at he
              · simp at he
            · split at hcac
              · simp at hcac
              · split at hcac <;> simp at hcac
          cases hr : ex.remote with
          | none => rw [hr] at hex; simp at hex
          | some ur =>
            cases hp2 : ex.pkt2 with
            | none => simp [hr, hp2, Out.toX]
            | some p2 => simp [hr, hp2, NodeX.sendResponse, Out.toX]
        | existing ex => simp [Out.toX]
        | collision => simp [Out.toX]
    · simp [hok, Out.toX]

theorem direct_allowed_stage2_is_base (al : AllowList) (x : NodeX) (u : UNode) (idx : Nat) (res : S2Res)
    (h0 : al.unknown u = true)
    (h1 : ∀ hh, (alookup idx x.n.p.pindexes).bind x.n.p.pendingById = some hh → al.all [hh.vpnAddr] u = true) :
    x.continueHandshake al (.direct u) idx res =
      ({ x with n := (x.n.continueHandshake u idx res).1 }, (x.n.continueHandshake u idx res).2.toX) := by
  unfold NodeX.continueHandshake Node.continueHandshake
  dsimp only
  cases hl : (alookup idx x.n.p.pindexes).bind x.n.p.pendingById with
  | none => simp [Via.allowedUnknown, h0, Out.toX]
  | some hh =>
    have h1 := h1 hh hl
    simp only [Via.allowedUnknown, Via.allowedAll, h0, h1]
    by_cases hr : hh.ready = true
    · cases res with
      | err failed => cases failed <;> simp [hr, Out.toX]
      | completed c =>
        simp only [hr, initiatorHostInfoX_direct]
        cases hs : (c.certAddrs.any fun a => x.n.cfg.myAddrs.contains a)
        · cases hw : c.certAddrs.contains hh.vpnAddr
          · simp only [Bool.false_eq_true, ↓reduceIte, Bool.not_false, Bool.not_true, Out.toX, List.map_cons, List.map_nil]
          · simp only [Bool.false_eq_true, ↓reduceIte, Bool.not_false, Bool.not_true, Out.toX, List.map_map]
            rfl
        · simp only [Bool.false_eq_true, ↓reduceIte, Bool.not_false, Bool.not_true, Out.toX, List.map_nil]
    · simp [hr, Out.toX]



/-- RELAYED vs DIRECT, responder, every state and every first message: handled through a relay, a first message has
exactly the effect it has when it arrives directly from an allowed underlay address — same pending tables, same
allocations, same stage-2 packet, same CheckAndComplete decision, and if a tunnel is installed it is the SAME tunnel
(identity, certificate addresses, indexes, times, packets) except that its remote is empty and the relay host is
recorded in its relayState; where the direct duplicate of a known first message would set the remote of a tunnel
that has none (SetRemoteIfPreferred), the relayed one leaves the hostmap alone. -/
theorem relayed_handshake_binds_same (al : AllowList) (x : NodeX) (u : UNode) (r : Addr) (ru : UNode) (pa : Addr)
    (pkt : Handle) (c : Completed) (rv now : Nat)
    (h0 : al.unknown u = true) (h1 : al.all c.certAddrs u = true) :
    let d := x.beginHandshake al (.direct u) pkt (some c) rv now
    let y := x.beginHandshake al (.relayed r ru pa) pkt (some c) rv now
    -- same pending tables, same allocation, same packet made
    y.1.n.p.vpnIps = d.1.n.p.vpnIps ∧ y.1.n.p.pindexes = d.1.n.p.pindexes ∧ y.1.n.p.nextObj = d.1.n.p.nextObj ∧
    y.1.n.p.nextH = d.1.n.p.nextH ∧ y.2.made = d.2.made ∧
    -- same decision on the main hostmap
    ((∃ hi, hi.vpnAddrs = c.certAddrs ∧ hi.remote = some u ∧
        d.1.n.main = x.n.main.addHostInfo hi ∧ y.1.n.main = x.n.main.addHostInfo { hi with remote := none } ∧
        d.1.relays = x.relays ∧ y.1.relays = (x.insertRelayTo hi.id r).relays) ∨
     (y.1.n.main = x.n.main ∧ (d.1.n.main = x.n.main ∨ ∃ id, d.1.n.main = x.n.main.setRemote id u))) := by
  intro d y
  have hd : d = x.beginHandshake al (.direct u) pkt (some c) rv now := rfl
  have hy : y = x.beginHandshake al (.relayed r ru pa) pkt (some c) rv now := rfl
  unfold NodeX.beginHandshake at hd hy
  simp only [Via.allowedUnknown, Via.allowedAll, h0, h1] at hd hy
  by_cases hok : peerCertOk x.n.cfg c = true
  · simp only [hok, Bool.not_true, Bool.or_self, Bool.false_eq_true, ↓reduceIte] at hd hy
    have hp := prepareResponderX_relayed x.n.cfg x.n.p u r ru pa pkt c rv
    dsimp only at hp
    generalize hpd : x.n.p.prepareResponderX x.n.cfg (.direct u) pkt c rv = pd at hp hd
    generalize hpy : x.n.p.prepareResponderX x.n.cfg (.relayed r ru pa) pkt c rv = py at hp hy
    obtain ⟨p1, hi1, rid1⟩ := pd
    obtain ⟨p2, hi2, rid2⟩ := py
    obtain ⟨ehi, erid, e1, e2, e3, e4, e5, e6, e7, hrem, hva⟩ := hp
    dsimp only at ehi erid e1 e2 e3 e4 e5 e6 e7 hrem hva hd hy
    subst ehi erid
    rw [e2, checkAndComplete_remote] at hy
    cases hcac : checkAndComplete x.n.main p1.pindexes hi1 with
    | none =>
      rw [hcac] at hd hy
      dsimp only [NodeX.sendResponse] at hd hy
      rw [hd, hy]
      refine ⟨?_, ?_, ?_, ?_, rfl, Or.inl ⟨hi1, hva, hrem, rfl, ?_, rfl, ?_⟩⟩
      · simpa [insertRelayTo_n] using e1
      · simpa [insertRelayTo_n] using e2
      · simpa [insertRelayTo_n] using e3
      · simpa [insertRelayTo_n] using e4
      · simp [insertRelayTo_n]
      · exact insertRelayTo_relays x _ _ r rfl
    | some e =>
      rw [hcac] at hd hy
      dsimp only at hd hy
      cases e with
      | alreadySeen ex =>
        dsimp only at hd hy
        cases hp2 : ex.pkt2 with
        | none =>
          rw [hp2] at hd hy
          rw [hd, hy]
          refine ⟨e1, e2, e3, e4, rfl, Or.inr ⟨rfl, ?_⟩⟩
          cases ex.remote with
          | none => exact Or.inr ⟨_, rfl⟩
          | some _ => exact Or.inl rfl
        | some q =>
          rw [hp2] at hd hy
          rw [hd, hy]
          dsimp only [NodeX.sendResponse]
          refine ⟨by simpa [insertRelayTo_n] using e1, by simpa [insertRelayTo_n] using e2, by simpa [insertRelayTo_n] using e3,
            by simpa [insertRelayTo_n] using e4, rfl, Or.inr ⟨by simp [insertRelayTo_n], ?_⟩⟩
          cases ex.remote with
          | none => exact Or.inr ⟨_, rfl⟩
          | some _ => exact Or.inl rfl
      | existing ex => rw [hd, hy]; exact ⟨e1, e2, e3, e4, rfl, Or.inr ⟨rfl, Or.inl rfl⟩⟩
      | collision => rw [hd, hy]; exact ⟨e1, e2, e3, e4, rfl, Or.inr ⟨rfl, Or.inl rfl⟩⟩
  · simp only [hok] at hd hy
    rw [hd, hy]
    exact ⟨rfl, rfl, rfl, rfl, rfl, Or.inr ⟨rfl, Or.inl rfl⟩⟩



/-- … and the initiator: a stage-2 message through a relay completes, restarts or abandons the pending handshake
exactly as the same message arriving directly; the installed tunnel differs only in the empty remote and the relay
recorded for it. -/
theorem relayed_handshake_binds_same_initiator (al : AllowList) (x : NodeX) (u : UNode) (r : Addr) (ru : UNode) (pa : Addr)
    (idx : Nat) (res : S2Res) (h0 : al.unknown u = true)
    (h1 : ∀ hh, (alookup idx x.n.p.pindexes).bind x.n.p.pendingById = some hh → al.all [hh.vpnAddr] u = true) :
    let d := x.continueHandshake al (.direct u) idx res
    let y := x.continueHandshake al (.relayed r ru pa) idx res
    y.1.n.p.vpnIps = d.1.n.p.vpnIps ∧ y.1.n.p.pindexes = d.1.n.p.pindexes ∧ y.1.n.p.nextObj = d.1.n.p.nextObj ∧
    y.1.n.p.wheel = d.1.n.p.wheel ∧ y.2.flushed = d.2.flushed ∧
    ((∃ hh c, res = .completed c ∧ (alookup idx x.n.p.pindexes).bind x.n.p.pendingById = some hh ∧
        d.1.n.main = x.n.main.addHostInfo (initiatorHostInfoX hh (.direct u) c) ∧
        y.1.n.main = x.n.main.addHostInfo { initiatorHostInfoX hh (.direct u) c with remote := none } ∧
        (initiatorHostInfoX hh (.direct u) c).vpnAddrs = c.certAddrs ∧
        d.1.relays = x.relays ∧ y.1.relays = (x.insertRelayTo hh.id r).relays) ∨
     (y.1.n.main = x.n.main ∧ d.1.n.main = x.n.main)) := by
  intro d y
  have hd : d = x.continueHandshake al (.direct u) idx res := rfl
  have hy : y = x.continueHandshake al (.relayed r ru pa) idx res := rfl
  unfold NodeX.continueHandshake at hd hy
  dsimp only at hd hy
  simp only [Via.allowedUnknown, Via.allowedAll, h0] at hd hy
  cases hl : (alookup idx x.n.p.pindexes).bind x.n.p.pendingById with
  | none =>
    rw [hl] at hd hy
    simp only [Bool.not_true, Bool.false_eq_true, ↓reduceIte] at hd hy
    rw [hd, hy]; exact ⟨rfl, rfl, rfl, rfl, rfl, Or.inr ⟨rfl, rfl⟩⟩
  | some hh =>
    rw [hl] at hd hy
    simp only [h1 hh hl, Bool.not_true, Bool.false_eq_true, ↓reduceIte] at hd hy
    cases hr : hh.ready with
    | false =>
      simp only [hr, Bool.not_false, ↓reduceIte] at hd hy
      rw [hd, hy]; exact ⟨rfl, rfl, rfl, rfl, rfl, Or.inr ⟨rfl, rfl⟩⟩
    | true =>
      simp only [hr, Bool.not_true, Bool.false_eq_true, ↓reduceIte] at hd hy
      cases res with
      | err failed =>
        cases failed <;> simp only [Bool.false_eq_true, ↓reduceIte] at hd hy <;> rw [hd, hy] <;>
          exact ⟨rfl, rfl, rfl, rfl, rfl, Or.inr ⟨rfl, rfl⟩⟩
      | completed c =>
        dsimp only at hd hy
        cases hs : (c.certAddrs.any fun a => x.n.cfg.myAddrs.contains a) with
        | true =>
          simp only [hs, ↓reduceIte, insertRelayTo_n] at hd hy
          rw [hd, hy]; exact ⟨rfl, rfl, rfl, rfl, rfl, Or.inr ⟨by simp [insertRelayTo_n], rfl⟩⟩
        | false =>
          cases hw : c.certAddrs.contains hh.vpnAddr with
          | false =>
            simp only [hs, hw, Bool.false_eq_true, ↓reduceIte, Bool.not_false, insertRelayTo_n] at hd hy
            rw [hd, hy]
            dsimp only
            exact ⟨(startHandshake_lh_irrel _ _ _ _ _ (by rfl) (by rfl) (by rfl) (by rfl)).1, (startHandshake_lh_irrel _ _ _ _ _ (by rfl) (by rfl) (by rfl) (by rfl)).2.1,
              (startHandshake_lh_irrel _ _ _ _ _ (by rfl) (by rfl) (by rfl) (by rfl)).2.2.1, (startHandshake_lh_irrel _ _ _ _ _ (by rfl) (by rfl) (by rfl) (by rfl)).2.2.2,
              rfl, Or.inr ⟨rfl, rfl⟩⟩
          | true =>
            simp only [hs, hw, Bool.false_eq_true, ↓reduceIte, Bool.not_true, insertRelayTo_n] at hd hy
            rw [hd, hy]
            refine ⟨by simp [insertRelayTo_n, PSide.deletePending], by simp [insertRelayTo_n, PSide.deletePending], rfl, rfl, rfl,
              Or.inl ⟨hh, c, rfl, rfl, rfl, by simp [insertRelayTo_n]; rfl, rfl, rfl, rfl⟩⟩






/-- both roles in one statement -/
theorem denied_underlay_installs_nothing (al : AllowList) (x : NodeX) (u : UNode) :
    (∀ pkt c rv now, al.all c.certAddrs u = false →
      let r := x.beginHandshake al (.direct u) pkt (some c) rv now
      r.1.n.main = x.n.main ∧ r.1.n.p.vpnIps = x.n.p.vpnIps ∧ r.1.n.p.pindexes = x.n.p.pindexes ∧ r.1.relays = x.relays ∧ r.2 = {}) ∧
    (∀ idx res hh, (alookup idx x.n.p.pindexes).bind x.n.p.pendingById = some hh → al.all [hh.vpnAddr] u = false →
      x.continueHandshake al (.direct u) idx res = (x, {})) := by
  refine ⟨fun pkt c rv now hd => ?_, fun idx res hh hl hd => denied_underlay_installs_nothing_initiator al x u idx res hh hl hd⟩
  have := denied_underlay_installs_nothing_responder al x u pkt c rv now hd
  exact ⟨this.1, this.2.1, this.2.2.1, this.2.2.2.2.2.2.1, this.2.2.2.2.2.2.2⟩

/-- A handshake message that arrives through a relay never records an underlay address: whatever tunnel it installs
has no remote (both roles), and it never sets the remote of an existing tunnel. -/
theorem relayed_records_no_underlay (al : AllowList) (x : NodeX) (r : Addr) (ru : UNode) (pa : Addr) :
    (∀ pkt res rv now, let y := x.beginHandshake al (.relayed r ru pa) pkt res rv now
      y.1.n.main = x.n.main ∨ ∃ hi, hi.remote = none ∧ y.1.n.main = x.n.main.addHostInfo hi) ∧
    (∀ idx res, let y := x.continueHandshake al (.relayed r ru pa) idx res
      y.1.n.main = x.n.main ∨ ∃ hi, hi.remote = none ∧ y.1.n.main = x.n.main.addHostInfo hi) := by
  constructor
  · intro pkt res rv now
    rcases relayed_stage1_shape al x r ru pa pkt res rv now with h | ⟨hi, c, _, _, hr, hm, _⟩
    · exact Or.inl h.1
    · exact Or.inr ⟨hi, hr, hm⟩
  · intro idx res
    rcases (relayed_stage2_shape al x r ru pa idx res).1 with h | ⟨hh, c, _, _, hm, hr, _⟩
    · exact Or.inl h
    · exact Or.inr ⟨_, hr, hm⟩

/-- Replies to a relayed handshake message go back through THAT relay: the responder's fresh reply and the cached reply
for a duplicate are one SendVia through the relay the message came through (never a direct write), and the relay host
is then in the answered tunnel's relayState; what an initiator sends on completion / wrong responder goes through a
relay too. -/
theorem relayed_reply_goes_via_relay (al : AllowList) (x : NodeX) (r : Addr) (ru : UNode) (pa : Addr) :
    (∀ pkt res rv now, let y := x.beginHandshake al (.relayed r ru pa) pkt res rv now
      y.2.tx = [] ∨ ∃ h id, y.2.tx = [.hsVia h r ru] ∧ r ∈ y.1.relaysOf id) ∧
    (∀ idx res, let y := x.continueHandshake al (.relayed r ru pa) idx res
      ∀ t ∈ y.2.tx, (∃ len r' ru', t = .msgVia len r' ru') ∨ (∃ r' ru', t = .closeVia r' ru')) := by
  constructor
  · intro pkt res rv now
    rcases relayed_stage1_shape al x r ru pa pkt res rv now with ⟨_, h | ⟨ex, h, ht, _, hr, _⟩⟩ | ⟨hi, c, _, _, _, _, ht, hr⟩
    · exact Or.inl h
    · exact Or.inr ⟨h, ex.id, ht, hr⟩
    · exact Or.inr ⟨_, hi.id, ht, hr⟩
  · intro idx res
    exact (relayed_stage2_shape al x r ru pa idx res).2

-- non-vacuity: a relayed first message installs the tunnel without a remote, records the relay, answers through it
example : let y := (NodeX.init cfg0).beginHandshake AllowList.everything (.relayed 9 3 2) 77 (some c0) 2 0
    (y.1.n.main.getList 5).map (fun h => (h.vpnAddrs, h.remote)) = [([2, 5], none)] ∧ y.1.relaysOf 0 = [9] ∧
    y.2.tx = [.hsVia 0 9 3] := by decide
-- the same message directly from underlay 3 records underlay 3 and answers there
example : let y := (NodeX.init cfg0).beginHandshake AllowList.everything (.direct 3) 77 (some c0) 2 0
    (y.1.n.main.getList 5).map (fun h => (h.vpnAddrs, h.remote)) = [([2, 5], some 3)] ∧ y.1.relaysOf 0 = [] ∧
    y.2.tx = [.base (.hs 0 [3])] := by decide
-- non-vacuity of the denial: underlay 1 refused for address 5 → the responder installs nothing; underlay 3 is fine
example : ((NodeX.init cfg0).beginHandshake alDeny5 (.direct 3) 77 (some c0) 2 0).1.n.main ≠ {} := by decide

section
open Nebula.HsNet

/-- The correspondence stream runs the EXTENDED network; where no allow list is configured and every tunnel of the
receiving node has a remote (no relayed handshake happened there), a direct delivery in the extended network IS the
delivery of the base network (Model/HsNet.lean) that C10 / C31 / C32 are stated over. -/
theorem unrestricted_direct_delivery_is_base (nx : NetX) (h : Handle) (src to : Nat) (e : Ext)
    (he : nx.ext[to]? = some e) (hal : e.al = {})
    (hrem : ∀ nd, nx.w.node? to = some nd → ∀ b t, t ∈ nd.main.getList b → t.remote.isSome) :
    (nx.deliverVia h (.direct src) to).map (fun r => (r.1.w, r.2.toOut)) = nx.w.deliverTo h src to := by
  unfold NetX.deliverVia Net.deliverTo NetX.nodeX?
  have hAl : nx.alOf to = AllowCfg.toList {} := by simp [NetX.alOf, he, hal]
  cases hn : nx.w.node? to with
  | none => simp
  | some nd =>
    have hrem' := hrem nd hn
    rw [he]
    cases hp : alookup h nx.w.pkts with
    | none => simp [hp]
    | some ci =>
      obtain ⟨creator, info⟩ := ci
      simp only [hp]
      cases hc : nx.w.node? creator with
      | none => simp
      | some cn =>
        cases info with
        | s1 hh initIdx time ver =>
          dsimp only
          simp only [NodeX.step, hAl]
          rw [direct_allowed_stage1_is_base _ _ _ _ _ _ _ (unrestricted_unknown src)
            (fun c _ => unrestricted_all c.certAddrs src) hrem']
          simp [Node.step, NetX.setNodeX, toOut_toX]
        | s2 hh respIdx initIdx time ver replyTo =>
          dsimp only
          simp only [NodeX.step, hAl]
          rw [direct_allowed_stage2_is_base _ _ _ _ _ (unrestricted_unknown src)
            (fun hh _ => unrestricted_all [hh.vpnAddr] src)]
          simp [Node.step, NetX.setNodeX, toOut_toX]
          constructor <;> congr


end

end Nebula.Props.C09
