/-
C09 — Tunnels are bound to the certified overlay address.

"A tunnel that a node uses for overlay address A always comes from a completed handshake whose verified
peer certificate lists A, and the peer addresses recorded for the tunnel are exactly the certificate's
addresses. An initiator never installs a tunnel when a different host answers, and no node ever installs
a tunnel to one of its own addresses."

Stated over the handshake-manager model `Node.step` (Model/HsManager.lean) for ALL histories of events of
one node — lighthouse answers, handshake starts, timer ticks, triggers, received stage-1 / stage-2
messages with ARBITRARY Machine results, inside packets, index draws, tunnel deletions and primary swaps —
and all configurations. The Machine's completed result (`Completed`: verified certificate addresses,
indexes, time) is an input: that it is only produced for an authenticated peer is C05.
-/
import Nebula.Lemmas.HsManagerStep
import Nebula.Lemmas.HsCompose

namespace Nebula.Props.C09
open Nebula.HsManager Nebula.Lemmas.HsManager

/-- Every tunnel listed for address `a` after any history: `a` is one of the tunnel's recorded addresses,
the recorded addresses are exactly the address list of the verified certificate of a completed handshake
result that occurred in the history (so that certificate lists `a`), and none of them is an address of
the node itself. -/
theorem tunnels_bound_to_certified_address (cfg : Cfg) (evs : List Ev) (a : Addr) (h : HostInfo)
    (hm : h ∈ ((Node.init cfg).run evs).main.getList a) :
    a ∈ h.vpnAddrs ∧ (∃ c ∈ comps evs, h.vpnAddrs = c.certAddrs ∧ a ∈ c.certAddrs) ∧
      ∀ x ∈ h.vpnAddrs, x ∉ cfg.myAddrs := by
  have g := (run_good evs (Node.init cfg) [] (Good.empty _)).2
  have := g.1 a h hm
  obtain ⟨ha, hself, c, hc, e⟩ := this
  refine ⟨ha, ⟨c, by simpa using hc, e, e ▸ ha⟩, hself⟩

/-- The same for every tunnel reachable through the local-index table (what the data plane looks up). -/
theorem indexed_tunnels_certified (cfg : Cfg) (evs : List Ev) (k : Nat) (h : HostInfo)
    (hk : alookup k ((Node.init cfg).run evs).main.indexes = some h) :
    (∃ c ∈ comps evs, h.vpnAddrs = c.certAddrs) ∧ ∀ x ∈ h.vpnAddrs, x ∉ cfg.myAddrs := by
  have g := (run_good evs (Node.init cfg) [] (Good.empty _)).2
  obtain ⟨hself, c, hc, e⟩ := g.2 k h hk
  exact ⟨⟨c, by simpa using hc, e⟩, hself⟩

/-- No node ever holds a tunnel for one of its own addresses. -/
theorem no_tunnel_to_own_address (cfg : Cfg) (evs : List Ev) (a : Addr) (ha : a ∈ cfg.myAddrs) :
    ((Node.init cfg).run evs).main.getList a = [] := by
  cases hl : ((Node.init cfg).run evs).main.getList a with
  | nil => rfl
  | cons h t =>
    have hm : h ∈ ((Node.init cfg).run evs).main.getList a := by rw [hl]; simp
    have := tunnels_bound_to_certified_address cfg evs a h hm
    exact absurd ha (this.2.2 a this.1)

/-- Initiator, in any state: when the completed result's certificate does not list the address the
pending handshake was started for (a different host answered), nothing is installed. -/
theorem wrong_responder_installs_nothing (n : Node) (via : UNode) (idx : Nat) (c : Completed)
    (hh : Pending) (hl : (alookup idx n.p.pindexes).bind n.p.pendingById = some hh)
    (hw : hh.vpnAddr ∉ c.certAddrs) :
    (n.continueHandshake via idx (.completed c)).1.main = n.main := by
  unfold Node.continueHandshake
  rw [hl]
  dsimp only
  split
  · rfl
  · split
    · rfl
    · simp [hw]

/-- … and, unless the certificate claims one of the node's own addresses, the answering remote is told to
close, and the handshake for the intended address starts over as a NEW pending entry. -/
theorem wrong_responder_restarts (n : Node) (via : UNode) (idx : Nat) (c : Completed)
    (hh : Pending) (hl : (alookup idx n.p.pindexes).bind n.p.pendingById = some hh) (hr : hh.ready = true)
    (hself : c.certAddrs.any (fun a => n.cfg.myAddrs.contains a) = false)
    (hw : hh.vpnAddr ∉ c.certAddrs) :
    (n.continueHandshake via idx (.completed c)).2.tx = [.close via] := by
  have hs : ¬ ∃ x, x ∈ c.certAddrs ∧ x ∈ n.cfg.myAddrs := by simpa using hself
  unfold Node.continueHandshake
  rw [hl]
  simp [hr, hs, hw]

/-- Both roles, any state: a completed result whose certificate lists one of the node's own addresses
installs nothing and answers nothing. -/
theorem own_address_claim_refused_responder (n : Node) (via : UNode) (pkt : Handle) (c : Completed) (rv now : Nat)
    (hself : c.certAddrs.any (fun a => n.cfg.myAddrs.contains a) = true) :
    (n.beginHandshake via pkt (some c) rv now).1.main = n.main ∧
    (n.beginHandshake via pkt (some c) rv now).2.tx = [] := by
  have hs : ∃ x, x ∈ c.certAddrs ∧ x ∈ n.cfg.myAddrs := by simpa using hself
  unfold Node.beginHandshake
  simp [peerCertOk, hs]

theorem own_address_claim_refused_initiator (n : Node) (via : UNode) (idx : Nat) (c : Completed)
    (hself : c.certAddrs.any (fun a => n.cfg.myAddrs.contains a) = true) :
    (n.continueHandshake via idx (.completed c)).1.main = n.main ∧
    (n.continueHandshake via idx (.completed c)).2.tx = [] := by
  unfold Node.continueHandshake
  split
  · exact ⟨rfl, rfl⟩
  · dsimp only
    split
    · exact ⟨rfl, rfl⟩
    · simp [hself]

/-- What IS installed: when the right host answers, the tunnel's addresses are the certificate's. -/
theorem right_responder_installs_certificate_addresses (n : Node) (via : UNode) (idx : Nat) (c : Completed)
    (hh : Pending) (hl : (alookup idx n.p.pindexes).bind n.p.pendingById = some hh) (hr : hh.ready = true)
    (hself : c.certAddrs.any (fun a => n.cfg.myAddrs.contains a) = false)
    (hw : hh.vpnAddr ∈ c.certAddrs) :
    (n.continueHandshake via idx (.completed c)).1.main = n.main.addHostInfo (initiatorHostInfo hh via c) ∧
    (initiatorHostInfo hh via c).vpnAddrs = c.certAddrs := by
  have hs : ¬ ∃ x, x ∈ c.certAddrs ∧ x ∈ n.cfg.myAddrs := by simpa using hself
  unfold Node.continueHandshake
  rw [hl]
  simp [hr, hs, hw, initiatorHostInfo]

/-- Without a completed Machine result nothing is installed: a Machine error on stage 2 (recoverable or fatal — e.g. the
verifier refusing a certificate that a config reload has just blocklisted, C05) and a stage 1 the Machine rejects
leave the main hostmap untouched. Which certificates the verifier accepts is the Machine's business (C05); the
correspondence stream checks on the real code that it consults the CURRENT trust store (`block` op, class
`c09-complete-with-untrusted-cert`). -/
theorem machine_error_installs_nothing (n : Node) (via : UNode) (idx : Nat) (failed : Bool) :
    (n.continueHandshake via idx (.err failed)).1.main = n.main := by
  unfold Node.continueHandshake
  split
  · rfl
  · split
    · rfl
    · dsimp only
      split <;> rfl

theorem rejected_stage1_installs_nothing (n : Node) (via : UNode) (pkt : Handle) (rv now : Nat) :
    n.beginHandshake via pkt none rv now = (n, {}) := rfl

-- non-vacuity: a concrete history in which a responder installs a tunnel for address 2 of a two-address peer
def cfg0 : Cfg := { node := 0, myAddrs := [1], hasV1 := false, hasV2 := true, retries := 3, interval := 100000000 }
def c0 : Completed := { certAddrs := [2, 5], certVer := 2, remoteIndex := 2001, time := 7 }

example : (((Node.init cfg0).run [.stage1 1 77 (some c0) 2 0]).main.getList 2).map (·.vpnAddrs) = [[2, 5]] := by
  decide

example : (((Node.init cfg0).run [.stage1 1 77 (some c0) 2 0]).main.getList 5).length = 1 := by decide

-- a peer claiming the node's own address 1 installs nothing
example : ((Node.init cfg0).run [.stage1 1 77 (some { c0 with certAddrs := [1, 5] }) 2 0]).main = {} := by decide

-- a node (addresses 1 and 20) dials its OWN address 20 and is answered by a host whose certificate lists 20: nothing
-- is installed (instance of `own_address_claim_refused_initiator` / `no_tunnel_to_own_address`)
def cfgOwn : Cfg := { node := 0, myAddrs := [1, 20], hasV1 := true, hasV2 := true, retries := 5, interval := 100000000 }
example : ((Node.init cfgOwn).run [.lh 20 1, .rehs 20, .tick 0, .tick 100000000, .tick 200000000,
    .stage2 1 1001 (.completed { certAddrs := [5, 20], certVer := 2, remoteIndex := 2001, time := 3 })]).main = {} := by decide

/-! ### Composition with the handshake.Machine model (C05)

Above, the Machine's completed result is an arbitrary input of the `stage1` / `stage2` events. Below it is not an
input any more: the composed system (`Lemmas/HsCompose.lean`) owns Machine-model instances — a fresh responder
Machine per received first message, one Machine per pending handshake — drives them with ARBITRARY packets and
ARBITRARY answers of the noise library, cert.Recombine, the trust check, the index allocator and the clock, and
turns their return values into manager steps the way beginHandshake / continueHandshake do (`glue`, `stage2Res`).
The "verified certificate" hypothesis is discharged by C05's `complete_implies_verified_partial`. -/

section
open Nebula.HsCompose

/-- every completed result the manager ever acts on, in any history of the composed system, is VERIFIED: its
addresses and version are those of a certificate object the trust check returned in a Machine call whose noise
read succeeded and whose recombined certificate carried exactly that read's PeerStatic() -/
theorem manager_installs_only_verified (cfg : Cfg) (info : Machine.CertId → CertInfo) (cevs : List CEv) :
    let s := (Sys.init cfg).run info cevs
    s.node = (Node.init cfg).run s.fed ∧ ∀ c ∈ comps s.fed, Verified info s.mlog c := by
  have h := run_cinv cfg info cevs (Sys.init cfg) (CInv.init cfg info)
  exact ⟨h.node, h.ver⟩

/-- C09 with the hypothesis discharged: after ANY history of the composed system, every tunnel listed for
address `a` has `a` among its recorded addresses, none of them is an own address, and the recorded addresses are
exactly the addresses of a certificate `cert` (which therefore lists `a`) that the trust check accepted in a
Machine call of that history — `e.accepts cert`: the noise read of that call succeeded, the certificate
recombined from its message carried exactly that read's PeerStatic() (`key`), and the verifier returned `cert`
(`accepts_means` of Props/C05 spells it out). What remains assumed is C05's: that PeerStatic() of a successful
flynn/noise IX read belongs to the sender (Noise/crypto oracles; symbolic model `ix_auth_symbolic`). -/
theorem tunnels_bound_to_verified_certificate (cfg : Cfg) (info : Machine.CertId → CertInfo) (cevs : List CEv)
    (a : Addr) (h : HostInfo) (hm : h ∈ ((Sys.init cfg).run info cevs).node.main.getList a) :
    a ∈ h.vpnAddrs ∧ (∀ x ∈ h.vpnAddrs, x ∉ cfg.myAddrs) ∧
    ∃ cert, h.vpnAddrs = (info cert).addrs ∧ a ∈ (info cert).addrs ∧
      ∃ e ∈ ((Sys.init cfg).run info cevs).mlog, e.accepts cert = true ∧ ∃ key, e.peerStatic = some key := by
  obtain ⟨hn, hv⟩ := manager_installs_only_verified cfg info cevs
  rw [hn] at hm
  obtain ⟨ha, ⟨c, hc, he, hac⟩, hself⟩ := tunnels_bound_to_certified_address cfg _ a h hm
  obtain ⟨cert, e1, _, e, hel, hacc, key, hk⟩ := hv c hc
  exact ⟨ha, hself, cert, by rw [he, e1], by rw [← e1]; exact hac, e, hel, hacc, key, hk⟩

/-- … and what such an accepting call looked like (C05's `accepts_means`): a packet call whose noise read
returned PeerStatic() = `ps`, whose recombined certificate has public key `ps`, and whose trust check returned `cert`. -/
theorem accepting_call_shape (e : Machine.Ev) (cert : Machine.CertId) (h : e.accepts cert = true) :
    ∃ len st rd co now wr msg k1 k2 ps ver, e = .pkt len st rd co now wr ∧ rd = .ok msg k1 k2 ps ∧
      co.recombine = some (ps, ver) ∧ co.verify = some cert := by
  cases e with
  | init now wr => simp [Machine.Ev.accepts] at h
  | pkt len st rd co now wr =>
    obtain ⟨msg, k1, k2, ps, ver, h1, h2, h3⟩ := Nebula.Props.C05.accepts_means rd co cert (by simpa [Machine.Ev.accepts] using h)
    exact ⟨len, st, rd, co, now, wr, msg, k1, k2, ps, ver, rfl, h1, h2, h3⟩

/-- no tunnel for an own address, in the composed system too -/
theorem no_tunnel_to_own_address_composed (cfg : Cfg) (info : Machine.CertId → CertInfo) (cevs : List CEv)
    (a : Addr) (ha : a ∈ cfg.myAddrs) : ((Sys.init cfg).run info cevs).node.main.getList a = [] := by
  obtain ⟨hn, _⟩ := manager_installs_only_verified cfg info cevs
  rw [hn]; exact no_tunnel_to_own_address cfg _ a ha

-- non-vacuity: a responder Machine (the honest step of Props/C05's example) accepts certificate "peer" with
-- networks [2, 5]; the composed system installs the tunnel under both addresses
def infoEx : Machine.CertId → CertInfo := fun _ => { addrs := [2, 5], ver := 2, id := 12 }
def callEx : Machine.Ev :=
  .pkt 100 0 (.ok (Nebula.Payload.marshalPayload [] { cert := [1, 2, 3], initiatorIndex := 9, time := 5, certVersion := 2 }) false false [7, 7])
    ⟨some ([7, 7], 2), some "peer"⟩ 11 (.ok true true)
def mcEx : Machine.Cfg := { initiator := false, subtype := 0, msgs := Machine.ixMsgs, haveCred := fun v => v == 2,
                            credVersion := id, alloc := some 7 }

example : ((((Sys.init cfg0).run infoEx [.recv1 1 77 2 0 mcEx 2 callEx]).node.main.getList 5).map (·.vpnAddrs)) = [[2, 5]] := by
  decide
-- the same call with the trust check refusing the certificate installs nothing
example : (((Sys.init cfg0).run infoEx [.recv1 1 77 2 0 mcEx 2
    (.pkt 100 0 (.ok (Nebula.Payload.marshalPayload [] { cert := [1, 2, 3], initiatorIndex := 9, time := 5, certVersion := 2 }) false false [7, 7])
      ⟨some ([7, 7], 2), none⟩ 11 (.ok true true))]).node.main) = {} := by decide

end

end Nebula.Props.C09
