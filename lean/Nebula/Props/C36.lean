/-
C36 — Unusable underlay addresses are never used.

"No underlay address that lies inside the node's own overlay networks, is denied by the remote allow list
(globally or for the peer's overlay range), or was marked bad after a wrong host answered, is ever used as a
destination for handshakes, punches or data. Each information source contributes at most ten addresses per
peer, and statically configured hosts keep their configured addresses when tunnels close or lighthouses
answer."

Destinations for handshakes / punch-to-all / data roaming are taken from `RemoteList.CopyAddrs/ForEach`
(handshake_manager.go, punchy.go, hostmap.go); destinations of lighthouse-requested punches from
`handleHostPunchNotification`. The theorems cover every way an address gets there:
  reported (query reply / host update)  — `reported_pass_filter_and_cap`
  resolved / static                       — filtered by `shouldAdd` in `unlockedCollect`: `candidates_usable`
  punch notification                      — `punch_targets_usable`            (after the `fix:` commit, F12)
  blocked                                 — `candidates_usable` (never listed)
  learned (handshake / roaming)           — `learned_pass_gate`: the packet path (`learnGate`: readOutsidePackets
      drops non-relayed packets whose source is inside my networks; HandleIncoming / beginHandshake /
      continueHandshake / handleHostRoaming check the allow list before `SetRemote`) hands only usable
      addresses to `SetRemote`; tied by `gate` ops on real nodes and by call-order facts.
  all of it over histories                — `cache_invariant`, `candidates_usable`, `per_source_cap`: induction
      over arbitrary sequences of events (`Ev`: messages, static / DNS / calculated-remote updates, learn /
      roam events, blocks, unblocks, handshake refreshes, tunnel closes, reads).

Standing hypotheses (named, not proved here): (H1) the underlay source address of a packet is unmapped
(`EvWF`; the udp listeners call `Unmap` on every received address); (H2) the remote allow list and my
networks are fixed over a history — reloads of everything else are covered (`reload_keeps_cache_invariant`),
but a reload of `lighthouse.remote_allow_list` / `remote_allow_ranges` does not re-filter entries recorded
earlier (`allowlist_reload_leaves_stale_candidate`, known finding); (H3) the operator's explicit overrides (`Control.SetRemoteForTunnel`, ssh `change-remote`)
are outside the quantifier.

Reading of "each information source … at most ten" (F20): a source is one cache owner × address family
(plus its relay list): `reported_pass_filter_and_cap`. The operator's own `static_host_map` entry is not
capped by the code: all of its (resolved) addresses are candidates — `static_addresses_not_capped` documents
this on 12 addresses; the statement's "information source" is read as a *remote* source.

The allow list is taken as fixed over a history (a reload does not re-filter recorded entries).
-/
import Nebula.Lemmas.LighthouseInv
import Nebula.Props.C35

namespace Nebula.Props.C36
open Nebula.Net Nebula.RemoteList Nebula.Lighthouse Nebula.Lemmas.Lighthouse Nebula.Lemmas.RemoteList
open Nebula.Lemmas.LighthouseInv
open Nebula.Spec.Lighthouse (usable usableGlobal)
open Nebula.Spec.RemoteList (candidates sources)

/-- Every punch a lighthouse message makes this node schedule goes to an address outside my overlay
networks and allowed by the remote allow list for the peer — all messages, all senders, all states. -/
theorem punch_targets_usable (c : Cfg) (s : LH) (from_ : List Addr) (m : Msg) :
    ∀ p ∈ (handleRequest c s from_ m).2.punches, ∀ t, p.target = some t → usable c p.vpn t.addr = true := by
  by_cases h4 : m.typ = typHostPunchNotification
  · have := punch_targets c s from_ (m.details.getD {})
    simp only [handleRequest, h4, typHostQuery, typHostQueryReply, typHostUpdateNotification,
      typHostPunchNotification, Gen.lh_NebulaMeta_HostQuery, Gen.lh_NebulaMeta_HostQueryReply,
      Gen.lh_NebulaMeta_HostUpdateNotification, Gen.lh_NebulaMeta_HostPunchNotification] at this ⊢
    simpa using this
  · intro p hp
    exfalso
    by_cases h1 : m.typ = typHostQuery
    · have := query_keeps_state c s from_ (m.details.getD {})
      simp only [handleRequest, h1, typHostQuery, Gen.lh_NebulaMeta_HostQuery] at this hp
      simp [this.2.1] at hp
    by_cases h3 : m.typ = typHostUpdateNotification
    · have := update_no_punch c s from_ (m.details.getD {})
      simp only [handleRequest, h3, typHostQuery, typHostQueryReply, typHostUpdateNotification,
        Gen.lh_NebulaMeta_HostQuery, Gen.lh_NebulaMeta_HostQueryReply,
        Gen.lh_NebulaMeta_HostUpdateNotification] at this hp
      simp [this.1] at hp
    by_cases h2 : m.typ = typHostQueryReply
    · simp only [handleRequest, h2, typHostQuery, typHostQueryReply, Gen.lh_NebulaMeta_HostQuery,
        Gen.lh_NebulaMeta_HostQueryReply, handleHostQueryReply] at hp
      simp at hp
      split at hp
      · simp at hp
      · split at hp <;> simp at hp
    have := (C35.other_types_ignored c s from_ m h1 h2 h3 h4).2.2.1
    rw [this] at hp; simp at hp

/-- What a query reply / host update leaves under its owner: every reported address passed the filter
(outside my networks, allowed for the peer, IPv4-mapped entries judged as IPv4), and the owner holds at most
`MaxRemotes` (= 10, regenerated) addresses per family and relays. -/
theorem reported_pass_filter_and_cap (c : Cfg) (s : LH) (id : Nat) (owner vpn : Addr) (d : Details) (rl : RL)
    (hg : s.getList id = some rl) :
    ∃ rl' oc, (recordReport c s id owner vpn d).getList id = some rl' ∧ getOwner rl'.cache owner = some oc ∧
      (∀ a ∈ oc.v4r, usable c vpn a.addr = true) ∧ (∀ a ∈ oc.v6r, usable c vpn a.out.addr = true) ∧
      oc.v4r.length ≤ 10 ∧ oc.v6r.length ≤ 10 ∧ oc.relay.length ≤ 10 := by
  obtain ⟨rl', oc, h1, h2, h3, h4, h5, h6, h7⟩ := recordReport_owner c s id owner vpn d rl hg
  exact ⟨rl', oc, h1, h2, h3, h4, by simpa [maxRemotes, Gen.rl_MaxRemotes] using h5,
    by simpa [maxRemotes, Gen.rl_MaxRemotes] using h6, by simpa [maxRemotes, Gen.rl_MaxRemotes] using h7⟩

/-- The learned-address gate: whatever remote the packet path hands to `SetRemote` (responder handshake,
initiator handshake, roaming) came directly (not through a relay), lies outside my overlay networks and is
allowed by the remote allow list for every overlay address of the peer. -/
theorem learned_pass_gate (c : Cfg) (k : LearnKind) (vpns : List Addr) (cur : Option AP) (via : Via)
    (sup : Bool) (r : AP) (h : learnGate c k vpns cur via sup = some r) :
    r = via.udp ∧ via.relayed = false ∧ inMyNets c r.addr = false ∧ c.ral.allowAll vpns r.addr = true :=
  learnGate_usable h

/-- MAIN INVARIANT: after any history of events, starting from the empty cache, in every remote list and
under every owner: every learned and reported address is usable (outside my networks, allowed by the remote
allow list; IPv6 slots read through `Unmap`), each owner holds at most `MaxRemotes` reported addresses per
family and relays, and the cached deduplicated list is dirty or free of unusable / blocked addresses. -/
theorem cache_invariant (c : Cfg) (evs : List Ev) (hwf : ∀ e ∈ evs, EvWF e) :
    Good c (evs.foldl (applyEv c) {}) :=
  good_history evs hwf _ (good_empty c)

/-- FULL: after any history, whatever `CopyAddrs` / `ForEach` / `Len` hand to the handshake manager, punchy
or the roaming code for any remote list (`read` at any time, any preferred ranges) is usable and not
blocked — for every source: lighthouse answers, host updates, static / resolved / calculated entries,
learned addresses. -/
theorem candidates_usable (c : Cfg) (evs : List Ev) (hwf : ∀ e ∈ evs, EvWF e) (id : Nat) (rl : RL)
    (pref : List Prefix) (hg : (evs.foldl (applyEv c) {}).getList id = some rl) :
    ∀ x ∈ (rebuild rl (some (shouldAddAll c)) pref).addrs, usableGlobal c x.addr = true ∧ x ∉ rl.badRemotes :=
  (rebuild_good (good_getList (cache_invariant c evs hwf) hg) pref).2

/-- "Each information source contributes at most ten addresses per peer": every cache owner of every list,
per family, and its relays (MaxRemotes = 10 regenerated from hostmap.go). -/
theorem per_source_cap (c : Cfg) (evs : List Ev) (hwf : ∀ e ∈ evs, EvWF e) (id : Nat) (rl : RL)
    (hg : (evs.foldl (applyEv c) {}).getList id = some rl) :
    ∀ e ∈ rl.cache, e.2.v4r.length ≤ 10 ∧ e.2.v6r.length ≤ 10 ∧ e.2.relay.length ≤ 10 := by
  intro e he
  obtain ⟨_, _, h3, h4, h5⟩ := (good_getList (cache_invariant c evs hwf) hg).1 e he
  simpa [maxRemotes, Gen.rl_MaxRemotes] using And.intro h3 (And.intro h4 h5)

/-- an address allowed for the peer and outside my networks is in particular globally usable. -/
theorem usable_implies_global (c : Cfg) (v u : Addr) (h : usable c v u = true) : usableGlobal c u = true :=
  usable_usableGlobal c v u h

/-- Statically configured hosts keep their entries when a tunnel closes … -/
theorem static_survive_tunnel_close (c : Cfg) (s : LH) (all : List Addr) (a : Addr) (ha : a ∈ all)
    (hs : memB c.staticList a = true) : deleteVpnAddrs c s all = s := by
  have : all.any (fun a => memB c.staticList a) = true := List.any_eq_true.mpr ⟨a, ha, hs⟩
  simp [deleteVpnAddrs, this]

/-- … and when lighthouses (or anyone else) answer: the entry owned by this node itself (where static
addresses live) is never touched by a message, as long as no tunnel is authenticated as my own address. -/
theorem static_survive_messages (c : Cfg) (s : LH) (from_ : List Addr) (m : Msg) (id : Nat) (rl' : RL)
    (hme : c.me ≠ from_.headD ⟨.v4, 0⟩) (h : (handleRequest c s from_ m).1.getList id = some rl') :
    getOwner rl'.cache c.me = ((s.getList id).map (fun rl => getOwner rl.cache c.me)).getD none :=
  C35.records_only_owner c s from_ m id rl' c.me hme h

-- F20 (reading): twelve static addresses of one host are all candidates (the operator's list is not capped),
-- while the `reported` slot keeps ten; an address inside my networks is not among them
example :
    let c : Cfg := { amLighthouse := false, myNets := [⟨⟨.v4, 0x0a800001⟩, 24⟩], lighthouses := [],
                     ral := { allowList := none, inside := none }, initV := 2, staticList := [⟨.v4, 0x0a80000c⟩] }
    let addrs : List AP := (List.range 12).map (fun i => ⟨⟨.v4, 0x46020202⟩, 1000 + i⟩) ++ [⟨⟨.v4, 0x0a800063⟩, 1⟩]
    let s := addStatic c {} ⟨.v4, 0x0a80000c⟩ addrs
    (match s.getList 0 with
     | some rl => (candidates rl (some (shouldAddAll c))).eraseDups.length == 12 &&
         ((getOwner rl.cache c.me).map (·.v4r.length)) == some 10 &&
         (candidates rl (some (shouldAddAll c))).all (fun a => usableGlobal c a.addr)
     | none => false) = true := by
  decide

-- non-vacuity of `punch_targets_usable`: a lighthouse-sent punch notification with one usable and one
-- overlay-internal target schedules only the usable one (plus the punch-back)
example :
    let c : Cfg := { amLighthouse := false, myNets := [⟨⟨.v4, 0x0a800001⟩, 24⟩], lighthouses := [⟨.v4, 0x0a800002⟩],
                     ral := { allowList := none, inside := none }, initV := 2, staticList := [] }
    let d : Details := { oldVpn := 0x0a800014, v4 := [⟨⟨.v4, 0x0a800063⟩, 65535⟩, ⟨⟨.v4, 0x01010101⟩, 4242⟩] }
    (handleRequest c {} [⟨.v4, 0x0a800002⟩] { typ := typHostPunchNotification, details := some d }).2.punches =
      [⟨some ⟨⟨.v4, 0x01010101⟩, 4242⟩, ⟨.v4, 0x0a800014⟩⟩, ⟨none, ⟨.v4, 0x0a800014⟩⟩] := by
  decide


-- non-vacuity of the gate: a packet from inside my networks, or from a denied range, never reaches SetRemote;
-- an ordinary source does, for each path
example :
    let c : Cfg := { amLighthouse := false, myNets := [⟨⟨.v4, 0x0a800001⟩, 24⟩], lighthouses := [],
                     ral := { allowList := some [(⟨⟨.v4, 0⟩, 0⟩, true), (⟨⟨.v4, 0xc0a80000⟩, 16⟩, false), (⟨⟨.v6, 0⟩, 0⟩, true)],
                              inside := none }, initV := 2, staticList := [] }
    let peer : List Addr := [⟨.v4, 0x0a80000a⟩]
    learnGate c .roam peer none ⟨⟨⟨.v4, 0x0a800063⟩, 4242⟩, false⟩ false = none ∧
    learnGate c .stage1 peer none ⟨⟨⟨.v4, 0xc0a80005⟩, 4242⟩, false⟩ false = none ∧
    learnGate c .stage2 peer none ⟨⟨⟨.v4, 0x01010101⟩, 4242⟩, true⟩ false = none ∧
    learnGate c .roam peer (some ⟨⟨.v4, 0x01010101⟩, 4242⟩) ⟨⟨⟨.v4, 0x01010101⟩, 4242⟩, false⟩ false = none ∧
    learnGate c .stage1 peer none ⟨⟨⟨.v4, 0x01010101⟩, 4242⟩, false⟩ false = some ⟨⟨.v4, 0x01010101⟩, 4242⟩ ∧
    learnGate c .roam peer (some ⟨⟨.v4, 0x01010101⟩, 4242⟩) ⟨⟨⟨.v4, 0x08080808⟩, 1⟩, false⟩ false = some ⟨⟨.v4, 0x08080808⟩, 1⟩ := by
  decide


/-- Reloads that do not touch the remote allow lists (lighthouse hosts added / removed / permuted, static map
changes, `am_lighthouse` in the file) keep the cache invariant: `candidates_usable` continues to hold across
them. -/
theorem reload_keeps_cache_invariant (n : Node) (h : Good n.cfg n.lh) (new : RawCfg)
    (hsame : new.g = n.raw.g ∧ new.ranges = n.raw.ranges) :
    Good (reloadNode n new).cfg (reloadNode n new).lh :=
  good_reloadNode h new hsame

/-- H2 cannot be lifted for the code as it is (known finding `addr-stale-after-allowlist-reload`): a reload
that replaces `lighthouse.remote_allow_list` does not re-filter the cache. Witness: a lighthouse answer
recorded 1.1.1.1:4242 for a peer; the reload denies 1.1.1.1/32; the address is still a candidate and is not
usable under the configuration now in force. -/
theorem allowlist_reload_leaves_stale_candidate :
    let l1 : Addr := ⟨.v4, 0x0a800002⟩
    let st : List (Addr × List AP) := [(l1, [⟨⟨.v4, 0x46010102⟩, 4242⟩])]
    let c : Cfg := { amLighthouse := false, myNets := [⟨⟨.v4, 0x0a800001⟩, 24⟩], lighthouses := [l1],
                     ral := { allowList := none, inside := none }, initV := 2, staticList := [l1] }
    let d : Details := { oldVpn := 0x0a80000a, v4 := [⟨⟨.v4, 0x01010101⟩, 4242⟩] }
    let n : Node := { cfg := c, lh := (handleRequest c {} [l1] { typ := typHostQueryReply, details := some d }).1,
                      raw := { hosts := [l1], statics := st } }
    let n' := reloadNode n { hosts := [l1], statics := st,
                             g := some [{ key := some ⟨⟨.v4, 0x01010101⟩, 32⟩, val := some false }] }
    (match n'.lh.getList 0 with
     | some rl => (candidates rl (some (shouldAddAll n'.cfg))).any (fun x => !usableGlobal n'.cfg x.addr)
     | none => false) = true := by
  decide

end Nebula.Props.C36
