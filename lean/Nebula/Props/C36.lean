import Nebula.Model.Lighthouse
import Nebula.Spec.Lighthouse
namespace Nebula.Props.C36
theorem stub : True := trivial
end Nebula.Props.C36
