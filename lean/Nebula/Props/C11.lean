/-
C11 — The replay window accepts each counter exactly once when in range.

"For any sequence of received message counters, a counter is accepted if and only if it has not been
accepted before and it is either above the highest accepted counter or within the window of counters
just below it (with the initial window covering the first counters). A pre-check of a counter predicts
the acceptance outcome without changing any state."

Model: `Model/Bits.lean` (the code of bits.go after the `fix:` commit, `BitVec 64` arithmetic, packed
bitmap). Specification: `Spec/Window.lean` (unbounded naturals, the list of accepted counters).
Every theorem below holds for every window length `2^k`, `k ≤ 63`, every history of `uint64` counters
of any length, with NO hypothesis on the distance of the counters to 2^64 (F01 is repaired).
-/
import Nebula.Lemmas.BitsRefine

namespace Nebula.Props.C11
open Nebula.Bits Nebula.Spec Nebula.Lemmas.Bits

/-- `NewBits(2^k)` succeeds and is the empty specification window (counter 0 taken). -/
theorem newBits_refines (k : Nat) (hk : k ≤ 63) :
    ∃ b, newBits (BitVec.ofNat 64 (2 ^ k)) = some b ∧ R b (2 ^ k) Window.init :=
  newBits_R k hk

/-- One `Update`: the answer is the specification's acceptance rule, and the new bitmap / cursor
again represent the specification state (bitmap invariant preserved). -/
theorem update_refines {b : Bits} {L : Nat} {w : Window.W} (r : R b L w) (i : U64) :
    (update b i).2 = Window.accepts L w i.toNat ∧
    R (update b i).1 L (Window.step L w i.toNat).1 := by
  have h := Lemmas.Bits.update_refines r i
  refine ⟨?_, h.2⟩
  rw [h.1]; unfold Window.step; split <;> simp_all

/-- `Check` predicts `Update`'s answer (and, returning only a `Bool`, changes no state). -/
theorem check_predicts_update {b : Bits} {L : Nat} {w : Window.W} (r : R b L w) (i : U64) :
    check b i = Window.accepts L w i.toNat ∧ check b i = (update b i).2 := by
  have h1 := check_refines r i
  exact ⟨h1, by rw [h1, (update_refines r i).1]⟩

/-- REFINEMENT over whole histories: for every power-of-two length and every counter list, the
answers of the `bits.go` model are exactly the answers of the specification window — i.e. a counter is
accepted iff it was not accepted before and is above the highest accepted counter or within the `L`
counters below it. -/
theorem window_refinement (k : Nat) (hk : k ≤ 63) (cs : List U64) :
    ∃ b, newBits (BitVec.ofNat 64 (2 ^ k)) = some b ∧
      runBits b cs = Window.run (2 ^ k) Window.init (cs.map (·.toNat)) := by
  obtain ⟨b, hb, r⟩ := newBits_R k hk
  exact ⟨b, hb, (run_refines cs r).1⟩

/-- … and at every point of every history the pre-check agrees with the specification. -/
theorem check_refinement (k : Nat) (hk : k ≤ 63) (cs : List U64) (i : U64) :
    ∃ b, newBits (BitVec.ofNat 64 (2 ^ k)) = some b ∧
      check (after b cs) i = Window.accepts (2 ^ k) (afterSpec (2 ^ k) Window.init (cs.map (·.toNat))) i.toNat ∧
      check (after b cs) i = (update (after b cs) i).2 := by
  obtain ⟨b, hb, r⟩ := newBits_R k hk
  have r' := (run_refines cs r).2
  exact ⟨b, hb, (check_predicts_update r' i).1, (check_predicts_update r' i).2⟩

/-- ACCEPT ONCE: once a counter has been accepted, no later `Update` or `Check` of it succeeds,
whatever happens in between. -/
theorem accept_once (k : Nat) (hk : k ≤ 63) (pre mid : List U64) (c : U64) :
    ∃ b, newBits (BitVec.ofNat 64 (2 ^ k)) = some b ∧
      ((update (after b pre) c).2 = true →
        (update (after b (pre ++ c :: mid)) c).2 = false ∧ check (after b (pre ++ c :: mid)) c = false) := by
  obtain ⟨b, hb, r⟩ := newBits_R k hk
  refine ⟨b, hb, ?_⟩
  intro hacc
  have r1 := (run_refines pre r).2
  have r3 := (run_refines (pre ++ c :: mid) r).2
  -- the counter is in the specification's accepted list after `pre ++ [c]`, and stays there
  have hmem : c.toNat ∈ afterSpec (2 ^ k) Window.init ((pre ++ c :: mid).map (·.toNat)) := by
    simp only [List.map_append, List.map_cons, afterSpec, List.foldl_append, List.foldl_cons]
    apply afterSpec_mono
    have h := (update_refines r1 c).1
    rw [hacc] at h
    have hstep : ∀ (w : Window.W) (i : Nat), Window.accepts (2 ^ k) w i = true →
        i ∈ (Window.step (2 ^ k) w i).1 := by
      intro w i ha; unfold Window.step; rw [ha]; simp
    exact hstep _ _ h.symm
  have hrej : Window.accepts (2 ^ k) (afterSpec (2 ^ k) Window.init ((pre ++ c :: mid).map (·.toNat))) c.toNat = false := by
    rw [accepts_eq, List.contains_iff_mem.mpr hmem]; rfl
  exact ⟨by rw [(update_refines r3 c).1, hrej], by rw [(check_predicts_update r3 c).1, hrej]⟩

/-- A fresh counter in range is always accepted: above the highest accepted counter … -/
theorem fresh_above_accepted (k : Nat) (hk : k ≤ 63) (cs : List U64) (i : U64) :
    ∃ b, newBits (BitVec.ofNat 64 (2 ^ k)) = some b ∧
      ((after b cs).current < i → (update (after b cs) i).2 = true) := by
  obtain ⟨b, hb, r⟩ := newBits_R k hk
  refine ⟨b, hb, fun hlt => ?_⟩
  have r' := (run_refines cs r).2
  rw [(update_refines r' i).1, accepts_eq]
  have hlt' := BitVec.lt_def.mp hlt
  have hcur := r'.cur
  have hc : (afterSpec (2 ^ k) Window.init (cs.map (·.toNat))).contains i.toNat = false := by
    rw [Bool.eq_false_iff]; intro hc
    have := le_hi _ _ (List.contains_iff_mem.mp hc); omega
  have hpos := Nat.two_pow_pos k
  rw [hc]; simp; omega

/-- The cursor is always the highest accepted counter (never moves backwards, never wraps). -/
theorem current_is_highest (k : Nat) (hk : k ≤ 63) (cs : List U64) :
    ∃ b, newBits (BitVec.ofNat 64 (2 ^ k)) = some b ∧
      (after b cs).current.toNat = Window.hi (afterSpec (2 ^ k) Window.init (cs.map (·.toNat))) := by
  obtain ⟨b, hb, r⟩ := newBits_R k hk
  exact ⟨b, hb, (run_refines cs r).2.cur⟩

/-- Every bitmap index computed by `get` / `set` / the inlined bit operations is inside `b.bits`
(the Go code cannot panic with an index out of range), in every reachable state. -/
theorem index_in_range (k : Nat) (hk : k ≤ 63) (cs : List U64) (i : U64) :
    ∃ b, newBits (BitVec.ofNat 64 (2 ^ k)) = some b ∧
      ((i &&& (after b cs).lengthMask) >>> 6).toNat < (after b cs).bits.size := by
  obtain ⟨b, hb, r⟩ := newBits_R k hk
  refine ⟨b, hb, ?_⟩
  have wf := (run_refines cs r).2.wf
  rw [toNat_shr6, wf.mask]
  exact word_lt wf.geo (Nat.mod_lt _ wf.geo.pos)

/-- `clearRange` clears exactly the `min count L` ring positions from `startPos` on — word boundaries,
wrap-around of the ring and windows shorter than a word are cases of this proof, not samples. -/
theorem clearRange_exact {b : Bits} {L : Nat} (h : WF b L) (s n : U64) (hs : s.toNat < L) (q : Nat) (hq : q < L) :
    bitAt (clearRange b s n).bits q = (bitAt b.bits q && !decide (InCirc L s.toNat (min n.toNat L) q)) :=
  (clearRange_spec h s n hs).2.2.2.2 q hq

-- F01, the formerly failing inputs, now behave as the specification demands (window of 16 = 2^4):
example : ∃ b, newBits (BitVec.ofNat 64 (2 ^ 4)) = some b ∧
    runBits b [0xfffffffffffffff5#64, 0xfffffffffffffff4#64, 0xfffffffffffffffa#64, 0xfffffffffffffff4#64]
      = [true, true, true, false] := by
  obtain ⟨b, hb, h⟩ := window_refinement 4 (by decide)
    [0xfffffffffffffff5#64, 0xfffffffffffffff4#64, 0xfffffffffffffffa#64, 0xfffffffffffffff4#64]
  exact ⟨b, hb, by rw [h]; decide⟩
example : ∃ b, newBits (BitVec.ofNat 64 (2 ^ 4)) = some b ∧
    runBits b [0xffffffffffffffff#64, 0#64, 0xffffffffffffffff#64] = [true, false, false] := by
  obtain ⟨b, hb, h⟩ := window_refinement 4 (by decide) [0xffffffffffffffff#64, 0#64, 0xffffffffffffffff#64]
  exact ⟨b, hb, by rw [h]; decide⟩
-- non-vacuity of `R`: the initial window of the production length 8192 = 2^13
example : ∃ b, newBits (BitVec.ofNat 64 (2 ^ 13)) = some b ∧ R b (2 ^ 13) Window.init := newBits_R 13 (by decide)

end Nebula.Props.C11
