import Nebula.Model.Bits
import Nebula.Spec.Window

namespace Nebula.Props.C11
open Nebula.Bits Nebula.Spec

theorem placeholder : True := trivial

end Nebula.Props.C11
