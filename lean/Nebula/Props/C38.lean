/-
C38 — Allow lists use longest-prefix semantics with a safe default.

"An allow list answers each address with the value of its most specific matching CIDR, where a family
without an explicit default takes the opposite of its (uniform) configured values, and a list that mixes
allow and deny for a family without a default is refused. Per-overlay-range remote lists apply in addition
to the global one, IPv4-mapped addresses are treated as IPv4, and interface name rules (which must all
share one value) default to the opposite value."

Quantifier: all allow-list maps over IPv4/IPv6/mapped prefixes with mixed values (in every Go map iteration
order: the entry list is an arbitrary list, and the specification is invariant under permutation), all
remote allow ranges and all interface-name rule sets.

The model (`Nebula.AllowList`) follows allow_list.go after the two `fix:` commits (mapped CIDRs, mapped
lookups); `bart.Table` is specified by `Nebula.Net.lpm`.
-/
import Nebula.Lemmas.AllowList

namespace Nebula.Props.C38
open Nebula.Net Nebula.AllowList Nebula.Lemmas.AllowList
open Nebula.Spec.AllowList (Cfg admissible refused consistent implicitDefault matching norm normed ofFam nameAnswer)

/- `entriesOf es` (Lemmas) are the raw map entries of a configuration whose keys parse and whose values are
booleans; `∀ e ∈ es, e.1.WF` says every configured CIDR is a valid `netip.Prefix` (what
`netip.ParsePrefix` returns). -/

/-- A list is accepted exactly when no family mixes allow and deny without a /0 entry — for every order
in which the Go map is iterated (`es` is an arbitrary list). -/
theorem mixed_without_default_refused (es : Cfg) (h : ∀ e ∈ es, e.1.WF) :
    (∃ t, newAllowList (entriesOf es) = .ok t) ↔ refused es = false := by
  obtain ⟨h1, h2⟩ := newAllowList_spec es h
  cases hr : refused es with
  | false => obtain ⟨t, ht, _⟩ := h1 hr; exact ⟨fun _ => rfl, fun _ => ⟨t, ht⟩⟩
  | true =>
    obtain ⟨x, hx⟩ := h2 hr
    constructor
    · rintro ⟨t, ht⟩; rw [hx] at ht; cases ht
    · intro hc; cases hc

/-- the refusal criterion does not depend on the iteration order. -/
theorem refusal_order_independent (es es' : Cfg) (hp : es.Perm es') : refused es = refused es' :=
  refused_perm hp

/-- The answer is the value of a most specific configured CIDR containing the address (IPv4-mapped CIDRs
and addresses taken as IPv4), or the family's implicit default when none contains it. -/
theorem allow_is_lpm_value (es : Cfg) (h : ∀ e ∈ es, e.1.WF) (t : Table Bool)
    (ht : newAllowList (entriesOf es) = .ok t) (a : Addr) (ha : a.WF) :
    admissible es a (allow (some t) a) = true := by
  obtain ⟨h1, h2⟩ := newAllowList_spec es h
  cases hr : refused es with
  | true => obtain ⟨x, hx⟩ := h2 hr; rw [hx] at ht; cases ht
  | false =>
    obtain ⟨t', ht', hF⟩ := h1 hr
    rw [ht] at ht'; cases ht'
    obtain ⟨v, hv, hadm⟩ := final_lookup hF h a ha
    simpa [allow, hv] using hadm

/-- With no two CIDRs denoting one network with different values the admissible answer is unique … -/
theorem answer_unique (es : Cfg) (hc : consistent es) (a : Addr) (b b' : Bool)
    (h : admissible es a b = true) (h' : admissible es a b' = true) : b = b' :=
  admissible_unique hc a b b' h h'

/-- … hence the answers do not depend on the Go map iteration order. -/
theorem allow_order_independent (es es' : Cfg) (hp : es.Perm es') (h : ∀ e ∈ es, e.1.WF) (hc : consistent es)
    (t t' : Table Bool) (ht : newAllowList (entriesOf es) = .ok t) (ht' : newAllowList (entriesOf es') = .ok t')
    (a : Addr) (ha : a.WF) : allow (some t) a = allow (some t') a := by
  have h' : ∀ e ∈ es', e.1.WF := fun e he => h e (hp.mem_iff.mpr he)
  have a1 := allow_is_lpm_value es h t ht a ha
  have a2 := allow_is_lpm_value es' h' t' ht' a ha
  rw [← admissible_perm hp] at a2
  exact admissible_unique hc a _ _ a1 a2

/-- A family without explicit default answers unmatched addresses with the opposite of its values. -/
theorem implicit_default_is_opposite (es : Cfg) (h : ∀ e ∈ es, e.1.WF) (t : Table Bool)
    (ht : newAllowList (entriesOf es) = .ok t) (a : Addr) (ha : a.WF) (hnone : matching es a = []) :
    allow (some t) a = implicitDefault a.unmap.fam es := by
  have := allow_is_lpm_value es h t ht a ha
  simpa [admissible, hnone] using this

/-- the implicit default is the opposite of the family's uniform value, and allow for an empty family. -/
theorem implicitDefault_opposite (f : Fam) (es : Cfg) (v : Bool) (hne : ofFam f es ≠ [])
    (hu : ∀ e ∈ ofFam f es, e.2 = v) : implicitDefault f es = !v := by
  simp only [implicitDefault]
  congr 1
  cases hl : ofFam f es with
  | nil => exact absurd hl hne
  | cons e l =>
    rw [hl] at hu
    cases v with
    | true => rw [List.any_eq_true]; exact ⟨e, by simp, hu e (by simp)⟩
    | false => rw [List.any_eq_false]; intro x hx; simp [hu x hx]

theorem implicitDefault_empty (f : Fam) (es : Cfg) (he : ofFam f es = []) : implicitDefault f es = true := by
  simp [implicitDefault, he]

/-- IPv4-mapped lookup addresses are treated as IPv4. -/
theorem mapped_lookup_as_v4 (al : Option (Table Bool)) (a : Addr) : allow al a = allow al a.unmap := by
  cases al with
  | none => rfl
  | some t => show (lpm t a.unmap).getD false = (lpm t a.unmap.unmap).getD false; rw [unmap_unmap]

/-- IPv4-mapped CIDRs are treated as the IPv4 CIDR they denote. -/
theorem mapped_cidr_as_v4 (es : Cfg) :
    newAllowList (entriesOf es) = newAllowList (entriesOf (normed es)) := by
  unfold newAllowList; rw [loop_normed]

/-- a nil list allows everything. -/
theorem nil_list_allows (a : Addr) : allow none a = true := rfl

/-- Per-overlay-range lists apply in addition to the global one. -/
theorem inside_lists_conjoin (r : Remote) (vpn udp : Addr) :
    r.allow vpn udp = (allow r.allowList udp && allow (r.getInside vpn) udp) := by
  simp only [Remote.allow]
  cases allow (r.getInside vpn) udp <;> cases allow r.allowList udp <;> rfl

theorem allowAll_iff (r : Remote) (vpns : List Addr) (udp : Addr) :
    r.allowAll vpns udp = true ↔ allow r.allowList udp = true ∧ ∀ v ∈ vpns, r.allow v udp = true := by
  simp only [Remote.allowAll, Remote.allow]
  cases hg : allow r.allowList udp with
  | false => simp
  | true =>
    simp only [Bool.not_true, Bool.false_eq_true, if_false, List.all_eq_true, true_and]
    constructor
    · intro h v hv; simp [h v hv]
    · intro h v hv
      have := h v hv
      cases hi : allow (r.getInside v) udp with
      | true => rfl
      | false => simp [hi] at this

/-- The range-specific list used for an overlay address is that of a most specific configured range
containing it (none if no range contains it), for every iteration order of the ranges map. -/
theorem inside_is_most_specific_range (rs : List (Prefix × List Entry)) (hwf : ∀ e ∈ rs, e.1.WF)
    (t : Table (Option (Table Bool))) (ht : rangesLoop [] (rangeEntries rs) = .ok t)
    (g : Option (Table Bool)) (vpn : Addr) :
    let r : Remote := { allowList := g, inside := some t }
    ((∀ e ∈ rs, (norm e.1).contains vpn.unmap = false) → r.getInside vpn = none) ∧
    ((∃ e ∈ rs, (norm e.1).contains vpn.unmap = true) →
      ∃ e ∈ rs, (norm e.1).contains vpn.unmap = true ∧
        (∀ e' ∈ rs, (norm e'.1).contains vpn.unmap = true → (norm e'.1).len ≤ (norm e.1).len) ∧
        ∃ al, newAllowList e.2 = .ok al ∧ r.getInside vpn = some al) := by
  have hinv := rangesLoop_inv rs [] [] ⟨fun x hx => by simp at hx, fun e he => by simp at he⟩ hwf t ht
  simp only [List.nil_append] at hinv
  simp only [norm_eq_unmapPrefix, Remote.getInside]
  constructor
  · intro hnone
    have : lpm t vpn.unmap = none := by
      rw [lpm_none]
      intro x hx
      obtain ⟨e, he, hex, _⟩ := hinv.sound x hx
      rw [← hex]; exact hnone e he
    simp [this]
  · rintro ⟨e0, he0, hc0⟩
    obtain ⟨y, hy, hsy⟩ := hinv.complete e0 he0
    have hyc : y.1.contains vpn.unmap = true := by rw [samePfx_contains hsy]; exact hc0
    cases hl : lpm t vpn.unmap with
    | none => rw [(lpm_none t vpn.unmap).mp hl y hy] at hyc; cases hyc
    | some v =>
      obtain ⟨x, hx, hxv, hxc, hmax⟩ := lpm_some t vpn.unmap v hl
      obtain ⟨e, he, hex, al, hal, hxal⟩ := hinv.sound x hx
      refine ⟨e, he, by rw [hex]; exact hxc, ?_, al, hal, ?_⟩
      · intro e' he' hc'
        obtain ⟨z, hz, hsz⟩ := hinv.complete e' he'
        have hzc : z.1.contains vpn.unmap = true := by rw [samePfx_contains hsz]; exact hc'
        rw [hex, ← samePfx_len hsz]; exact hmax z hz hzc
      · simp only [← hxv, hxal]

/-- Interface-name rules of one value: a matching name gets the value, any other the opposite; no rules
allow; independent of the order of the rules. -/
theorem name_rules_uniform_and_default {Name : Type} (rules : List (NameRule Name)) (v : Bool)
    (hu : ∀ r ∈ rules, r.allow = v) (name : Name) :
    allowName rules name = nameAnswer (rules.map (·.pat)) v name := by
  cases rules with
  | nil => rfl
  | cons r0 rest =>
    simp only [allowName, nameAnswer, List.map_cons, List.isEmpty_cons, Bool.false_eq_true, if_false]
    cases hf : (r0 :: rest).find? (fun r => r.pat name) with
    | some r =>
      have hm := List.mem_of_find?_eq_some hf
      have hp := List.find?_some hf
      have hany : ((r0 :: rest).map (·.pat)).any (fun p => p name) = true := by
        rw [List.any_eq_true]; exact ⟨r.pat, List.mem_map.mpr ⟨r, hm, rfl⟩, hp⟩
      simp only [List.map_cons] at hany
      simp only [hany, if_true, hu r hm]
    | none =>
      have hn := List.find?_eq_none.mp hf
      have hany : ((r0 :: rest).map (·.pat)).any (fun p => p name) = false := by
        rw [List.any_eq_false]
        intro p hp
        obtain ⟨r, hr, hrp⟩ := List.mem_map.mp hp
        rw [← hrp]; simpa using hn r hr
      simp only [List.map_cons] at hany
      simp only [hany, Bool.false_eq_true, if_false, hu r0 (by simp)]

theorem name_answer_order_independent {Name : Type} (ps ps' : List (Name → Bool)) (hp : ps.Perm ps')
    (v : Bool) (name : Name) : nameAnswer ps v name = nameAnswer ps' v name := by
  simp only [nameAnswer, isEmpty_perm hp, any_perm hp]

/-- name rules that do not all share one value are refused (all values valid, all patterns compile). -/
theorem name_rules_mixed_refused (vals : List Bool) :
    namesLoop none (vals.map fun v => (true, some v)) = .ok () ↔ namesUniform vals = true := by
  cases vals with
  | nil => simp [namesLoop, namesUniform]
  | cons v vs =>
    simp only [List.map_cons, namesLoop, Bool.not_true, Bool.false_eq_true, if_false, namesUniform]
    exact namesLoop_some v vs

-- non-vacuity: a concrete mixed configuration with an IPv4-mapped CIDR is accepted and answers as stated;
-- a mixed configuration without default is refused
example :
    (match newAllowList (entriesOf [(⟨⟨.v4, 0⟩, 0⟩, true), (⟨⟨.v4, 0x0a000000⟩, 8⟩, false),
                     (⟨⟨.v6, 0xffff0a2a2a00⟩, 120⟩, true)]) with
     | .ok t => !allow (some t) ⟨.v4, 0x0a000004⟩ && allow (some t) ⟨.v4, 0x0a2a2a2a⟩ &&
         allow (some t) ⟨.v6, 0xffff0a2a2a2a⟩ && allow (some t) ⟨.v4, 0x01010101⟩ &&
         allow (some t) ⟨.v6, 1⟩
     | .error _ => false) = true ∧
    refused [(⟨⟨.v4, 0⟩, 0⟩, true), (⟨⟨.v4, 0x0a000000⟩, 8⟩, false), (⟨⟨.v6, 0xffff0a2a2a00⟩, 120⟩, true)] = false ∧
    refused [(⟨⟨.v4, 0x0a000000⟩, 8⟩, false), (⟨⟨.v4, 0xc0a80000⟩, 16⟩, true)] = true := by
  decide

end Nebula.Props.C38
