import Nebula.Model.AllowList
import Nebula.Spec.AllowList
namespace Nebula.Props.C38
theorem stub : True := trivial
end Nebula.Props.C38
