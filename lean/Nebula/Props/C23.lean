/-
C23 — Receive coalescing is transparent to the tun device. (theorems follow; bootstrap stub)
-/
import Nebula.Model.Coalesce
import Nebula.Spec.KernelGSO

namespace Nebula.Props.C23
open Nebula.Coalesce

example : (dispatchAll true true []).flush = [] := by decide

end Nebula.Props.C23
