/-
C23 — Receive coalescing is transparent to the tun device.

"For any batch of decrypted packets, what reaches the tun device, after segmenting each offloaded
superpacket the way the kernel does, is exactly the batch's packets: none lost, duplicated or altered
beyond fields the kernel rewrites (lengths, checksums, and IPv4 IDs that carry no meaning). Packets of
each flow come out in the sender's transmission order for each tunnel session (pure TCP ACKs may trail
later data), and every offloaded write has the geometry the kernel accepts."

Model: `Nebula.Coalesce` (overlay/batch: MultiCoalescer, TCPCoalescer, UDPCoalescer, Passthrough, after
the F13 `fix:` commit). Spec: `Nebula.Spec.KernelGSO` (reference virtio TSO/USO segmenter `kernelSeg`,
`mask`, `geometryOk`). All theorems hold for every list of staged packets (no bound on sizes, flows,
flags, lengths) whose `(Protocol, IPHdrLen, FragAny)` triple agrees with the packet bytes the way
`newPacket` computes it (`ppConsistent`; checked against the real `newPacket` on every `c` op of the
correspondence stream).
-/
import Nebula.Lemmas.CoalesceGeom
import Nebula.Lemmas.CoalesceOrder
import Nebula.Lemmas.CoalesceSeed
import Nebula.Lemmas.CoalesceMaskInv
import Nebula.Lemmas.CoalescePad
import Nebula.Lemmas.CoalescePanic

namespace Nebula.Props.C23
open Nebula.Coalesce Nebula.Lemmas.Coalesce
open Nebula.Spec.KernelGSO (mask trim flowOf pureAck kernelSeg ppConsistent writeGeometryOk writeSeedOk Flow)

/-- `I_lock`: after replaying any packets into the lanes, `lastSlot` (the cached slot pointer of
`TCPCoalescer`/`UDPCoalescer`) points at a slot that `openSlots` maps its flow key to — the cache is in
lockstep with the map, so the fast path and the map lookup always agree. -/
theorem I_lock (tso uso : Bool) (l : List Staged) (hc : Consistent l) :
    ∀ lane, lane = (dispatchAll tso uso l).tcp ∨ lane = (dispatchAll tso uso l).udp →
      ∀ i, lane.lastSlot = some i → ∃ s, lane.slots[i]? = some s ∧ omLookup lane.openSlots s.fk = some i := by
  have h := (dispatchAll_inv tso uso l hc).1
  intro lane hl
  rcases hl with e | e <;> subst e
  · exact h.tcp.lock
  · exact h.udp.lock

/-- `I_geom`: every coalescing slot of either lane holds between 1 and 64 payload fragments, none empty,
none longer than `gsoSize`, all but the last exactly `gsoSize`, `totalPay` is their total size, and header
plus payload fit in 65535 bytes. -/
theorem I_geom (tso uso : Bool) (l : List Staged) (hc : Consistent l) :
    ∀ s, (s ∈ (dispatchAll tso uso l).tcp.slots ∨ s ∈ (dispatchAll tso uso l).udp.slots) → s.verbatim = false →
      1 ≤ s.numSeg ∧ s.numSeg ≤ 64 ∧ s.payIovs.length = s.numSeg ∧
      (∀ (i : Nat) (x : Bytes), s.payIovs[i]? = some x →
        0 < x.length ∧ x.length ≤ s.gsoSize ∧ (i + 1 < s.payIovs.length → x.length = s.gsoSize)) ∧
      s.totalPay = (s.payIovs.map List.length).sum ∧ s.hdrLen + s.totalPay ≤ 65535 := by
  have h := (dispatchAll_inv tso uso l hc).1
  intro s hs hv
  have geo : ∀ tcp, CoalOK tcp s → _ := fun tcp hk =>
    (⟨by have := hk.numSeg; have : s.ghost.length ≠ 0 := fun e => hk.ne (List.eq_nil_of_length_eq_zero e); omega,
      hk.segs, by rw [hk.npay, hk.numSeg], fun i x hx => pay_len hk hx, hk.total, hk.cap⟩ :
      1 ≤ s.numSeg ∧ s.numSeg ≤ 64 ∧ s.payIovs.length = s.numSeg ∧
      (∀ (i : Nat) (x : Bytes), s.payIovs[i]? = some x →
        0 < x.length ∧ x.length ≤ s.gsoSize ∧ (i + 1 < s.payIovs.length → x.length = s.gsoSize)) ∧
      s.totalPay = (s.payIovs.map List.length).sum ∧ s.hdrLen + s.totalPay ≤ 65535)
  rcases hs with hs | hs
  · exact geo true ((h.tcp.ok s hs).coal hv)
  · exact geo false ((h.udp.ok s hs).coal hv)

/-- `transparent` (UDP and TCP lanes, passthrough, any capability set, ANY dispatch order): segmenting
what `Flush` writes the way the kernel does yields, up to `mask`, a permutation of the staged packets —
nothing lost, duplicated or altered. -/
theorem transparent (tso uso : Bool) (l : List Staged) (hc : Consistent l) :
    (((dispatchAll tso uso l).flush.flatMap kernelSeg).map mask).Perm ((l.map (·.pkt)).map mask) := by
  obtain ⟨hi, hp⟩ := dispatchAll_inv tso uso l hc
  rw [multiFlush_seg hi]
  exact hp.map mask

/-- `transparent` for `Commit`* ; `Flush` as written (sort by `(epoch, counter)`, then replay). -/
theorem transparent_flush (tso uso : Bool) (staged : List Staged) (hc : Consistent staged) :
    (((flushBatch tso uso staged).flatMap kernelSeg).map mask).Perm ((staged.map (·.pkt)).map mask) := by
  have hperm := List.mergeSort_perm staged stagedLe
  have hc' : Consistent (staged.mergeSort stagedLe) := fun sp hsp => hc sp (hperm.mem_iff.mp hsp)
  exact (transparent tso uso _ hc').trans ((hperm.map (·.pkt)).map mask)

/-- Stronger than a permutation: within the lanes the *sequence* of delivered packets is exactly the
sequence of packets held by the slots (slot creation order, arrival order inside a slot). -/
theorem delivered_sequence (tso uso : Bool) (l : List Staged) (hc : Consistent l) :
    ((dispatchAll tso uso l).flush.flatMap kernelSeg).map mask = (multiPkts (dispatchAll tso uso l)).map mask :=
  multiFlush_seg (dispatchAll_inv tso uso l hc).1

/-- `geometry_ok`: every offloaded write has the geometry `tio.Offload.WriteGSO` and the kernel accept
(`Spec.KernelGSO.geometryOk`: ≥ 1 and ≤ 64 non-empty fragments, all but the last of `gso_size` bytes, none
longer, ≤ 65535 bytes in total, plain 20/40-byte IP header whose total/payload length field is the
superpacket's, UDP length field likewise, TCP header length = data offset). -/
theorem geometry_ok (tso uso : Bool) (l : List Staged) (hc : Consistent l) :
    ∀ w ∈ (dispatchAll tso uso l).flush, writeGeometryOk w = true :=
  multiFlush_geometry (dispatchAll_inv tso uso l hc).1

/-- `csum_seed_ok`: in every offloaded write the L4 checksum field holds the one's-complement sum of the
pseudo header for the whole superpacket (`NEEDS_CSUM` seed) — the value from which the kernel completes
each segment's checksum, i.e. the masked checksums are recomputed from a correct starting point. -/
theorem csum_seed_ok (tso uso : Bool) (l : List Staged) (hc : Consistent l) :
    ∀ w ∈ (dispatchAll tso uso l).flush, writeSeedOk w = true :=
  multiFlush_seed (dispatchAll_inv tso uso l hc).1

/-- `flow_order`: the delivered packets are, position by position and up to `mask`, a rearrangement `pk`
of the dispatched packets in which, for every flow `f` (`Spec.KernelGSO.flowOf`: family, addresses,
protocol, ports of a plain TCP/UDP packet), the packets of `f` that are not pure TCP ACKs
(`qf f`) keep exactly their dispatch order. Pure ACKs are the only packets that may move relative to
their flow. -/
theorem flow_order (tso uso : Bool) (l : List Staged) (hc : Consistent l) :
    ∃ pk : List Bytes,
      ((dispatchAll tso uso l).flush.flatMap kernelSeg).map mask = pk.map mask ∧
      pk.Perm (l.map (·.pkt)) ∧
      ∀ f : Flow, pk.filter (qf f) = (l.map (·.pkt)).filter (qf f) :=
  ⟨multiPkts (dispatchAll tso uso l), multiFlush_seg (dispatchAll_inv tso uso l hc).1,
    (dispatchAll_inv tso uso l hc).2, dispatchAll_ord tso uso l hc⟩

/-- `flowOf` / `pureAck` do not look at anything `mask` touches: the flow of a packet and whether it is a
pure ACK are the same before and after masking — so they are the same for an original packet and for the
segment the kernel rebuilds from the superpacket. -/
theorem flow_mask_invariant (p : Bytes) : flowOf (mask p) = flowOf p ∧ pureAck (mask p) = pureAck p :=
  ⟨flowOf_mask p, pureAck_mask p⟩

/-- `flow_order`, stated directly on the delivered segments (the kernel-segmented output): for every flow
`f`, the delivered segments of `f` that are not pure ACKs are — in order, one for one, up to `mask` — the
dispatched packets of `f` that are not pure ACKs. -/
theorem flow_order_delivered (tso uso : Bool) (l : List Staged) (hc : Consistent l) (f : Flow) :
    (((dispatchAll tso uso l).flush.flatMap kernelSeg).filter (qf f)).map mask =
      ((l.map (·.pkt)).filter (qf f)).map mask := by
  rw [filter_qf_of_map_mask_eq f (multiFlush_seg (dispatchAll_inv tso uso l hc).1),
    dispatchAll_ord tso uso l hc f]

/-- `flow_order_delivered` for `Commit`* ; `Flush`: delivery per flow follows ascending `(epoch, counter)`. -/
theorem flow_order_delivered_flush (tso uso : Bool) (staged : List Staged) (hc : Consistent staged) (f : Flow) :
    (((flushBatch tso uso staged).flatMap kernelSeg).filter (qf f)).map mask =
      (((staged.mergeSort stagedLe).map (·.pkt)).filter (qf f)).map mask := by
  have hperm := List.mergeSort_perm staged stagedLe
  exact flow_order_delivered tso uso _ (fun sp hsp => hc sp (hperm.mem_iff.mp hsp)) f

/-- `padding_delivery`: what reaches the tun for a packet whose buffer is longer than its IP-declared
length (and for every other packet). A packet written alone — a verbatim slot or a chain that never grew —
goes out byte for byte, trailing bytes included (the kernel's IP input then ignores them). A packet folded
into a superpacket is delivered as exactly its IP-declared datagram: each delivered segment has the
length `trim` gives (the bytes after the IP length are not carried), and is the original up to `mask`. -/
theorem padding_delivery (tso uso : Bool) (l : List Staged) (hc : Consistent l) (tcp : Bool) (s : Slot)
    (hs : (tcp = true ∧ s ∈ (dispatchAll tso uso l).tcp.slots) ∨ (tcp = false ∧ s ∈ (dispatchAll tso uso l).udp.slots)) :
    ((s.verbatim = true ∨ s.numSeg = 1) → kernelSeg (slotOut tcp s) = s.ghost ∧ s.ghost.length = 1) ∧
    ((s.verbatim = false ∧ s.numSeg ≠ 1) →
      (kernelSeg (slotOut tcp s)).map List.length = s.ghost.map (fun p => (trim p).length) ∧
      (kernelSeg (slotOut tcp s)).map mask = s.ghost.map mask) := by
  have h := (dispatchAll_inv tso uso l hc).1
  have hok : SlotOK tcp s := by
    rcases hs with ⟨e, hm⟩ | ⟨e, hm⟩ <;> subst e
    · exact h.tcp.ok s hm
    · exact h.udp.ok s hm
  exact ⟨slot_alone hok, fun ⟨hv, h1⟩ => ⟨slot_coalesced_lengths hok hv h1, slot_seg hok⟩⟩

/-- `parse_no_panic`: `parseIPAt` / `parseTail` never slice or index out of range — for ANY bytes and ANY
claimed `IPHdrLen` (no `Consistent` needed): the checked parser never returns the panic result. -/
theorem parse_no_panic (tcp : Bool) (pkt : Bytes) (ipHdrLen : Nat) :
    parseAtC tcp pkt ipHdrLen = .ok (parseAt tcp pkt ipHdrLen) :=
  parseAtC_ok tcp pkt ipHdrLen

/-- `no_panic`: a whole `Commit`* ; `Flush` round — parsing, `canAppend` (incl. `ipv4CanCoalesceID`,
`headersMatch`), `appendPayload`, `seed`, every header patch and slice of `flushSlot` — on a coalescer
that may have been used before (any pool contents) never hits a Go slice-bounds / index panic, and the
"nil slot pointer" branch of the model is unreachable: the checked model returns exactly what the
unchecked model returns. Needs `Consistent` only because the lane invariant that keeps `openSlots` /
`lastSlot` pointing at well-formed coalescing slots is established under it; the parse stage
(`parse_no_panic`) is unconditional. -/
theorem no_panic (m : Multi) (hi : Idle m) (staged : List Staged) (hc : Consistent staged) :
    m.roundC staged = .ok (m.round staged) :=
  roundC_ok hi staged hc

/-- `no_stale_bytes`: slot objects are recycled through the free list (`take` / `release`) from one `Flush`
to the next. Starting from a coalescer with nothing staged and ANY pool contents (even objects that were
never reset), for every batch of its life the writes of that batch's `Flush` are made of that batch's
packets only: re-segmented they are, up to `mask`, a permutation of the batch (`transparent`), every
offloaded write has accepted geometry, and per flow the order is the batch's `(epoch, counter)` order. -/
theorem no_stale_bytes (m : Multi) (hi : Idle m) (batches : List (List Staged)) (hc : ∀ b ∈ batches, Consistent b) :
    (m.rounds batches).length = batches.length ∧
    ∀ (k : Nat) (ws : List Wr) (b : List Staged), (m.rounds batches)[k]? = some ws → batches[k]? = some b →
      RoundOK ws b :=
  rounds_spec batches m hi hc

/-- `seed` assigns every field of the slot object it took from the pool, and `release` zeroes it. -/
theorem seed_overwrites_all (blank : Slot) (tcp : Bool) (pkt : Bytes) (info : Parsed) :
    seedSlotFrom blank tcp pkt info = seedSlotFrom {} tcp pkt info ∧ release blank = {} :=
  ⟨rfl, rfl⟩

/-- the dispatch order used by `Flush` is the sender's transmission order: ascending `(epoch, counter)`. -/
theorem dispatch_sorted (staged : List Staged) :
    (staged.mergeSort stagedLe).Pairwise (fun a b => stagedLe a b = true) := by
  apply List.pairwise_mergeSort
  · intro a b c h1 h2
    simp only [stagedLe, decide_eq_true_eq] at h1 h2 ⊢
    omega
  · intro a b
    simp only [stagedLe, Bool.or_eq_true, decide_eq_true_eq]
    omega

/-- `flow_order` for `Commit`* ; `Flush`: per flow, delivery follows ascending `(epoch, counter)`, i.e.
counter order within each tunnel session, the older session first. -/
theorem flow_order_flush (tso uso : Bool) (staged : List Staged) (hc : Consistent staged) :
    ∃ pk : List Bytes,
      ((flushBatch tso uso staged).flatMap kernelSeg).map mask = pk.map mask ∧
      pk.Perm (staged.map (·.pkt)) ∧
      ∀ f : Flow, pk.filter (qf f) = ((staged.mergeSort stagedLe).map (·.pkt)).filter (qf f) := by
  have hperm := List.mergeSort_perm staged stagedLe
  have hc' : Consistent (staged.mergeSort stagedLe) := fun sp hsp => hc sp (hperm.mem_iff.mp hsp)
  obtain ⟨pk, h1, h2, h3⟩ := flow_order tso uso _ hc'
  exact ⟨pk, h1, h2.trans (hperm.map (·.pkt)), h3⟩

-- non-vacuity: a consistent two-datagram UDP batch that is actually coalesced into one superpacket
example : Consistent exBatch := by
  intro sp hsp
  simp only [exBatch, List.mem_cons, List.not_mem_nil, or_false] at hsp
  rcases hsp with rfl | rfl <;> decide
example : ((dispatchAll true true exBatch).flush).length = 1 := by decide
example : (((dispatchAll true true exBatch).flush.flatMap kernelSeg).map mask) = [mask udpA, mask udpB] := by
  decide

example : qf { isV6 := false, src := [10,0,0,1], dst := [10,0,0,2], proto := 17, sport := 5000, dport := 6000 } udpA = true := by
  decide

-- non-vacuity: an idle coalescer whose pools hold a non-zeroed slot object
example : Idle { tcp := { pool := [{ numSeg := 7, payIovs := [[1, 2, 3]], rawPkt := [9, 9] }] } } := by
  constructor <;> rfl

end Nebula.Props.C23
