/-
C46 — CPU pinning choices are valid and stable.

"The default pin list contains only allowed CPUs, has no duplicates, contains every candidate of the chosen
NUMA node (or all candidates when none is large enough), lists CPU 0's physical core last with CPU 0 itself
at the very end, and is the same for the same instance key and topology. CPU list parsing accepts exactly the
kernel's cpulist syntax."  — for all candidate sets, performance filters, NUMA/SMT topologies and keys; all
cpulist strings (reading: the syntax *as the kernel prints it*; differences on other strings are measured
and documented — F15).
-/
import Nebula.Lemmas.Cpupick
import Nebula.Lemmas.CpupickParse

namespace Nebula.Props.C46
open Nebula.Cpupick Nebula.Lemmas.Cpupick Nebula.Lemmas.CpupickParse
open Nebula.Spec.Cpupick (printList expand)

/-- `pickCandidates` returns the allowed set or the performance subset, the latter only when it has a CPU
for every routine; with `perf ⊆ allowed` (how `perfCPUs` builds it) the result is inside the allowed set. -/
theorem candidates_allowed (allowed perf : List Int) (routines : Int) (hsub : ∀ c ∈ perf, c ∈ allowed) :
    (∀ c ∈ pickCandidates allowed perf routines, c ∈ allowed) ∧
    (pickCandidates allowed perf routines = perf ∧ (perf.length : Int) ≥ routines ∨
     pickCandidates allowed perf routines = allowed ∧ (perf.length : Int) < routines) := by
  unfold pickCandidates
  split
  · rename_i h; exact ⟨fun c hc => hc, Or.inr ⟨rfl, h⟩⟩
  · rename_i h; exact ⟨hsub, Or.inl ⟨rfl, by omega⟩⟩

/-- The node confinement: either every node has fewer candidates than routines and all candidates stay, or
the candidates of one node that has at least `routines` of them are chosen. -/
theorem chosen_node (cands : List Int) (t : Topology) (routines : Int) (h : Nat) :
    (confine cands (mapGet t.nodeOf) routines h = cands ∧
      ∀ n, (∃ c ∈ cands, mapGet t.nodeOf c = n) →
        ((cands.filter (fun c => mapGet t.nodeOf c == n)).length : Int) < routines) ∨
    (∃ n, confine cands (mapGet t.nodeOf) routines h = cands.filter (fun c => mapGet t.nodeOf c == n) ∧
      (∃ c ∈ cands, mapGet t.nodeOf c = n) ∧
      ((cands.filter (fun c => mapGet t.nodeOf c == n)).length : Int) ≥ routines) :=
  confine_cases cands (mapGet t.nodeOf) routines h

/-- The pin list is a permutation of the chosen set: it contains every candidate of the chosen node (or all
candidates) and nothing else — for every topology, routine count and hash. -/
theorem perm_of_chosen (cands : List Int) (t : Topology) (routines : Int) (h : Nat) (hn : cands.Nodup) :
    List.Perm (arrange cands t routines h) (confine cands (mapGet t.nodeOf) routines h) := by
  apply arrange_perm
  rcases confine_cases cands (mapGet t.nodeOf) routines h with ⟨e, _⟩ | ⟨n, e, _⟩
  · rw [e]; exact hn
  · rw [e]; exact hn.sublist List.filter_sublist

/-- Only allowed CPUs. -/
theorem subset_allowed (cands : List Int) (t : Topology) (routines : Int) (h : Nat) (hn : cands.Nodup) :
    ∀ c ∈ arrange cands t routines h, c ∈ cands := by
  intro c hc
  have hm := (perm_of_chosen cands t routines h hn).subset hc
  rcases confine_cases cands (mapGet t.nodeOf) routines h with ⟨e, _⟩ | ⟨n, e, _⟩
  · rw [e] at hm; exact hm
  · rw [e] at hm; exact (List.mem_filter.mp hm).1

/-- No duplicates. -/
theorem nodup (cands : List Int) (t : Topology) (routines : Int) (h : Nat) (hn : cands.Nodup) :
    (arrange cands t routines h).Nodup := by
  have hp := perm_of_chosen cands t routines h hn
  rw [hp.nodup_iff]
  rcases confine_cases cands (mapGet t.nodeOf) routines h with ⟨e, _⟩ | ⟨n, e, _⟩
  · rw [e]; exact hn
  · rw [e]; exact hn.sublist List.filter_sublist

/-- CPU 0's physical core last, CPU 0 at the very end: the list is `front ++ siblings ++ zero` where no CPU
of `front` is CPU 0 or on CPU 0's core, every CPU of `siblings` is a non-zero CPU on CPU 0's core, and `zero`
is `[0]` or empty. -/
theorem zero_core_last (cands : List Int) (t : Topology) (routines : Int) (h : Nat) :
    ∃ front sib zero, arrange cands t routines h = front ++ sib ++ zero ∧
      (∀ c ∈ front, c ≠ 0 ∧ onZeroCore t c = false) ∧ (∀ c ∈ sib, c ≠ 0 ∧ onZeroCore t c = true) ∧
      (zero = [0] ∨ zero = []) := by
  unfold arrange
  simp only
  generalize confine cands (mapGet t.nodeOf) routines h = ch
  have hsib : ∀ c ∈ ch.filter (onZeroCore t), c ≠ 0 ∧ onZeroCore t c = true := by
    intro c hc
    have := (List.mem_filter.mp hc).2
    refine ⟨?_, this⟩
    intro e; subst e; simp [onZeroCore] at this
  have hz : (if ch.contains 0 then [(0 : Int)] else []) = [0] ∨ (if ch.contains 0 then [(0 : Int)] else []) = [] := by
    split <;> simp
  split
  · exact ⟨[], _, _, by simp, by simp, hsib, hz⟩
  · rw [← List.append_assoc]
    refine ⟨_, _, _, rfl, ?_, hsib, hz⟩
    intro c hc
    have hm := ((smtPass_perm _ _ _).trans (rotate_perm _ _)).subset hc
    have := (List.mem_filter.mp hm).2
    simp only [Bool.and_eq_true, bne_iff_ne, ne_eq, Bool.not_eq_true'] at this
    exact this

/-- Stable: the list is a function of the candidate set, the topology, the routine count and the instance
key (through `splitmix64`, translated from the source) — nothing else enters. -/
theorem same_inputs_same_list (allowed perf : List Int) (t : Topology) (routines : Int) (key : Nat)
    (allowed' perf' : List Int) (t' : Topology) (routines' : Int) (key' : Nat)
    (h1 : allowed = allowed') (h2 : perf = perf') (h3 : t.nodeOf = t'.nodeOf ∧ t.coreOf = t'.coreOf ∧ t.zeroCore = t'.zeroCore)
    (h4 : routines = routines') (h5 : key = key') :
    arrange (pickCandidates allowed perf routines) t routines (splitmix64 key) =
      arrange (pickCandidates allowed' perf' routines') t' routines' (splitmix64 key') := by
  subst h1 h2 h4 h5
  obtain ⟨a, b, c⟩ := h3
  cases t; cases t'; simp only at a b c; subst a b c; rfl

/-- CPU list parsing reads back exactly what the kernel prints: for every list of items `N` / `N-M`
(`N ≤ M`, a range of at most 8193 CPUs, numbers inside `int`), joined by commas the way `%*pbl` prints them,
`parseCPUList` succeeds and returns precisely the CPUs named, in order; the empty mask prints as the empty
string and parses to the empty list. -/
theorem parse_printed (rs : List (Nat × Nat)) (hv : ∀ r ∈ rs, ValidItem r) :
    parseCPUList (printList rs) = some (expand rs) := by
  cases rs with
  | nil => rfl
  | cons r rest =>
    have hne : (printList (r :: rest)).isEmpty = false := by
      obtain ⟨_, ⟨d, rs', e1, _⟩, _⟩ := printItem_shape r
      cases rest with
      | nil => simp only [printList, e1]; rfl
      | cons r2 rest2 => simp only [printList, e1]; rfl
    unfold parseCPUList
    rw [hne]
    simp only [Bool.false_eq_true, if_false]
    exact parseParts_printList (r :: rest) (by simp) hv

/-- `parse_grammar`, rejection side: an item that is not `N` or `N-M` — anything `strconv.Atoi` refuses on
either side of the first dash (empty, letters, stride suffixes such as `31:2/4`, inner spaces) — a descending
range, or a range wider than 8193 CPUs makes the whole list an error. -/
theorem parse_rejects (s : List Nat) (p : List Nat) (hp : p ∈ splitOn 0x2c s) (hs : s.isEmpty = false)
    (hne : (trimSpace p).isEmpty = false) (hbad : parsePart (trimSpace p) = none) :
    parseCPUList s = none := by
  unfold parseCPUList
  rw [hs]
  simp only [Bool.false_eq_true, if_false]
  generalize splitOn 0x2c s = parts at hp
  induction parts with
  | nil => simp at hp
  | cons q rest ih =>
    unfold parseParts
    simp only
    rw [List.mem_cons] at hp
    cases hp with
    | inl e =>
      subst e
      simp [hne, hbad]
    | inr hm =>
      have := ih hm
      split
      · exact this
      · split
        · rfl
        · rw [this]

-- non-vacuity
example : printList [(0, 7), (16, 23)] = [0x30, 0x2d, 0x37, 0x2c, 0x31, 0x36, 0x2d, 0x32, 0x33] := by
  simp [printList, Nebula.Spec.Cpupick.printItem, Nebula.Spec.Cpupick.printNum]
example : parseCPUList (printList [(0, 7), (16, 23)]) = some (expand [(0, 7), (16, 23)]) :=
  parse_printed _ (by intro r hr; simp at hr; rcases hr with rfl | rfl <;> (unfold ValidItem; simp))
example : expand [(0, 7), (16, 23)] = [0, 1, 2, 3, 4, 5, 6, 7, 16, 17, 18, 19, 20, 21, 22, 23] := by decide
example : ValidItem (0, 7) ∧ ValidItem (16, 23) := by unfold ValidItem; omega
-- F15, the measured difference on strings the kernel never prints: `+1-+3` and `0--0` are accepted,
-- the stride group `0-31:2/4` and a space-separated list are rejected
example : parseCPUList [0x2b, 0x31, 0x2d, 0x2b, 0x33] = some [1, 2, 3] := by decide
example : parseCPUList [0x30, 0x2d, 0x2d, 0x30] = some [0] := by decide
example : parseCPUList [0x30, 0x2d, 0x33, 0x31, 0x3a, 0x32, 0x2f, 0x34] = none := by decide
example : parseCPUList [0x30, 0x20, 0x33] = none := by decide
-- arrange on a two-node SMT machine: 8 CPUs, nodes {0..3} and {4..7}, siblings (0,1) (2,3) (4,5) (6,7)
example : arrange [0, 1, 2, 3, 4, 5, 6, 7]
    { nodeOf := [(0,0),(1,0),(2,0),(3,0),(4,1),(5,1),(6,1),(7,1)],
      coreOf := [(0,0),(1,0),(2,1),(3,1),(4,2),(5,2),(6,3),(7,3)], zeroCore := 0 } 2 0 = [2, 3, 1, 0] := by decide

end Nebula.Props.C46
