/-
C40 — Multipath routing is deterministic and weight-proportional.

"With several gateways for an unsafe route, every packet of a flow goes to the same gateway, the gateways'
shares of the flow hash space are proportional to their weights (up to rounding), the shares cover the
whole space without gaps or overlaps, and the choice does not change when only unrelated packet fields
change."  — for all gateway lists (weights 1..2^31-1) and all port pairs.

The theorems are about the code *after* the repair of F05 (`fix: compute multipath bucket bounds in 128
bits …`): `scaleAndRound` on `math/bits` double words.  The only size assumption left is that the `int`
sum of the weights does not wrap, i.e. fewer than 2^32 gateways (a 2^32-element `[]Gateway` is > 160 GiB).
-/
import Nebula.Lemmas.Routing
import Nebula.Lemmas.RoutingTie

namespace Nebula.Props.C40
open Nebula.Routing Nebula.Spec.Routing Nebula.Lemmas.Routing

/-- The 128-bit scaled division is exact: for `0 < total < 2^64` and `w ≤ total` it neither panics nor
wraps and returns the integer nearest to `w·2^31 / total` (ties upwards). -/
theorem scaleAndRound_nearest (w total : Nat) (h0 : 0 < total) (h64 : total < 2 ^ 64) (hw : w ≤ total) :
    ∃ q, scaleAndRound w total = some q ∧ IsNearest q (w * 2 ^ 31) total := by
  refine ⟨_, scaleAndRound_exact w total h0 h64 hw, ?_⟩
  rw [nearest_eq _ _ h0]
  exact nearest_isNearest _ _ h0

/-- Tie to the source: `scaleAndRound` as regenerated from routing/gateway.go (bits.Mul64 / Add64 / Div64 as 128-bit
`BitVec` arithmetic) returns exactly what the hand model returns, for every total weight below 2^64 and every
running weight up to the total (where `bits.Div64` cannot panic). An arithmetic edit of the Go function — a
64-bit shortcut, a dropped carry — changes the regenerated definition and this theorem no longer checks. -/
theorem scaleAndRound_is_translated (w total : Nat) (h0 : 0 < total) (h64 : total < 2 ^ 64) (hw : w ≤ total) :
    scaleAndRound w total = some (Gen.routing_scaleAndRound (BitVec.ofNat 64 w) (BitVec.ofNat 64 total)).toNat := by
  rw [Nebula.Lemmas.RoutingTie.scale_eq w total h0 h64 hw]
  exact scaleAndRound_exact w total h0 h64 hw

/-- The property's gateway lists: non-empty, weights `1 .. 2^31-1`, and a length a Go slice of gateways
can have in memory. -/
def Valid (gs : List Gateway) : Prop :=
  gs ≠ [] ∧ (∀ g ∈ gs, 1 ≤ g.weight ∧ g.weight ≤ 2 ^ 31 - 1) ∧ gs.length ≤ 2 ^ 32

theorem valid_total (gs : List Gateway) (h : Valid gs) :
    0 < (gs.map natW).sum ∧ (gs.map natW).sum < 2 ^ 63 := by
  obtain ⟨hne, hw, hl⟩ := h
  constructor
  · cases gs with
    | nil => exact absurd rfl hne
    | cons g rest =>
      have := hw g List.mem_cons_self
      simp only [List.map_cons, List.sum_cons, natW]; omega
  · have := sum_le_of_bounded (gs.map natW) (2 ^ 31 - 1) (by
      intro w hwm
      obtain ⟨g, hg, rfl⟩ := List.mem_map.mp hwm
      have := hw g hg
      unfold natW; omega)
    simp only [List.length_map] at this
    have h2 : gs.length * (2 ^ 31 - 1) ≤ 2 ^ 32 * (2 ^ 31 - 1) := Nat.mul_le_mul_right _ hl
    omega

/-- `CalculateBucketsForGateways` on every valid list: no panic, addresses and weights untouched, and the
bucket bounds are exactly the specification's nearest-integer bounds (no wrap-around anywhere). -/
theorem calculate_eq_spec (gs : List Gateway) (h : Valid gs) :
    ∃ out, calculateBuckets gs = some out ∧ out.map (·.addr) = gs.map (·.addr) ∧
      out.map (·.weight) = gs.map (·.weight) ∧ out.map (·.bound) = bounds (gs.map natW) := by
  obtain ⟨h0, h63⟩ := valid_total gs h
  have hw : ∀ g ∈ gs, 0 ≤ g.weight := fun g hg => by have := h.2.1 g hg; omega
  have ht : totalWeight gs = (((gs.map natW).sum : Nat) : Int) := by
    have := totalWeight_eq gs 0 hw (by omega)
    simpa [totalWeight] using this
  have hl : (boundsFrom 0 (gs.map natW).sum (gs.map natW)).length = gs.length := by
    rw [boundsFrom_length]; simp
  refine ⟨setBounds gs (boundsFrom 0 (gs.map natW).sum (gs.map natW)), ?_, (map_addr_setBounds _ _ hl).1,
    (map_addr_setBounds _ _ hl).2, ?_⟩
  · unfold calculateBuckets
    rw [ht]
    exact calcLoop_spec gs 0 _ h0 h63 hw (by omega)
  · rw [map_bound_setBounds _ _ hl]; rfl

/-- No overlap: the bounds never decrease. -/
theorem buckets_monotone (ws : List Nat) : (bounds ws).Pairwise (· ≤ ·) :=
  boundsFrom_pairwise 0 ws.sum ws

/-- No gap at the top: the last bound is `2^31 - 1`, the largest hash. -/
theorem last_bucket (ws : List Nat) (hne : ws ≠ []) (hW : 0 < ws.sum) :
    (bounds ws).getLast? = some (2 ^ 31 - 1) := by
  have := boundsFrom_last 0 ws.sum ws hne hW (by omega)
  simpa [bounds, boundsFrom, space] using this

/-- Weight-proportional: walking the gateways from `prev = -1`, every bound is ≥ the previous one and
every share's width `b - prev` satisfies `|W·(b - prev) - w·2^31| < W`, i.e. differs from the exact share
`w·2^31/W` by less than 1. -/
theorem share_proportional (ws : List Nat) (hW : 0 < ws.sum) : SharesOK ws.sum (-1) ws (bounds ws) := by
  have := sharesOK_boundsFrom 0 ws.sum ws hW
  have e : bounds ws = boundsFrom 0 ws.sum ws := rfl
  rw [e]
  simpa [nearest_zero] using this

/-- The flow hash is always inside the hash space `0 .. 2^31-1`. -/
theorem hash_range (p : Packet) : 0 ≤ hashPacket p ∧ hashPacket p < 2 ^ 31 :=
  Nebula.Lemmas.Routing.hash_range p

/-- Whole space covered without gaps or overlaps, and `BalancePacket` follows the shares: for bounds that
never decrease and end at `2^31-1`, every packet is sent (with `ok = true`) to the one gateway whose share
`prev < hash ≤ bound` contains the packet's hash. -/
theorem balance_in_unique_share (gs : List Gateway) (p : Packet)
    (hmono : (gs.map (·.bound)).Pairwise (· ≤ ·))
    (hlast : (gs.map (·.bound)).getLast? = some (2 ^ 31 - 1)) :
    ∃ i, balancePacket p gs = .chosen i true ∧ i < gs.length ∧
      InShare (gs.map (·.bound)) i (hashPacket p) ∧
      ∀ j, j < gs.length → InShare (gs.map (·.bound)) j (hashPacket p) → j = i := by
  obtain ⟨h0, h1⟩ := hash_range p
  have hex : ∃ g ∈ gs, hashPacket p ≤ g.bound := by
    have hm := List.mem_of_getLast? hlast
    obtain ⟨g, hg, hb⟩ := List.mem_map.mp hm
    exact ⟨g, hg, by rw [hb]; omega⟩
  obtain ⟨i, hi⟩ := firstFit_isSome (hashPacket p) gs hex
  obtain ⟨hlt, hle, hbelow⟩ := firstFit_spec (hashPacket p) gs i hi
  have hbal : balancePacket p gs = .chosen i true := by
    unfold balancePacket
    simp only [hi]
  refine ⟨i, hbal, hlt, ⟨?_, hle⟩, ?_⟩
  · by_cases hi0 : i = 0
    · simp only [hi0, if_true]; omega
    · simp only [hi0, if_false]; exact hbelow (i - 1) (by omega)
  · intro j hj ⟨hj1, hj2⟩
    by_cases hji : j < i
    · have := hbelow j hji; omega
    · by_cases hij : i < j
      · have hj0 : ¬ (j = 0) := by omega
        simp only [hj0, if_false] at hj1
        have := mono_getD _ hmono i (j - 1) (by omega) (by simp; omega)
        omega
      · omega

/-- Deterministic per flow, independent of unrelated fields: the choice is a function of the two ports and
the gateway list only — packets that differ in addresses, protocol or the fragment flag go the same way.
(`hashPacket` is the function translated from the source; it reads `LocalPort` and `RemotePort` only.) -/
theorem deterministic (p p' : Packet) (gs : List Gateway)
    (hl : p.localPort = p'.localPort) (hr : p.remotePort = p'.remotePort) :
    balancePacket p gs = balancePacket p' gs := by
  unfold balancePacket hashPacket
  rw [hl, hr]

/-- End to end: for every valid gateway list, after `CalculateBucketsForGateways` every packet is balanced
with `ok = true` to the unique gateway whose share of the hash space — the shares being proportional to
the weights (`share_proportional`), ordered, and covering `0 .. 2^31-1` — contains the packet's flow hash. -/
theorem balance_after_calculate (gs : List Gateway) (h : Valid gs) (p : Packet) :
    ∃ out i, calculateBuckets gs = some out ∧ balancePacket p out = .chosen i true ∧ i < gs.length ∧
      InShare (bounds (gs.map natW)) i (hashPacket p) ∧
      ∀ j, j < gs.length → InShare (bounds (gs.map natW)) j (hashPacket p) → j = i := by
  obtain ⟨out, hc, ha, _, hb⟩ := calculate_eq_spec gs h
  obtain ⟨h0, _⟩ := valid_total gs h
  have hlen : out.length = gs.length := by
    have := congrArg List.length ha; simpa using this
  have hne : gs.map natW ≠ [] := by
    intro e; exact h.1 (List.map_eq_nil_iff.mp e)
  obtain ⟨i, h1, h2, h3, h4⟩ := balance_in_unique_share out p
    (by rw [hb]; exact buckets_monotone _) (by rw [hb]; exact last_bucket _ hne h0)
  rw [hb] at h3 h4
  exact ⟨out, i, hc, h1, by omega, h3, fun j hj => h4 j (by omega)⟩

-- non-vacuity: the repo's own 10:5 example and the F05 input (8 gateways of weight 2^31-1, total ≥ 2^33)
-- are valid lists; on the F05 input the repaired arithmetic gives eight equal shares ending at 2^31-1.
example : Valid [newGateway 1 10, newGateway 2 5] := by
  refine ⟨by simp, ?_, by simp⟩
  intro g hg; simp [newGateway] at hg; rcases hg with rfl | rfl <;> simp

example : (calculateBuckets [newGateway 1 10, newGateway 2 5]).map (·.map (·.bound))
    = some [1431655764, 2147483647] := by decide

example : (calculateBuckets ((List.range 8).map (fun i => newGateway i (2 ^ 31 - 1)))).map (·.map (·.bound))
    = some [268435455, 536870911, 805306367, 1073741823, 1342177279, 1610612735, 1879048191, 2147483647] := by
  decide

end Nebula.Props.C40
