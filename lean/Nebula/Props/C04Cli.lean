/-
C04 — Issuance never exceeds the signing CA: the command line path (`nebula-cert sign`, cmd/nebula-cert/sign.go).

`Model/CertCli.lean` is `signCert`: flags and input files → to-be-signed certificate → `TBSCertificate.Sign`. The
theorems here compose the flag mapping with the `certsign` theorems of `Props/C04.lean` (`issued_within_signer`,
`issued_fields`) and with the PEM / codec models that read the CA file, for **every** flag set, file contents,
instant and oracle answers (`netip.ParsePrefix`, key derivation, signing primitives):

 * `cli_issue_within_ca` — whatever `nebula-cert sign` writes lies within the CA it read (validity window, groups,
   networks, unsafe networks: the verifier's own relation `within`), is not a CA and names the CA as issuer. No
   side condition: the whole-second bound of the CA is a consequence of it having been decoded from a file.
 * `cli_emits_one`, `cli_version`, `cli_default_expiry`, `cli_v1_shape`, `cli_issued_fields` — what is written is
   what the flags ask for: one certificate, of the requested version or the CA's, expiring `-duration` from now or —
   by default — exactly one second before the CA, v1 only with a single IPv4 network; name, groups (trimmed, empty
   items dropped), networks and key as given.
 * `cli_refuses_*` — refusals that do not depend on the rest of the input.
-/
import Nebula.Lemmas.CertCli
import Nebula.Lemmas.CertPemWhole
import Nebula.Lemmas.CertCliEx
import Nebula.Props.C04

namespace Nebula.Props.C04Cli
open Nebula.Net Nebula.Cert Nebula.Spec.Trust Nebula.CertPem Nebula.CertCli Nebula.Lemmas.CertCli Nebula.Lemmas.CertSign

/-- **`cli_issue_within_ca`.** For every flag set, every content of the CA / key / public-key files, every instant
and every oracle: if `nebula-cert sign` emits certificates then the CA file decoded to a certificate `ca`, and each
emitted certificate is within `ca` by the verifier's containment relation, is not a CA, and carries `ca`'s
fingerprint as issuer. -/
theorem cli_issue_within_ca (E : SignEnv) (env : Env) (f : Flags) (cs : List Cert) (h : signCert E env f = .ok cs) :
    ∃ ca, caOf env = some ca ∧ ∀ c ∈ cs, within ca c ∧ c.isCA = false ∧ E.K.fingerprint ca = some c.issuer := by
  obtain ⟨ca, curve, v4, v6, u4, u6, pub, c, hca, -, -, -, -, -, -, -, rfl, hs⟩ := signCert_ok E env f cs h
  refine ⟨ca, hca, ?_⟩
  have hws : ca.notBefore % 1000000000 = 0 := by
    unfold caOf at hca
    split at hca
    · rename_i ca' hc
      cases hca
      exact (Nebula.Lemmas.CertPemWhole.pem_decoded_whole_seconds _ _ hc).1
    · cases hca
  intro c' hc'
  simp only [List.mem_singleton] at hc'
  subst hc'
  rcases hs with ⟨-, n, -, -, -, hs⟩ | ⟨-, hs⟩
  · exact Nebula.Props.C04.issued_within_signer E ca curve _ c' (Nebula.Props.C04.sign_le_signWith E _ _ _ _ _ hs) hws
  · exact Nebula.Props.C04.issued_within_signer E ca curve _ c' (Nebula.Props.C04.sign_le_signWith E _ _ _ _ _ hs) hws

/-- Exactly one certificate is written. -/
theorem cli_emits_one (E : SignEnv) (env : Env) (f : Flags) (cs : List Cert) (h : signCert E env f = .ok cs) :
    cs.length = 1 := by
  obtain ⟨ca, curve, v4, v6, u4, u6, pub, c, -, -, -, -, -, -, -, -, rfl, -⟩ := signCert_ok E env f cs h
  rfl

/-- Version selection: `-version 1|2` is honoured, `-version 0` (the default) takes the CA's version; the
certificate has the curve of the CA. -/
theorem cli_version (E : SignEnv) (env : Env) (f : Flags) (cs : List Cert) (h : signCert E env f = .ok cs) :
    ∃ ca, caOf env = some ca ∧ ∀ c ∈ cs, c.version = (if f.version = 0 then ca.version else f.version) ∧ c.curve = ca.curve := by
  obtain ⟨ca, curve, v4, v6, u4, u6, pub, c, hca, hcv, -, -, -, -, -, -, rfl, hs⟩ := signCert_ok E env f cs h
  refine ⟨ca, hca, ?_⟩
  intro c' hc'
  simp only [List.mem_singleton] at hc'
  subst hc'
  rcases hs with ⟨hv, n, -, -, -, hs⟩ | ⟨hv, hs⟩
  · obtain ⟨h1, h2, -⟩ := Nebula.Props.C04.issued_fields E _ _ _ _ (Nebula.Props.C04.sign_le_signWith E _ _ _ _ _ hs)
    simp only [tbs] at h1 h2
    exact ⟨by rw [h1, hv], by rw [h2, hcv]⟩
  · obtain ⟨h1, h2, -⟩ := Nebula.Props.C04.issued_fields E _ _ _ _ (Nebula.Props.C04.sign_le_signWith E _ _ _ _ _ hs)
    simp only [tbs] at h1 h2
    exact ⟨by rw [h1, hv], by rw [h2, hcv]⟩

/-- Validity: from now (floored to the second) for `-duration`; with no (or a non-positive) `-duration` the
certificate expires **exactly one second before the CA** — never at or after the CA's expiry. -/
theorem cli_default_expiry (E : SignEnv) (env : Env) (f : Flags) (cs : List Cert) (h : signCert E env f = .ok cs) :
    ∃ ca, caOf env = some ca ∧ ∀ c ∈ cs, c.notBefore = floorSec env.now ∧
      (f.duration ≤ 0 → c.notAfter = ca.notAfter - 1000000000 ∧ c.notAfter < ca.notAfter) ∧
      (0 < f.duration → c.notAfter = floorSec (env.now + f.duration)) := by
  obtain ⟨ca, curve, v4, v6, u4, u6, pub, c, hca, -, -, -, -, -, -, -, rfl, hs⟩ := signCert_ok E env f cs h
  refine ⟨ca, hca, ?_⟩
  have hws : ca.notAfter % 1000000000 = 0 := by
    unfold caOf at hca
    split at hca
    · rename_i ca' hc
      cases hca
      exact (Nebula.Lemmas.CertPemWhole.pem_decoded_whole_seconds _ _ hc).2
    · cases hca
  intro c' hc'
  simp only [List.mem_singleton] at hc'
  subst hc'
  have key : ∀ t, (t.notBefore = env.now) →
      (t.notAfter = env.now + (if f.duration ≤ 0 then ca.notAfter - env.now - 1000000000 else f.duration)) →
      signWith E (some ca) curve t = .ok c' →
      c'.notBefore = floorSec env.now ∧
      (f.duration ≤ 0 → c'.notAfter = ca.notAfter - 1000000000 ∧ c'.notAfter < ca.notAfter) ∧
      (0 < f.duration → c'.notAfter = floorSec (env.now + f.duration)) := by
    intro t hb ha hs
    obtain ⟨-, -, -, -, -, -, h6, h7, -⟩ := Nebula.Props.C04.issued_fields E _ _ _ _ hs
    rw [hb] at h6
    rw [ha] at h7
    refine ⟨h6, ?_, ?_⟩
    · intro hd
      rw [if_pos hd] at h7
      rw [h7]
      unfold floorSec
      omega
    · intro hd
      rw [if_neg (by omega)] at h7
      exact h7
  rcases hs with ⟨-, n, -, -, -, hs⟩ | ⟨-, hs⟩
  · exact key _ rfl rfl (Nebula.Props.C04.sign_le_signWith E _ _ _ _ _ hs)
  · exact key _ rfl rfl (Nebula.Props.C04.sign_le_signWith E _ _ _ _ _ hs)

/-- A version 1 certificate is only written for exactly one IPv4 network and IPv4 unsafe networks: every network of
the emitted certificate is the single IPv4 item of `-networks`, every unsafe network is IPv4. -/
theorem cli_v1_shape (E : SignEnv) (env : Env) (f : Flags) (cs : List Cert) (h : signCert E env f = .ok cs) :
    ∀ c ∈ cs, c.version = 1 →
      ∃ n, splitNets env.parsePrefix (flagItems (effNetworks f)) = some ([n], []) ∧ (∀ p, p ∈ c.networks ↔ p = n) ∧
        ∃ u4, splitNets env.parsePrefix (flagItems (effUnsafe f)) = some (u4, []) ∧ ∀ p, p ∈ c.unsafeNetworks ↔ p ∈ u4 := by
  obtain ⟨ca, curve, v4, v6, u4, u6, pub, c, hca, -, -, -, -, hn, hu, -, rfl, hs⟩ := signCert_ok E env f cs h
  intro c' hc' hv1
  simp only [List.mem_singleton] at hc'
  subst hc'
  rcases hs with ⟨-, n, rfl, rfl, rfl, hs⟩ | ⟨hv, hs⟩
  · obtain ⟨-, -, -, -, -, -, -, -, -, h10, h11, -⟩ :=
      Nebula.Props.C04.issued_fields E _ _ _ _ (Nebula.Props.C04.sign_le_signWith E _ _ _ _ _ hs)
    simp only [tbs, List.mem_singleton] at h10 h11
    exact ⟨n, hn, h10, u4, hu, h11⟩
  · obtain ⟨h1, -⟩ := Nebula.Props.C04.issued_fields E _ _ _ _ (Nebula.Props.C04.sign_le_signWith E _ _ _ _ _ hs)
    simp only [tbs] at h1
    omega

/-- What is written is what was asked for: the name, the groups of `-groups` (items trimmed, empty ones dropped, in
order), the networks / unsafe networks that `-networks` / `-unsafe-networks` (or the deprecated `-ip` / `-subnets`)
parse to, and the key of `-in-pub` or of the fresh key pair. -/
theorem cli_issued_fields (E : SignEnv) (env : Env) (f : Flags) (cs : List Cert) (h : signCert E env f = .ok cs) :
    ∃ ca v4 v6 u4 u6 pub,
      splitNets env.parsePrefix (flagItems (effNetworks f)) = some (v4, v6) ∧
      splitNets env.parsePrefix (flagItems (effUnsafe f)) = some (u4, u6) ∧
      pickPub env f ca.curve = .ok pub ∧ caOf env = some ca ∧
      ∀ c ∈ cs, c.name = f.name ∧ c.groups = parseGroups f.groups ∧ c.publicKey = pub ∧
        (∀ p, p ∈ c.networks ↔ p ∈ v4 ++ v6) ∧ (∀ p, p ∈ c.unsafeNetworks ↔ p ∈ u4 ++ u6) := by
  obtain ⟨ca, curve, v4, v6, u4, u6, pub, c, hca, rfl, -, -, -, hn, hu, hp, rfl, hs⟩ := signCert_ok E env f cs h
  refine ⟨ca, v4, v6, u4, u6, pub, hn, hu, hp, hca, ?_⟩
  intro c' hc'
  simp only [List.mem_singleton] at hc'
  subst hc'
  rcases hs with ⟨-, n, rfl, rfl, rfl, hs⟩ | ⟨-, hs⟩
  · obtain ⟨-, -, -, h3, h4, -, -, -, h9, h10, h11, -⟩ :=
      Nebula.Props.C04.issued_fields E _ _ _ _ (Nebula.Props.C04.sign_le_signWith E _ _ _ _ _ hs)
    simp only [tbs] at h3 h4 h9 h10 h11
    exact ⟨h3, h4, h9, by simpa using h10, by simpa using h11⟩
  · obtain ⟨-, -, -, h3, h4, -, -, -, h9, h10, h11, -⟩ :=
      Nebula.Props.C04.issued_fields E _ _ _ _ (Nebula.Props.C04.sign_le_signWith E _ _ _ _ _ hs)
    simp only [tbs] at h3 h4 h9 h10 h11
    exact ⟨h3, h4, h9, h10, h11⟩

/-- Nothing is signed under a CA that is expired or not yet valid at the instant of the call, … -/
theorem cli_refuses_expired_ca (E : SignEnv) (env : Env) (f : Flags) (ca : Cert) (hca : caOf env = some ca)
    (hexp : ca.expired env.now = true) : ∀ cs, signCert E env f ≠ .ok cs := by
  intro cs h
  obtain ⟨ca', _, _, _, _, _, _, _, hca', -, -, hne, -⟩ := signCert_ok E env f cs h
  rw [hca] at hca'
  cases hca'
  rw [hexp] at hne
  cases hne

/-- … with a key that is not the CA's (`VerifyPrivateKey`), … -/
theorem cli_refuses_foreign_key (E : SignEnv) (env : Env) (f : Flags) (hk : env.keyMatches = false) :
    ∀ cs, signCert E env f ≠ .ok cs := by
  intro cs h
  obtain ⟨_, _, _, _, _, _, _, _, -, -, hkm, -⟩ := signCert_ok E env f cs h
  rw [hk] at hkm
  cases hkm

/-- … or when a `-networks` / `-unsafe-networks` item does not parse. -/
theorem cli_refuses_unparsable_network (E : SignEnv) (env : Env) (f : Flags)
    (hbad : splitNets env.parsePrefix (flagItems (effNetworks f)) = none ∨
            splitNets env.parsePrefix (flagItems (effUnsafe f)) = none) : ∀ cs, signCert E env f ≠ .ok cs := by
  intro cs h
  obtain ⟨_, _, _, _, _, _, _, _, -, -, -, -, -, hn, hu, -⟩ := signCert_ok E env f cs h
  rcases hbad with hb | hb
  · rw [hb] at hn; cases hn
  · rw [hb] at hu; cases hu

/-! ### a concrete run (non-vacuity), and the flag parsers on concrete values -/

open Nebula.Lemmas.CertCliEx in
set_option maxRecDepth 100000 in
/-- a v2 CA read from its PEM file, `-name h -networks " 10.0.0.1/24," -groups "g ,"`, no `-duration`, at second 5 of
the CA's ten: one certificate, expiring at second 9. -/
example : signCert exE exEnv exFlags = .ok [exIssued] ∧ caOf exEnv = some exCA := by decide

open Nebula.Lemmas.CertCliEx in
set_option maxRecDepth 100000 in
example : within exCA exIssued ∧ exIssued.isCA = false :=
  (cli_issue_within_ca exE exEnv exFlags [exIssued] (by decide)).elim fun ca ⟨hca, hall⟩ => by
    have : ca = exCA := by
      have h2 : caOf exEnv = some exCA := by decide
      rw [h2] at hca; exact (Option.some.inj hca).symm
    subst this
    exact ⟨(hall _ (List.mem_singleton.mpr rfl)).1, (hall _ (List.mem_singleton.mpr rfl)).2.1⟩

open Nebula.Lemmas.CertCliEx in
set_option maxRecDepth 100000 in
/-- the same request for a group the CA does not have, and under an expired CA, is refused. -/
example : signCert exE exEnv { exFlags with groups := [122] } = .error (.sign (.constraint .group)) ∧
    signCert exE { exEnv with now := 11000000000 } exFlags = .error .caExpired ∧
    signCert exE exEnv { exFlags with version := 1, networks := exFlags.networks ++ exItem } = .error .v1Single ∧
    signCert exE exEnv { exFlags with duration := 6000000000 } = .error (.sign (.constraint .expiresAfterCA)) := by
  decide

example : splitComma [49, 44, 44, 50] = [[49], [], [50]] := by decide
example : flagItems [] = [] := by decide
example : parseGroups [32, 97, 32, 44, 9, 98, 9, 44, 44, 32] = [[97], [98]] := by decide
example : trimSp [32, 32, 49, 32, 50, 32] = [49, 32, 50] := by decide
example : splitNets (fun b => if b = [52] then some ⟨⟨.v4, 4⟩, 32⟩ else if b = [54] then some ⟨⟨.v6, 6⟩, 128⟩ else none)
    [[32, 54], [], [52, 32], [54]] = some ([⟨⟨.v4, 4⟩, 32⟩], [⟨⟨.v6, 6⟩, 128⟩, ⟨⟨.v6, 6⟩, 128⟩]) := by decide
example : splitNets (fun _ => none) [[32], [120]] = none := by decide

end Nebula.Props.C04Cli
