/-
C18 — Tracked flows are per-tuple and expire when idle.

"A packet that no rule allows passes only if an earlier allowed packet of the same flow (same addresses, ports
and protocol, oriented to the node) was seen and the flow has not been idle longer than its protocol's
configured timeout. An expired flow is not honoured again until a rule allows a new packet for it."

Model (Model/Conntrack.lean): `Firewall.Drop`, `inConns` (with the `Expires` test of the F02 fix), `addConn`,
`evict`, the `TimerWheel` (`Advance`/`Add`/`Purge`), the routine-local `ConntrackCache` with its ticker, and
`Interface.reloadFirewall`; a *history* is any list of `Op`s (`sleep d`, `packet p dir host`, `reload fw`) run
from a freshly created firewall (`Sys.run`), recording one `Event` per packet.

The history theorems quantify over every history: any number of tuples and peers, any idle gaps, any unrelated
churn (which is what drives the timer wheel), any reloads (which may change the timeouts), routine cache on or
off. `Witness post p w` = "`w` is an earlier packet of tuple `p` that passed, and no packet of `p` was refused by
the rules between `w` and now".

Before the fix `fix: firewall conntrack honours a flow only while its Expires is in the future` the first theorem
was false on the code (finding F02: allow, 24 h of silence, pass — corpus/conntrack/f02-idle-24h.ops); the
examples at the end replay that history on the model of the fixed code.
-/
import Nebula.Lemmas.FwHist
import Nebula.Lemmas.FwLive

namespace Nebula.Props.C18
open Nebula.Net Nebula.Fw Nebula.Lemmas.Fw

/-- **pass_implies_fresh.** In every history, a packet that passes although no rule of its direction allows it
has a witness: an earlier packet of the same tuple that passed, with no refusal of that tuple in between, and
the time since that witness is less than the timeout configured (when the witness passed) for the tuple's
protocol — or, with a routine cache of period `d`, the witness passed within the same cache tick (so less than
`d` ago). Events are listed newest first: `post` is everything before `e`. -/
theorem pass_implies_fresh (fw : Fw) (period : Nat) (hv : fw.rulesVersion < 65536) (ops : List Op)
    (pre post : List Event) (e : Event)
    (hrun : ((Sys.new fw period).run ops).2 = pre ++ e :: post)
    (hpass : e.verdict = .pass) (hnorule : e.ruleAllowed = false) :
    ∃ w, Witness post e.pkt w ∧ w.time ≤ e.time
      ∧ (e.time - w.time < w.fw.timeoutFor e.pkt.proto
          ∨ (period ≠ 0 ∧ w.time / period = e.time / period)) := by
  refine run_all
    (fun evs x => x.verdict = .pass → x.ruleAllowed = false →
      ∃ w, Witness evs x.pkt w ∧ w.time ≤ x.time
        ∧ (x.time - w.time < w.fw.timeoutFor x.pkt.proto
            ∨ (period ≠ 0 ∧ w.time / period = x.time / period)))
    period ?_ fw hv ops pre e post hrun hpass hnorule
  intro s evs op hI hper hstart x hx
  cases op with
  | sleep d => simp [Sys.step] at hx
  | reload f => simp [Sys.step] at hx
  | packet p incoming h =>
    rw [step_packet] at hx
    simp only [Option.some.injEq] at hx
    subst hx
    intro hp hn
    obtain ⟨w, hw, hle, hfresh⟩ := (packet_step s evs p incoming h hI).2.1 hp hn
    refine ⟨w, hw, hle, ?_⟩
    rcases hfresh with h1 | ⟨hne, htick⟩
    · exact Or.inl h1
    · right
      simp only [Ticker.tickAt, hper, hstart, Nat.sub_zero] at htick
      exact ⟨by rw [← hper]; exact hne, htick⟩

/-- With the routine cache off this is exactly the statement: idle time below the protocol's timeout. -/
theorem pass_implies_fresh_nocache (fw : Fw) (hv : fw.rulesVersion < 65536) (ops : List Op)
    (pre post : List Event) (e : Event)
    (hrun : ((Sys.new fw 0).run ops).2 = pre ++ e :: post)
    (hpass : e.verdict = .pass) (hnorule : e.ruleAllowed = false) :
    ∃ w, Witness post e.pkt w ∧ w.time ≤ e.time ∧ e.time - w.time < w.fw.timeoutFor e.pkt.proto := by
  obtain ⟨w, hw, hle, h | ⟨h, _⟩⟩ := pass_implies_fresh fw 0 hv ops pre post e hrun hpass hnorule
  · exact ⟨w, hw, hle, h⟩
  · exact absurd rfl h

/-- **An expired (or otherwise refused) flow is not honoured again until a rule allows a new packet for it.**
In every history: if a packet `e1` of a tuple was refused by the rules, and `e2` is a later packet of that tuple
with no passing packet of the tuple in between (`mid`), then `e2` passes only if a rule of its direction allows
it. -/
theorem refused_until_rule_allows (fw : Fw) (period : Nat) (hv : fw.rulesVersion < 65536) (ops : List Op)
    (pre mid post : List Event) (e1 e2 : Event)
    (hrun : ((Sys.new fw period).run ops).2 = pre ++ e2 :: (mid ++ e1 :: post))
    (hsame : e1.pkt = e2.pkt) (hrefused : e1.verdict = .noRule)
    (hmid : ∀ x ∈ mid, x.pkt = e2.pkt → x.verdict ≠ .pass)
    (hpass : e2.verdict = .pass) : e2.ruleAllowed = true := by
  cases hra : e2.ruleAllowed with
  | true => rfl
  | false =>
    exfalso
    obtain ⟨w, ⟨pre', post', hsplit, hwp, hwv, hall⟩, _, _⟩ :=
      pass_implies_fresh fw period hv ops pre (mid ++ e1 :: post) e2 hrun hpass hra
    rcases List.append_eq_append_iff.1 hsplit with ⟨a', hpre', hrest⟩ | ⟨c', hmid', hrest⟩
    · -- the witness is `e1` or older
      cases a' with
      | nil =>
        simp only [List.nil_append, List.cons.injEq] at hrest
        rw [← hrest.1] at hwv
        rw [hrefused] at hwv
        cases hwv
      | cons y a'' =>
        simp only [List.cons_append, List.cons.injEq] at hrest
        have : e1 ∈ pre' := by rw [hpre', ← hrest.1]; simp
        exact hall e1 this hsame hrefused
    · -- the witness lies in `mid`
      cases c' with
      | nil =>
        simp only [List.nil_append, List.cons.injEq] at hrest
        rw [hrest.1] at hwv
        rw [hrefused] at hwv
        cases hwv
      | cons y c'' =>
        simp only [List.cons_append, List.cons.injEq] at hrest
        have : w ∈ mid := by rw [hmid', hrest.1]; simp
        exact hmid w this hwp hwv

/-- **live_flow_passes** (the other direction: flows expire *only* when idle). In every history of packets, idle
gaps and reloads (routine cache off): a packet `e` that gets past the address checks passes whenever the most
recent packet `w` of its tuple that got past them passed less than `w`'s protocol timeout ago — so, by induction,
whenever every gap since an allowed packet was below the timeout —, provided the version counter did not wrap in
between (finding F16) and either no reload happened since `w` or the current rules still allow the flow in the
direction of every rule-allowed packet it may stem from. The timer wheel plays no part: the statement holds for
any tick / span the wheel was built with. -/
theorem live_flow_passes (fw : Fw) (hv : fw.rulesVersion < 65536) (ops : List Op)
    (pre post : List Event) (e : Event)
    (hrun : ((Sys.new fw 0).run ops).2 = pre ++ e :: post)
    (hreached : e.verdict = .pass ∨ e.verdict = .noRule)
    (w : Event) (hw : LastCT post e.pkt w) (hwp : w.verdict = .pass)
    (hfresh : e.time < w.time + w.fw.timeoutFor e.pkt.proto)
    (hnowrap : w.fw.rulesVersion + (e.reloads - w.reloads) < 65536)
    (hkeep : w.reloads = e.reloads
      ∨ ∀ o, Witness post e.pkt o → o.ruleAllowed = true →
          (e.fw.table o.incoming).matches e.pkt o.incoming e.host.peer = true) :
    e.verdict = .pass := by
  refine run_all_live
    (fun evs x => (x.verdict = .pass ∨ x.verdict = .noRule) →
      ∀ w, LastCT evs x.pkt w → w.verdict = .pass → x.time < w.time + w.fw.timeoutFor x.pkt.proto →
        w.fw.rulesVersion + (x.reloads - w.reloads) < 65536 →
        (w.reloads = x.reloads ∨ ∀ o, Witness evs x.pkt o → o.ruleAllowed = true →
            (x.fw.table o.incoming).matches x.pkt o.incoming x.host.peer = true) →
        x.verdict = .pass)
    ?_ fw hv ops pre e post hrun hreached w hw hwp hfresh hnowrap hkeep
  intro s evs op hI hL _ x hx
  cases op with
  | sleep d => simp [Sys.step] at hx
  | reload f => simp [Sys.step] at hx
  | packet p incoming h =>
    rw [step_packet] at hx
    simp only [Option.some.injEq] at hx
    subst hx
    intro hr w hw hwp hf hn hk
    exact packet_live s evs p incoming h hI hL (packet_reached_addr s p incoming h hr) w hw hwp hf hn hk

/-- **Expiry at lookup (the F02 fix), for every state.** Whatever the timer wheel has or has not done: an entry
whose `Expires` has passed does not let its tuple through `inConns`, and it is gone afterwards. -/
theorem expired_entry_not_honoured (fw : Fw) (ct : Conntrack) (now : Nat) (cache : Cache) (p : Packet) (pr : Peer)
    (c : Conn) (hcache : cache.has p = false) (hc : aget samePkt ct.conns p = some c) (hexp : c.expires ≤ now) :
    (inConns fw ct now cache p pr).1 = false
      ∧ aget samePkt (inConns fw ct now cache p pr).2.1.conns p = none := by
  rcases inConns_entry fw ct now cache p pr hcache with ⟨c', hc', hlive, _⟩ | ⟨hmiss, hnone, _, _⟩
  · rw [hc] at hc'; cases hc'; omega
  · exact ⟨hmiss, hnone⟩

/-- **Per tuple.** Entries of other tuples never let a packet through: without an entry (or cache line) for
exactly this tuple, `inConns` answers no — whatever else is tracked. -/
theorem other_tuples_do_not_help (fw : Fw) (ct : Conntrack) (now : Nat) (cache : Cache) (p : Packet) (pr : Peer)
    (hct : aget samePkt ct.conns p = none) (hcache : cache.has p = false) :
    (inConns fw ct now cache p pr).1 = false :=
  (inConns_miss fw ct now cache p pr hct hcache).1

/-- … and looking up one tuple never creates or alters the entry of another. -/
theorem lookup_leaves_other_tuples (fw : Fw) (ct : Conntrack) (now : Nat) (cache : Cache) (p q : Packet) (pr : Peer)
    (c : Conn) (hq : q ≠ p) (h : aget samePkt (inConns fw ct now cache p pr).2.1.conns q = some c) :
    aget samePkt ct.conns q = some c :=
  inConns_other fw ct now cache p q pr c hq h

/-! ### non-vacuity: the F02 history on the model of the fixed code -/

def exMy : Cert :=
  { name := "me", networks := [{ addr := { fam := .v4, val := 0x0a000001 }, len := 8 }],
    unsafeNetworks := [], groups := [], issuer := "ca1" }

def exPeer : Cert :=
  { name := "h1", networks := [{ addr := { fam := .v4, val := 0x0a000002 }, len := 8 }],
    unsafeNetworks := [], groups := ["g1"], issuer := "ca1" }

def exHost : HostInfo :=
  { host := hostOf (exMy.networks.foldl Lite.insert []) exPeer, peer := { cert := exPeer, pool := [] } }

/-- inbound udp from anybody; nothing outbound. Timeouts: one minute (in ns). -/
def exFw : Fw :=
  (Fw.new exMy false 60000000000 60000000000 60000000000).addRules
    [{ incoming := true, proto := 17, startPort := 0, endPort := 0, groups := [], host := "any", cidr := .none,
       localCidr := .any, caName := "", caSha := "" }]

def dns : Packet :=
  { localAddr := { fam := .v4, val := 0x0a000001 }, remoteAddr := { fam := .v4, val := 0x0a000002 },
    localPort := 53, remotePort := 4000, proto := 17, fragment := false }

def verdicts (ops : List Op) : List Verdict := (((Sys.new exFw 0).run ops).2.map (·.verdict)).reverse

-- allowed inbound, reply 30 s later rides on the flow; after 24 h of silence the reply is refused (F02), and
-- one nanosecond before / at the timeout the boundary is where `evict` puts it
example : verdicts [.packet dns true exHost, .sleep 30000000000, .packet dns false exHost] = [.pass, .pass] := by decide
example : verdicts [.packet dns true exHost, .sleep 86400000000000, .packet dns false exHost] = [.pass, .noRule] := by decide
example : verdicts [.packet dns true exHost, .sleep 59999999999, .packet dns false exHost] = [.pass, .pass] := by decide
example : verdicts [.packet dns true exHost, .sleep 60000000000, .packet dns false exHost] = [.pass, .noRule] := by decide
-- a never-idle flow across a reload that keeps its rule: three packets 59.999999999 s apart (timeout 60 s), the
-- reload between the first two — all pass (`live_flow_passes`; seeded change C18-2 drops the third)
example : verdicts [.packet dns true exHost, .reload exFw, .sleep 59999999999, .packet dns false exHost,
    .sleep 59999999999, .packet dns false exHost] = [.pass, .pass, .pass] := by decide
-- the premises of `pass_implies_fresh` hold for the second event of the first history
example : exFw.rulesVersion < 65536 := by decide
example : ((exFw.table false).matches dns false exHost.peer) = false := by decide

end Nebula.Props.C18
