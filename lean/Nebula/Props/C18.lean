import Nebula.Lemmas.FwConn
namespace Nebula.Props.C18
theorem placeholder : True := trivial
end Nebula.Props.C18
