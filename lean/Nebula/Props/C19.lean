import Nebula.Lemmas.FwConn
namespace Nebula.Props.C19
theorem placeholder : True := trivial
end Nebula.Props.C19
