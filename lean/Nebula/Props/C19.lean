/-
C19 — Tracked flows are revalidated after a rule reload.

"After any sequence of firewall reloads, a tracked flow created under an older rule set lets packets through
only if the flow's original direction is still allowed by the current rules; otherwise the flow is forgotten. A
reload that changes nothing about the rules never cuts an established flow."

Model (Model/Conntrack.lean): `Interface.reloadFirewall` (`Sys.reloadFirewall` / `Sys.reload`: version + 1 mod
2^16, a wrap to 0 installs a fresh conntrack, otherwise the conntrack is shared), the `rulesVersion` test,
re-match and delete in `Firewall.inConns`; histories as in C18.

The last sentence of the statement is false at the version wrap (finding F16, recorded as known:
`same_rules_keep_full_false`); it is proved with the explicit hypothesis `(version + 1) % 65536 ≠ 0`
(`same_rules_keep_partial`). The routine-local conntrack cache (firewall/cache.go) is not reset by a reload, so
with the cache enabled a stale flow can pass for up to one cache period; the history theorem is therefore stated
for histories with the cache off (`Sys.new fw 0`), and C18's `pass_implies_fresh` bounds what the cache can do.
-/
import Nebula.Lemmas.FwHist
import Nebula.Lemmas.FwReloadNet

namespace Nebula.Props.C19
open Nebula.Net Nebula.Fw Nebula.Lemmas.Fw

/-- **stale_needs_rematch.** For every state: an entry stamped with another rules version lets its tuple through
`inConns` only if it has not expired *and* the table of the entry's own direction matches under the current
rules … -/
theorem stale_needs_rematch (fw : Fw) (ct : Conntrack) (now : Nat) (cache : Cache) (p : Packet) (pr : Peer)
    (c : Conn) (hcache : cache.has p = false) (hc : aget samePkt ct.conns p = some c)
    (hstale : c.rulesVersion ≠ fw.rulesVersion)
    (hpass : (inConns fw ct now cache p pr).1 = true) :
    now < c.expires ∧ (fw.table c.incoming).matches p c.incoming pr = true := by
  rcases inConns_entry fw ct now cache p pr hcache with ⟨c', hc', hlive, hval, _, _⟩ | ⟨hmiss, _, _, _⟩
  · rw [hc] at hc'; cases hc'
    rcases hval with h | h
    · exact absurd h hstale
    · exact ⟨hlive, h⟩
  · rw [hmiss] at hpass; cases hpass

/-- … otherwise the flow is forgotten. -/
theorem stale_unmatched_forgotten (fw : Fw) (ct : Conntrack) (now : Nat) (cache : Cache) (p : Packet) (pr : Peer)
    (c : Conn) (hcache : cache.has p = false) (hc : aget samePkt ct.conns p = some c)
    (hstale : c.rulesVersion ≠ fw.rulesVersion)
    (hno : (fw.table c.incoming).matches p c.incoming pr = false) :
    (inConns fw ct now cache p pr).1 = false
      ∧ aget samePkt (inConns fw ct now cache p pr).2.1.conns p = none := by
  rcases inConns_entry fw ct now cache p pr hcache with ⟨c', hc', _, hval, _, _⟩ | ⟨hmiss, hnone, _, _⟩
  · rw [hc] at hc'; cases hc'
    rcases hval with h | h
    · exact absurd h hstale
    · rw [hno] at h; cases h
  · exact ⟨hmiss, hnone⟩

/-- … and a revalidated entry is stamped with the current version (so it is not re-matched on every packet). -/
theorem rematched_is_restamped (fw : Fw) (ct : Conntrack) (now : Nat) (cache : Cache) (p : Packet) (pr : Peer)
    (hcache : cache.has p = false) (hpass : (inConns fw ct now cache p pr).1 = true) :
    ∃ c', aget samePkt (inConns fw ct now cache p pr).2.1.conns p = some c' ∧ c'.rulesVersion = fw.rulesVersion := by
  rcases inConns_entry fw ct now cache p pr hcache with ⟨c, _, _, _, _, hent⟩ | ⟨hmiss, _, _, _⟩
  · exact ⟨_, hent, rfl⟩
  · rw [hmiss] at hpass; cases hpass

/-- **pass_is_revalidated.** In every history of packets, idle gaps and reloads (any number, including version
wraps; routine cache off): a packet that passes although no rule of its own direction allows it belongs to a
flow that was created by a rule-allowed packet `o` of direction `d` (no refusal of the tuple since), and `d` is
allowed for this tuple by the rules *in force now* (`e.fw`) — as checked on this very packet, or on an earlier
packet `w` of the flow that was judged by the same firewall (no reload in between). -/
theorem pass_is_revalidated (fw : Fw) (hv : fw.rulesVersion < 65536) (ops : List Op)
    (pre post : List Event) (e : Event)
    (hrun : ((Sys.new fw 0).run ops).2 = pre ++ e :: post)
    (hpass : e.verdict = .pass) (hnorule : e.ruleAllowed = false) :
    ∃ d o, Witness post e.pkt o ∧ o.incoming = d ∧ o.ruleAllowed = true
      ∧ ((e.fw.table d).matches e.pkt d e.host.peer = true
          ∨ ∃ w, Witness post e.pkt w ∧ w.reloads = e.reloads ∧ w.fw = e.fw
              ∧ (e.fw.table d).matches e.pkt d w.host.peer = true) := by
  refine run_all
    (fun evs x => x.verdict = .pass → x.ruleAllowed = false →
      ∃ d o, Witness evs x.pkt o ∧ o.incoming = d ∧ o.ruleAllowed = true
        ∧ ((x.fw.table d).matches x.pkt d x.host.peer = true
            ∨ ∃ w, Witness evs x.pkt w ∧ w.reloads = x.reloads ∧ w.fw = x.fw
                ∧ (x.fw.table d).matches x.pkt d w.host.peer = true))
    0 ?_ fw hv ops pre e post hrun hpass hnorule
  intro s evs op hI hper _ x hx
  cases op with
  | sleep d => simp [Sys.step] at hx
  | reload f => simp [Sys.step] at hx
  | packet p incoming h =>
    rw [step_packet] at hx
    simp only [Option.some.injEq] at hx
    subst hx
    intro hp hn
    exact packet_revalidated s evs p incoming h hI hp hn hper

/-- **unroutable_local_never_passes.** For every firewall state, conntrack content (the tuple tracked or not, its
entry stamped with any rules version) and packet: if the local address is not in the routable networks of the
firewall in force, `Drop` refuses — the conntrack fast path (whose revalidation only re-matches the rule tables,
and a rule with `local_cidr: any` matches every local address) is never consulted — and conntrack / the routine
cache stay as they were. -/
theorem unroutable_local_never_passes (fw : Fw) (ct : Conntrack) (now : Nat) (cache : Cache) (p : Packet)
    (incoming : Bool) (h : HostInfo) (hl : anyContains fw.routable p.localAddr = false) :
    (drop fw ct now cache p incoming h).1 ≠ .pass ∧ (drop fw ct now cache p incoming h).2 = (ct, cache) :=
  drop_unroutable fw ct now cache p incoming h hl

/-- **pass_needs_routable_local.** In every history from every state, across any number of reloads (version wraps
included, routine cache on or off): a packet passes only if its local address is routable for the firewall that
was in force when it was judged. -/
theorem pass_needs_routable_local (s : Sys) (ops : List Op) :
    ∀ e ∈ (s.run ops).2, e.verdict = .pass → anyContains e.fw.routable e.pkt.localAddr = true :=
  run_pass_routable s ops

/-- **reload_dropping_network_cuts_flows.** For every state `s` (any conntrack content: flows established towards
an unsafe network of the old certificate), every firewall `newFw` installed by `reloadFirewall` (built from the
re-issued certificate; conntrack shared) and every later history without a further reload: no packet whose local
address is outside `newFw`'s routable networks passes — a fresh packet of that tuple would be refused, so the
tracked flow is cut, in both directions. -/
theorem reload_dropping_network_cuts_flows (s : Sys) (newFw : Fw) (post : List Op)
    (hnr : ∀ op ∈ post, Op.isReload op = false) :
    ∀ e ∈ ((s.reload newFw).run post).2, anyContains newFw.routable e.pkt.localAddr = false → e.verdict ≠ .pass := by
  intro e he hl hp
  have h1 := run_pass_routable (s.reload newFw) post e he hp
  rw [run_fw_const (s.reload newFw) post hnr e he, reload_routable] at h1
  rw [hl] at h1; cases h1

/-- **noop_reload_keeps.** A reload whose configuration did not change is the identity (the early return of
`reloadFirewall`), and so is one whose configuration is refused. -/
theorem noop_reload_keeps (s : Sys) (newFw : Option Fw) :
    s.reloadFirewall false newFw = s ∧ s.reloadFirewall true none = s := by
  simp [Sys.reloadFirewall]

/-- **same_rules_keep_partial.** A reload to a firewall whose tables admit exactly the same packets (and whose
networks are the same) never cuts an established flow — *provided the version counter does not wrap*
(`(version + 1) % 65536 ≠ 0`; the missing case is finding F16, see `same_rules_keep_full_false`): for every state,
every tuple with an entry whose original direction is allowed by the rules for this peer, and every later moment
`d` before the entry expires, the packet still passes after the reload, in either direction. -/
theorem same_rules_keep_partial (s : Sys) (newFw : Fw) (p : Packet) (incoming : Bool) (h : HostInfo) (c : Conn)
    (d : Nat)
    (hwrap : (s.fw.rulesVersion + 1) % 65536 ≠ 0)
    (hsame : ∀ dir q pr, (newFw.table dir).matches q dir pr = (s.fw.table dir).matches q dir pr)
    (hroute : newFw.routable = s.fw.routable)
    (hc : aget samePkt s.ct.conns p = some c) (hlive : s.now + d < c.expires)
    (hvalid : (s.fw.table c.incoming).matches p c.incoming h.peer = true)
    (haddr : addrCheck s.fw.routable h.host p = none) :
    (((s.reload newFw).sleep d).packet p incoming h).1 = .pass := by
  unfold Sys.reload
  simp only [hwrap, if_false, Sys.sleep, Sys.packet]
  apply drop_valid_entry _ _ _ _ p incoming h c hc hlive
  · right
    have := hsame c.incoming p h.peer
    simp only [Fw.table] at this ⊢
    rw [this]; exact hvalid
  · simp only [hroute]; exact haddr

/-! ### the version wrap (finding F16, known) and non-vacuity -/

def exMy : Cert :=
  { name := "me", networks := [{ addr := { fam := .v4, val := 0x0a000001 }, len := 8 }],
    unsafeNetworks := [], groups := [], issuer := "ca1" }

def exPeer : Cert :=
  { name := "h1", networks := [{ addr := { fam := .v4, val := 0x0a000002 }, len := 8 }],
    unsafeNetworks := [], groups := ["g1"], issuer := "ca1" }

def exHost : HostInfo :=
  { host := hostOf (exMy.networks.foldl Lite.insert []) exPeer, peer := { cert := exPeer, pool := [] } }

def inboundUdp : Rule :=
  { incoming := true, proto := 17, startPort := 0, endPort := 0, groups := [], host := "any", cidr := .none,
    localCidr := .any, caName := "", caSha := "" }

def outboundTcp : Rule := { inboundUdp with incoming := false, proto := 6 }

def fwWith (rules : List Rule) (version : Nat) : Fw :=
  { (Fw.new exMy false 60000000000 60000000000 60000000000).addRules rules with rulesVersion := version }

def dns : Packet :=
  { localAddr := { fam := .v4, val := 0x0a000001 }, remoteAddr := { fam := .v4, val := 0x0a000002 },
    localPort := 53, remotePort := 4000, proto := 17, fragment := false }

def verdicts (v0 : Nat) (ops : List Op) : List Verdict :=
  (((Sys.new (fwWith [inboundUdp] v0) 0).run ops).2.map (·.verdict)).reverse

-- a reload with the same rules keeps the flow; a reload that drops the rule forgets it; reverting does not bring
-- it back
example : verdicts 7 [.packet dns true exHost, .reload (fwWith [inboundUdp] 0), .packet dns false exHost]
    = [.pass, .pass] := by decide
example : verdicts 7 [.packet dns true exHost, .reload (fwWith [outboundTcp] 0), .packet dns false exHost,
    .reload (fwWith [inboundUdp] 0), .packet dns false exHost] = [.pass, .noRule, .noRule] := by decide

/-- **F16 (known finding).** At version 65535 the same reload cuts the flow: the conclusion of
`same_rules_keep_partial` fails although every other hypothesis holds. -/
theorem same_rules_keep_full_false :
    verdicts 65535 [.packet dns true exHost, .reload (fwWith [inboundUdp] 0), .packet dns false exHost]
      = [.pass, .noRule] := by decide

-- the hypotheses of `same_rules_keep_partial` are satisfiable: the state after the first packet, version 7
example : (7 + 1) % 65536 ≠ 0 := by decide
example : ∃ c, aget samePkt ((Sys.new (fwWith [inboundUdp] 7) 0).packet dns true exHost).2.ct.conns dns = some c
    ∧ c.expires = 60000000000 ∧ c.incoming = true
    ∧ ((fwWith [inboundUdp] 7).table c.incoming).matches dns c.incoming exHost.peer = true := by
  refine ⟨{ expires := 60000000000, incoming := true, rulesVersion := 7 }, ?_, rfl, rfl, ?_⟩ <;> decide
example : addrCheck (fwWith [inboundUdp] 7).routable exHost.host dns = none := by decide

/-! ### the witness of seeded change C19-5: a tracked flow to an unsafe network the re-issued certificate lost -/

def exMyUnsafe : Cert := { exMy with unsafeNetworks := [{ addr := { fam := .v4, val := 0xc0a80000 }, len := 16 }] }

def inboundAny : Rule := { inboundUdp with proto := 0 }

/-- default_local_cidr_any, one inbound rule without local_cidr: its local side is "any". -/
def fwCert (my : Cert) : Fw := (Fw.new my true 60000000000 60000000000 60000000000).addRules [inboundAny]

def toUnsafe : Packet := { dns with localAddr := { fam := .v4, val := 0xc0a80105 }, localPort := 80, proto := 6 }

def certVerdicts (ops : List Op) : List Verdict :=
  (((Sys.new (fwCert exMyUnsafe) 0).run ops).2.map (·.verdict)).reverse

-- flow to 192.168.1.5 established (inbound rule, reply on conntrack); reload with the certificate without
-- 192.168/16: both directions refused with the local-address error although the entry is still tracked and the
-- rule still matches; re-issuing the network within the timeout revives the flow
example : certVerdicts [.packet toUnsafe true exHost, .packet toUnsafe false exHost, .reload (fwCert exMy),
    .packet toUnsafe true exHost, .packet toUnsafe false exHost, .reload (fwCert exMyUnsafe),
    .packet toUnsafe false exHost] = [.pass, .pass, .invalidLocal, .invalidLocal, .pass] := by decide
example : anyContains (fwCert exMy).routable toUnsafe.localAddr = false := by decide
example : ((fwCert exMy).table true).matches toUnsafe true exHost.peer = true := by decide
example : ∀ op ∈ [Op.packet toUnsafe true exHost, Op.packet toUnsafe false exHost], Op.isReload op = false := by
  simp [Op.isReload]

end Nebula.Props.C19
