import Nebula.Spec.Dns
namespace Nebula.Props.C44
open Nebula.Dns Nebula.Spec.Dns

example : typeA = 1 := rfl

end Nebula.Props.C44
