/-
C44 — The DNS responder answers only from authenticated data.

"A lighthouse's DNS responder answers address queries only with names and addresses taken from
certificates of peers it has completed handshakes with (or its own), matching names
case-insensitively, returns an empty answer for a known name lacking the requested record type and
NXDOMAIN only for unknown names, and returns certificate details only to loopback clients or its own
overlay addresses."  — for all queries, client addresses and handshake histories.

`run me evs` is the responder after an arbitrary history `evs` of completed handshakes, self seedings,
disable/enable reloads, own-certificate renewals (`renew`: possibly under another name and with other
addresses) and tunnel teardowns (`drop`), started with own certificate `me`; `selfAfter me evs` is the
own certificate at the end of the history — answers must come from *that* certificate or from a
handshaked peer's, so the name of a replaced own certificate must stop resolving. The reply is about the first question of the request
(miekg/dns `SetReply` copies only that one): `qs.take 1`.
"Known name" = a name the responder holds an address record for (`nameExists`).
-/
import Nebula.Lemmas.DnsPublished

namespace Nebula.Props.C44
open Nebula.Net Nebula.Dns Nebula.Spec.Dns Nebula.Lemmas.Dns

/-- Every A answer, after any history, carries the name of a question of type A and an IPv4 address
that belongs — under that name, case-insensitively — to the certificate of a peer with a completed
handshake or to the responder's own certificate. -/
theorem a_answers_from_certs (me : Self) (evs : List Ev) (client : Addr) (opcode : Nat)
    (qs : List Question) (name : Name) (addr : Addr)
    (h : Answer.a name addr ∈ (handle (run me evs) client opcode qs).answers) :
    addr.fam = .v4 ∧ authentic (selfAfter me evs) evs name addr = true ∧
      ∃ q ∈ qs.take 1, q.qtype = typeA ∧ q.name = name := by
  have inv := inv_run me evs
  obtain ⟨hget, hq⟩ := handle_answers _ _ _ _ _ h
  obtain ⟨hf, hsrc⟩ := inv.src4 (get_mem hget)
  exact ⟨hf, authentic_of_src hsrc, hq⟩

/-- The same for AAAA answers and IPv6 addresses. -/
theorem aaaa_answers_from_certs (me : Self) (evs : List Ev) (client : Addr) (opcode : Nat)
    (qs : List Question) (name : Name) (addr : Addr)
    (h : Answer.aaaa name addr ∈ (handle (run me evs) client opcode qs).answers) :
    addr.fam = .v6 ∧ authentic (selfAfter me evs) evs name addr = true ∧
      ∃ q ∈ qs.take 1, q.qtype = typeAAAA ∧ q.name = name := by
  have inv := inv_run me evs
  obtain ⟨hget, hq⟩ := handle_answers _ _ _ _ _ h
  obtain ⟨hf, hsrc⟩ := inv.src6 (get_mem hget)
  exact ⟨hf, authentic_of_src hsrc, hq⟩

/-- Certificate details (TXT answers) are returned only to loopback clients or the node's own overlay
addresses, only for a TXT question whose name is an address, and the certificate is the responder's
own or that of a handshaked peer owning that address. -/
theorem txt_only_local (me : Self) (evs : List Ev) (client : Addr) (opcode : Nat)
    (qs : List Question) (name : Name) (c : CertId)
    (h : Answer.txt name c ∈ (handle (run me evs) client opcode qs).answers) :
    isLocal (selfAfter me evs) client = true ∧
      ∃ q ∈ qs.take 1, q.qtype = typeTXT ∧ q.name = name ∧
        ∃ ip, q.parsed = some ip ∧ certOwns (selfAfter me evs) evs ip c = true := by
  have inv := inv_run me evs
  obtain ⟨hloc, q, hq, ht, hn, hc⟩ := handle_answers _ _ _ _ _ h
  rw [isLocal_eq, inv.self_eq] at hloc
  exact ⟨hloc, q, hq, ht, hn, queryCert_owns inv hc⟩

/-- A client that is neither loopback nor one of our overlay addresses never receives a TXT answer. -/
theorem remote_client_no_txt (me : Self) (evs : List Ev) (client : Addr) (opcode : Nat)
    (qs : List Question) (hremote : isLocal (selfAfter me evs) client = false) (name : Name) (c : CertId) :
    Answer.txt name c ∉ (handle (run me evs) client opcode qs).answers := by
  intro h
  have := (txt_only_local me evs client opcode qs name c h).1
  rw [hremote] at this
  exact absurd this (by decide)

/-- NXDOMAIN only for unknown names (any state): a name-error reply has no answers and the name asked
has no address record at all. -/
theorem nxdomain_only_unknown (s : St) (client : Addr) (opcode : Nat) (qs : List Question)
    (h : (handle s client opcode qs).rcode = rcodeNameError) :
    (handle s client opcode qs).answers = [] ∧ ∀ q ∈ qs.take 1, nameExists s q.name = false := by
  unfold handle at h ⊢
  split at h
  · rename_i hop
    simp only [hop, if_true]
    simp only [parseQuery] at h ⊢
    split at h
    · rename_i hc
      simp only [hc, if_true]
      simp only [Bool.and_eq_true, Bool.not_eq_true', List.isEmpty_iff] at hc
      obtain ⟨⟨h1, h2⟩, h3⟩ := hc
      refine ⟨h2, ?_⟩
      have := parseLoop_noname s client (qs.take 1) [] false (by
        rw [Prod.ext_iff]; exact ⟨h3, h1⟩)
      exact this.2
    · simp [rcodeSuccess, rcodeNameError] at h
  · simp [rcodeSuccess, rcodeNameError] at h

/-- … hence a known name is never answered with NXDOMAIN, whatever the question type (this is the
statement that failed before fix F07 for every type other than A/AAAA). -/
theorem known_name_noerror (s : St) (client : Addr) (opcode : Nat) (q : Question) (rest : List Question)
    (hk : nameExists s q.name = true) :
    (handle s client opcode (q :: rest)).rcode = rcodeSuccess := by
  have h2 : ∀ r : Resp, r = handle s client opcode (q :: rest) → r.rcode = rcodeSuccess := by
    intro r hr
    have hcases : r.rcode = rcodeSuccess ∨ r.rcode = rcodeNameError := by
      subst hr
      unfold handle
      split
      · simp only [parseQuery]; split <;> simp
      · simp
    rcases hcases with h | h
    · exact h
    · subst hr
      have := (nxdomain_only_unknown s client opcode (q :: rest) h).2 q (by simp)
      rw [hk] at this
      exact absurd this (by decide)
  exact h2 _ rfl

/-- A name lacking the requested address record gets an empty answer section. -/
theorem no_record_empty_answer (s : St) (client : Addr) (q : Question) (rest : List Question)
    (hty : q.qtype = typeA ∨ q.qtype = typeAAAA) (hnone : (query s q.qtype q.name).1 = none) :
    (handle s client 0 (q :: rest)).answers = [] := by
  simp [handle, parseQuery_answers, parseLoop, hty, hnone]

/-- … and so does any question of a type other than A, AAAA and TXT. -/
theorem other_type_empty_answer (s : St) (client : Addr) (q : Question) (rest : List Question)
    (h1 : q.qtype ≠ typeA) (h2 : q.qtype ≠ typeAAAA) (h3 : q.qtype ≠ typeTXT) :
    (handle s client 0 (q :: rest)).answers = [] := by
  simp [handle, parseQuery_answers, parseLoop, h1, h2, h3]

/-- Names are matched case-insensitively: two spellings with the same lower-case form get the same
lookup result for every record type. -/
theorem case_insensitive (s : St) (qtype : Nat) (n n' : Name) (h : lower n = lower n') :
    query s qtype n = query s qtype n' := by
  unfold query
  simp only [h]

/-- Requests with an opcode other than QUERY are answered empty. -/
theorem other_opcode_empty (s : St) (client : Addr) (opcode : Nat) (qs : List Question) (h : opcode ≠ 0) :
    handle s client opcode qs = { rcode := rcodeSuccess, answers := [] } := by
  simp [handle, h]

/-- History-level NXDOMAIN clause: a name-error reply is given only when the asked name is not a known
name, i.e. not the (case-insensitive) FQDN of a certificate seen in a handshake since DNS was last
disabled, nor the responder's own. -/
theorem nxdomain_only_unknown_names (me : Self) (evs : List Ev) (client : Addr) (opcode : Nat)
    (qs : List Question) (h : (handle (run me evs) client opcode qs).rcode = rcodeNameError) :
    ∀ q ∈ qs.take 1, known me evs q.name = false := by
  intro q hq
  rw [known_eq_nameExists]
  exact (nxdomain_only_unknown _ client opcode qs h).2 q hq

/-- A known name — whatever the question type — is answered NOERROR (NODATA when it lacks the type). -/
theorem known_name_nodata (me : Self) (evs : List Ev) (client : Addr) (opcode : Nat)
    (q : Question) (rest : List Question) (hk : known me evs q.name = true) :
    (handle (run me evs) client opcode (q :: rest)).rcode = rcodeSuccess :=
  known_name_noerror _ client opcode q rest (by rw [← known_eq_nameExists]; exact hk)

/-- The model's reply passes the complete property oracle of the correspondence driver
(`Spec.Dns.respViolation`) after every history, for every client and request. -/
theorem model_satisfies_oracle (me : Self) (evs : List Ev) (client : Addr) (opcode : Nat) (qs : List Question) :
    respViolation me evs client (qs.take 1) (handle (run me evs) client opcode qs) = none := by
  have hall : ∀ a ∈ (handle (run me evs) client opcode qs).answers,
      answerOK (selfAfter me evs) evs client (qs.take 1) a = true := by
    intro a ha
    cases a with
    | a name addr =>
      obtain ⟨h1, h2, q, hq, h3, h4⟩ := a_answers_from_certs me evs client opcode qs name addr ha
      simp only [answerOK, h1, h2, Bool.and_true, Bool.true_and]
      exact Bool.and_eq_true_iff.mpr ⟨by decide, List.any_eq_true.mpr ⟨q, hq, by simp [h3, h4]⟩⟩
    | aaaa name addr =>
      obtain ⟨h1, h2, q, hq, h3, h4⟩ := aaaa_answers_from_certs me evs client opcode qs name addr ha
      simp only [answerOK, h1, h2, Bool.and_true, Bool.true_and]
      exact Bool.and_eq_true_iff.mpr ⟨by decide, List.any_eq_true.mpr ⟨q, hq, by simp [h3, h4]⟩⟩
    | txt name c =>
      obtain ⟨h1, q, hq, h3, h4, ip, h5, h6⟩ := txt_only_local me evs client opcode qs name c ha
      simp only [answerOK, h1, Bool.true_and]
      exact List.any_eq_true.mpr ⟨q, hq, by simp [h3, h4, h5, h6]⟩
  have hfind : (handle (run me evs) client opcode qs).answers.find?
      (fun a => !answerOK (selfAfter me evs) evs client (qs.take 1) a) = none := by
    rw [List.find?_eq_none]
    intro a ha
    simp [hall a ha]
  unfold respViolation
  simp only []
  rw [hfind]
  simp only
  by_cases hrc : (handle (run me evs) client opcode qs).rcode = rcodeNameError
  · have hnx := nxdomain_only_unknown _ client opcode qs hrc
    have hkn := nxdomain_only_unknown_names me evs client opcode qs hrc
    have hq : (qs.take 1).find? (fun q => known me evs q.name) = none := by
      rw [List.find?_eq_none]; intro q hq; simp [hkn q hq]
    simp [hrc, hnx.1, hq]
  · have h0 : (handle (run me evs) client opcode qs).rcode = rcodeSuccess := by
      unfold handle at hrc ⊢
      split
      · rename_i hop
        simp only [hop, if_true, parseQuery] at hrc ⊢
        split
        · rename_i hc; simp only [hc, if_true] at hrc; exact absurd trivial hrc
        · rfl
      · rfl
    have hne : ((handle (run me evs) client opcode qs).rcode == rcodeNameError) = false := by
      rw [h0]; decide
    have hd : ¬ (rcodeSuccess = rcodeNameError) := by decide
    simp [h0, hd]

/-! ### Whole messages: `parseQuery` over *all* questions of a message

Through `handleDnsRequest` only the first question reaches `parseQuery` (miekg `SetReply`), but
`parseQuery` itself walks every question of the message it is given, accumulating answers and the
"some name is known" flag; the property is stated for multi-question messages, so the theorems are
proved for arbitrary question lists `qs` (the `handle` theorems above are the case `qs.take 1`). -/

theorem parseQuery_answers_ok (s : St) (client : Addr) (qs : List Question) (a : Answer)
    (h : a ∈ (parseQuery s client qs).answers) : AnsOK s client qs a := by
  rw [parseQuery_answers] at h
  exact parseLoop_answers s client qs qs [] false (fun _ h => h) (fun _ h => by simp at h) a h

/-- Every A answer to a message, after any history, belongs to one of its A questions and carries an
IPv4 address authentic for that name. -/
theorem pq_a_answers_from_certs (me : Self) (evs : List Ev) (client : Addr) (qs : List Question)
    (name : Name) (addr : Addr) (h : Answer.a name addr ∈ (parseQuery (run me evs) client qs).answers) :
    addr.fam = .v4 ∧ authentic (selfAfter me evs) evs name addr = true ∧
      ∃ q ∈ qs, q.qtype = typeA ∧ q.name = name := by
  have inv := inv_run me evs
  obtain ⟨hget, hq⟩ := parseQuery_answers_ok _ _ _ _ h
  obtain ⟨hf, hsrc⟩ := inv.src4 (get_mem hget)
  exact ⟨hf, authentic_of_src hsrc, hq⟩

theorem pq_aaaa_answers_from_certs (me : Self) (evs : List Ev) (client : Addr) (qs : List Question)
    (name : Name) (addr : Addr) (h : Answer.aaaa name addr ∈ (parseQuery (run me evs) client qs).answers) :
    addr.fam = .v6 ∧ authentic (selfAfter me evs) evs name addr = true ∧
      ∃ q ∈ qs, q.qtype = typeAAAA ∧ q.name = name := by
  have inv := inv_run me evs
  obtain ⟨hget, hq⟩ := parseQuery_answers_ok _ _ _ _ h
  obtain ⟨hf, hsrc⟩ := inv.src6 (get_mem hget)
  exact ⟨hf, authentic_of_src hsrc, hq⟩

/-- Every TXT answer to a message goes to a local client, belongs to one of its TXT questions, and
carries the certificate of the owner of the address asked for. -/
theorem pq_txt_only_local (me : Self) (evs : List Ev) (client : Addr) (qs : List Question)
    (name : Name) (c : CertId) (h : Answer.txt name c ∈ (parseQuery (run me evs) client qs).answers) :
    isLocal (selfAfter me evs) client = true ∧
      ∃ q ∈ qs, q.qtype = typeTXT ∧ q.name = name ∧
        ∃ ip, q.parsed = some ip ∧ certOwns (selfAfter me evs) evs ip c = true := by
  have inv := inv_run me evs
  obtain ⟨hloc, q, hq, ht, hn, hc⟩ := parseQuery_answers_ok _ _ _ _ h
  rw [isLocal_eq, inv.self_eq] at hloc
  exact ⟨hloc, q, hq, ht, hn, queryCert_owns inv hc⟩

/-- the reply code of `parseQuery` is NOERROR or NXDOMAIN. -/
theorem pq_rcode_cases (s : St) (client : Addr) (qs : List Question) :
    (parseQuery s client qs).rcode = rcodeSuccess ∨ (parseQuery s client qs).rcode = rcodeNameError := by
  simp only [parseQuery]; split <;> simp

/-- NXDOMAIN only if *no* question of the message names a known name (and then the answer is empty),
in whatever order the questions come and whatever their types. -/
theorem pq_nxdomain_only_unknown (s : St) (client : Addr) (qs : List Question)
    (h : (parseQuery s client qs).rcode = rcodeNameError) :
    (parseQuery s client qs).answers = [] ∧ ∀ q ∈ qs, nameExists s q.name = false := by
  simp only [parseQuery] at h ⊢
  split at h
  · rename_i hc
    simp only [hc, if_true]
    simp only [Bool.and_eq_true, Bool.not_eq_true', List.isEmpty_iff] at hc
    obtain ⟨⟨h1, h2⟩, h3⟩ := hc
    refine ⟨h2, ?_⟩
    have := parseLoop_noname s client qs [] false (by rw [Prod.ext_iff]; exact ⟨h3, h1⟩)
    exact this.2
  · simp [rcodeSuccess, rcodeNameError] at h

/-- … hence one known name anywhere in the message keeps the reply NOERROR (NODATA if nothing is
answered). This is the statement the seeded change C44-2 breaks (a later TXT/other-type question
for an unknown name overwrote the flag). -/
theorem pq_known_name_noerror (s : St) (client : Addr) (qs : List Question) (q : Question) (hq : q ∈ qs)
    (hk : nameExists s q.name = true) : (parseQuery s client qs).rcode = rcodeSuccess := by
  rcases pq_rcode_cases s client qs with h | h
  · exact h
  · have := (pq_nxdomain_only_unknown s client qs h).2 q hq
    rw [hk] at this; cases this

/-- the same at history level ("known" = FQDN of a certificate seen in a handshake since DNS was last
disabled, or of the current own certificate). -/
theorem pq_nxdomain_only_unknown_names (me : Self) (evs : List Ev) (client : Addr) (qs : List Question)
    (h : (parseQuery (run me evs) client qs).rcode = rcodeNameError) :
    ∀ q ∈ qs, known me evs q.name = false := by
  intro q hq
  rw [known_eq_nameExists]
  exact (pq_nxdomain_only_unknown _ client qs h).2 q hq

theorem pq_known_name_nodata (me : Self) (evs : List Ev) (client : Addr) (qs : List Question) (q : Question)
    (hq : q ∈ qs) (hk : known me evs q.name = true) :
    (parseQuery (run me evs) client qs).rcode = rcodeSuccess :=
  pq_known_name_noerror _ client qs q hq (by rw [← known_eq_nameExists]; exact hk)

/-- The model's reply to a whole message passes the complete property oracle of the correspondence
driver after every history. -/
theorem pq_satisfies_oracle (me : Self) (evs : List Ev) (client : Addr) (qs : List Question) :
    respViolation me evs client qs (parseQuery (run me evs) client qs) = none := by
  have hall : ∀ a ∈ (parseQuery (run me evs) client qs).answers,
      answerOK (selfAfter me evs) evs client qs a = true := by
    intro a ha
    cases a with
    | a name addr =>
      obtain ⟨h1, h2, q, hq, h3, h4⟩ := pq_a_answers_from_certs me evs client qs name addr ha
      simp only [answerOK, h1, h2, Bool.and_true, Bool.true_and]
      exact Bool.and_eq_true_iff.mpr ⟨by decide, List.any_eq_true.mpr ⟨q, hq, by simp [h3, h4]⟩⟩
    | aaaa name addr =>
      obtain ⟨h1, h2, q, hq, h3, h4⟩ := pq_aaaa_answers_from_certs me evs client qs name addr ha
      simp only [answerOK, h1, h2, Bool.and_true, Bool.true_and]
      exact Bool.and_eq_true_iff.mpr ⟨by decide, List.any_eq_true.mpr ⟨q, hq, by simp [h3, h4]⟩⟩
    | txt name c =>
      obtain ⟨h1, q, hq, h3, h4, ip, h5, h6⟩ := pq_txt_only_local me evs client qs name c ha
      simp only [answerOK, h1, Bool.true_and]
      exact List.any_eq_true.mpr ⟨q, hq, by simp [h3, h4, h5, h6]⟩
  have hfind : (parseQuery (run me evs) client qs).answers.find?
      (fun a => !answerOK (selfAfter me evs) evs client qs a) = none := by
    rw [List.find?_eq_none]
    intro a ha
    simp [hall a ha]
  unfold respViolation
  simp only []
  rw [hfind]
  simp only
  rcases pq_rcode_cases (run me evs) client qs with h0 | hrc
  · have hd : ¬ (rcodeSuccess = rcodeNameError) := by decide
    simp [h0, hd]
  · have hnx := pq_nxdomain_only_unknown _ client qs hrc
    have hkn := pq_nxdomain_only_unknown_names me evs client qs hrc
    have hq : qs.find? (fun q => known me evs q.name) = none := by
      rw [List.find?_eq_none]; intro q hq; simp [hkn q hq]
    simp [hrc, hnx.1, hq]

/-- Renaming the own certificate withdraws the previously seeded own name: after a `renew` under a
different name on an enabled responder, the old own name has no record at all (unless … nothing: even
a peer's record under that name is dropped). This is the statement the seeded change C44-1 breaks. -/
theorem renamed_own_name_withdrawn (s : St) (n : Name) (as : List Addr) (hen : s.enabled = true)
    (hold : s.selfHost ≠ []) (hdiff : s.selfHost ≠ lower n ++ ['.']) :
    hasKey (apply s (.renew n as)).map4 s.selfHost = false ∧
    hasKey (apply s (.renew n as)).map6 s.selfHost = false := by
  have hst : (s.selfHost != [] && s.selfHost != lower n ++ ['.']) = true := by simp [hold, hdiff]
  simp only [apply, seedSelf, hen, Bool.not_true, Bool.false_eq_true, if_false, hst, if_true]
  have k := addLoop_keys (lower n ++ ['.']) as false false
    ((s.map4.del s.selfHost).del (lower n ++ ['.'])) ((s.map6.del s.selfHost).del (lower n ++ ['.'])) s.selfHost
  have d4 : hasKey ((s.map4.del s.selfHost).del (lower n ++ ['.'])) s.selfHost = false := by
    rw [hasKey_del, hasKey_del]; simp
  have d6 : hasKey ((s.map6.del s.selfHost).del (lower n ++ ['.'])) s.selfHost = false := by
    rw [hasKey_del, hasKey_del]; simp
  constructor
  · cases h : hasKey (addLoop (lower n ++ ['.']) as false false ((s.map4.del s.selfHost).del (lower n ++ ['.']))
        ((s.map6.del s.selfHost).del (lower n ++ ['.']))).1 s.selfHost
    · rfl
    · rcases k.1 h with h' | h'
      · rw [d4] at h'; cases h'
      · exact absurd h' hdiff
  · cases h : hasKey (addLoop (lower n ++ ['.']) as false false ((s.map4.del s.selfHost).del (lower n ++ ['.']))
        ((s.map6.del s.selfHost).del (lower n ++ ['.']))).2 s.selfHost
    · rfl
    · rcases k.2.1 h with h' | h'
      · rw [d6] at h'; cases h'
      · exact absurd h' hdiff

/-- While DNS is disabled the responder holds no record (so every address question is NXDOMAIN). -/
theorem disabled_holds_nothing (me : Self) (evs : List Ev) (h : (run me evs).enabled = false) :
    (run me evs).map4 = [] ∧ (run me evs).map6 = [] :=
  (inv_run me evs).off h

/-! Non-vacuity: a concrete history in which every kind of reply occurs. -/

def exSelf : Self := some (['L', 'H'], [{ fam := .v4, val := 0x0a000001 }])
def exEvs : List Ev := [.seed, .hs 1 ['H', 'o', 's', 't', '1'] [{ fam := .v4, val := 0x0a000005 }, { fam := .v6, val := 5 }]]
def loop4 : Addr := { fam := .v4, val := 0x7f000001 }
def remote4 : Addr := { fam := .v4, val := 0x08080808 }

-- an A answer from a handshake certificate, name matched case-insensitively
example : handle (run exSelf exEvs) remote4 0 [{ qtype := 1, name := ['h', 'O', 'S', 'T', '1', '.'], parsed := none }] =
    { rcode := 0, answers := [.a ['h', 'O', 'S', 'T', '1', '.'] { fam := .v4, val := 0x0a000005 }] } := by decide +kernel
-- MX for a known name: NODATA (was NXDOMAIN before F07)
example : handle (run exSelf exEvs) remote4 0 [{ qtype := 15, name := ['h', 'o', 's', 't', '1', '.'], parsed := none }] =
    { rcode := 0, answers := [] } := by decide +kernel
-- unknown name: NXDOMAIN
example : handle (run exSelf exEvs) remote4 0 [{ qtype := 1, name := ['n', 'o', 'p', 'e', '.'], parsed := none }] =
    { rcode := 3, answers := [] } := by decide +kernel
-- TXT to a loopback client: the peer's certificate; to a remote client: nothing
example : handle (run exSelf exEvs) loop4 0
      [{ qtype := 16, name := ['1', '0', '.', '0', '.', '0', '.', '5', '.'], parsed := some { fam := .v4, val := 0x0a000005 } }] =
    { rcode := 0, answers := [.txt ['1', '0', '.', '0', '.', '0', '.', '5', '.'] (.peer 1)] } := by decide +kernel
example : handle (run exSelf exEvs) remote4 0
      [{ qtype := 16, name := ['1', '0', '.', '0', '.', '0', '.', '5', '.'], parsed := some { fam := .v4, val := 0x0a000005 } }] =
    { rcode := 0, answers := [] } := by decide +kernel
example : isLocal exSelf remote4 = false ∧ isLocal exSelf loop4 = true := by decide +kernel
example : nameExists (run exSelf exEvs) ['H', 'O', 'S', 'T', '1', '.'] = true ∧ nameExists (run exSelf exEvs) ['l', 'h', '.'] = true := by
  decide +kernel

-- certificate renewal under another name: the new name resolves, the old one is NXDOMAIN again
def exRenamed : List Ev := exEvs ++ [.renew ['l', 'h', '2'] [{ fam := .v4, val := 0x0a000001 }]]
example : handle (run exSelf exRenamed) remote4 0 [{ qtype := 1, name := ['L', 'H', '2', '.'], parsed := none }] =
    { rcode := 0, answers := [.a ['L', 'H', '2', '.'] { fam := .v4, val := 0x0a000001 }] } := by decide +kernel
example : handle (run exSelf exRenamed) remote4 0 [{ qtype := 1, name := ['l', 'h', '.'], parsed := none }] =
    { rcode := 3, answers := [] } := by decide +kernel
example : known exSelf exRenamed ['l', 'h', '.'] = false ∧ known exSelf exEvs ['l', 'h', '.'] = true ∧
    formerOwnNames exSelf exRenamed = [['l', 'h', '.']] := by decide +kernel

-- whole messages: a known name lacking the type keeps NOERROR whatever follows or precedes it (C44-2)
example : parseQuery (run exSelf exEvs) remote4
      [{ qtype := 15, name := ['h', 'o', 's', 't', '1', '.'], parsed := none },
       { qtype := 15, name := ['n', 'o', 'p', 'e', '.'], parsed := none }] = { rcode := 0, answers := [] } := by
  decide +kernel
example : parseQuery (run exSelf exEvs) remote4
      [{ qtype := 33, name := ['n', 'o', 'p', 'e', '.'], parsed := none },
       { qtype := 15, name := ['n', 'o', 'b', 'o', 'd', 'y', '.'], parsed := none }] = { rcode := 3, answers := [] } := by
  decide +kernel
example : parseQuery (run exSelf exEvs) remote4
      [{ qtype := 1, name := ['h', 'o', 's', 't', '1', '.'], parsed := none },
       { qtype := 28, name := ['H', 'O', 'S', 'T', '1', '.'], parsed := none }] =
    { rcode := 0, answers := [.a ['h', 'o', 's', 't', '1', '.'] { fam := .v4, val := 0x0a000005 },
                              .aaaa ['H', 'O', 'S', 'T', '1', '.'] { fam := .v6, val := 5 }] } := by decide +kernel

end Nebula.Props.C44
