/-
C22 — Firewall configuration parses exactly.

"A firewall rule list loads only if every rule names a known protocol, a valid port, range, 'any' or 'fragment',
and at least one selector, and the loaded rules admit exactly the packets the configuration text describes. Port
text outside 0-65535, non-decimal, or malformed ranges is rejected rather than reinterpreted."

Model (Model/FwConfig.lean): `convertRule` (with the guards of the F18 fix), `parsePort`, `parsePortValue`
(`strconv.ParseUint(s, 10, 16)` as its digit loop), the loop of `AddFirewallRulesFromConfig` with every guard in
source order, feeding `Firewall.AddRule` of C16's model. `netip.ParsePrefix` is an oracle parameter `pp`.
Specification (Spec/FwConfig.lean): `portText` — what a port text says (`any`, `fragment`, a decimal numeral
≤ 65535 by its ordinary unbounded value, or `a-b`) —, `PortText.admits` — the ports it describes —, `ruleLoads`.

Reading of "0-5" (F21): 0 is the documented wildcard ("Takes `0` or `any` as any"), so a range that contains 0
describes every port; `parsePort` collapses it to `any`, and `zero_range_collapse_harmless` shows that feeding
the literal bounds (0, b) to `AddRule` would admit exactly the same packets. Under the stricter reading "`0-5`
means ports 0…5 only" the text would be reinterpreted: `port_bounds_literal_partial` / `zero_range_is_collapsed`
state exactly where the returned bounds differ from the literal ones.

Before the fix `fix: firewall rules with a malformed group or groups value are refused instead of panicking`
`convertRule_total` was false on the code (finding F18: `group: []`, `groups: [1, 2]`, `groups:` null).
-/
import Nebula.Lemmas.FwConfig

namespace Nebula.Props.C22
open Nebula.Net Nebula.Fw Nebula.FwCfg Nebula.Spec.FwCfg Nebula.Lemmas.FwCfg

/-- **Load refuses, never crashes.** For every configuration value of any shape, `convertRule` never reaches an
unguarded `v[0]`, a failed `.(string)` or `reflect.TypeOf(nil).Kind()`: it answers with a rule or an error. -/
theorem convertRule_total (y : Y) :
    (∃ r, convertRule y = .ok r) ∨ (∃ e, convertRule y = .error e ∧ e.isPanic = false) := by
  cases h : convertRule y with
  | ok r => exact Or.inl ⟨r, rfl⟩
  | error e => exact Or.inr ⟨e, rfl, convertRule_no_panic y e h⟩

/-- … and so does the whole loader, for every value of `firewall.inbound` / `firewall.outbound`. -/
theorem load_total (pp : String → Option Prefix) (inbound : Bool) (v : Option Y) (fw : Fw) (e : ConvErr)
    (h : (addRulesFromConfig pp inbound v fw).1 = some (.convert e)) : e.isPanic = false := by
  unfold addRulesFromConfig at h
  split at h
  · cases h
  · cases h
  · rename_i rs
    induction rs generalizing fw with
    | nil => simp [loadList] at h
    | cons t ts ih =>
      simp only [loadList] at h
      cases hc : convertRule t with
      | error e' =>
        simp only [hc, Option.some.injEq, LoadErr.convert.injEq] at h
        rw [← h]; exact convertRule_no_panic t e' hc
      | ok cr =>
        simp only [hc] at h
        cases hr : ruleOfConfig pp inbound cr with
        | error e' =>
          simp only [hr, Option.some.injEq] at h
          rw [h] at hr
          exact absurd hr (ruleOfConfig_not_convert pp inbound cr e)
        | ok r =>
          simp only [hr] at h
          cases ha : fw.addRule r with
          | error e' => simp [ha] at h
          | ok fw1 => simp only [ha] at h; exact ih fw1 h
  · cases h

/-- **port_exact.** `parsePort` accepts a text iff it is a valid port text, and then the loaded bounds admit
exactly the ports the text describes — for every string. (Negative, > 65535, signed, non-decimal, non-ASCII
digits, blanks inside a single number, empty range sides: all rejected, because `portText` is `none` for them.) -/
theorem port_exact (s : String) :
    (∀ a b, parsePort s = .ok (a, b) →
        ∃ t, portText s = some t ∧ ∀ x, rangeAdmits a b x = t.admits x)
    ∧ ((∃ e, parsePort s = .error e) ↔ portText s = none) := by
  constructor
  · intro a b h
    obtain ⟨t, ht, hb⟩ := (parsePort_ok s a b).1 h
    refine ⟨t, ht, fun x => ?_⟩
    have h1 : a = (loadedBounds t).1 := by rw [← hb]
    have h2 : b = (loadedBounds t).2 := by rw [← hb]
    rw [h1, h2]; exact bounds_admit t x
  · constructor
    · rintro ⟨e, he⟩
      cases ht : portText s with
      | none => rfl
      | some t =>
        have := (parsePort_ok s (loadedBounds t).1 (loadedBounds t).2).2 ⟨t, ht, rfl⟩
        rw [he] at this; cases this
    · intro hn
      cases hp : parsePort s with
      | error e => exact ⟨e, rfl⟩
      | ok ab =>
        obtain ⟨t, ht, _⟩ := (parsePort_ok s ab.1 ab.2).1 hp
        rw [hn] at ht; cases ht

/-- A port numeral is its ordinary decimal value: `parsePortValue` (the `ParseUint(s, 10, 16)` loop with its early
range exit) accepts exactly the non-empty ASCII digit strings whose unbounded decimal value is ≤ 65535, and returns
that value. -/
theorem port_value_exact (s : List Char) (v : Nat) :
    parsePortValue s = .ok v ↔ (decimalValue s = some v ∧ v ≤ 65535) := by
  rw [parsePortValue_ok]
  unfold portNumeral
  cases decimalValue s with
  | none => simp
  | some n =>
    by_cases hn : n ≤ 65535
    · simp only [hn, if_true, Option.some.injEq]
      constructor
      · intro h; subst h; exact ⟨rfl, hn⟩
      · intro h; exact h.1
    · simp only [hn, if_false, reduceCtorEq, Option.some.injEq, false_iff, not_and]
      intro h; subst h; exact hn

/-- Stricter reading, partial: except for a range whose first number is 0, the bounds handed to `AddRule` are
literally the numbers in the text. -/
theorem port_bounds_literal_partial (s : String) (a b : Int) (t : PortText)
    (hp : parsePort s = .ok (a, b)) (ht : portText s = some t) (hz : t.zeroRange = false) :
    (a, b) = t.bounds := by
  obtain ⟨t', ht', hb⟩ := (parsePort_ok s a b).1 hp
  rw [ht] at ht'; cases ht'
  simpa [loadedBounds, hz] using hb

/-- F21 as observed: "0-5" is loaded as (0, 0) … -/
theorem zero_range_is_collapsed :
    (parsePort "0-5").toOption = some (0, 0) ∧ portText "0-5" = some (.range 0 5) := by
  decide

/-- … which admits the same packets as the literal bounds would: for every end `b ≥ 0` and every port number. -/
theorem zero_range_collapse_harmless (b x : Int) (hb : 0 ≤ b) : rangeAdmits 0 b x = rangeAdmits 0 0 x := by
  simp only [rangeAdmits]
  rw [Bool.eq_iff_iff]; simp; omega

/-- **loads_iff.** A converted rule gets through every guard of `AddFirewallRulesFromConfig` and `AddRule` iff
the specification's flat conjunction holds: known protocol, valid port text (not reversed), not both `port` and
`code`, at least one selector, `cidr` / `local_cidr` empty, `any` or parsing. -/
theorem loads_iff (pp : String → Option Prefix) (inbound : Bool) (cr : CRule) :
    (∃ r, ruleOfConfig pp inbound cr = .ok r ∧ Spec.Fw.ruleValid r = true) ↔ ruleLoads pp cr = true :=
  Nebula.Lemmas.FwCfg.loads_iff pp inbound cr

/-- **The loaded rules admit exactly the packets the configuration describes** (composition with C16): when a
rule list loads, the firewall is the old one plus `AddRule` of the described rules, so its tables answer as the
flat specification over those rules — for every packet, peer and direction. -/
theorem loaded_table_eq_described (pp : String → Option Prefix) (inbound : Bool) (ys : List Y) (fw fw' : Fw)
    (h : addRulesFromConfig pp inbound (some (.list ys)) fw = (none, fw')) :
    ∃ rules, describedRules pp inbound ys = some rules
      ∧ (∀ r ∈ rules, Spec.Fw.ruleValid r = true)
      ∧ ∀ p incoming pr, (fw'.table incoming).matches p incoming pr
          = ((fw.table incoming).matches p incoming pr || Spec.Fw.allow fw.cfg rules p incoming pr) := by
  obtain ⟨rules, hd, hf, hv⟩ := loadList_ok pp inbound ys fw fw' h
  refine ⟨rules, hd, hv, fun p incoming pr => ?_⟩
  rw [hf]; exact Nebula.Lemmas.Fw.addRules_table fw rules p incoming pr

/-! ### non-vacuity -/

example : (parsePort "443").toOption = some (443, 443) := by decide
example : (parsePort " 200 - 901 ").toOption = some (200, 901) := by decide
example : errOf (parsePort "65536") = some .range := by decide
example : errOf (parsePort "+80") = some .nan := by decide
example : errOf (parsePort "1-") = some .rangeFmt := by decide
example : portText "65536" = none ∧ portText "+80" = none ∧ portText "8 0" = none ∧ portText "0x50" = none := by decide
-- F18 inputs are refused by the model of the fixed code
example : errOf (convertRule (.map [("group", .list [])])) = some .groupEmpty := by decide
example : errOf (convertRule (.map [("groups", .list [.int 1, .int 2])])) = some .groupsElem := by decide
example : errOf (convertRule (.map [("groups", .null)])) = some .groupsNil := by decide
-- a rule that loads, and `ruleLoads` agrees
example : ruleLoads (fun _ => none)
    { port := "443", code := "", proto := "tcp", host := "web", groups := [], cidr := "", localCidr := "",
      caName := "", caSha := "" } = true := by decide

end Nebula.Props.C22
