import Nebula.Spec.FwConfig
namespace Nebula.Props.C22
theorem placeholder : True := trivial
end Nebula.Props.C22
