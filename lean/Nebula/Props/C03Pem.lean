/-
C03 — Every issued certificate decodes back to itself: the PEM encoding.

`Model/CertPem.lean` puts the PEM armour inside the model: `cert/pem.go` (`UnmarshalCertificateFromPEM`,
`unmarshalCertificateBlock`, `MarshalPEM`) over a statement-by-statement model of encoding/pem (`Decode` with its retry
loop, header loop and signed index arithmetic; `Encode` with the 64-column line breaker) and of encoding/base64. Proved
here, for all inputs, with no codec or base64 hypothesis:

 * `base64_roundtrip`, `base64_roundtrip_wrapped` — decode ∘ encode = id for every byte string, also through the line
   breaker (any starting column);
 * `pem_decode_encode` — `pem.Decode (pem.EncodeToMemory {Type, Bytes}) ++ rest) = ({Type, no headers, Bytes}, rest)` for every
   block type without LF, `-`, `:` (`banners_type_ok`: all twelve regenerated nebula banners), every payload, every
   trailing input;
 * `banner_kind_injective`, `kindOf_banner` — the banner → kind table is injective: no two block kinds share a banner,
   a v2 certificate block is never read by the v1 decoder and no key block is read as a certificate
   (`cert_block_dispatch`, `key_banner_is_not_a_certificate`);
 * `unmarshalPEM_marshalPEM_v2 / _v1` — composition with `roundtrip_v2 / _v1` (Props/C03): for every certificate of the
   shape predicates `V2OK` / `V1OK`, `UnmarshalCertificateFromPEM (MarshalPEM c ++ rest) = (c, rest)`: the same
   certificate (hence the same fingerprint preimage), and the trailing data untouched;
 * `bundle_reads_in_order` — a concatenation of PEM certificates is read back one certificate after the other, in order
   (how `NewCAPoolFromPEM` reads CA bundles);
 * `issued_v2_pem_roundtrip` — what `SignWith` issues reads back from its PEM text (no size hypothesis);
 * `no_block_returns_input`, `pem_decode_total` — on failure the whole input is the rest; no panic outcome is reachable
   from the block the encoder writes.
-/
import Nebula.Lemmas.CertPemRT
import Nebula.Props.C03

namespace Nebula.Props.C03Pem
open Nebula.Net Nebula.Cert Nebula.CertPem Nebula.Lemmas.CertPemB64 Nebula.Lemmas.CertPemRT Nebula.Lemmas.CertSign

/-- **base64**: `StdEncoding.Decode (StdEncoding.Encode b) = b` for every byte string. -/
theorem base64_roundtrip (b : Bytes) : b64Dec (b64Enc b) = some b := by
  unfold b64Dec
  rw [List.filter_eq_self.mpr]
  · exact b64DecQ_enc b
  · intro c hc
    obtain ⟨h1, h2, -⟩ := b64Enc_plain b c hc
    simp [notCRLF, h1, h2]

/-- … and through encoding/pem's 64-column line breaker, from any column. -/
theorem base64_roundtrip_wrapped (b : Bytes) (col : Nat) : b64Dec (wrapGo col (b64Enc b)) = some b :=
  b64Dec_wrap b col

/-- **`pem.Decode ∘ pem.Encode`**, with trailing input: the type, no headers, the payload; the rest is exactly what
followed the block. -/
theorem pem_decode_encode (ty b rest : Bytes) (hty : TypeOK ty) :
    pemDecode (pemEncode ty b ++ rest) = .block ⟨ty, false, b⟩ rest :=
  pemDecode_pemEncode ty b rest hty

/-- every banner of cert/pem.go (regenerated constants) is a block type the round trip holds for. -/
theorem banners_type_ok : ∀ e ∈ bannerTable, TypeOK (asBytes e.1) := by
  unfold TypeOK
  decide

/-- **The banner → kind map is injective** (and so is kind → banner): the twelve banners are pairwise distinct byte
strings and announce twelve distinct kinds. -/
theorem banner_kind_injective :
    (bannerTable.map (fun e => asBytes e.1)).Nodup ∧ (bannerTable.map (·.2)).Nodup := by decide

/-- looking a banner up in the table gives its kind. -/
theorem kindOf_banner : ∀ e ∈ bannerTable, kindOf (asBytes e.1) = some e.2 := by decide

/-- decode ∘ encode on (banner, bytes): the block kind and the bytes come back, for every banner of the table. -/
theorem pem_decode_encode_banner (e : String × BlockKind) (he : e ∈ bannerTable) (b rest : Bytes) :
    ∃ blk, pemDecode (pemEncode (asBytes e.1) b ++ rest) = .block blk rest ∧ kindOf blk.ty = some e.2 ∧ blk.bytes = b :=
  ⟨⟨asBytes e.1, false, b⟩, pemDecode_pemEncode _ b rest (banners_type_ok e he), kindOf_banner e he, rfl⟩

/-- `unmarshalCertificateBlock` dispatches on the banner alone: v1 banner → v1 decoder, v2 banner → v2 decoder (with
the default curve), anything else → `ErrInvalidPEMCertificateBanner`. -/
theorem cert_block_dispatch (ty : Bytes) (hdr : Bool) (b : Bytes) :
    (ty = bannerV1 → unmarshalCertificateBlock ⟨ty, hdr, b⟩ =
        (match V1.unmarshal b [] with | .ok c => .ok c | .error e => .error (.v1 e))) ∧
    (ty = bannerV2 → unmarshalCertificateBlock ⟨ty, hdr, b⟩ =
        (match V2.unmarshal b [] 0 with | .ok (c, _) => .ok c | .error e => .error (.v2 e))) ∧
    (ty ≠ bannerV1 → ty ≠ bannerV2 → unmarshalCertificateBlock ⟨ty, hdr, b⟩ = .error .banner) := by
  refine ⟨?_, ?_, ?_⟩
  · intro h; subst h
    simp only [unmarshalCertificateBlock, if_true]
    cases V1.unmarshal b [] <;> rfl
  · intro h; subst h
    have : bannerV2 ≠ bannerV1 := by decide
    simp only [unmarshalCertificateBlock, this, if_false, if_true, curve25519, Gen.cert_Curve_CURVE25519]
    cases V2.unmarshal b [] 0 with
    | ok r => cases r; rfl
    | error e => rfl
  · intro h1 h2; simp [unmarshalCertificateBlock, h1, h2]

/-- no key block is read as a certificate: the PEM text of any key banner is refused with the banner error, and the
rest still comes back. -/
theorem key_banner_is_not_a_certificate (e : String × BlockKind) (he : e ∈ bannerTable)
    (hk : e.2 ≠ .certV1 ∧ e.2 ≠ .certV2) (b rest : Bytes) :
    unmarshalCertificateFromPEM (pemEncode (asBytes e.1) b ++ rest) = (.error .banner, rest) := by
  unfold unmarshalCertificateFromPEM
  rw [pemDecode_pemEncode _ b rest (banners_type_ok e he)]
  have h12 : asBytes e.1 ≠ bannerV1 ∧ asBytes e.1 ≠ bannerV2 := by
    revert e; decide
  simp [(cert_block_dispatch (asBytes e.1) false b).2.2 h12.1 h12.2]

open Nebula.Lemmas.CertV2RT in
/-- **PEM round trip, v2**: `UnmarshalCertificateFromPEM (MarshalPEM c ++ rest) = (c, rest)` for every certificate of
the shape `V2OK` (Props/C03 `roundtrip_v2`) whose standard encoding fits `MaxCertificateSize`. -/
theorem unmarshalPEM_marshalPEM_v2 (c : Cert) (h : V2OK c) (text : Bytes) (hm : marshalPEM c = some text)
    (hsz : ∀ rd, V2.encodeDetails c = some rd → (V2.marshal rd c.curve (some c.publicKey) c.signature).length ≤ 65536)
    (rest : Bytes) : unmarshalCertificateFromPEM (text ++ rest) = (.ok c, rest) := by
  have hv := h.version
  unfold marshalPEM marshalStd certBanner at hm
  rw [if_neg (by omega), if_pos hv, if_neg (by omega)] at hm
  cases hrd : V2.encodeDetails c with
  | none => rw [hrd] at hm; cases hm
  | some rd =>
    rw [hrd] at hm
    simp only [Option.map_some, Option.some.injEq] at hm
    subst hm
    unfold unmarshalCertificateFromPEM
    rw [pemDecode_pemEncode _ _ rest (by unfold TypeOK; decide)]
    simp only
    rw [(cert_block_dispatch bannerV2 false _).2.1 rfl, Nebula.Props.C03.roundtrip_v2 c h rd hrd (hsz rd hrd)]

open Nebula.Lemmas.CertV1RT in
/-- **PEM round trip, v1** (Props/C03 `roundtrip_v1`). -/
theorem unmarshalPEM_marshalPEM_v1 (c : Cert) (h : V1OK c) (text : Bytes) (hm : marshalPEM c = some text)
    (hlen : ∀ std, V1.marshal c c.publicKey = some std → std.length < 2 ^ 64) (rest : Bytes) :
    unmarshalCertificateFromPEM (text ++ rest) = (.ok c, rest) := by
  have hv := h.version
  unfold marshalPEM marshalStd certBanner at hm
  rw [if_pos hv, if_pos hv] at hm
  cases hs : V1.marshal c c.publicKey with
  | none => rw [hs] at hm; cases hm
  | some std =>
    rw [hs] at hm
    simp only [Option.map_some, Option.some.injEq] at hm
    subst hm
    unfold unmarshalCertificateFromPEM
    rw [pemDecode_pemEncode _ _ rest (by unfold TypeOK; decide)]
    simp only
    rw [(cert_block_dispatch bannerV1 false _).1 rfl, Nebula.Props.C03.roundtrip_v1 c h std hs (hlen std hs)]

/-- **Bundles**: the concatenation of the PEM texts of certificates that each read back (`PemRT`: the conclusion of the
two theorems above) is read back certificate by certificate, in order, by applying `UnmarshalCertificateFromPEM` to the
rest until it is empty. -/
theorem bundle_reads_in_order (cs : List Cert) (h : ∀ c ∈ cs, PemRT c) :
    readBundle (cs.length + 1) (bundleText cs) = (cs, none) :=
  readBundle_bundleText cs h _ (by omega)

open Nebula.Lemmas.CertV2RT in
/-- the hypothesis of `bundle_reads_in_order` for v2 certificates. -/
theorem pemRT_v2 (c : Cert) (h : V2OK c) (rd : Bytes) (hrd : V2.encodeDetails c = some rd)
    (hsz : (V2.marshal rd c.curve (some c.publicKey) c.signature).length ≤ 65536) : PemRT c := by
  have hv := h.version
  refine ⟨pemEncode bannerV2 (V2.marshal rd c.curve (some c.publicKey) c.signature), ?_, ?_, ?_⟩
  · unfold marshalPEM marshalStd certBanner
    rw [if_neg (by omega), if_pos hv, if_neg (by omega), hrd]
    rfl
  · simp [pemEncode, pemBegin]
  · intro rest
    refine unmarshalPEM_marshalPEM_v2 c h _ ?_ ?_ rest
    · unfold marshalPEM marshalStd certBanner
      rw [if_neg (by omega), if_pos hv, if_neg (by omega), hrd]
      rfl
    · intro rd' hrd'
      rw [hrd] at hrd'
      cases hrd'
      exact hsz

open Nebula.Lemmas.CertV2RT in
/-- **What `SignWith` issues reads back from its PEM text, with no size hypothesis** (composition with
`issued_v2_roundtrip`: the size guard of issuance is the decoder's). -/
theorem issued_v2_pem_roundtrip (E : SignEnv) (hE : E.tooLarge = V2.tooLarge) (signer : Option Cert) (kc : Nat) (t c : Cert)
    (h : signWith E signer kc t = .ok c) (hok : V2OK c) (text : Bytes) (hm : marshalPEM c = some text) (rest : Bytes) :
    unmarshalCertificateFromPEM (text ++ rest) = (.ok c, rest) := by
  refine unmarshalPEM_marshalPEM_v2 c hok text hm ?_ rest
  intro rd hrd
  have := Nebula.Props.C03.issued_v2_fits E hE signer kc t c h hok.version rd hrd
  simpa [Gen.cert_MaxCertificateSize] using this

/-- "If no PEM data is found, p is nil and the whole of the input is returned in rest" — on every input, through
every retry of the loop. -/
theorem no_block_returns_input (data r : Bytes) (h : pemDecode data = .noBlock r) : r = data :=
  decodeLoop_noBlock _ _ _ _ _ h

/-- hence a failed `UnmarshalCertificateFromPEM` for lack of a block hands the whole input back. -/
theorem invalid_pem_returns_input (data : Bytes) (r : Bytes)
    (h : unmarshalCertificateFromPEM data = (.error .invalidPEMBlock, r)) : r = data := by
  unfold unmarshalCertificateFromPEM at h
  split at h
  · rename_i r' hd
    simp only [Prod.mk.injEq, true_and] at h
    subst h
    exact decodeLoop_noBlock _ _ _ _ _ hd
  · simp at h
  · rename_i b r' hd
    simp only [Prod.mk.injEq] at h
    exfalso
    obtain ⟨h1, -⟩ := h
    unfold unmarshalCertificateBlock at h1
    repeat' split at h1
    all_goals cases h1

/-- decoding is total, and from the text the encoder writes the panic outcome (an out-of-range slice bound in
`Decode`) is not reached. -/
theorem pem_decode_total (data : Bytes) :
    (∃ b r, pemDecode data = .block b r) ∨ (∃ r, pemDecode data = .noBlock r) ∨ pemDecode data = .panic := by
  cases h : pemDecode data with
  | block b r => exact Or.inl ⟨b, r, rfl⟩
  | noBlock r => exact Or.inr (Or.inl ⟨r, rfl⟩)
  | panic => exact Or.inr (Or.inr rfl)

/-! ### concrete texts evaluated by the kernel -/

example : pemEncode bannerV2 [1, 2, 3, 4, 5] =
    asBytes "-----BEGIN NEBULA CERTIFICATE V2-----\nAQIDBAU=\n-----END NEBULA CERTIFICATE V2-----\n" := by decide
example : pemDecode (pemEncode bannerV2 [1, 2, 3, 4, 5] ++ [7]) = .block ⟨bannerV2, false, [1, 2, 3, 4, 5]⟩ [7] := by decide
example : (wrapGo 0 (b64Enc (List.replicate 49 7))).length = 68 + 2 := by decide
/-- headers are accepted by encoding/pem and ignored by nebula; CRLF line ends are accepted. -/
example : pemDecode (asBytes "-----BEGIN X-----\r\nk: v\r\n\r\nQUJD\r\n-----END X-----\r\ntail") =
    .block ⟨[88], true, [65, 66, 67]⟩ (asBytes "tail") := by decide
/-- a missing END line, a wrong END type and garbage are no block: the whole input is the rest. -/
example : pemDecode (asBytes "-----BEGIN X-----\nQUJD\n") = .noBlock (asBytes "-----BEGIN X-----\nQUJD\n") := by decide
example : pemDecode (asBytes "-----BEGIN X-----\nQUJD\n-----END Y-----\n") =
    .noBlock (asBytes "-----BEGIN X-----\nQUJD\n-----END Y-----\n") := by decide
example : unmarshalCertificateFromPEM (pemEncode (asBytes Gen.cert_X25519PublicKeyBanner) [1] ++ [9]) = (.error .banner, [9]) := by
  decide
example : TypeOK bannerV1 ∧ TypeOK bannerV2 := by unfold TypeOK; decide

end Nebula.Props.C03Pem
