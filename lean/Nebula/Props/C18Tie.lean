/-
C18 — source tie of the conntrack timeout arithmetic (firewall.go).

The timer-wheel bounds `tmin` / `tmax` that `NewFirewall` derives from the three configured timeouts (a chain of
signed `time.Duration` comparisons) and the per-protocol timeout `addConn` selects (`switch fp.Protocol`) are
regenerated from the source on every run and proved equal to the hand model's `wheelBounds` / `Fw.timeoutFor`.
-/
import Nebula.Lemmas.Ties1FwTie

namespace Nebula.Props.C18Tie
open Nebula.Gen Nebula.Fw

/-- For all non-negative `time.Duration` values (below 2^63 ns): the regenerated `tmin`, `tmax` of `NewFirewall` are
the model's wheel bounds. -/
theorem wheelBounds_is_translated (tcp udp dflt : Nat) (h1 : tcp < 2 ^ 63) (h2 : udp < 2 ^ 63) (h3 : dflt < 2 ^ 63) :
    ((tie_ties1_fw_tmin (BitVec.ofNat 64 tcp) (BitVec.ofNat 64 udp) (BitVec.ofNat 64 dflt)).toNat,
     (tie_ties1_fw_tmax (BitVec.ofNat 64 tcp) (BitVec.ofNat 64 udp) (BitVec.ofNat 64 dflt)).toNat)
      = wheelBounds tcp udp dflt :=
  Nebula.Lemmas.Ties1FwTie.wheelBounds_eq tcp udp dflt h1 h2 h3

/-- For every protocol byte and non-negative timeouts: the timeout `addConn` hands to the timer wheel and to
`c.Expires` is the model's `timeoutFor` (the protocol constants are the regenerated `firewall.ProtoTCP/ProtoUDP`). -/
theorem timeoutFor_is_translated (fw : Fw) (proto : Nat) (hp : proto < 256)
    (h1 : fw.tcpTimeout < 2 ^ 63) (h2 : fw.udpTimeout < 2 ^ 63) (h3 : fw.defaultTimeout < 2 ^ 63) :
    (tie_ties1_fw_addConn_timeout (BitVec.ofNat 8 proto) (BitVec.ofNat 8 Gen.firewall_ProtoTCP)
        (BitVec.ofNat 8 Gen.firewall_ProtoUDP) (BitVec.ofNat 64 fw.tcpTimeout) (BitVec.ofNat 64 fw.udpTimeout)
        (BitVec.ofNat 64 fw.defaultTimeout)).toNat = fw.timeoutFor proto :=
  Nebula.Lemmas.Ties1FwTie.timeoutFor_eq fw proto hp h1 h2 h3

-- the hypotheses are satisfiable and the regenerated definitions compute: the default configuration (12 min, 3 min, 10 min)
example : ((tie_ties1_fw_tmin 720000000000#64 180000000000#64 600000000000#64).toNat,
    (tie_ties1_fw_tmax 720000000000#64 180000000000#64 600000000000#64).toNat) = (180000000000, 720000000000) := by
  decide

end Nebula.Props.C18Tie
