/-
C08 — Handshake payload encoding is lossless and wire-compatible.

"Decoding an encoded handshake payload returns exactly the encoded fields, and the encoding is read
identically by the protobuf schema other nebula versions use (and vice versa for well-formed schema
messages). Decoding arbitrary bytes never panics and rejects known fields with the wrong wire type or
values out of range."  — for all payloads and all byte strings, including unknown fields, repeated
fields and truncated varints.

Model: `Model/Payload` (handshake/payload.go on `Base/Wire` = protowire).  Schema: `Spec/HandshakeSchema`
(handshake/handshake.proto read by a schema-driven decoder).  All theorems are unbounded.

`both_succeed_agree`: for ARBITRARY bytes — well-formed or not, any field order, repeated and split
`Details` occurrences, unknown fields, groups, non-minimal varints — whenever both decoders succeed the
results coincide; no exceptional set.  (The run-time oracle class `schema-disagree` checks the same
statement on the real code on every run.)
-/
import Nebula.Lemmas.PayloadEnv
import Nebula.Lemmas.PayloadAgree
import Nebula.Lemmas.PayloadRepeat

namespace Nebula.Props.C08
open Nebula.Wire Nebula.Payload Nebula.Spec.HandshakeSchema

/-- `MarshalPayload(out, p)` appends to `out` and does not depend on it otherwise. -/
theorem marshal_appends (out : Bytes) (p : Payload) : marshalPayload out p = out ++ marshalPayload [] p := by
  simp [marshalPayload]

/-- The bytes written are exactly the canonical proto3 encoding of
`NebulaHandshake{Details: {Cert, InitiatorIndex, ResponderIndex, Time, CertVersion}}`. -/
theorem marshal_eq_schema_encode (p : Payload) :
    marshalPayload [] p = encode { hasDetails := true, details := ofPayload p } := by
  simp [marshalPayload, encode, marshalDetails_eq]

/-- Values a Go `handshake.Payload` can hold: `uint32` / `uint64` fields, a slice length below 2^63. -/
def PayloadInRange (p : Payload) : Prop :=
  p.cert.length < 2 ^ 63 ∧ p.initiatorIndex < 2 ^ 32 ∧ p.responderIndex < 2 ^ 32 ∧ p.time < 2 ^ 64 ∧
  p.certVersion < 2 ^ 32

theorem PayloadInRange.details {p : Payload} (h : PayloadInRange p) : (ofPayload p).inRange := by
  obtain ⟨h1, h2, h3, h4, h5⟩ := h
  exact ⟨by simp only [ofPayload]; omega, h2, h3, by simp [ofPayload], h4, h5⟩

/-- Lossless: decoding an encoded payload returns exactly the encoded fields (every `uint32` /
`uint64` value, every certificate byte string; the empty certificate is the absent one). -/
theorem unmarshal_marshal (p : Payload) (h : PayloadInRange p) :
    unmarshalPayload (marshalPayload [] p) = .ok p := by
  have hl : (marshalDetails p).length < 2 ^ 64 := by
    have := marshalDetails_length_le p
    have := h.1
    omega
  have := unmarshalDetails_toks (canonToks (ofPayload p)) {} (canonToks_ok _ h.details)
  rw [foldl_canonToks _ h.details, ← encodeDetails_eq, ← marshalDetails_eq] at this
  simp only [marshalPayload, List.nil_append]
  rw [unmarshalPayload_envelope _ hl]
  exact this

example : PayloadInRange { cert := [1, 2, 3], initiatorIndex := 2 ^ 32 - 1, responderIndex := 128, time := 2 ^ 64 - 1, certVersion := 2 } := by
  simp [PayloadInRange]

example : unmarshalPayload (marshalPayload [] { cert := [1, 2, 3], initiatorIndex := 300, responderIndex := 128, time := 2 ^ 40, certVersion := 2 })
    = .ok { cert := [1, 2, 3], initiatorIndex := 300, responderIndex := 128, time := 2 ^ 40, certVersion := 2 } := by
  decide

/-- Total: on *any* byte string the decoder returns a payload or one of its two errors — it never
indexes out of range (every `b[n:]` is within bounds) and its loops terminate. -/
theorem unmarshal_total (b : Bytes) : unmarshalPayload b ≠ .panic ∧ unmarshalPayload b ≠ .stuck :=
  unmarshalPayload_regular b

/-- … and the same for the inner `unmarshalPayloadDetails` with any starting payload. -/
theorem unmarshalDetails_total (p : Payload) (b : Bytes) :
    unmarshalDetails p b ≠ .panic ∧ unmarshalDetails p b ≠ .stuck :=
  unmarshalDetails_regular p b

/-- `protowire.ConsumeFieldValue` (unknown fields, groups nested to any depth) never reports more
bytes than it was given, which is what makes the `b[n:]` after it safe. -/
theorem consumeFieldValue_within (num typ : Nat) (b : Bytes) (n : Nat)
    (h : consumeFieldValue num typ b = .ok n) : n ≤ b.length :=
  consumeFieldValue_bounds h

/-- Vice versa, for everything a schema writer can produce — not only the canonical encoding: any
sequence of well-formed `NebulaHandshakeDetails` records (known fields with the schema's wire type
and `uint32` values in range, unknown fields of any varint / fixed / bytes type, in any order, with
repetitions) is accepted and read exactly as the schema reads it (last occurrence wins). -/
theorem unmarshal_any_conforming_records (ts : List Tok) (h : ∀ t ∈ ts, t.wf ∧ t.conforms)
    (hl : (encodeToks ts).length < 2 ^ 64) :
    unmarshalPayload (appendTag 1 BytesType ++ appendBytes (encodeToks ts)) =
      .ok (toPayload (ts.foldl applyDetails {})) := by
  rw [unmarshalPayload_envelope _ hl]
  exact unmarshalDetails_toks ts {} h

example : (∀ t ∈ [(⟨9, .fixed32 [1, 2, 3, 4]⟩ : Tok), ⟨2, .varint 7⟩, ⟨2, .varint 9⟩], t.wf ∧ t.conforms) := by
  simp [Tok.wf, Tok.conforms, maxValidNumber]

/-- The schema decoder reads what `MarshalPayload` wrote, field for field. -/
theorem schema_reads_marshal (p : Payload) (h : PayloadInRange p) :
    decode (marshalPayload [] p) = some { hasDetails := true, details := ofPayload p, hmac := [] } := by
  have hl : (marshalDetails p).length < 2 ^ 64 := by
    have := marshalDetails_length_le p
    have := h.1
    omega
  have hd := h.details
  have t1 : tokenize ((marshalDetails p).length + 1) (marshalDetails p) = some (canonToks (ofPayload p)) := by
    rw [marshalDetails_eq, encodeDetails_eq]
    exact tokenize_toks _ _ (fun t ht => (canonToks_ok _ hd t ht).1) (by omega)
  have e : marshalPayload [] p = encodeToks [⟨1, .bytes (marshalDetails p)⟩] := by
    simp [marshalPayload, encodeToks, Tok.encode, Val.typ, Val.encode]
  have t2 := tokenize_toks [⟨1, .bytes (marshalDetails p)⟩] ((marshalPayload [] p).length + 1)
    (by simp [Tok.wf, maxValidNumber]; exact hl) (by rw [e]; omega)
  unfold decode
  rw [e] at t2 ⊢
  rw [t2]
  simp [applyMsg, t1, foldl_canonToks _ hd]

/-- The implementation reads what a schema writer wrote: the canonical encoding of any
`NebulaHandshake` message (with or without `Hmac`, with a `Cookie`), field for field. -/
theorem unmarshal_reads_schema_encode (m : Msg) (hd : m.details.inRange) (hc : m.details.cert.length < 2 ^ 63)
    (hh : m.hmac.length < 2 ^ 64) (hp : m.hasDetails = true) :
    unmarshalPayload (encode m) = .ok (toPayload m.details) := by
  exact unmarshalPayload_encode m hd hc hh hp

example : ({ hasDetails := true, details := { cert := [9], cookie := 77, time := 5 }, hmac := [1, 2] } : Msg).details.inRange := by
  simp [Details.inRange]

/-- Known fields with the wrong wire type are rejected, wherever they occur: after any sequence of
well-formed records, a tag for field 1, 2, 3, 5 or 8 whose wire type is not the schema's makes the
whole details block `errInvalidHandshakeDetails`, whatever follows. -/
theorem rejects_wrong_wiretype (ts : List Tok) (h : ∀ t ∈ ts, t.wf ∧ t.conforms) (num typ : Nat) (rest : Bytes)
    (hnum : num = 1 ∨ num = 2 ∨ num = 3 ∨ num = 5 ∨ num = 8) (ht : typ < 8)
    (hwrong : typ ≠ (if num = 1 then BytesType else VarintType)) :
    unmarshalDetails {} (encodeToks ts ++ (appendTag num typ ++ rest)) = .errDetails := by
  obtain ⟨fuel', hf, he⟩ := detailsLoop_toks ts {} (appendTag num typ ++ rest) _ h (Nat.lt_succ_self _)
  unfold unmarshalDetails
  have e0 : toPayload ({} : Details) = ({} : Payload) := rfl
  rw [e0] at he
  rw [he]
  cases fuel' with
  | zero => omega
  | succ f =>
    rw [detailsLoop_step f _ num typ rest (by omega) (by omega) ht, detailsField_wrong_type _ _ _ _ hnum hwrong]

/-- … and so is the message that carries such a details block. -/
theorem rejects_wrong_wiretype_message (ts : List Tok) (h : ∀ t ∈ ts, t.wf ∧ t.conforms) (num typ : Nat) (rest : Bytes)
    (hnum : num = 1 ∨ num = 2 ∨ num = 3 ∨ num = 5 ∨ num = 8) (ht : typ < 8)
    (hwrong : typ ≠ (if num = 1 then BytesType else VarintType))
    (hl : (encodeToks ts ++ (appendTag num typ ++ rest)).length < 2 ^ 64) :
    unmarshalPayload (appendTag 1 BytesType ++ appendBytes (encodeToks ts ++ (appendTag num typ ++ rest))) =
      .errDetails := by
  rw [unmarshalPayload_envelope _ hl]
  exact rejects_wrong_wiretype ts h num typ rest hnum ht hwrong

/-- Values out of range are rejected: a varint above `math.MaxUint32` for InitiatorIndex,
ResponderIndex or CertVersion, after any sequence of well-formed records, whatever follows. -/
theorem rejects_out_of_range (ts : List Tok) (h : ∀ t ∈ ts, t.wf ∧ t.conforms) (num v : Nat) (rest : Bytes)
    (hnum : num = 2 ∨ num = 3 ∨ num = 8) (hv : 2 ^ 32 ≤ v) (hv64 : v < 2 ^ 64) :
    unmarshalDetails {} (encodeToks ts ++ (appendTag num VarintType ++ (appendVarint v ++ rest))) = .errDetails := by
  obtain ⟨fuel', hf, he⟩ := detailsLoop_toks ts {} (appendTag num VarintType ++ (appendVarint v ++ rest)) _ h
    (Nat.lt_succ_self _)
  unfold unmarshalDetails
  have e0 : toPayload ({} : Details) = ({} : Payload) := rfl
  rw [e0] at he
  rw [he]
  cases fuel' with
  | zero => omega
  | succ f =>
    rw [detailsLoop_step f _ num VarintType _ (by omega) (by omega) (by decide),
      detailsField_out_of_range _ _ _ _ hnum hv hv64]

/-- Truncated and over-long varints are refused by `ConsumeVarint` itself: nothing is ever read past
the end, at most 10 bytes are read, and the value always fits 64 bits. -/
theorem consumeVarint_sound (b : Bytes) (v n : Nat) (h : consumeVarint b = .ok (v, n)) :
    1 ≤ n ∧ n ≤ b.length ∧ n ≤ 10 ∧ v < 2 ^ 64 :=
  consumeVarint_bounds h

/-- A varint whose first ten bytes all have the continuation bit set is refused (the 10-byte rule). -/
example : consumeVarint [0x80, 0x80, 0x80, 0x80, 0x80, 0x80, 0x80, 0x80, 0x80, 0x80, 0x01] = .error .overflow := by rfl
example : consumeVarint [0xff, 0xff, 0xff, 0xff, 0xff, 0xff, 0xff, 0xff, 0xff, 0x02] = .error .overflow := by rfl
example : consumeVarint [0xff, 0xff, 0xff, 0xff, 0xff, 0xff, 0xff, 0xff, 0xff, 0x01] = .ok (2 ^ 64 - 1, 10) := by rfl
example : consumeVarint [0x80, 0x80] = .error .truncated := by rfl
example : unmarshalPayload [0x0a, 0x02, 0x10, 0x80] = .errDetails := by decide
example : unmarshalPayload [0x0a, 0x02, 0x11, 0x80] = .errDetails := by decide

/-- AGREEMENT ON ALL BYTE STRINGS.  For every byte string `b`: if `UnmarshalPayload` accepts it and the
schema decoder (`handshake.proto` read by a schema-driven protobuf implementation) accepts it, they
return the same Cert, InitiatorIndex, ResponderIndex, Time and CertVersion.  There is no exceptional set:
repeated occurrences of the `Details` sub-message merge in both (an occurrence never wipes what earlier
ones set — the statement seeded change C08-2 violates), later scalars override earlier ones in both,
`Hmac`, `Cookie`, unknown fields and groups are skipped by both, and wherever the implementation is
stricter (wrong wire type, `uint32` overflow) or the schema is (field numbers above 2^29−1) one of the
two fails, which the hypothesis excludes. -/
theorem both_succeed_agree (b : Bytes) (p : Payload) (m : Msg)
    (h1 : unmarshalPayload b = .ok p) (h2 : decode b = some m) : p = toPayload m.details := by
  unfold decode at h2
  split at h2
  · simp at h2
  · rename_i ts hts
    exact payloadLoop_agree (b.length + 1) (b.length + 1) {} b p ts m h1 hts h2

/-- The same one level down: `unmarshalPayloadDetails` continuing from any payload agrees with the
schema's record-by-record interpretation continuing from the same fields. -/
theorem details_both_succeed_agree (d : Details) (b : Bytes) (p : Payload) (ts : List Tok)
    (h1 : unmarshalDetails (toPayload d) b = .ok p) (h2 : tokenize (b.length + 1) b = some ts) :
    p = toPayload (ts.foldl applyDetails d) :=
  detailsLoop_agree _ _ d b p ts h1 h2

-- non-vacuity: a split message (Details twice, the second one empty — the witness of C08-2) and a
-- message with a repeated scalar are accepted by both, with the merged / last-wins result
example : unmarshalPayload [0x0a, 0x02, 0x40, 0x07, 0x0a, 0x00] = .ok { certVersion := 7 } ∧
    decode [0x0a, 0x02, 0x40, 0x07, 0x0a, 0x00] = some { hasDetails := true, details := { certVersion := 7 } } := by
  decide

example : unmarshalPayload [0x0a, 0x02, 0x10, 0x07, 0x0a, 0x04, 0x10, 0x08, 0x18, 0x03] =
      .ok { initiatorIndex := 8, responderIndex := 3 } ∧
    (decode [0x0a, 0x02, 0x10, 0x07, 0x0a, 0x04, 0x10, 0x08, 0x18, 0x03]).map (fun m => toPayload m.details) =
      some { initiatorIndex := 8, responderIndex := 3 } := by
  decide

/-- REPEATED SINGULAR FIELDS: LAST WINS, IN BOTH DECODERS.  Take any message made of `Details` occurrences
`tss` (each any sequence of well-formed conforming records: known fields any number of times, unknown
fields in between), whose last `Details` occurrence so far holds the records `ts`.  Appending one more
occurrence `t` of a singular field (Cert, InitiatorIndex, ResponderIndex, Time or CertVersion) -- inside
that same `Details` occurrence (`ts` arbitrary) or as a `Details` occurrence of its own (`ts = []`) --
makes BOTH `UnmarshalPayload` and the schema decoder succeed and return exactly `t`'s value for that
field, whatever earlier occurrences (empty, non-empty, longer, shorter) said.  (Seeded change C08-5, which
concatenates Cert occurrences, violates exactly this statement.) -/
theorem repeated_singular_last_wins (tss : List (List Tok)) (ts : List Tok) (t : Tok)
    (hall : ∀ ts' ∈ tss, ∀ t' ∈ ts', t'.wf ∧ t'.conforms) (hts : ∀ t' ∈ ts, t'.wf ∧ t'.conforms)
    (ht : t.wf ∧ t.conforms) (hn : t.num = 1 ∨ t.num = 2 ∨ t.num = 3 ∨ t.num = 5 ∨ t.num = 8)
    (hlen : ∀ ts' ∈ tss, (encodeToks ts').length < 2 ^ 64) (hlen' : (encodeToks (ts ++ [t])).length < 2 ^ 64) :
    ∃ p m, unmarshalPayload (detailsMsg (tss ++ [ts ++ [t]])) = .ok p ∧
      decode (detailsMsg (tss ++ [ts ++ [t]])) = some m ∧
      p.field t.num = some t.val ∧ (toPayload m.details).field t.num = some t.val := by
  have hall' : ∀ ts' ∈ tss ++ [ts ++ [t]], ∀ t' ∈ ts', t'.wf ∧ t'.conforms := by
    intro ts' h' t' ht'
    rcases List.mem_append.mp h' with h' | h'
    · exact hall ts' h' t' ht'
    · rw [List.mem_singleton.mp h'] at ht'
      rcases List.mem_append.mp ht' with h'' | h''
      · exact hts t' h''
      · rw [List.mem_singleton.mp h'']; exact ht
  have hlenA : ∀ ts' ∈ tss ++ [ts ++ [t]], (encodeToks ts').length < 2 ^ 64 := by
    intro ts' h'
    rcases List.mem_append.mp h' with h' | h'
    · exact hlen ts' h'
    · rw [List.mem_singleton.mp h']; exact hlen'
  have e : (tss ++ [ts ++ [t]]).flatten.foldl applyDetails {} =
      applyDetails ((tss.flatten ++ ts).foldl applyDetails {}) t := by
    simp [List.foldl_append]
  obtain ⟨m, hm, hd⟩ := decode_detailsMsg _ (fun ts' h' t' ht' => (hall' ts' h' t' ht').1) hlenA
  refine ⟨_, m, unmarshalPayload_detailsMsg _ hall' hlenA, hm, ?_, ?_⟩
  · rw [e]; exact field_applyDetails _ t ht.2 hn
  · rw [hd, e]; exact field_applyDetails _ t ht.2 hn

-- non-vacuity: the three witnesses of seeded change C08-5 are instances (hypotheses hold, and the bytes are
-- the ones of the witnesses), and on them both decoders return the LAST Cert
example : detailsMsg ([] ++ [[(⟨1, .bytes [0x64, 0x65]⟩ : Tok), ⟨2, .varint 42⟩] ++ [⟨1, .bytes [0x72, 0x65, 0x61]⟩]]) =
      [0x0a, 0x0b, 0x0a, 0x02, 0x64, 0x65, 0x10, 0x2a, 0x0a, 0x03, 0x72, 0x65, 0x61] ∧
    (∀ t' ∈ [(⟨1, .bytes [0x64, 0x65]⟩ : Tok), ⟨2, .varint 42⟩, ⟨1, .bytes [0x72, 0x65, 0x61]⟩], t'.wf ∧ t'.conforms) := by
  refine ⟨by decide, ?_⟩
  simp [Tok.wf, Tok.conforms, maxValidNumber]

example : unmarshalPayload [0x0a, 0x0b, 0x0a, 0x02, 0x64, 0x65, 0x10, 0x2a, 0x0a, 0x03, 0x72, 0x65, 0x61] =
      .ok { cert := [0x72, 0x65, 0x61], initiatorIndex := 42 } ∧
    (decode [0x0a, 0x0b, 0x0a, 0x02, 0x64, 0x65, 0x10, 0x2a, 0x0a, 0x03, 0x72, 0x65, 0x61]).map (fun m => toPayload m.details) =
      some { cert := [0x72, 0x65, 0x61], initiatorIndex := 42 } := by
  decide

-- Cert "stale" then an empty Cert: the empty one wins
example : unmarshalPayload [0x0a, 0x09, 0x0a, 0x05, 0x73, 0x74, 0x61, 0x6c, 0x65, 0x0a, 0x00] = .ok {} ∧
    (decode [0x0a, 0x09, 0x0a, 0x05, 0x73, 0x74, 0x61, 0x6c, 0x65, 0x0a, 0x00]).map (fun m => toPayload m.details) = some {} := by
  decide

-- a Cert in each of two `Details` occurrences (tss = [[Cert "fi", InitiatorIndex 5]], ts = [], t = Cert "sec")
example : detailsMsg ([[(⟨1, .bytes [0x66, 0x69]⟩ : Tok), ⟨2, .varint 5⟩]] ++ [[] ++ [⟨1, .bytes [0x73, 0x65, 0x63]⟩]]) =
      [0x0a, 0x06, 0x0a, 0x02, 0x66, 0x69, 0x10, 0x05, 0x0a, 0x05, 0x0a, 0x03, 0x73, 0x65, 0x63] ∧
    unmarshalPayload [0x0a, 0x06, 0x0a, 0x02, 0x66, 0x69, 0x10, 0x05, 0x0a, 0x05, 0x0a, 0x03, 0x73, 0x65, 0x63] =
      .ok { cert := [0x73, 0x65, 0x63], initiatorIndex := 5 } ∧
    (decode [0x0a, 0x06, 0x0a, 0x02, 0x66, 0x69, 0x10, 0x05, 0x0a, 0x05, 0x0a, 0x03, 0x73, 0x65, 0x63]).map
      (fun m => toPayload m.details) = some { cert := [0x73, 0x65, 0x63], initiatorIndex := 5 } := by
  decide

end Nebula.Props.C08
