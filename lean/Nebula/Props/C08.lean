import Nebula.Model.Payload
import Nebula.Spec.HandshakeSchema
namespace Nebula.Props.C08
theorem stub : True := trivial
end Nebula.Props.C08
