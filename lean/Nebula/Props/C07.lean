/-
C07 — A rejected handshake message never wedges the handshake.

"If a handshake message is rejected while the handshake reports itself as still usable, then the
genuine message delivered afterwards completes the handshake exactly as if the rejected message had
never arrived. Once a handshake reports itself failed, every later input is refused."

On the tree before the repair this was false (F09): flynn/noise `ReadMessage` returns without
`Rollback` on `ErrShortMessage` after the `e` token and on DH errors, `ProcessPacket` reported the
packet as recoverable (`Failed() == false`), and the genuine message then failed authentication
(`without_repair_false` below; reproduced on the real code by `corpus/machine/f09-*.ops`).  The repair
(`fix:` commit) compares `ChannelBinding()` around a failed read and marks the Machine failed when
it changed.  For the repaired code:

* `reject_preserves`: a rejection that leaves the Machine usable left the Machine state *equal* to
  what it was, and either never reached the noise library or the library reported an error with an
  unchanged transcript hash;
* `reject_then_anything`: hence, with a noise library whose state is unchanged when it reports an
  error with an unchanged transcript hash (hypothesis `hlaw`: for flynn/noise IX the hash is the first
  thing a read mixes into, and `Rollback` restores hash and chaining key; hash collisions excluded),
  the whole system state is equal, so *every* later call — in particular the genuine message —
  behaves exactly as if the rejected message had never arrived;
* `failed_refuses_all`.

PARTIAL only in `hlaw` (a statement about flynn/noise + SHA-256, third-party, not modelled).
-/
import Nebula.Lemmas.MachineTrace

namespace Nebula.Props.C07
open Nebula.Wire Nebula.Machine Nebula.Spec.Handshake

/-- A rejection that leaves the handshake usable changed nothing in the Machine, and the noise
transcript was not touched. -/
theorem reject_preserves (c : Cfg) (s s' : St) (len st : Nat) (rd : ReadOut) (co : CertOut) (now : Nat)
    (wr : WriteOut) (e : Machine.Err)
    (h : processPacket c s len st rd co now wr = (s', .err e)) (hf : s'.failed = false) :
    s' = s ∧ (reachesNoise c s len st = false ∨ rejectionClean rd = true ∧ rd = .err false) := by
  obtain ⟨h1, h2⟩ := pp_reject c s s' len st rd co now wr e h hf
  refine ⟨h1, ?_⟩
  rcases h2 with h2 | h2
  · exact Or.inl h2
  · exact Or.inr ⟨by simp [h2, rejectionClean], h2⟩

/-- A noise library as the Machine sees it through `ReadMessage`: a state, and a read that answers
and moves to a new state. -/
structure Noise (σ : Type) where
  read : σ → Bytes → ReadOut × σ

/-- `ProcessPacket` on a Machine together with its noise state: the library is called exactly when
the pre-checks pass. -/
def processWith {σ : Type} (N : Noise σ) (c : Cfg) (x : St × σ) (len st : Nat) (body : Bytes) (co : CertOut)
    (now : Nat) (wr : WriteOut) : (St × σ) × Outcome :=
  if reachesNoise c x.1 len st then
    let r := N.read x.2 body
    let o := processPacket c x.1 len st r.1 co now wr
    ((o.1, r.2), o.2)
  else
    let o := processPacket c x.1 len st (.err false) co now wr
    ((o.1, x.2), o.2)

/-- The property: after a rejection that leaves the handshake usable, the whole system (Machine and
noise state) is exactly what it was — so any later input, in particular the genuine message, is
processed exactly as if the rejected message had never arrived. -/
theorem reject_then_anything {σ : Type} (N : Noise σ)
    (hlaw : ∀ st b st', N.read st b = (.err false, st') → st' = st)
    (c : Cfg) (x x' : St × σ) (len st : Nat) (body : Bytes) (co : CertOut) (now : Nat) (wr : WriteOut)
    (e : Machine.Err)
    (h : processWith N c x len st body co now wr = (x', .err e)) (hf : x'.1.failed = false)
    (len2 st2 : Nat) (body2 : Bytes) (co2 : CertOut) (now2 : Nat) (wr2 : WriteOut) :
    processWith N c x' len2 st2 body2 co2 now2 wr2 = processWith N c x len2 st2 body2 co2 now2 wr2 := by
  have hx : x' = x := by
    unfold processWith at h
    split at h
    · rename_i hreach
      simp only [Prod.mk.injEq] at h
      obtain ⟨hx, ho⟩ := h
      have hpp : processPacket c x.1 len st (N.read x.2 body).1 co now wr = (x'.1, .err e) := by
        rw [← hx, ← ho]
      obtain ⟨h1, h2⟩ := pp_reject c x.1 x'.1 len st _ co now wr e hpp hf
      rcases h2 with h2 | h2
      · rw [hreach] at h2; simp at h2
      · have hl := hlaw x.2 body (N.read x.2 body).2 (by rw [← h2])
        exact Prod.ext h1 (by rw [← hx]; exact hl)
    · simp only [Prod.mk.injEq] at h
      obtain ⟨hx, ho⟩ := h
      have hpp : processPacket c x.1 len st (.err false) co now wr = (x'.1, .err e) := by
        rw [← hx, ← ho]
      obtain ⟨h1, _⟩ := pp_reject c x.1 x'.1 len st _ co now wr e hpp hf
      exact Prod.ext h1 (by rw [← hx])
  rw [hx]

/-- Once a handshake reports itself failed, every later input is refused and nothing changes. -/
theorem failed_refuses_all (c : Cfg) (s : St) (h : s.failed = true) (evs : List Ev) (e : Ev) :
    runState c s evs = s ∧ (stepEv c (runState c s evs) e).2 = .err .machineFailed := by
  have h1 := runState_failed c evs s h
  refine ⟨h1, ?_⟩
  rw [h1]
  cases e with
  | init now wr => simp [stepEv, initiate_failed c s now wr h]
  | pkt len st rd co now wr => simp [stepEv, processPacket, pp_failed true c s len st rd co now wr h]

/-- A noise read error that mutated the transcript is now fatal. -/
theorem mutated_read_is_fatal (c : Cfg) (s : St) (len st : Nat) (co : CertOut) (now : Nat) (wr : WriteOut)
    (hr : reachesNoise c s len st = true) :
    processPacket c s len st (.err true) co now wr = (fail s, .err .noiseRead) := by
  simp only [reachesNoise, Bool.and_eq_true, Bool.not_eq_true', decide_eq_true_eq, Bool.and_eq_false_imp] at hr
  obtain ⟨⟨⟨h1, h2⟩, h3⟩, h4⟩ := hr
  have a : ¬ len < Gen.header_Len := by omega
  have b : ¬ (c.initiator = true ∧ s.msgIdx = 0) := by
    intro ⟨x, y⟩; simp [x, y] at h4
  simp [processPacket, processPacketG, h1, a, h3, b]

/-- Before the repair (`failOnMutated = false`) the statement was false: a read error that mutated
the transcript left the Machine "usable" — the wedge of F09. -/
theorem without_repair_false :
    ∃ (c : Cfg) (s : St) (len st : Nat) (co : CertOut) (now : Nat) (wr : WriteOut),
      reachesNoise c s len st = true ∧
      processPacketG false c s len st (.err true) co now wr = (s, .err .noiseRead) ∧ s.failed = false :=
  ⟨{ initiator := true, subtype := 0, msgs := ixMsgs, haveCred := fun _ => true, credVersion := id, alloc := some 1 },
   { myVersion := 2, msgIdx := 1 }, 64, 0, ⟨none, none⟩, 0, .err, by decide, by decide, rfl⟩

-- non-vacuity of `reject_preserves`: an authentication failure (rolled back by the library) is a
-- rejection that leaves the Machine usable
example :
    let c : Cfg := { initiator := true, subtype := 0, msgs := ixMsgs, haveCred := fun _ => true, credVersion := id, alloc := some 1 }
    processPacket c { myVersion := 2, msgIdx := 1 } 64 0 (.err false) ⟨none, none⟩ 0 .err =
      ({ myVersion := 2, msgIdx := 1 }, .err .noiseRead) := by
  decide

-- non-vacuity of `hlaw`: a library that ignores garbage satisfies it
example : ∀ st b st', (⟨fun (s : Nat) _ => (.err false, s)⟩ : Noise Nat).read st b = (.err false, st') → st' = st := by
  intro st b st' h; simp at h; exact h.symm

end Nebula.Props.C07
