/-
C27 — source tie of `deliverSegments` (udp/udp_linux.go).

The guard `segSize <= 0 || segSize >= len(payload)`, the loop test `off < len(payload)` and the clamped end
`end := off + segSize; if end > len(payload) { end = len(payload) }` are regenerated from the source on every run and
the hand model (`deliver`, `segLoop`) is proved to be built from them. The loop increment `off += segSize` (a `for`
post statement) and the slice expressions stay hand-written. parseRecvCmsg is not regenerated: its arithmetic lives in
golang.org/x/sys/unix (CmsgLen / CmsgSpace), outside the repository.
-/
import Nebula.Lemmas.Ties1UdpTie

namespace Nebula.Props.C27Tie
open Nebula.Gen Nebula.Udprecv

/-- For every payload and every Go `int` segment size of magnitude below 2^62 (any sign): whether the datagram is
delivered whole is decided by the regenerated guard. -/
theorem deliver_is_translated (p : List UInt8) (seg : Int) (h1 : -(2 ^ 62) < seg) (h2 : seg < 2 ^ 62)
    (hn : p.length < 2 ^ 62) :
    deliver p seg =
      if tie_ties1_udp_deliver_whole (BitVec.ofInt 64 seg) (BitVec.ofNat 64 p.length) then [p]
      else segLoop p seg.toNat 0 :=
  Nebula.Lemmas.Ties1UdpTie.deliver_eq p seg h1 h2 hn

/-- One iteration of the split loop: loop test and the end of the piece are the regenerated ones. -/
theorem segLoop_is_translated (p : List UInt8) (seg off : Nat) (hs : seg < 2 ^ 62) (ho : off < 2 ^ 62)
    (hn : p.length < 2 ^ 62) :
    segLoop p seg off =
      if tie_ties1_udp_deliver_more (BitVec.ofNat 64 off) (BitVec.ofNat 64 p.length) = true ∧ 0 < seg then
        ((p.drop off).take ((tie_ties1_udp_deliver_end (BitVec.ofNat 64 off) (BitVec.ofNat 64 seg)
            (BitVec.ofNat 64 p.length)).toNat - off)) :: segLoop p seg (off + seg)
      else [] :=
  Nebula.Lemmas.Ties1UdpTie.segLoop_eq p seg off hs ho hn

-- the regenerated pieces compute: negative and oversized segment sizes deliver whole; the last piece is clamped
example : tie_ties1_udp_deliver_whole (BitVec.ofInt 64 (-1)) 100#64 = true
    ∧ tie_ties1_udp_deliver_whole 100#64 100#64 = true ∧ tie_ties1_udp_deliver_whole 99#64 100#64 = false
    ∧ (tie_ties1_udp_deliver_end 80#64 40#64 100#64).toNat = 100 := by decide

end Nebula.Props.C27Tie
