/-
C27 — slot reuse across reads in `StdConn.ListenOut` (udp/udp_linux.go).

`deliverSegments` and `parseRecvCmsg` are correct in isolation (Props/C27); here the loop around them is
brought in: a recvmmsg slot's ancillary buffer persists from one read to the next and `Hdr.Controllen` is
a value-result field (armed to the buffer size before the read, overwritten by the kernel with the bytes
it wrote — 0 for a datagram without ancillary data).  For every history of reads, each read delivers
exactly the kernel's datagram split by ITS OWN reported segment size (none → whole), whatever the slot
held before.  Model: `Model/UdprecvListen` (arm, read, parse with the kernel-reported length, deliver —
the code's order).  Kernel fills: any list of well-formed ancillary messages that fits the armed buffer
(`KernelFormed`), any payload.
-/
import Nebula.Lemmas.UdprecvListen

namespace Nebula.Props.C27Listen
open Nebula.Udprecv Nebula.Spec.Udprecv Nebula.Lemmas.Udprecv Nebula.Lemmas.UdprecvListen

/-- One read: whatever bytes the slot's ancillary buffer held and whatever `Controllen` said before, the
datagram is split by the coalescing size of its own ancillary data. -/
theorem listen_step_splits_exactly (s : Slot) (f : Fill) (hs : SlotOK s) (hf : KernelFormed f) :
    (listenStep s f).2 = want f.payload (groOf f.msgs) :=
  (listenStep_spec s f hs hf).1

/-- Every history of reads on one slot (any sequence of coalesced and plain fills, any sizes, any initial
buffer contents): the callback sees, in order, each datagram split by its own reported size. -/
theorem listen_history_splits_exactly (s : Slot) (fills : List Fill) (hs : SlotOK s)
    (hf : ∀ f ∈ fills, KernelFormed f) :
    (listenRun s fills).2 = (fills.map (fun f => want f.payload (groOf f.msgs))).flatten :=
  (listenRun_spec s fills hs hf).1

/-- The whole loop: every history of recvmmsg batches over any number of slots (each batch fills a prefix
of the slots, as recvmmsg does). -/
theorem listen_out_splits_exactly (slots : List Slot) (batches : List (List Fill))
    (hs : ∀ s ∈ slots, SlotOK s) (hn : ∀ b ∈ batches, b.length ≤ slots.length)
    (hf : ∀ b ∈ batches, ∀ f ∈ b, KernelFormed f) :
    (listenOut slots batches).2 = (batches.flatten.map (fun f => want f.payload (groOf f.msgs))).flatten :=
  listenOut_spec slots batches hs hn hf

/-- A missing size delivers the datagram whole: a plain datagram (no ancillary data, the kernel reports
`Controllen = 0`) comes out in one piece from ANY slot — in particular one that still holds the UDP_GRO
message of an earlier superdatagram. -/
theorem plain_delivered_whole (s : Slot) (p : List UInt8) (hs : SlotOK s) :
    (listenStep s (plainFill p)).2 = [p] := by
  rw [listen_step_splits_exactly s _ hs (plain_kernelFormed p)]
  simp [plainFill, groOf, want, bogus]

/-- The C27-5 shape: a coalesced superdatagram (gso_size `g`), then a plain datagram in the same slot. -/
theorem plain_after_gro_delivered_whole (s : Slot) (p q : List UInt8) (g : Nat) (hs : SlotOK s) :
    (listenRun s [groFill p g, plainFill q]).2 = want p (groOf (groFill p g).msgs) ++ [q] := by
  rw [listen_history_splits_exactly s _ hs (by
    intro f hf
    simp only [List.mem_cons, List.not_mem_nil, or_false] at hf
    rcases hf with rfl | rfl
    · exact gro_kernelFormed p g
    · exact plain_kernelFormed q)]
  have hq : want (plainFill q).payload (groOf (plainFill q).msgs) = [q] := by simp [plainFill, groOf, want, bogus]
  simp only [List.map_cons, List.map_nil, List.flatten_cons, List.flatten_nil, List.append_nil, hq]
  rfl

/-- parsing never reads outside what the kernel reported, on any slot state (not only kernel-formed). -/
theorem listen_parse_in_bounds (s : Slot) : parseSlot s ≠ .oob := Nebula.Props.C27.cmsg_in_bounds false _

/-! Non-vacuity: the hypotheses hold for the slots `prepareRawMessages` hands out and for the fills the
kernel produces; the C27-5 witness (GRO fill with gso_size 2, then a plain fill longer than 2) on the
model, and the same history on the counter-model with the re-arm moved after the read. -/
example : SlotOK Slot.fresh := fresh_ok
example (p : List UInt8) (g : Nat) : KernelFormed (groFill p g) ∧ KernelFormed (plainFill p) :=
  ⟨gro_kernelFormed p g, plain_kernelFormed p⟩
example : (listenRun Slot.fresh [groFill [1, 2, 3, 4] 2, plainFill [5, 6, 7]]).2 = [[1, 2], [3, 4], [5, 6, 7]] := by
  decide +kernel
example : (listenRun Slot.fresh [groFill [1, 2, 3, 4] 2, plainFill [5, 6, 7]]).1.controllen = 0 := by
  decide +kernel
/-- the stale-size hazard is real: with "read, re-arm, parse" the plain datagram is cut by the old size. -/
example : (listenStepRearmAfterRead (listenStep Slot.fresh (groFill [1, 2, 3, 4] 2)).1 (plainFill [5, 6, 7])).2
    = [[5, 6], [7]] := by decide +kernel

end Nebula.Props.C27Listen
