/-
C43 — the metadata outside the GCM tag is bound to the key ("… is refused with any other passphrase or any
alteration of the encrypted data").

`RawNebulaEncryptedData` carries the algorithm string, the Argon2 parameters and the nonce in clear. A message in
which any of them differs from what the key was sealed under never opens:

* the algorithm string and the Argon2 version are compared with the only supported values;
* `Parallelism` is a uint32 on the wire and a uint8 in `Argon2Parameters`: `unmarshalArgon2Parameters` refuses 0
  and everything above 255 **on the uint32** (`parallelism_alias_refused`: every `p + 256·k`, `k ≥ 1`, is refused
  although it narrows to the same uint8 — `alias_narrows_to_same` — and would derive the same key);
* memory, iterations, parallelism (1…255), salt feed the derivation and the nonce feeds the AEAD: with the
  crypto hypothesis already used for the passphrase (`wrong_passphrase_refused`: the sealed blob does not open
  under the key derived from other inputs — KDF collision freedom + AEAD authenticity for the pair at hand),
  stated here for other *parameters / nonce* instead of another passphrase (`hbind`), decryption fails
  (`open_binds_params`, and `open_binds_params_encrypted` for the bytes a writer produces, no codec hypothesis).
-/
import Nebula.Lemmas.CertKeys
import Nebula.Lemmas.CertKeysPb
import Nebula.Model.CertKeysKdfParams
import Nebula.Lemmas.CertKeysKdfParams

namespace Nebula.Props.C43
open Nebula.CertKeys Nebula.Lemmas.CertKeys Nebula.Lemmas.CertKeysPb Nebula.Lemmas.CertKeysKdfParams
open Nebula.Cert (curve25519 curveP256)
open Nebula.CertPb (utf8Valid)

/-- The range check of the parallelism field exactly as in the code: performed on the decoded uint32, refusing 0
and everything above `math.MaxUint8` (after the memory check, before the iterations check). -/
theorem parallelism_range_check (a : Argon) :
    checkArgon a = some .parallelism ↔ a.memory ≠ 0 ∧ (a.parallelism = 0 ∨ 255 < a.parallelism) := by
  unfold checkArgon
  by_cases h1 : a.memory = 0
  · simp [h1]
  · by_cases h2 : a.parallelism = 0 ∨ a.parallelism > 255
    · simp [h1, h2]
    · have h3 : ¬ (a.parallelism = 0 ∨ 255 < a.parallelism) := h2
      simp only [h1, h2, h3, if_false, ne_eq, not_false_eq_true, true_and, iff_false]
      intro h; split at h <;> cases h

/-- why the check must not be made on the narrowed value: `p + 256·k` narrows to the same uint8 as `p`. -/
theorem alias_narrows_to_same (p k : Nat) : narrowParallelism (p + 256 * k) = narrowParallelism p := by
  unfold narrowParallelism; omega

/-- **A parallelism field rewritten from `p` to `p + 256·k` (`k ≥ 1`) is refused**, whatever the crypto, the
passphrase, the other fields and the ciphertext: no key is returned. -/
theorem parallelism_alias_refused (K : KeyCrypto) (pass : Bytes) (curve : Nat) (d : EncData) (md : Metadata) (a : Argon)
    (p k : Nat) (hk : 1 ≤ k) (hm : d.metadata = some md) (ha : md.argon = some a) (hp : a.parallelism = p + 256 * k) :
    ∀ r, decryptMsg K pass curve d ≠ .ok r := by
  rintro ⟨c, key⟩ h
  obtain ⟨-, md', a', hm', ha', hc, -⟩ := (decryptMsg_ok_iff K pass curve d c key).mp h
  rw [hm] at hm'; cases hm'
  rw [ha] at ha'; cases ha'
  unfold checkArgon at hc
  have : a.parallelism = 0 ∨ a.parallelism > 255 := Or.inr (by omega)
  by_cases h1 : a.memory = 0
  · simp [h1] at hc
  · simp [h1, this] at hc

/-- the same for the bytes: a body that decodes to such a message is refused by
`DecryptAndUnmarshalSigningPrivateKey`. -/
theorem parallelism_alias_refused_body (K : KeyCrypto) (pass : Bytes) (banner : String) (body : Bytes) (d : EncData)
    (md : Metadata) (a : Argon) (p k : Nat) (hk : 1 ≤ k)
    (hpb : decEncData (body.length + 1) {} body = some d)
    (hm : d.metadata = some md) (ha : md.argon = some a) (hp : a.parallelism = p + 256 * k) :
    ∀ r, decrypt K pass banner body ≠ .ok r := by
  intro r h
  unfold decrypt at h
  cases hb : bannerCurve banner with
  | none => rw [hb] at h; cases h
  | some cv =>
    rw [hb] at h; simp only at h
    split at h
    · cases h
    · rw [hpb] at h
      exact parallelism_alias_refused K pass cv d md a p k hk hm ha hp r h

/-- **open_binds_params — a blob with changed metadata never opens.** The key was sealed under parameters `a` and
nonce `nonce`. Let `body'` decode to algorithm `alg'`, parameters `a'`, nonce `nonce'` and ciphertext `ct'`, with
at least one of the three different from the original (`hdiff`). Under the crypto hypothesis `hbind` — the
ciphertext does not open under the key derived from the passphrase with *other* parameters, or under another
nonce (the hypothesis of `wrong_passphrase_refused` with the parameters / nonce in the place of the passphrase) —
`DecryptAndUnmarshalSigningPrivateKey` returns no key for any banner. No hypothesis is needed for the algorithm
string (and none for the Argon2 version or an out-of-range parallelism: those never reach `hbind`'s conclusion). -/
theorem open_binds_params (K : LawfulKeyCrypto) (pass : Bytes) (a a' : Argon) (alg' nonce nonce' ct' : Bytes)
    (banner : String) (body' : Bytes) (hnonce' : nonce'.length = nonceSize)
    (hpb : decEncData (body'.length + 1) {} body' =
      some { metadata := some { algorithm := alg', argon := some a' }, ciphertext := nonce' ++ ct' })
    (hdiff : alg' ≠ algAES ∨ a' ≠ a ∨ nonce' ≠ nonce)
    (hbind : a' ≠ a ∨ nonce' ≠ nonce → a'.version = argonVersion → checkArgon a' = none →
      K.aeadOpen (K.kdf pass a') nonce' ct' = none) :
    ∀ r, decrypt K.toKeyCrypto pass banner body' ≠ .ok r := by
  rintro ⟨c, k⟩ h
  unfold decrypt at h
  cases hb : bannerCurve banner with
  | none => rw [hb] at h; cases h
  | some cv =>
    rw [hb] at h; simp only at h
    split at h
    · cases h
    · rw [hpb] at h; simp only at h
      obtain ⟨-, md, a'', hm, ha, hc, halg, hv, -, -, ho, -⟩ := (decryptMsg_ok_iff _ _ _ _ _ _).mp h
      simp only [Option.some.injEq] at hm
      subst hm
      simp only [Option.some.injEq] at ha
      subst ha
      obtain ⟨h4, h5⟩ := take_drop_nonce nonce' ct' hnonce'
      simp only [h4, h5] at ho
      rcases hdiff with hd | hd
      · exact hd halg
      · rw [hbind hd hv hc] at ho; cases ho

/-- … for the bytes a writer of the format produces from the altered fields (protobuf round trip proved, no codec
hypothesis): the original ciphertext `seal (kdf pass a) nonce key` under altered parameters `a'` / nonce `nonce'`
/ algorithm string `alg'`. `hbind` is literally the hypothesis of `wrong_passphrase_refused` with `(a', nonce')`
varying instead of the passphrase. -/
theorem open_binds_params_encrypted (K : LawfulKeyCrypto) (key pass : Bytes) (a a' : Argon) (alg' nonce nonce' : Bytes)
    (banner : String) (hnonce' : nonce'.length = nonceSize)
    (hwf : ArgonWF a') (hsalt : a'.salt.length < 2 ^ 32) (hkey : key.length < 2 ^ 32)
    (halg : utf8Valid alg' = true) (halgl : alg'.length < 2 ^ 32)
    (hdiff : alg' ≠ algAES ∨ a' ≠ a ∨ nonce' ≠ nonce)
    (hbind : a' ≠ a ∨ nonce' ≠ nonce →
      K.aeadOpen (K.kdf pass a') nonce' (K.aeadSeal (K.kdf pass a) nonce key) = none) :
    ∀ r, decrypt K.toKeyCrypto pass banner
      (encEncData { metadata := some { algorithm := alg', argon := some a' },
                    ciphertext := nonce' ++ K.aeadSeal (K.kdf pass a) nonce key }) ≠ .ok r := by
  have l1 := encArgon_length_le a'
  have l2 := encMetadata_length_le alg' a'
  have hb : (nonce' ++ K.aeadSeal (K.kdf pass a) nonce key).length < 2 ^ 64 := by
    rw [List.length_append, K.seal_length, hnonce']; unfold nonceSize; omega
  have hrt := decEncData_encEncData
    { metadata := some { algorithm := alg', argon := some a' }, ciphertext := nonce' ++ K.aeadSeal (K.kdf pass a) nonce key }
    (by
      refine ⟨hb, ?_⟩
      intro m hm
      simp only [Option.some.injEq] at hm
      subst hm
      refine ⟨⟨halg, by show alg'.length < _; omega, ?_⟩, by omega⟩
      intro a'' ha''
      simp only [Option.some.injEq] at ha''
      subst ha''
      exact ⟨hwf, by omega⟩) _ (Nat.le_refl _)
  exact open_binds_params K pass a a' alg' nonce nonce' _ banner _ hnonce' hrt hdiff (fun h _ _ => hbind h)

/-! ### Non-vacuity: a lawful crypto for which `hbind` holds on concrete altered parameters, and under which the
unaltered blob opens -/

set_option maxRecDepth 8000 in
example : decrypt bindToy.toKeyCrypto [1] Gen.cert_EncryptedECDSAP256PrivateKeyBanner (exBody exArgon exNonce) =
    .ok (curveP256, exKey) := by decide

-- `hbind` holds for the toy crypto when the parallelism is rewritten 4 → 5 …
set_option maxRecDepth 8000 in
example : bindToy.aeadOpen (bindToy.kdf [1] { exArgon with parallelism := 5 }) exNonce
    (bindToy.aeadSeal (bindToy.kdf [1] exArgon) exNonce exKey) = none := by decide

-- … and the model refuses that body, and the alias 4 → 260 before any crypto is consulted.
set_option maxRecDepth 8000 in
example : decrypt bindToy.toKeyCrypto [1] Gen.cert_EncryptedECDSAP256PrivateKeyBanner
    (exBody { exArgon with parallelism := 5 } exNonce) = .error .aead := by decide

set_option maxRecDepth 8000 in
example : decrypt bindToy.toKeyCrypto [1] Gen.cert_EncryptedECDSAP256PrivateKeyBanner
    (exBody { exArgon with parallelism := 260 } exNonce) = .error .parallelism := by decide

example : changedFields
    { metadata := some { algorithm := algAES, argon := some exArgon }, ciphertext := exNonce }
    { metadata := some { algorithm := algAES, argon := some { exArgon with parallelism := 260 } }, ciphertext := exNonce }
    = ["parallelism"] := by decide

end Nebula.Props.C43
