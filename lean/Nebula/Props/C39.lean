/-
C39 — Relays forward only for the pair they were set up for.

"A node forwards relayed traffic only when it is configured as a relay, only between the two peers that
negotiated that relay, and only once the onward leg is established; it never forwards to a third peer or
to itself. Relay state changes only through valid transitions, and relay indexes disappear with the
tunnel that owns them."  — over all control-message histories (create requests and responses with
arbitrary addresses and indexes, duplicates, stale indexes, v1/v2 encodings) and tunnel churn.

Model: `Nebula.Relay` (Model/Relay.lean) — the code as fixed by
`fix: stop forwarding relayed packets once relay.am_relay is turned off` (finding F11).
A history is any `List Op` (tunnel up / down, control message from an authenticated peer with arbitrary
content, config reload of `am_relay`, loss of a peer's underlay address); no bound on its length.
The authentication of the control channel and of relay packets (the hostinfo passed to the handlers is
the one whose key opened the packet) is property C14's subject and is an assumption here.
-/
import Nebula.Lemmas.RelayHist
import Nebula.Lemmas.RelayStale

namespace Nebula.Props.C39
open Nebula.Relay Nebula.Gen Nebula.Spec.Relay Nebula.Lemmas.Relay

/-- **forward_only_pair** (any node state). A relay packet on relay index `idx` is forwarded to hostinfo
`tid` with outer index `outIdx` only if: the node is configured as a relay *now*; `idx` is a Forwarding
record `r` of the hostinfo `s` that owns the index in `hm.Relays` (the one whose key authenticated the
packet); `t` is a tunnel whose certified addresses contain `r.peerAddr`; and `t` holds an Established
Forwarding record for one of `s`'s certified addresses, whose remote index is `outIdx`. -/
theorem forward_only_pair (n : Node) (idx tid outIdx : Nat)
    (e : relayPacket n idx = .forward tid outIdx) :
    n.amRelay = true ∧ ∃ hid, n.relayOwner idx = some hid ∧ ∃ s ∈ n.hosts, s.id = hid ∧ ∃ r ∈ s.recs,
      r.localIndex = idx ∧ r.type = nebula_ForwardingType ∧
      ∃ t ∈ n.hosts, t.id = tid ∧ t.vpnAddrs.contains r.peerAddr = true ∧ ∃ tr ∈ t.recs,
        tr.peerAddr ∈ s.vpnAddrs ∧ tr.state = nebula_Established ∧ tr.type = nebula_ForwardingType ∧
        tr.remoteIndex = outIdx :=
  relayPacket_forward e

/-- Not configured as a relay ⇒ nothing is forwarded, whatever relay records exist (F11, fixed code). -/
theorem no_forward_unless_relay (n : Node) (idx : Nat) (h : n.amRelay = false) :
    ∀ tid outIdx, relayPacket n idx ≠ .forward tid outIdx := by
  intro tid outIdx e
  have := (relayPacket_forward e).1
  rw [h] at this
  exact Bool.noConfusion this

/-- The invariants hold after EVERY history, from any start counter: no Forwarding record points at one
of the node's own addresses, and every `hm.Relays` entry is owned by a live hostinfo holding the record. -/
theorem reachable_invariants (my : List Addr) (am : Bool) (c : Nat) (ops : List Op) :
    noSelfRecords (run (init my am, c) ops).1 = true ∧ relaysOwned (run (init my am, c) ops).1 = true := by
  have h := inv_run ops (init my am, c) (inv_init my am)
  exact ⟨(ns_iff _).mpr h.1, (ro_iff _).mpr h.2.1⟩

/-- **never to itself / never to a third peer**, after every history: the specification predicate
`okForward` (Spec/Relay.lean) holds for every forwarding decision of a reachable node. -/
theorem forward_ok_after_any_history (my : List Addr) (am : Bool) (c : Nat) (ops : List Op)
    (idx tid outIdx : Nat)
    (e : relayPacket (run (init my am, c) ops).1 idx = .forward tid outIdx) :
    ∃ hid, (run (init my am, c) ops).1.relayOwner idx = some hid ∧
      okForward (run (init my am, c) ops).1 hid idx tid outIdx = true := by
  have hinv := inv_run ops (init my am, c) (inv_init my am)
  generalize (run (init my am, c) ops).1 = n at e hinv ⊢
  obtain ⟨ham, hid, hown, s, hs, hsid, r, hr, hri, hrt, t, ht, htid, hta, tr, htr, htp, hts, htt, hto⟩ :=
    relayPacket_forward e
  refine ⟨hid, hown, ?_⟩
  unfold okForward
  simp only [Bool.and_eq_true, List.any_eq_true, beq_iff_eq, Bool.not_eq_true']
  refine ⟨ham, s, hs, hsid, r, hr, ⟨⟨⟨hri, hrt⟩, hinv.1 s hs r hr hrt⟩, t, ht, ⟨htid, hta⟩, tr, htr, ?_⟩⟩
  exact ⟨⟨⟨by simpa using htp, hts⟩, htt⟩, hto⟩

/-- **forward_records_need_amRelay**: a control message creates Forwarding records only while the node is
configured as a relay (every Forwarding record after the message existed before it, unless `am_relay`). -/
theorem forward_records_need_amRelay (n : Node) (c hid : Nat) (m : Ctl) :
    newForwardingNeedsAmRelay n (handleControl n c hid m).1 = true := by
  have e := ext_handleControl n c hid m
  unfold newForwardingNeedsAmRelay
  cases ham : n.amRelay
  · simp only [Bool.false_or, List.all_eq_true, Bool.or_eq_true, Bool.not_eq_true', List.any_eq_true,
      Bool.and_eq_true, beq_iff_eq, beq_eq_false_iff_ne, ne_eq]
    intro h' hh' r' hr'
    rcases e.back h' hh' r' hr' with ⟨h0, hh0, hid0, r0, hr0, k1, _, k3⟩ | h1 | h1
    · by_cases c : r'.type = nebula_ForwardingType
      · exact Or.inr ⟨h0, hh0, hid0, r0, hr0, k3, by rw [k1]; exact c⟩
      · exact Or.inl c
    · exact Or.inl h1
    · rw [ham] at h1; exact Bool.noConfusion h1.1
  · rfl

/-- **relay_indexes_die_with_owner**: after every history, closing a live tunnel removes every
`hm.Relays` entry it owned (no relay index of the closed hostinfo stays routable). Stale deletes of an
already unlinked hostinfo (F08, property C28) are outside this statement. -/
theorem relay_indexes_die_with_owner (my : List Addr) (am : Bool) (c : Nat) (ops : List Op) (hid : Nat)
    (live : ((run (init my am, c) ops).1.findHost hid).isSome = true) :
    noIndexOf (deleteHost (run (init my am, c) ops).1 hid) hid = true := by
  have hinv := inv_run ops (init my am, c) (inv_init my am)
  generalize (run (init my am, c) ops).1 = n at live hinv ⊢
  unfold noIndexOf
  simp only [List.all_eq_true, Bool.not_eq_true', beq_eq_false_iff_ne, ne_eq]
  intro p hp
  cases hf : n.findHost hid with
  | none => rw [hf] at live; exact Bool.noConfusion live
  | some hi =>
    rcases deleteHost_live hf with e | e
    · rw [e] at hp; exact noIndex_unlinked hid hinv.2.1 p hp
    · rw [e, disestablish_relays] at hp; exact noIndex_unlinked hid hinv.2.1 p hp


/-- helper: `newForwardingNeedsAmRelay` from an extension step. -/
theorem newForwarding_of_ext {n m : Node} (e : Ext n.amRelay n m) : newForwardingNeedsAmRelay n m = true := by
  unfold newForwardingNeedsAmRelay
  cases ham : n.amRelay
  · simp only [Bool.false_or, List.all_eq_true, Bool.or_eq_true, Bool.not_eq_true', List.any_eq_true,
      Bool.and_eq_true, beq_iff_eq, beq_eq_false_iff_ne, ne_eq]
    intro h' hh' r' hr'
    rcases e.back h' hh' r' hr' with ⟨h0, hh0, hid0, r0, hr0, k1, _, k3⟩ | h1 | h1
    · by_cases c : r'.type = nebula_ForwardingType
      · exact Or.inr ⟨h0, hh0, hid0, r0, hr0, k3, by rw [k1]; exact c⟩
      · exact Or.inl c
    · exact Or.inl h1
    · rw [ham] at h1; exact Bool.noConfusion h1.1
  · rfl

/-- the initiator side (`StartRelays`) and relay migration (`migrateRelayUsed`, as fixed — finding F22)
create Forwarding records only while the node is configured as a relay. -/
theorem start_and_migrate_need_amRelay (my : List Addr) (am : Bool) (c0 : Nat) (ops : List Op)
    (vpnIp : Addr) (v1 : Bool) (relays : List Addr) (o nw : Nat) :
    newForwardingNeedsAmRelay (run (init my am, c0) ops).1
        (startRelays (run (init my am, c0) ops).1 (run (init my am, c0) ops).2 vpnIp v1 relays).1 = true ∧
    newForwardingNeedsAmRelay (run (init my am, c0) ops).1
        (migrateRelayUsed (run (init my am, c0) ops).1 (run (init my am, c0) ops).2 o nw v1).1 = true := by
  have hinv := inv_run ops (init my am, c0) (inv_init my am)
  exact ⟨newForwarding_of_ext (ext_startRelays _ _ _ _ _), newForwarding_of_ext (ext_migrate _ _ _ _ _ hinv.1)⟩

/-- **per-node index uniqueness**, after every history: a relay local index names one record of one
hostinfo, hostinfo ids are unique, every record's index is in `hm.Relays`, and every state is one of the
four defined ones. -/
theorem reachable_index_unique (my : List Addr) (am : Bool) (c : Nat) (ops : List Op) :
    let n := (run (init my am, c) ops).1
    (∀ h1 ∈ n.hosts, ∀ h2 ∈ n.hosts, ∀ r1 ∈ h1.recs, ∀ r2 ∈ h2.recs,
        r1.localIndex = r2.localIndex → h1.id = h2.id ∧ r1 = r2) ∧
    (∀ h1 ∈ n.hosts, ∀ h2 ∈ n.hosts, h1.id = h2.id → h1 = h2) ∧
    (∀ h ∈ n.hosts, ∀ r ∈ h.recs, ∃ p ∈ n.relays, p.1 = r.localIndex) ∧
    (∀ h ∈ n.hosts, ∀ r ∈ h.recs, validState r.state = true) := by
  have hinv := inv_run ops (init my am, c) (inv_init my am)
  exact ⟨hinv.2.2.2.1, hinv.2.2.1, hinv.2.2.2.2.1, hinv.2.2.2.2.2⟩

/-- **record_identity_stable**: after every history, NO operation (tunnel up incl. the per-address
eviction, tunnel close, control message, StartRelays, relay migration, handshake seen on a relay,
reloads) changes the type or peer address of a record that keeps its hostinfo and local index. -/
theorem record_identity_stable (my : List Addr) (am : Bool) (c : Nat) (ops : List Op) (op : Op) :
    identityStable (run (init my am, c) ops).1 (step (run (init my am, c) ops) op).1 = true := by
  have hinv := inv_run ops (init my am, c) (inv_init my am)
  exact identityStable_of_orig hinv.2.2 (step_orig_inv op hinv).1

/-- **state_transitions_valid**: after every history, every operation leaves every record in one of the four
defined states, and no existing record (re-)enters `PeerRequested` — the only state changes are
→Established (response / request from the record's own peer, handshake seen on the relay),
→Requested (re-request, StartRelays on a Disestablished record) and →Disestablished (tunnel deletion). -/
theorem state_transitions_valid (my : List Addr) (am : Bool) (c : Nat) (ops : List Op) (op : Op) :
    statesValid (run (init my am, c) ops).1 (step (run (init my am, c) ops) op).1 = true := by
  have hinv := inv_run ops (init my am, c) (inv_init my am)
  have h := step_orig_inv op hinv
  exact statesValid_of_orig hinv.2.2 h.2.2.2.2.2.2 h.1

-- non-vacuity: a concrete history on a relay node (addresses 1 = S, 2 = me, 3 = T) after which a
-- relay packet IS forwarded, and is no longer forwarded once `am_relay` is reloaded to false.
example :
    let ops : List Op := [.up 10 11 [1] none, .up 20 21 [3] none,
      .ctl 10 { type := 1, initIdx := 500, frm := some 1, to := some 3 },
      .ctl 20 { type := 2, initIdx := 101, respIdx := 700, frm := some 1, to := some 3 }]
    relayPacket (run (init [2] true, 100) ops).1 102 = .forward 20 700 ∧
    relayPacket (run (init [2] true, 100) (ops ++ [.reload false])).1 102 = .drop "not-relay" := by
  decide


-- ---- "relay indexes disappear with the tunnel that owns them", with stale hostinfo pointers
--
-- Histories are lists of `SOp` (Model/RelayStale.lean): every operation above, tunnel close keeping the
-- hostinfo object alive for whoever still points to it, and the relay-manager entry points that allocate a
-- relay index invoked on such a dead object at ANY later point: `HandleControlMsg` (CloseTunnel followed by a
-- Control message in one receive batch: the per-batch hostmap cache), `connectionManager.migrateRelayUsed`
-- with old and/or new torn down, `StartRelays` with the relay's tunnel torn down between its lookup and
-- `AddRelay`'s lock.

/-- **relay_index_owner_live**: after every history — stale-pointer calls included, anywhere — every key of
`hm.Relays` is owned by a hostinfo that is in the hostmap now, and that hostinfo's relay state lists it. -/
theorem relay_index_owner_live (my : List Addr) (am : Bool) (c : Nat) (ops : List SOp) :
    relayOwnersLive (sRun (sInit my am, c) ops).1.node = true ∧
    relayIndexInOwnerState (sRun (sInit my am, c) ops).1.node = true := by
  have h := (sinv_sRun ops (sInit my am, c) (sinv_init my am)).1
  exact ⟨ownersLive_of_inv h, inOwnerState_of_inv h⟩

/-- **relays_and_state_agree**: both directions — additionally every record of a live hostinfo is registered
in `hm.Relays` under that very hostinfo. -/
theorem relays_and_state_agree (my : List Addr) (am : Bool) (c : Nat) (ops : List SOp) :
    relaysAndStateAgree (sRun (sInit my am, c) ops).1.node = true := by
  have h := (sinv_sRun ops (sInit my am, c) (sinv_init my am)).1
  unfold relaysAndStateAgree
  rw [ownersLive_of_inv h, inOwnerState_of_inv h, registered_of_inv h]
  rfl

/-- **teardown_erases_relay_indexes**: after every history, deleting a tunnel leaves no `hm.Relays` entry
that refers to it — at once (`rest = []`) and for ever: whatever happens afterwards (`rest`: any operations,
any stale-pointer calls on the deleted hostinfo or on others), the removed tunnel never regains a relay index.
The only proviso: no NEW tunnel is handed the same local index (that would be a different hostinfo). -/
theorem teardown_erases_relay_indexes (my : List Addr) (am : Bool) (c : Nat) (ops : List SOp) (hid : Nat)
    (rest : List SOp) (hrest : ∀ op ∈ rest, SOp.isUpOf hid op = false) :
    noIndexOf (sRun (sDelete (sRun (sInit my am, c) ops).1 hid, (sRun (sInit my am, c) ops).2) rest).1.node hid = true := by
  have h0 := sinv_sRun ops (sInit my am, c) (sinv_init my am)
  have h1 : SInv (sDelete (sRun (sInit my am, c) ops).1 hid, (sRun (sInit my am, c) ops).2).1 := sinv_sDelete hid h0
  exact noIndexOf_of_noId (sinv_sRun rest _ h1).1 (noId_sRun rest _ hrest h1 (noId_sDelete_self _ hid))

/-- **stale_add_relay_registers_nothing** (any node state, any arguments): `AddRelay` handed a hostinfo that
is not in the hostmap returns an error and leaves the node state — `hm.Relays`, every relay state — as it
was; in the "target is me" branch of `handleCreateRelayRequest` on such a hostinfo nothing is sent back either. -/
theorem stale_add_relay_registers_nothing (n : Node) (c hid : Nat) (peer : Addr) (ri ty st : Nat)
    (stale : n.findHost hid = none) :
    (addRelay n c hid peer ri ty st).1 = none ∧ (addRelayNode n c hid peer ri ty st).1 = n ∧
    (addRelayNode n c hid peer ri ty st).2 = staleAddRelay n c ∧
    ∀ (d : Host) (v1 : Bool) (frm target : Addr) (i : Nat), n.myAddrs.contains frm = false →
      n.myAddrs.contains target = true → d.byAddr frm = none →
      staleCreateRelayRequest n c d v1 frm target i = (n, d, staleAddRelay n c, []) := by
  have e : addRelay n c hid peer ri ty st = (none, staleAddRelay n c) := by
    unfold addRelay staleAddRelay
    split
    · rename_i h; rw [h]
    · rename_i h; rw [stale, h]
  refine ⟨by rw [e], by unfold addRelayNode; rw [e], by unfold addRelayNode; rw [e], ?_⟩
  intro d v1 frm target i hf ht hd
  unfold staleCreateRelayRequest
  rw [if_neg (by rw [hf]; exact Bool.false_ne_true), if_pos ht, hd]

-- non-vacuity. Endpoint node 3 (not a relay), tunnel 104 to the relay 2. CloseTunnel -> CreateRelayRequest
-- (from 1, to me) in one batch: the request is handled on the dead hostinfo; one index is drawn (105) and
-- nothing is registered. The same request on the live tunnel registers index 105 under hostinfo 104.
example :
    let m : Ctl := { type := 1, initIdx := 500, frm := some 1, to := some 3 }
    let stale := sRun (sInit [3] false, 104) [.base (.up 104 103 [2] none), .base (.down 104), .staleCtl 104 m]
    let live := sRun (sInit [3] false, 104) [.base (.up 104 103 [2] none), .base (.ctl 104 m)]
    stale.1.node.relays = [] ∧ stale.2 = 105 ∧ stale.1.dead.map (·.id) = [104] ∧
    live.1.node.relays = [(105, 104)] ∧ live.2 = 105 := by
  decide

-- relay role (node 2, am_relay): the request from the dead requester tunnel 102 still sets up the onward leg on
-- the LIVE target tunnel 103 (index 105, registered under 103); the requester-side record (AddRelay on the
-- dead 102) draws 106 and registers nothing. Afterwards a new tunnel 108 to the requester negotiates afresh.
example :
    let m : Ctl := { type := 1, initIdx := 500, frm := some 1, to := some 3 }
    let x := sRun (sInit [2] true, 104) [.base (.up 102 101 [1] none), .base (.up 103 104 [3] none),
      .base (.down 102), .staleCtl 102 m]
    let y := sRun x [.base (.up 108 107 [1] none), .base (.ctl 108 m)]
    x.1.node.relays = [(105, 103)] ∧ x.2 = 106 ∧
    y.1.node.relays = [(107, 108), (105, 103)] ∧ noIndexOf y.1.node 102 = true := by
  decide

-- StartRelays racing the teardown of the relay's tunnel (initiator node 1, relay 2 behind tunnel 101): the
-- tunnel is gone, index 103 was drawn, nothing registered, no request sent.
example :
    (raceStart (sRun (sInit [1] false, 102) [.base (.up 101 102 [2] none)]).1 102 3 false 2).1.node.relays = [] ∧
    (raceStart (sRun (sInit [1] false, 102) [.base (.up 101 102 [2] none)]).1 102 3 false 2).2.2 = ([], true) ∧
    ((startRelays (sRun (sInit [1] false, 102) [.base (.up 101 102 [2] none)]).1.node 102 3 false [2]).1.relays = [(103, 101)]) := by
  decide

-- migrateRelayUsed(old = 102, new = 108) on the relay with `new` torn down: the used Forwarding record 106 of
-- `old` is not re-created anywhere (index 109 drawn and dropped); with `new` alive it is (109 under 108).
example :
    let m : Ctl := { type := 1, initIdx := 500, frm := some 1, to := some 3 }
    let x := sRun (sInit [2] true, 104) [.base (.up 102 101 [1] none), .base (.up 103 104 [3] none),
      .base (.ctl 102 m), .base (.used 106), .base (.up 108 107 [1] none)]
    (sRun x [.base (.down 108), .migrate 102 108 false]).1.node.relays = [(106, 102), (105, 103)] ∧
    (sRun x [.base (.down 108), .migrate 102 108 false]).2 = 107 ∧
    (sRun x [.migrate 102 108 false]).1.node.relays = [(107, 108), (106, 102), (105, 103)] := by
  decide

end Nebula.Props.C39
