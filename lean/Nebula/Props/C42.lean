/-
C42 — Certificate reload never changes a node's identity.

"A configuration reload that would change the node's overlay networks or curve, or drop its v2 certificate
without an equivalent v1 one, is refused and the previous certificates stay in use; a reload with an
unreadable CA bundle keeps the previous trust store. The v1 and v2 certificates in use always share one key
pair and primary network …"

Model: `Model/PkiReload.lean` (pki.go after the repair "fix: certificate reload refuses replacing a lone v1
certificate by a v2 one (or a v2 by a v1 one) with other networks or curve", finding F10). All theorems
are for every configuration, every wall-clock time and every sequence of reloads.

KNOWN FINDING (class `reload-add-v2-extra-networks`): adding a v2 certificate *next to* an unchanged v1
certificate is accepted when only the primary network agrees (`newCertState` compares `Networks()[0]`), so
the node's overlay network list grows on reload. Deliberate in the code ("adding certs is fine, actually");
`identity_stable_partial` excludes exactly this transition, `networks_stable_full_false` is the witness,
`primary_identity_stable` is the full statement that does hold.
-/
import Nebula.Lemmas.PkiReload

namespace Nebula.Props.C42
open Nebula.Net Nebula.Cert Nebula.Pki Nebula.Lemmas.PkiReload

/-- Every loaded state: a certificate exists; the overlay networks are the v2 certificate's (else the v1
one's); **the v1 and v2 certificates in use share key, curve and primary network.** -/
theorem pair_invariant (now : Int) (cfg : Config) (s : CertState) (h : loadState now cfg = .ok s) :
    (s.v1.isSome ∨ s.v2.isSome) ∧
    ∀ a b, s.v1 = some a → s.v2 = some b →
      a.publicKey = b.publicKey ∧ a.curve = b.curve ∧ a.networks.head? = b.networks.head? :=
  ⟨(loadState_wf h).some_cert, (loadState_wf h).pair⟩

/-- The transition the guards let through with a longer network list: a v2 certificate appears next to a v1
certificate while the state in use had none. -/
def addsV2NextToV1 (cur new : CertState) : Prop := cur.v2 = none ∧ new.v1.isSome ∧ new.v2.isSome

instance (cur new : CertState) : Decidable (addsV2NextToV1 cur new) := by unfold addsV2NextToV1; exact inferInstance

/-- What passing the reload guards implies for two well-formed states. -/
theorem guards_preserve_identity (cur new : CertState) (hc : WF cur) (hn : WF new)
    (h : reloadGuards cur new = none) :
    new.curve = cur.curve ∧ new.networks.head? = cur.networks.head? ∧
    (¬ addsV2NextToV1 cur new → new.networks = cur.networks) := by
  obtain ⟨c1, c2, ci, cn⟩ := cur
  obtain ⟨n1, n2, ni, nn⟩ := new
  have hcn := hc.nets; have hnn := hn.nets
  have hcp := hc.pair; have hnp := hn.pair
  have hcs := hc.some_cert; have hns := hn.some_cert
  simp only at hcn hnn hcp hnp hcs hns
  unfold reloadGuards at h
  unfold CertState.curve addsV2NextToV1
  cases c1 <;> cases c2 <;> cases n1 <;> cases n2 <;> simp only [] at h hcn hnn hcs hns ⊢ <;>
    simp_all
  all_goals (repeat' split at h)
  all_goals try (cases h; done)
  all_goals try (rename_i hq; repeat' split at hq)
  all_goals try (rename_i hq; cases hq; done)
  all_goals simp_all

/-- **Identity is stable**: an accepted reload keeps the curve and the primary overlay network, and keeps the
whole overlay network list unless it adds a v2 certificate next to a v1 one. -/
theorem identity_stable_partial (now : Int) (cur : CertState) (hc : WF cur) (cfg : Config) (new : CertState)
    (h : reloadCerts now (some cur) cfg = .ok new) (hx : ¬ addsV2NextToV1 cur new) :
    new.networks = cur.networks ∧ new.curve = cur.curve := by
  unfold reloadCerts at h
  cases hl : loadState now cfg with
  | error e => rw [hl] at h; cases h
  | ok s =>
    rw [hl] at h
    simp only at h
    cases hg : reloadGuards cur s with
    | some e => rw [hg] at h; cases h
    | none =>
      rw [hg] at h
      cases h
      have := guards_preserve_identity cur new hc (loadState_wf hl) hg
      exact ⟨this.2.2 hx, this.1⟩

/-- Full strength for curve and primary network (no excluded class). -/
theorem primary_identity_stable (now : Int) (cur : CertState) (hc : WF cur) (cfg : Config) (new : CertState)
    (h : reloadCerts now (some cur) cfg = .ok new) :
    new.curve = cur.curve ∧ new.networks.head? = cur.networks.head? ∧ WF new := by
  unfold reloadCerts at h
  cases hl : loadState now cfg with
  | error e => rw [hl] at h; cases h
  | ok s =>
    rw [hl] at h
    simp only at h
    cases hg : reloadGuards cur s with
    | some e => rw [hg] at h; cases h
    | none =>
      rw [hg] at h
      cases h
      have := guards_preserve_identity cur new hc (loadState_wf hl) hg
      exact ⟨this.1, this.2.1, loadState_wf hl⟩

/-- A reload whose certificates are refused keeps the previous certificates in use; a reload whose CA bundle
is refused keeps the previous trust store (each part independently). -/
theorem refused_parts_keep_previous (now : Int) (p : PKI) (cfg : Config) :
    (∀ e, reloadCerts now p.cs cfg = .error e → (p.reload now cfg false).1.cs = p.cs) ∧
    (∀ e, loadCAPool now cfg = .error e → (p.reload now cfg false).1.pool = p.pool) := by
  constructor
  · intro e h
    unfold PKI.reload
    simp only [Bool.false_eq_true, if_false, h]
    cases loadCAPool now cfg <;> rfl
  · intro e h
    unfold PKI.reload
    simp only [Bool.false_eq_true, if_false, h]
    cases reloadCerts now p.cs cfg <;> rfl

/-- Non-initial reloads applied one after the other. -/
def run (p : PKI) : List (Int × Config) → PKI
  | [] => p
  | (now, cfg) :: rest => run (p.reload now cfg false).1 rest

/-- **Over all reload sequences**: from any well-formed state in use, after any number of reloads with
arbitrary configurations at arbitrary times, certificates are in use, they are well formed (pair
invariant), and curve and primary overlay network are the ones the node started with. -/
theorem identity_stable_seq (cs0 : CertState) (h0 : WF cs0) (pool : Option Pool) (ops : List (Int × Config)) :
    ∃ cs, (run { cs := some cs0, pool := pool } ops).cs = some cs ∧ WF cs ∧
      cs.curve = cs0.curve ∧ cs.networks.head? = cs0.networks.head? := by
  suffices H : ∀ (ops : List (Int × Config)) (p : PKI) (cur : CertState), p.cs = some cur → WF cur →
      cur.curve = cs0.curve → cur.networks.head? = cs0.networks.head? →
      ∃ cs, (run p ops).cs = some cs ∧ WF cs ∧ cs.curve = cs0.curve ∧ cs.networks.head? = cs0.networks.head? from
    H ops _ cs0 rfl h0 rfl rfl
  intro ops
  induction ops with
  | nil => intro p cur hp hw h1 h2; exact ⟨cur, hp, hw, h1, h2⟩
  | cons op rest ih =>
    intro p cur hp hw h1 h2
    obtain ⟨now, cfg⟩ := op
    unfold run
    cases hr : reloadCerts now p.cs cfg with
    | error e =>
      have := (refused_parts_keep_previous now p cfg).1 e hr
      exact ih _ cur (this.trans hp) hw h1 h2
    | ok new =>
      have hcs : (p.reload now cfg false).1.cs = some new := by
        unfold PKI.reload
        simp only [Bool.false_eq_true, if_false, hr]
        cases loadCAPool now cfg <;> rfl
      rw [hp] at hr
      obtain ⟨e1, e2, e3⟩ := primary_identity_stable now cur hw cfg new hr
      exact ih _ new hcs e3 (e1.trans h1) (e2.trans h2)

/-! ### Known finding witness and non-vacuity -/

/-- Full statement for the whole network list is false: v1-only {10.0.0.1/24} → v1 + v2 {10.0.0.1/24, 10.9.0.1/16}
is accepted and the overlay network list changes. -/
theorem networks_stable_full_false :
    ∃ (now : Int) (cur : CertState) (cfg : Config) (new : CertState), WF cur ∧
      reloadCerts now (some cur) cfg = .ok new ∧ new.networks ≠ cur.networks :=
  ⟨exNow, exCur, exCfgAddV2, exNew, exCur_wf, by decide, by decide⟩

example : reloadCerts exNow (some exCur) exCfgSame = .ok exCur := by decide
example : reloadCerts exNow (some exCur) exCfgV2Other = .error .v1ToV2Networks := by decide
example : ¬ addsV2NextToV1 exCur exCur := by decide

end Nebula.Props.C42
