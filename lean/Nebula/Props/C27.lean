/-
C27 — Received offload superdatagrams split back exactly.

"A datagram received with a kernel coalescing size is split into consecutive pieces of that size (the
last may be shorter) that together are exactly the received bytes, and a missing or nonsensical size
delivers the datagram whole. Parsing the kernel's ancillary data never reads outside it, whatever its
contents."  — for all payloads, all segment sizes (any sign), all ancillary buffers.
-/
import Nebula.Lemmas.Udprecv
import Nebula.Lemmas.UdprecvEncode

namespace Nebula.Props.C27
open Nebula.Udprecv Nebula.Spec.Udprecv Nebula.Lemmas.Udprecv

/-- The delivered pieces, concatenated in delivery order, are exactly the received bytes — for every
payload and every `segSize : int` (zero, negative, equal to or above the length included). -/
theorem segments_concat (p : List UInt8) (segSize : Int) : (deliver p segSize).flatten = p := by
  unfold deliver
  split
  · simp
  · next h =>
    have hs : 0 < segSize.toNat := by omega
    rw [segLoop_eq_chunks p _ 0 hs]; simpa using chunks_flatten segSize.toNat p hs

/-- A missing (0), negative, or too large (≥ length) size delivers the datagram whole, in one call. -/
theorem bogus_whole (p : List UInt8) (segSize : Int) (h : segSize ≤ 0 ∨ segSize ≥ (p.length : Int)) :
    deliver p segSize = [p] := by
  simp [deliver, h]

/-- With a sensible size `0 < s < len` there are exactly `⌈len / s⌉` deliveries and the `i`-th one is the
`s` bytes starting at offset `i * s` (fewer only where the payload ends). -/
theorem segment_pieces (p : List UInt8) (s : Nat) (h0 : 0 < s) (hlt : s < p.length) :
    (deliver p s).length = (p.length + s - 1) / s ∧
    ∀ i, i < (deliver p s).length → (deliver p s)[i]? = some ((p.drop (i * s)).take s) := by
  have hd : deliver p (s : Int) = chunks s p := by
    have : ¬ ((s : Int) ≤ 0 ∨ (s : Int) ≥ (p.length : Int)) := by omega
    simp only [deliver, this, if_false, Int.toNat_natCast]
    simpa using segLoop_eq_chunks p s 0 h0
  rw [hd]
  refine ⟨chunks_length s p h0, ?_⟩
  intro i hi
  rw [chunks_getElem? s p h0 i]
  rw [chunks_length s p h0] at hi
  have : i * s < p.length := by
    have h1 : i * s + s ≤ p.length + s - 1 := by
      have := Nat.div_mul_le_self (p.length + s - 1) s
      have h2 : (i + 1) * s ≤ (p.length + s - 1) / s * s := Nat.mul_le_mul_right s hi
      rw [Nat.add_mul] at h2; omega
    omega
  simp [this]

/-- Sizes: every piece but the last has exactly `s` bytes; the last has between 1 and `s`. -/
theorem segment_sizes (p : List UInt8) (s : Nat) (h0 : 0 < s) (hlt : s < p.length)
    (i : Nat) (x : List UInt8) (hx : (deliver p s)[i]? = some x) :
    (i + 1 < (deliver p s).length → x.length = s) ∧ 0 < x.length ∧ x.length ≤ s := by
  obtain ⟨hlen, hp⟩ := segment_pieces p s h0 hlt
  have hi : i < (deliver p s).length := by
    rcases Nat.lt_or_ge i (deliver p s).length with h | h
    · exact h
    · rw [List.getElem?_eq_none h] at hx; cases hx
  have hx' := hp i hi
  rw [hx] at hx'
  have hxe : x = (p.drop (i * s)).take s := by simpa using hx'
  have hb : i * s < p.length := by
    rw [hlen] at hi
    have h2 : (i + 1) * s ≤ (p.length + s - 1) / s * s := Nat.mul_le_mul_right s hi
    have := Nat.div_mul_le_self (p.length + s - 1) s
    rw [Nat.add_mul] at h2; omega
  subst hxe
  simp only [List.length_take, List.length_drop]
  refine ⟨?_, by omega, by omega⟩
  intro h1
  rw [hlen] at h1
  have h2 : (i + 2) * s ≤ (p.length + s - 1) / s * s := Nat.mul_le_mul_right s h1
  have := Nat.div_mul_le_self (p.length + s - 1) s
  rw [Nat.add_mul] at h2; omega

/-- The model's deliveries are exactly what the independent specification `Spec.Udprecv.want` demands
(this is the oracle the correspondence run applies to the implementation's answers). -/
theorem deliver_eq_spec (p : List UInt8) (segSize : Int) : deliver p segSize = want p segSize := by
  unfold deliver want bogus
  by_cases h : segSize ≤ 0 ∨ segSize ≥ (p.length : Int)
  · have : (decide (segSize ≤ 0) || decide (segSize ≥ (p.length : Int))) = true := by simpa using h
    simp [h]
  · have hb : (decide (segSize ≤ 0) || decide (segSize ≥ (p.length : Int))) = false := by
      simp only [not_or] at h; simp [h.1, h.2]
    have hs : 0 < segSize.toNat := by omega
    simp only [h, if_false, hb]
    simpa using segLoop_eq_chunks p _ 0 hs

-- concrete instances (3000 = 1400 + 1400 + 200 in miniature)
example : deliver [1, 2, 3, 4, 5, 6, 7] 3 = [[1, 2, 3], [4, 5, 6], [7]] := by
  simp [deliver, segLoop]
example : deliver [1, 2, 3] (-5) = [[1, 2, 3]] := by simp [deliver]

/-- Parsing an ancillary buffer never touches a byte outside `[0, Controllen)`: every access of the model
goes through the bounds-checked `rd`, and the out-of-bounds result is unreachable — for all buffers. -/
theorem cmsg_in_bounds (nil : Bool) (ctrl : List UInt8) : parse nil ctrl ≠ .oob := by
  unfold parse
  split
  · simp
  · exact walk_not_oob ctrl 0 0 0

/-- The walk terminates after at most `Controllen / 16` iterations (each one consumes a whole header). -/
theorem cmsg_terminates (nil : Bool) (ctrl : List UInt8) :
    ∃ g n, parse nil ctrl = .gso g n ∧ 16 * n ≤ ctrl.length := by
  unfold parse
  split
  · exact ⟨0, 0, rfl, by omega⟩
  · cases h : walk ctrl 0 0 0 with
    | oob => exact absurd h (walk_not_oob ctrl 0 0 0)
    | gso g n =>
      have := walk_iters ctrl 0 0 0 g n h
      exact ⟨g, n, rfl, by omega⟩

/-- A buffer shorter than one header, or a nil control pointer, yields 0 without any read. -/
theorem cmsg_short_zero (nil : Bool) (ctrl : List UInt8) (h : ctrl.length < 16 ∨ nil = true) :
    parse nil ctrl = .gso 0 0 := by
  simp [parse, sizeofCmsghdr, h]

/-- Functional correctness on what the kernel produces: for any sequence of well-formed ancillary messages
laid out the way `CMSG_SPACE`/`CMSG_LEN` prescribe (`Spec.Udprecv.encode`; fields within their wire widths,
every UDP_GRO message carrying its 4-byte value), `parseRecvCmsg` visits every message and returns the value
of the last UDP_GRO message as a signed 32-bit integer, or 0 if there is none. -/
theorem cmsg_kernel_formed (msgs : List Cmsg) (hw : ∀ m ∈ msgs, MsgOK m) :
    parse false (encode msgs) = .gso (groOf msgs) msgs.length := by
  cases msgs with
  | nil => simp [parse, encode, sizeofCmsghdr, groOf]
  | cons m ms =>
    have hl : ¬ ((encode (m :: ms)).length < sizeofCmsghdr ∨ false = true) := by
      have := encodeOne_length m
      simp [encode, sizeofCmsghdr] at *; omega
    unfold parse
    rw [if_neg hl]
    have := walk_encode [] (m :: ms) 0 0 hw
    simpa [groOf_eq] using this

example : MsgOK { level := 17, type := 104, data := [0x78, 0x05, 0, 0] } := by
  simp [MsgOK]
example : parse false (encode [{ level := 0, type := 1, data := [0x5a] }, { level := 17, type := 104, data := [0x78, 0x05, 0, 0] }])
    = .gso 1400 2 := by decide +kernel

/-- Alignment, stated: a message with `d` data bytes occupies `CMSG_SPACE(d) = 16 + ⌈d/8⌉·8` bytes in the
buffer although its length field says `CMSG_LEN(d) = 16 + d`; the two differ exactly when `d` is not a
multiple of 8, and the next header sits at the *aligned* offset. -/
theorem encodeOne_space (m : Cmsg) :
    (encodeOne m).length = cmsgSpace m.data.length ∧ (encodeOne m).length % 8 = 0 ∧
    ((encodeOne m).length = cmsgLen m.data.length ↔ m.data.length % 8 = 0) := by
  have h := encodeOne_length m
  simp only [cmsgSpace, cmsgLen, cmsgAlign, sizeofCmsghdr]
  omega

/-- Reviewer seed C27-2: a UDP_GRO message that follows messages whose `cmsg_len` is not 8-aligned
(IP_TOS: 1 data byte, `cmsg_len` 17; IP_TTL: 4, 20; IP_PKTINFO: 12, 28; IPV6_PKTINFO: 20, 36 — in fact any
non-GRO messages of any lengths) is found, at the aligned offset `Σ CMSG_SPACE`, and its value returned.
A walk advancing by the raw `cmsg_len` would land `8 - d mod 8` bytes short after each such message. -/
theorem cmsg_after_unaligned (leaders : List Cmsg) (v : List UInt8) (hv : v.length = 4)
    (hl : ∀ m ∈ leaders, MsgOK m ∧ ¬ (m.level = 17 ∧ m.type = 104)) :
    parse false (encode (leaders ++ [{ level := 17, type := 104, data := v }])) =
      .gso (toSigned 32 (leVal v)) (leaders.length + 1) ∧
    (encode leaders).length = (leaders.map (fun m => cmsgSpace m.data.length)).sum := by
  constructor
  · have hw : ∀ m ∈ leaders ++ [{ level := 17, type := 104, data := v : Cmsg }], MsgOK m := by
      intro m hm
      rcases List.mem_append.mp hm with hm | hm
      · exact (hl m hm).1
      · simp at hm; subst hm; simp [MsgOK, hv]
    have := walk_encode [] _ 0 0 hw
    have hlen : ¬ ((encode (leaders ++ [{ level := 17, type := 104, data := v : Cmsg }])).length < sizeofCmsghdr ∨ false = true) := by
      have h1 := encodeOne_length { level := 17, type := 104, data := v : Cmsg }
      simp [encode, sizeofCmsghdr] at *; omega
    unfold parse
    rw [if_neg hlen]
    simp only [List.nil_append, List.length_nil, Nat.zero_add, List.length_append, List.length_cons] at this
    rw [this]
    congr 1
    rw [List.foldl_append]
    have hfold : ∀ (l : List Cmsg) (g : Int), (∀ m ∈ l, ¬ (m.level = 17 ∧ m.type = 104)) → l.foldl groStep g = g := by
      intro l
      induction l with
      | nil => intro g _; rfl
      | cons m ms ih =>
        intro g h
        have hm := h m List.mem_cons_self
        have : groStep g m = g := by
          simp only [groStep]; rw [if_neg (fun hh => hm ⟨hh.1, hh.2.1⟩)]
        simp only [List.foldl_cons, this]
        exact ih g (fun x hx => h x (List.mem_cons_of_mem _ hx))
    rw [hfold leaders 0 (fun m hm => (hl m hm).2)]
    simp only [List.foldl_cons, List.foldl_nil, groStep, hv, Nat.le_refl, and_self, if_true]
    have : List.take 4 v = v := List.take_of_length_le (by omega)
    rw [this, ← leVal_foldr]
    simp only [toSigned]
    generalize leVal v = x
    split <;> split <;> omega
  · induction leaders with
    | nil => simp [encode]
    | cons m ms ih =>
      have := ih (fun x hx => hl x (List.mem_cons_of_mem _ hx))
      simp only [encode, List.map_cons, List.flatten_cons, List.length_append, List.sum_cons] at *
      rw [this, (encodeOne_space m).1]

-- the four leaders named by the seed, each directly before UDP_GRO = 1400
example : parse false (encode [⟨0, 1, [0x10]⟩, ⟨17, 104, [0x78, 5, 0, 0]⟩]) = .gso 1400 2 := by decide +kernel
example : parse false (encode [⟨0, 2, [64, 0, 0, 0]⟩, ⟨17, 104, [0x78, 5, 0, 0]⟩]) = .gso 1400 2 := by decide +kernel
example : parse false (encode [⟨0, 8, List.replicate 12 7⟩, ⟨17, 104, [0x78, 5, 0, 0]⟩]) = .gso 1400 2 := by decide +kernel
example : parse false (encode [⟨41, 50, List.replicate 20 7⟩, ⟨17, 104, [0x78, 5, 0, 0]⟩]) = .gso 1400 2 := by decide +kernel
example : (encodeOne ⟨0, 1, [0x10]⟩).length = 24 ∧ cmsgLen 1 = 17 := by decide

end Nebula.Props.C27
