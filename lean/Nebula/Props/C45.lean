import Nebula.Spec.SshPath
namespace Nebula.Props.C45
open Nebula.SshPath Nebula.Spec.SshPath

example : sanitize "/sb".toList "x/../y".toList = .ok "/sb/y".toList := by decide

end Nebula.Props.C45
