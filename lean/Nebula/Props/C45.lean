/-
C45 — SSH debug file paths stay inside the sandbox.

"When a sandbox directory is configured, every file path accepted by the SSH debug commands resolves
lexically to a location strictly inside that directory, and every other path is refused."
— for all sandbox strings and all path strings (no bound on length; any bytes).

`resolve` is the lexical meaning of a path (absolute?, number of leading `..`, names); the requested
location is `resolve (target sandbox path)` (an absolute path names itself, a relative one is taken
inside the sandbox); `strictlyInside s r`: same anchor and the names of `s` are a proper prefix of
those of `r`.
-/
import Nebula.Lemmas.SshPathInside

namespace Nebula.Props.C45
open Nebula.SshPath Nebula.Spec.SshPath Nebula.Lemmas.SshPath

/-- What `sshSanitizeFilePath` compares: the cleaned candidate is the shortest spelling of the
requested location. -/
theorem cleaned_eq (sb fp : Path) (hsb : sb ≠ []) :
    clean (if !isAbs fp then join2 sb fp else fp) = render (resolve (target sb fp)) := by
  cases habs : isAbs fp
  · have ht : target sb fp = sb ++ '/' :: fp := by simp [target, habs]
    have hne : sb ++ '/' :: fp ≠ [] := by simp
    simp only [Bool.not_false, if_true, join2, ne_eq, hsb, not_false_eq_true]
    rw [ht, clean_eq_render _ hne, clean_render _ (resolve_wf _)]
  · have ht : target sb fp = fp := by simp [target, habs]
    have hne : fp ≠ [] := by intro e; subst e; simp [isAbs] at habs
    simp only [Bool.not_true, Bool.false_eq_true, if_false]
    rw [ht, clean_eq_render _ hne]

/-- Every accepted path names the requested location, which is strictly inside the sandbox directory,
and is returned in its shortest spelling. -/
theorem accepted_strictly_inside (sb fp r : Path) (hsb : sb ≠ []) (h : sanitize sb fp = .ok r) :
    strictlyInside (resolve sb) (resolve (target sb fp)) ∧
      resolve r = resolve (target sb fp) ∧ clean r = r := by
  unfold sanitize at h
  rw [if_neg hsb] at h
  simp only [cleaned_eq sb fp hsb, clean_eq_render sb hsb] at h
  split at h
  · cases h
  · split at h
    · cases h
    · rename_i hpre
      split at h
      · cases h
      · rename_i hrest
        injection h with h
        subst h
        have hT := resolve_wf (target sb fp)
        have hS := resolve_wf sb
        have hdec := prefix_decompose _ _ (by simpa using hpre)
        have h1 : ¬ (List.drop ((render (resolve sb)).length + 1) (render (resolve (target sb fp))) = dotdot) :=
          fun e => hrest (Or.inl e)
        have h2 : (dotdot ++ ['/']).isPrefixOf (List.drop ((render (resolve sb)).length + 1) (render (resolve (target sb fp)))) = false := by
          cases hp : (dotdot ++ ['/']).isPrefixOf (List.drop ((render (resolve sb)).length + 1) (render (resolve (target sb fp))))
          · rfl
          · exact absurd (Or.inr hp) hrest
        exact ⟨inside_of_prefix _ _ hS hT _ hdec h1 h2, resolve_render _ hT, clean_render _ hT⟩

/-- … in the words of the specification predicate used by the correspondence oracle. -/
theorem sanitize_acceptable (sb fp : Path) (hsb : sb ≠ []) : acceptable sb fp (sanitize sb fp) := by
  cases h : sanitize sb fp with
  | ok r => exact accepted_strictly_inside sb fp r hsb h
  | errSelf => trivial
  | errOutside => trivial

/-- Every other path is refused: if the requested location is not strictly inside the sandbox, the
answer is one of the two errors. -/
theorem others_refused (sb fp : Path) (hsb : sb ≠ [])
    (hout : ¬ strictlyInside (resolve sb) (resolve (target sb fp))) :
    sanitize sb fp = .errSelf ∨ sanitize sb fp = .errOutside := by
  cases h : sanitize sb fp with
  | ok r => exact absurd (accepted_strictly_inside sb fp r hsb h).1 hout
  | errSelf => exact Or.inl rfl
  | errOutside => exact Or.inr rfl

/-- In particular an accepted path never is the sandbox directory itself, never leaves it through
`..`, and never is a similar-prefix sibling: its names extend the sandbox's names by at least one. -/
theorem accepted_extends_sandbox (sb fp r : Path) (hsb : sb ≠ []) (h : sanitize sb fp = .ok r) :
    (resolve r).abs = (resolve sb).abs ∧ (resolve r).ups = (resolve sb).ups ∧
      ∃ c rest, (resolve r).comps = (resolve sb).comps ++ c :: rest := by
  obtain ⟨h1, h2, _⟩ := accepted_strictly_inside sb fp r hsb h
  rw [h2]; exact h1

/-- Lexical resolution always yields proper names only (no empty, `.`, `..` element, no separator
inside a name), so "strictly inside" is about real directory names. -/
theorem resolve_proper (p : Path) : ∀ c ∈ (resolve p).comps, c ≠ [] ∧ c ≠ dot ∧ c ≠ dotdot ∧ '/' ∉ c :=
  (resolve_wf p).1

/-- Without a configured sandbox the path is passed through (documented behaviour, outside C45). -/
theorem no_sandbox_passthrough (fp : Path) : sanitize [] fp = .ok fp := by simp [sanitize]

/-! Non-vacuity and the boundary cases of the quantifier. -/

example : sanitize "/sb".toList "x/../y".toList = .ok "/sb/y".toList := by decide
example : sanitize "/sb/".toList "/sb//a/./b".toList = .ok "/sb/a/b".toList := by decide
-- the sandbox itself, a similar-prefix sibling, an escape through `..`
example : sanitize "/sb".toList "/sb/x/..".toList = .errSelf := by decide
example : sanitize "/sb".toList "/sbx/y".toList = .errOutside := by decide
example : sanitize "/sb".toList "../etc/passwd".toList = .errOutside := by decide
-- the defect repaired by the fix: a sandbox made only of `..` elements
example : sanitize "..".toList "../x".toList = .errOutside := by decide
example : sanitize "..".toList "x".toList = .ok "../x".toList := by decide
example : strictlyInside (resolve "..".toList) (resolve "../x".toList) ∧
    ¬ strictlyInside (resolve "..".toList) (resolve "../../x".toList) := by decide

end Nebula.Props.C45
