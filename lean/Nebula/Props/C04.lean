/-
C04 — Issuance never exceeds the signing CA.

"Signing succeeds only when the new certificate satisfies every constraint of its signing CA (validity
window, groups, networks, unsafe networks, curve) and is not itself a CA; self-signing succeeds only for CA
certificates. Every issued certificate verifies against a pool containing its signer, and every P-256
signature produced is in low-S form."

The signer's guard and the verifier's guard are the *same* specification `Spec.Trust.withinFields`
(`Props/C01.lean` proves the verifier side), so agreement is by construction of the theorems below.
Signing primitives, the bytes-to-sign codec, `p256.Normalize` on encodings and fingerprints are oracle
parameters (`SignEnv`). The low-S clause is proved on the scalar level in `Props/C04` (`normalize_*`) and
observed on every produced signature by the correspondence stream.

KNOWN FINDING (class `sign-curve-differs-from-signer`): `SignWith` compares the certificate's curve with the
`curve` *argument* (the curve claimed for the key), never with `signer.Curve()`. A 25519 certificate can be
issued under a P-256 CA certificate (cert/sign_test.go itself does it with a zero-value signer); such a
certificate can never verify (`ErrCurveMismatch`). Hence `sign_then_verify_partial` carries the hypothesis
`ca.curve = keyCurve`, and `sign_then_verify_full_false` exhibits the witness.
-/
import Nebula.Lemmas.CertSign
import Nebula.Lemmas.P256

namespace Nebula.Props.C04
open Nebula.Net Nebula.Cert Nebula.Spec.Trust Nebula.Lemmas.Trust Nebula.Lemmas.CAPool Nebula.Lemmas.CertSign
open Nebula.P256

/-- **Success = guards.** `SignWith` returns a certificate iff: the key's curve is the certificate's curve;
with a signer the certificate is not a CA, lies within the signer's window / groups / networks / unsafe
networks (the verifier's relation) and the signer has a fingerprint, without a signer it is a CA; the
version is known and `validate` passes; marshalling, the signing primitive and (P-256) normalisation succeed
with a non-empty signature; and a v2 certificate's encoding does not exceed the decoder's `MaxCertificateSize`
(`E.tooLarge`; added with the repair of the signer/decoder disagreement on size). The result is the validated
certificate with issuer and signature filled in. -/
theorem sign_ok_iff (E : SignEnv) (signer : Option Cert) (keyCurve : Nat) (t c : Cert) :
    signWith E signer keyCurve t = .ok c ↔
      (keyCurve = t.curve ∧ ∃ iss, issuerOK E signer t iss ∧
      ∃ v, validateVersion (fromTBS t iss) = some (.ok v) ∧
      ∃ bytes sig0 sig, E.tbsBytes v = some bytes ∧ E.sign bytes = some sig0 ∧
        (if keyCurve = curveP256 then E.normalize sig0 else some sig0) = some sig ∧ sig ≠ [] ∧
        c = { v with signature := sig }) ∧ (c.version = 2 → E.tooLarge c = false) :=
  signWith_ok_iff E signer keyCurve t c

/-- What an issued certificate is: the requested fields (network lists possibly reordered by v2 validation),
the signer's fingerprint as issuer (empty when self-signed), a non-empty signature. -/
theorem issued_fields (E : SignEnv) (signer : Option Cert) (keyCurve : Nat) (t c : Cert)
    (h : signWith E signer keyCurve t = .ok c) :
    c.version = t.version ∧ c.curve = t.curve ∧ c.curve = keyCurve ∧ c.name = t.name ∧ c.groups = t.groups ∧
    c.isCA = t.isCA ∧ c.notBefore = floorSec t.notBefore ∧ c.notAfter = floorSec t.notAfter ∧
    c.publicKey = t.publicKey ∧
    (∀ n, n ∈ c.networks ↔ n ∈ t.networks) ∧ (∀ n, n ∈ c.unsafeNetworks ↔ n ∈ t.unsafeNetworks) ∧
    issuerOK E signer t c.issuer ∧ c.signature ≠ [] := by
  obtain ⟨hk, iss, hi, v, hv, bytes, sig0, sig, -, -, -, hne, rfl⟩ := ((signWith_ok_iff E signer keyCurve t c).mp h).1
  obtain ⟨h1, h2, h3, h4, h5, h6, h7, h8, h9, -, h11, h12⟩ := validateVersion_ok hv
  simp only [fromTBS] at h1 h2 h3 h4 h5 h6 h7 h8 h9 h11 h12 ⊢
  rw [h8]
  exact ⟨h1, h2, by rw [h2, hk], h3, h4, h5, h6, h7, h9, h11, h12, hi, hne⟩

/-- **Issuance never exceeds the signing CA** (window, groups, networks, unsafe networks), the issued
certificate is not a CA and names the signer's fingerprint as its issuer. The issued bounds are the requested
ones floored to whole seconds; the CA's `notBefore` is a whole second (`hws`) for every certificate this
package decodes or issues (`issued_whole_seconds`). -/
theorem issued_within_signer (E : SignEnv) (ca : Cert) (keyCurve : Nat) (t c : Cert)
    (h : signWith E (some ca) keyCurve t = .ok c) (hws : ca.notBefore % 1000000000 = 0) :
    within ca c ∧ c.isCA = false ∧ E.K.fingerprint ca = some c.issuer := by
  obtain ⟨-, -, -, -, h4, h5, h6, h7, -, h11, h12, hi, -⟩ := issued_fields E (some ca) keyCurve t c h
  obtain ⟨hca, ⟨w1, w2, w3, w4, w5⟩, hf⟩ := hi
  refine ⟨?_, by rw [h5, hca], hf⟩
  unfold within withinFields
  rw [h4, h6, h7]
  refine ⟨?_, ?_, w3, (netsWithin_congr _ _ _ h11).mpr w4, (netsWithin_congr _ _ _ h12).mpr w5⟩
  · unfold floorSec; omega
  · unfold floorSec; omega

/-- Issued certificates have whole-second validity bounds (what both wire formats store). -/
theorem issued_whole_seconds (E : SignEnv) (signer : Option Cert) (keyCurve : Nat) (t c : Cert)
    (h : signWith E signer keyCurve t = .ok c) :
    c.notBefore % 1000000000 = 0 ∧ c.notAfter % 1000000000 = 0 := by
  obtain ⟨-, -, -, -, -, -, h6, h7, -⟩ := issued_fields E signer keyCurve t c h
  rw [h6, h7]; unfold floorSec; omega

/-- A CA certificate is never signed by another certificate. -/
theorem ca_not_signed_by_ca (E : SignEnv) (ca : Cert) (keyCurve : Nat) (t : Cert) (h : t.isCA = true) :
    ∀ c, signWith E (some ca) keyCurve t ≠ .ok c := by
  intro c hc
  obtain ⟨-, -, -, -, -, -, -, -, -, -, -, hi, -⟩ := issued_fields E (some ca) keyCurve t c hc
  rw [hi.1] at h; cases h

/-- Self-signing succeeds only for CA certificates, and leaves the issuer empty. -/
theorem self_sign_only_ca (E : SignEnv) (keyCurve : Nat) (t c : Cert) (h : signWith E none keyCurve t = .ok c) :
    t.isCA = true ∧ c.isCA = true ∧ c.issuer = "" := by
  obtain ⟨-, -, -, -, -, h5, -, -, -, -, -, hi, -⟩ := issued_fields E none keyCurve t c h
  exact ⟨hi.1, by rw [h5, hi.1], hi.2⟩

/-- `Sign` adds only the curve dispatch: it never succeeds where `SignWith` would not. -/
theorem sign_le_signWith (E : SignEnv) (signer : Option Cert) (keyCurve : Nat) (kp : Bool) (t c : Cert)
    (h : sign E signer keyCurve kp t = .ok c) : signWith E signer keyCurve t = .ok c := by
  unfold sign at h
  repeat' split at h
  all_goals first | exact h | cases h

/-- **Every issued certificate verifies against a pool containing its signer** — at every instant of its
validity, for every blocklist not naming it, every pool that stores the signer under its fingerprint.
`_partial`: needs `ca.curve = keyCurve` (the key really is the signer's; known finding
`sign-curve-differs-from-signer`) and the honest-signing law `checkSig c ca.publicKey` for the produced
signature (the API does not bind key and signer). -/
theorem sign_then_verify_partial (E : SignEnv) (p : Pool) (ca : Cert) (keyCurve : Nat) (t c : Cert) (tm : Int)
    (h : signWith E (some ca) keyCurve t = .ok c)
    (hcurve : ca.curve = keyCurve) (hws : ca.notBefore % 1000000000 = 0)
    (honest : E.K.checkSig c ca.publicKey = true)
    (hpool : p.cas.lookup c.issuer = some ca) (hiss : c.issuer ≠ "")
    (hblock : notBlocked E.K p c)
    (htime : validAt c tm) :
    ∃ cc, p.verifyCertificate E.K tm c = .ok cc := by
  obtain ⟨hw, -, -⟩ := issued_within_signer E ca keyCurve t c h hws
  obtain ⟨-, -, hc, -⟩ := issued_fields E (some ca) keyCurve t c h
  rw [Nebula.Lemmas.CAPool.accept_iff]
  refine ⟨hblock, hiss, ca, hpool, by rw [hcurve, hc], ?_, htime, honest, hw⟩
  obtain ⟨w1, w2, -⟩ := hw
  unfold validAt at htime ⊢
  omega

/-- Round trip through the encodings keeps the relation: both codecs store whole seconds
(`time.Unix()` = floor), and flooring both certificates preserves "within". -/
theorem within_floor_seconds (ca c : Cert) (h : within ca c) :
    within { ca with notBefore := ca.notBefore / 1000000000 * 1000000000, notAfter := ca.notAfter / 1000000000 * 1000000000 }
           { c with notBefore := c.notBefore / 1000000000 * 1000000000, notAfter := c.notAfter / 1000000000 * 1000000000 } := by
  obtain ⟨w1, w2, w3, w4, w5⟩ := h
  refine ⟨?_, ?_, w3, w4, w5⟩ <;> simp only <;> omega

/-! ### Known finding: the signer's curve is never compared -/

/-- Full statement (without `ca.curve = keyCurve`) is false: a curve-0 certificate issued under the curve-1
CA `exCA` with a curve-0 key passes every guard of `SignWith`, and is rejected by verification. -/
theorem sign_then_verify_full_false :
    ∃ (E : SignEnv) (p : Pool) (ca : Cert) (keyCurve : Nat) (t c : Cert) (tm : Int),
      signWith E (some ca) keyCurve t = .ok c ∧ E.K.checkSig c ca.publicKey = true ∧
      p.cas.lookup c.issuer = some ca ∧ c.issuer ≠ "" ∧ notBlocked E.K p c ∧ validAt c tm ∧
      p.verifyCertificate E.K tm c = .error .curveMismatch :=
  ⟨exE, exPool, exCA, 0, exTBS, { exTBS with issuer := "ca01", signature := [9] }, 500000000000,
    by decide, by decide, by decide, by decide,
    ⟨"1eaf", by decide, by decide, "", by decide, Or.inl rfl⟩, by decide, by decide⟩

/-! ### Non-vacuity of `sign_then_verify_partial` and of the guards -/

example : (signWith exE (some exCA) 1 { exLeaf with issuer := "", signature := [] }).toBool = true := by decide
example : signWith exE (some exCA) 1 { exLeaf with groups := [[3]] } = .error (.constraint .group) := by decide
example : signWith exE (some exCA) 1 { exLeaf with notAfter := 900000000001 } = .error (.constraint .expiresAfterCA) := by decide
example : signWith exE (some exCA) 1 { exLeaf with isCA := true } = .error .caSignedByAnother := by decide
example : signWith exE none 1 exLeaf = .error .selfSignedNotCA := by decide
example : (signWith exE none 1 exCA).toBool = true := by decide
example : ∃ cc, exPool.verifyCertificate exE.K 500000000000 { exLeaf with signature := [9] } = .ok cc :=
  sign_then_verify_partial exE exPool exCA 1 { exLeaf with issuer := "", signature := [] }
    { exLeaf with signature := [9] } 500000000000 (by decide) (by decide) (by decide) (by decide) (by decide) (by decide)
    ⟨"1eaf", by decide, by decide, "", by decide, Or.inl rfl⟩ (by decide)

/-! ### P-256 low-S normalisation on the scalar level (`cert/p256`) -/

/-- `Normalize` yields a low-S scalar for every valid `s` (`0 < s < N`). -/
theorem normalize_lowS (s : Nat) (h1 : 0 < s) (h2 : s < N) : isLowS (normalizeS s) = true := by
  unfold normalizeS isLowS swapS halfN N at *
  split <;> simp_all <;> omega

/-- `Normalize` is idempotent. -/
theorem normalize_idem (s : Nat) (h1 : 0 < s) (h2 : s < N) : normalizeS (normalizeS s) = normalizeS s := by
  have := normalize_lowS s h1 h2
  unfold normalizeS at this ⊢
  by_cases h : isLowS s = true
  · simp [h]
  · have hf : isLowS s = false := by simpa using h
    rw [hf] at this ⊢
    simp only [Bool.false_eq_true, if_false] at this ⊢
    rw [this]; simp

/-- `Swap` is an involution on valid scalars, stays in range, and always changes the scalar (`N` is odd): a
signature has exactly one twin. -/
theorem swap_involutive (s : Nat) (h1 : 0 < s) (h2 : s < N) :
    swapS (swapS s) = s ∧ 0 < swapS s ∧ swapS s < N ∧ swapS s ≠ s := by
  unfold swapS N at *
  omega

/-- Exactly one of the two forms is low-S. -/
theorem exactly_one_lowS (s : Nat) (h1 : 0 < s) (h2 : s < N) : isLowS s ≠ isLowS (swapS s) := by
  unfold isLowS swapS halfN N at *
  simp only [ne_eq, decide_eq_decide]
  omega

end Nebula.Props.C04
