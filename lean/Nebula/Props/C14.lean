/-
C14 — Unauthenticated packets have no effect.

"An encrypted packet whose header, counter or ciphertext was not produced by the tunnel's peer is never
acted on: nothing is delivered, no tunnel is closed, no roaming or liveness update happens, and no
lighthouse or relay state changes. Only an authenticated close message tears a tunnel down remotely."
— all bit flips, truncations, header substitutions (type, subtype, index, counter) and cross-tunnel
splices of valid packets of every message type, including relayed packets.

Model: `Nebula.Outside.readOutside` (Model/Outside.lean). The AEAD is an explicit hypothesis
(`Authentic`): "open succeeds only on what the key holder sealed"; never an axiom.
-/
import Nebula.Spec.Outside

namespace Nebula.Props.C14
open Nebula.Outside Nebula.Gen Nebula.Spec.Outside

theorem handleRecvError_not_gated (r : RecvErrL) : ∀ e ∈ handleRecvError r, gated e = false := by
  intro e he
  unfold handleRecvError at he
  split at he
  · simp at he
  · split at he
    · simp at he
    · split at he
      · simp at he
      · simp at he; subst he; rfl

theorem unknownIndex_not_gated (relayed : Bool) (h : Hdr) (l : Look) :
    ∀ e ∈ unknownIndex relayed h l, gated e = false := by
  intro e he
  unfold unknownIndex at he
  split at he
  · simp at he; subst he; rfl
  · simp at he

theorem encrypted_needs_auth (relayed : Bool) (h : Hdr) (l : Look) (hi : HostL) (ie : List Effect)
    (hauth : l.authOK = false) : ∀ e ∈ encryptedPath relayed h l hi ie, gated e = false := by
  intro e he
  unfold encryptedPath at he
  simp only [hauth, Bool.not_false, if_true] at he
  split at he
  · simp at he; subst he; rfl
  · split at he <;> simp at he

/-- one level: if `Decrypt` / `VerifyRelay` fails for the tunnel selected by the header's index, the call
has no gated effect — whatever the recursive call on the payload would do. -/
theorem level_needs_auth (relayed : Bool) (h : Hdr) (l : Look) (ie : List Effect)
    (hauth : l.authOK = false) : ∀ e ∈ readLevel relayed h l ie, gated e = false := by
  intro e he
  unfold readLevel at he
  repeat' (split at he)
  all_goals first
    | exact handleRecvError_not_gated _ e he
    | exact unknownIndex_not_gated _ _ _ e he
    | exact encrypted_needs_auth _ _ _ _ _ hauth e he
    | (simp at he; done)
    | (simp at he; subst he; rfl)

/-- **effects_need_auth**: if `Decrypt` / `VerifyRelay` fails for the tunnel selected by the header's
index, the call has no gated effect at all — for every header, every lookup result, direct or relayed,
and whatever the (possibly relayed) payload contains. -/
theorem effects_need_auth (relayed : Bool) (h : Hdr) (l : Look) (inner : Option Pkt)
    (hauth : l.authOK = false) : ∀ e ∈ readOutside relayed (.mk h l inner), gated e = false := by
  cases inner with
  | none => simp only [readOutside]; exact level_needs_auth relayed h l [] hauth
  | some p => simp only [readOutside]; exact level_needs_auth relayed h l _ hauth

/-- Every gated effect of a datagram needs the OUTER level to authenticate: nothing inside a relay packet
is looked at before `VerifyRelay` succeeded. -/
theorem gated_effect_needs_outer_auth (relayed : Bool) (h : Hdr) (l : Look) (inner : Option Pkt)
    (e : Effect) (he : e ∈ readOutside relayed (.mk h l inner)) (hg : gated e = true) : l.authOK = true := by
  cases hc : l.authOK with
  | true => rfl
  | false =>
    have := effects_need_auth relayed h l inner hc e he
    rw [hg] at this
    exact Bool.noConfusion this

theorem dispatch_close (h : Hdr) (l : Look) (hid x : Nat) (he : Effect.close x ∈ dispatch h l hid) :
    h.type = header_CloseTunnel ∧ x = hid := by
  unfold dispatch at he
  repeat' (split at he)
  all_goals first
    | (simp at he; done)
    | (rename_i hty; simp at he; exact ⟨by simpa using hty, he⟩)

theorem relayPath_attributed (relayed : Bool) (h : Hdr) (hi : HostL) (ie : List Effect) :
    ∀ e ∈ relayPath relayed h hi ie, e ∈ ie ∨ attributed e = none := by
  intro e he
  unfold relayPath at he
  simp only [List.mem_append, List.mem_cons, List.mem_singleton, List.not_mem_nil, or_false] at he
  rcases he with (he | he | he) | he
  · split at he <;> simp at he; subst he; right; rfl
  · subst he; right; rfl
  · subst he; right; rfl
  · repeat' (split at he)
    all_goals first
      | (left; exact he)
      | (simp at he; done)
      | (simp at he; obtain ⟨rfl, rfl⟩ := he; right; rfl)
      | (simp at he; subst he; right; rfl)

theorem encrypted_close (relayed : Bool) (h : Hdr) (l : Look) (hi : HostL) (hid : Nat)
    (he : Effect.close hid ∈ encryptedPath relayed h l hi []) : h.type = header_CloseTunnel ∧ hi.id = hid := by
  unfold encryptedPath at he
  split at he
  · simp at he
  · split at he
    · split at he
      · simp at he
      · have := relayPath_attributed relayed h hi [] _ he
        simp [attributed] at this
    · split at he
      · simp at he
      · rw [List.mem_append, List.mem_append] at he
        rcases he with (he | he) | he
        · split at he <;> simp at he
        · simp at he
        · have := dispatch_close h l hi.id hid he
          exact ⟨this.1, this.2.symm⟩

/-- **close_needs_auth**: a tunnel is closed by an encrypted packet only if that packet is an
authenticated `CloseTunnel` for exactly that tunnel (direct packets; for a relayed payload the same
statement applies to the inner level, see `relayed_effects`). -/
theorem close_needs_auth (relayed : Bool) (h : Hdr) (l : Look) (hid : Nat)
    (he : Effect.close hid ∈ readOutside relayed (.mk h l none)) :
    l.authOK = true ∧ h.type = header_CloseTunnel ∧ ∃ hi, l.host = some hi ∧ hi.id = hid := by
  have ha := gated_effect_needs_outer_auth relayed h l none _ he rfl
  refine ⟨ha, ?_⟩
  simp only [readOutside] at he
  unfold readLevel at he
  repeat' (split at he)
  all_goals first
    | (simp at he; done)
    | (exact Bool.noConfusion (handleRecvError_not_gated _ _ he))
    | (exact Bool.noConfusion (unknownIndex_not_gated _ _ _ _ he))
    | (rename_i hi hhost _
       have := encrypted_close relayed h l hi hid he
       exact ⟨this.1, hi, hhost, this.2⟩)

/-- what a relay packet's own level contributes, besides the recursive call: only roaming / liveness /
relay-usage marks of the RELAY's tunnel, or a forward — nothing attributed to an end-to-end peer.
Everything else comes from the inner level, which is subject to `effects_need_auth` with the END-TO-END
tunnel's authentication. -/
theorem relayed_effects (relayed : Bool) (h : Hdr) (l : Look) (p : Pkt)
    (hrel : h.type = header_Message ∧ h.sub = header_MessageRelay) :
    ∀ e ∈ readOutside relayed (.mk h l (some p)), e ∈ readOutside true p ∨ attributed e = none := by
  intro e he
  simp only [readOutside] at he
  unfold readLevel at he
  repeat' (split at he)
  all_goals first
    | (simp at he; done)
    | (simp at he; subst he; right; rfl)
    | (right
       have := handleRecvError_not_gated _ e he
       cases e <;> simp_all [gated, attributed])
    | (right
       have := unknownIndex_not_gated _ _ _ e he
       cases e <;> simp_all [gated, attributed])
    | (unfold encryptedPath at he
       simp only [hrel.1, hrel.2, beq_self_eq_true, Bool.and_self, if_true] at he
       repeat' (split at he)
       all_goals first
         | (simp at he; done)
         | (simp at he; subst he; right; rfl)
         | exact relayPath_attributed _ _ _ _ e he)

/-- `recvError` (unencrypted by design) is carved out exactly as the code does: it closes a tunnel only
when `accept_recv_error` admits the sender, the index is a known remote index, and the source is the
tunnel's current remote. -/
theorem recv_error_carveout (r : RecvErrL) (hid : Nat) (he : Effect.recvErrorClose hid ∈ handleRecvError r) :
    r.accept = true ∧ r.host = some hid ∧ r.remoteOK = true := by
  unfold handleRecvError at he
  split at he
  · simp at he
  · rename_i hacc
    split at he
    · simp at he
    · rename_i h0 hh
      split at he
      · simp at he
      · rename_i hrem
        simp at he
        subst he
        exact ⟨by simpa using hacc, hh, by simpa using hrem⟩

-- ---------------------------------------------------------------------------------------------
-- AEAD authenticity as a hypothesis

/-- what `Decrypt` / `VerifyRelay` compute: replay-window acceptance and AEAD open of (nonce = counter,
associated data, ciphertext ‖ tag) under the key of the selected tunnel. -/
def authOracle {K : Type} (aopen : K → Nat → List Nat → List Nat → Option (List Nat))
    (k : K) (windowOK : Bool) (ctr : Nat) (ad ct : List Nat) : Bool :=
  windowOK && (aopen k ctr ad ct).isSome

/-- AEAD authenticity: open succeeds only on an output of seal under that key (`sealed k n ad ct`:
the holder of `k`'s sending half — the tunnel's peer — produced this (nonce, associated data, ciphertext)). -/
def Authentic {K : Type} (aopen : K → Nat → List Nat → List Nat → Option (List Nat))
    (sealed : K → Nat → List Nat → List Nat → Prop) : Prop :=
  ∀ k n ad ct, (aopen k n ad ct).isSome = true → sealed k n ad ct

/-- **forged packets have no effect**: under AEAD authenticity, a packet whose (counter, header-as-AD,
ciphertext) triple was not sealed by the peer of the tunnel selected by its index — any bit flip,
truncation, header substitution (type / subtype / index / counter all are in the nonce or the
associated data) or cross-tunnel splice — causes no gated effect. -/
theorem forged_packet_no_effect {K : Type} (aopen : K → Nat → List Nat → List Nat → Option (List Nat))
    (sealed : K → Nat → List Nat → List Nat → Prop) (hA : Authentic aopen sealed)
    (k : K) (windowOK : Bool) (ctr : Nat) (ad ct : List Nat)
    (relayed : Bool) (h : Hdr) (l : Look) (inner : Option Pkt)
    (hl : l.authOK = authOracle aopen k windowOK ctr ad ct)
    (forged : ¬ sealed k ctr ad ct) :
    ∀ e ∈ readOutside relayed (.mk h l inner), gated e = false := by
  apply effects_need_auth
  rw [hl]
  unfold authOracle
  cases ho : (aopen k ctr ad ct).isSome with
  | false => simp
  | true => exact absurd (hA k ctr ad ct ho) forged

/-- the same for the payload of a relay packet that the relay itself authenticated: an inner packet that
the end-to-end peer did not seal adds nothing to the outer level's own effects (which concern only the
relay's tunnel: roaming, liveness, relay usage). -/
theorem forged_inner_no_effect (h2 : Hdr) (l2 : Look) (inner2 : Option Pkt) (hin : l2.authOK = false) :
    ∀ e ∈ readOutside true (.mk h2 l2 inner2), gated e = false :=
  effects_need_auth true h2 l2 inner2 hin

/-- relay usage under an unauthenticated relayed payload: whatever the outer level is, if the inner packet
did not authenticate (`l2.authOK = false`) the only relay index the whole call can mark used is the index
of the OUTER header, i.e. the relay record that carried the (authenticated) frame — the inner header's
index (attacker-chosen) is never marked. -/
theorem unauth_inner_marks_only_carrier (relayed : Bool) (h : Hdr) (l : Look) (h2 : Hdr) (l2 : Look)
    (inner2 : Option Pkt) (hin : l2.authOK = false) (idx : Nat)
    (he : Effect.relayUsed idx ∈ readOutside relayed (.mk h l (some (.mk h2 l2 inner2)))) : idx = h.idx := by
  have hie := forged_inner_no_effect h2 l2 inner2 hin
  simp only [readOutside] at he
  generalize readOutside true (.mk h2 l2 inner2) = ie at he hie
  have hno : Effect.relayUsed idx ∉ ie := fun hm => by simpa [gated] using hie _ hm
  unfold readLevel at he
  repeat' (split at he)
  all_goals first
    | (simp at he; done)
    | (exfalso
       have := handleRecvError_not_gated _ _ he
       simp [gated] at this; done)
    | (exfalso
       have := unknownIndex_not_gated _ _ _ _ he
       simp [gated] at this; done)
    | (unfold encryptedPath relayPath dispatch at he
       repeat' (split at he)
       all_goals first
         | (simp at he; done)
         | (simp at he; first | exact he | exact absurd he hno | (rcases he with he | he <;> first | exact he | exact absurd he hno)))

-- ---------------------------------------------------------------------------------------------
-- non-vacuity

/-- an authenticated data packet IS delivered (the hypotheses of the theorems above are not vacuous). -/
example : readOutside false (.mk { ver := 1, type := 1, sub := 0, idx := 7 }
    { host := some { id := 7, wouldRoam := true }, authOK := true } none)
    = [.roam 7, .markIn 7, .deliver 7] := by decide

example : readOutside false (.mk { ver := 1, type := 1, sub := 0, idx := 7 }
    { host := some { id := 7, wouldRoam := true }, authOK := false } none) = [] := by decide

/-- an authenticated close tears the tunnel down; a recv_error from the tunnel's remote too (by design). -/
example : readOutside false (.mk { ver := 1, type := 5, sub := 0, idx := 7 }
    { host := some { id := 7 }, authOK := true } none) = [.markIn 7, .close 7] := by decide

example : readOutside false (.mk { ver := 1, type := 2, sub := 0, idx := 9 }
    { recvErr := { host := some 7 } } none) = [.recvErrorClose 7] := by decide

/-- an authentic Terminal relay frame on index 5 whose inner packet (index 9) does not authenticate marks
exactly index 5 as used (and the relay's tunnel alive) — the premise of `unauth_inner_marks_only_carrier`
is inhabited and its conclusion is tight. -/
example : readOutside false (.mk { ver := 1, type := 1, sub := 1, idx := 5 }
    { host := some { id := 2, relayRec := some { type := nebula_TerminalType, peer := 3 } }, authOK := true }
    (some (.mk { ver := 1, type := 1, sub := 0, idx := 9 } { host := some { id := 3 }, authOK := false } none)))
    = [.markIn 2, .relayUsed 5] := by decide

/-- a toy AEAD satisfying `Authentic`: open accepts exactly the listed triples. -/
example : Authentic (K := Nat)
    (fun k n ad ct => if (k, n, ad, ct) ∈ [(1, 5, [1, 2], [9, 9])] then some [] else none)
    (fun k n ad ct => (k, n, ad, ct) ∈ [(1, 5, [1, 2], [9, 9])]) := by
  intro k n ad ct h
  by_cases c : (k, n, ad, ct) ∈ [(1, 5, [1, 2], [9, 9])]
  · exact c
  · simp [c] at h

end Nebula.Props.C14
