/-
C28 — Hostmap indexes stay consistent.

"After any sequence of tunnel additions, removals, primary promotions and relay allocations, every overlay address maps
to a primary tunnel that heads its list of at most five distinct live tunnels that all own the address, and every tunnel
reachable from any map is live.  Removing a tunnel erases every reference to it (addresses, indexes, relay indexes it
owns), reports that no tunnel to the peer remains exactly when no other tunnel holds any of its addresses, and a
removed tunnel is never brought back by a later promotion."

The model (`Model/HostMap.lean`) follows the Go code after the F08 `fix:` commit.  `Inv` is defined in
`Lemmas/HostMapInv.lean`; operations are the entry points the rest of nebula uses (`Op`), with *any* tunnel id as
argument, so stale deletes / promotions / relay requests are part of every history.
-/
import Nebula.Lemmas.HostMapStep

namespace Nebula.Props.C28
open Nebula.HostMap Nebula.HostMap.FMap

/-- the empty hostmap satisfies the invariant -/
theorem inv_init : Inv ({} : State) := Nebula.HostMap.inv_init

/-- every operation keeps it, from every state that satisfies it, for every argument (also stale tunnels, taken
indexes, any `crypto/rand` stream) -/
theorem inv_step (s : State) (op : Op) (i : Inv s) : Inv (applyOp s op) := applyOp_inv i op

/-- hence it holds after every operation sequence -/
theorem inv_all_histories (ops : List Op) : Inv (run {} ops) := run_inv ops {} Nebula.HostMap.inv_init

/-- what the invariant says about an address: its primary heads a list of at most five distinct live tunnels that all
own the address; `moreHosts` holds the list exactly when it has two or more members -/
theorem primary_heads_list (s : State) (i : Inv s) (a h : Nat) (hh : s.hosts.get a = some h) :
    (hostList s a).head? = some h ∧ (hostList s a).length ≤ 5 ∧ (hostList s a).Nodup ∧
    (∀ x ∈ hostList s a, Live s x ∧ a ∈ (s.obj x).addrs) ∧
    (∀ l, s.more.get a = some l → l = hostList s a ∧ 2 ≤ l.length) := by
  refine ⟨?_, i.cap a, i.core.nodup a, fun x hx => ?_, fun l hl => ?_⟩
  · cases hm : s.more.get a with
    | none => simp [hostList_hosts hm, hh]
    | some l => rw [hostList_more hm, ← (i.core.rep a l hm).2, hh]
  · obtain ⟨p1, p2⟩ := i.core.listOk a x hx
    exact ⟨p1.resolve_left (by simp), p2⟩
  · exact ⟨(hostList_more hl).symm, (i.core.rep a l hl).1⟩

/-- every address list belongs to an address that has a primary (no orphan `moreHosts` entry) -/
theorem list_has_primary (s : State) (i : Inv s) (a x : Nat) (hx : x ∈ hostList s a) : (s.hosts.get a).isSome := by
  cases hh : s.hosts.get a with
  | some h => rfl
  | none =>
    have hm := rep_more_none i.core.rep hh
    simp [hostList_hosts hm, hh] at hx

/-- every tunnel reachable from `Indexes`, `RemoteIndexes` or `Relays` is live, under the key it is filed under -/
theorem reachable_is_live (s : State) (i : Inv s) (k h : Nat) :
    (s.indexes.get k = some h → Live s h ∧ (s.obj h).lidx = k) ∧
    (s.rindexes.get k = some h → Live s h ∧ (s.obj h).ridx = k) ∧
    (s.relays.get k = some h → Live s h ∧ ((s.rstate h).byIdx.get k).isSome = true) := by
  refine ⟨fun e => ?_, fun e => i.core.ridx k h e, fun e => ⟨(i.core.rel k h e).1, (i.core.rel k h e).2.1⟩⟩
  have := (i.core.idx k h e).1
  exact ⟨by simpa [Live, this] using e, this⟩

/-- a live tunnel is reachable through each of its addresses -/
theorem live_is_listed (s : State) (i : Inv s) (h a : Nat) (hl : Live s h) (ha : a ∈ (s.obj h).addrs) :
    h ∈ hostList s a := i.core.reach _ h hl a ha

/-- `DeleteHostInfo(h)` erases every reference to `h` … -/
theorem delete_erases (s : State) (i : Inv s) (h : Nat) :
    let t := (deleteHost s h).1
    (∀ a, h ∉ hostList t a) ∧ (∀ a, t.hosts.get a ≠ some h) ∧ (∀ k, t.indexes.get k ≠ some h) ∧
    (∀ k, t.rindexes.get k ≠ some h) ∧ (∀ k, t.relays.get k ≠ some h) ∧ ¬ Live t h := by
  obtain ⟨c, l, d⟩ := deleteHost_core i.core h (by simp)
  have i' : Inv (deleteHost s h).1 := deleteHost_inv i h
  have h1 : ∀ a, h ∉ hostList (deleteHost s h).1 a := by
    intro a; rw [l a]; simp
  have nl : ¬ Live (deleteHost s h).1 h := by
    intro hl
    have hobj : (deleteHost s h).1.obj h = s.obj h := by simp [State.obj, d.objs]
    simp only [Live, hobj, d.indexes] at hl
    split at hl
    · cases hl
    · rename_i hn; exact hn (by simpa using hl)
  refine ⟨h1, fun a e => ?_, fun k e => ?_, fun k e => ?_, fun k e => ?_, nl⟩
  · have := (primary_heads_list _ i' a h e).1
    exact h1 a (List.mem_of_mem_head? this)
  · exact nl ((reachable_is_live _ i' k h).1 e).1
  · exact nl ((reachable_is_live _ i' k h).2.1 e).1
  · exact nl ((reachable_is_live _ i' k h).2.2 e).1

/-- … and touches nothing that belongs to another tunnel: every list only loses `h`, every index / remote index / relay
index entry of another tunnel stays -/
theorem delete_exact (s : State) (i : Inv s) (h : Nat) :
    let t := (deleteHost s h).1
    (∀ a, hostList t a = (hostList s a).filter (· != h)) ∧
    (∀ k x, x ≠ h → (t.indexes.get k = some x ↔ s.indexes.get k = some x)) ∧
    (∀ k x, x ≠ h → (t.rindexes.get k = some x ↔ s.rindexes.get k = some x)) ∧
    (∀ k x, x ≠ h → (t.relays.get k = some x ↔ s.relays.get k = some x)) ∧
    t.vpnIps = s.vpnIps ∧ t.pidx = s.pidx := by
  obtain ⟨c, l, d⟩ := deleteHost_core i.core h (by simp)
  refine ⟨l, fun k x hx => ?_, fun k x hx => ?_, fun k x hx => ?_, d.vpnIps, d.pidx⟩
  · rw [d.indexes]; split
    · rename_i hc; constructor
      · intro e; cases e
      · intro e; rw [hc.2] at e; exact absurd (Option.some.inj e).symm hx
    · rfl
  · rw [d.rindexes]; split
    · rename_i hc; constructor
      · intro e; cases e
      · intro e; rw [hc.2] at e; exact absurd (Option.some.inj e).symm hx
    · rfl
  · rw [d.relays]; split
    · rename_i hc; constructor
      · intro e; cases e
      · intro e; rw [hc.2] at e; exact absurd (Option.some.inj e).symm hx
    · rfl

/-- the answer of `DeleteHostInfo` is "no tunnel to the peer remains" exactly when no other tunnel holds any of the
deleted tunnel's addresses -/
theorem delete_final_iff (s : State) (i : Inv s) (h : Nat) :
    (deleteHost s h).2 = true ↔ ∀ a ∈ (s.obj h).addrs, ∀ x ∈ hostList s a, x = h := by
  obtain ⟨_, _, d⟩ := deleteHost_core i.core h (by simp)
  rw [d.final]
  simp only [List.all_eq_true, List.isEmpty_iff, List.filter_eq_nil_iff, bne_iff_ne, ne_eq, Decidable.not_not]

/-- a tunnel that is not registered in `Indexes` (removed, or never added) is never brought back by a promotion: the
hostmap is left exactly as it was -/
theorem no_resurrection (s : State) (h : Nat) (hd : ¬ Live s h) : makePrimary s h = (s, false) := by
  simp only [makePrimary, Live] at hd ⊢
  simp [hd]

/-- … nor by a relay request (`AddRelay` refuses) -/
theorem no_resurrection_by_relay (s : State) (h : Nat) (rel : Relay) (st : List Nat) (hd : ¬ Live s h) :
    (addRelay s h rel st).1 = s ∧ ∀ idx, (addRelay s h rel st).2 ≠ AllocRes.ok idx := by
  have hm := no_resurrection s h hd
  unfold addRelay
  generalize (32 : Nat) = fuel
  induction fuel generalizing st with
  | zero => simp [relayLoop]
  | succ n ih =>
    unfold relayLoop
    cases hg : genIndex st with
    | none => simp
    | some p =>
      obtain ⟨idx, st'⟩ := p
      simp only
      by_cases c : (s.relays.get idx).isNone = true
      · simp [c, hm]
      · simp only [c, Bool.false_eq_true, ↓reduceIte]; exact ih st'

/-- a promotion of a live tunnel makes it the primary of each of its addresses and changes no index map -/
theorem promotion_effect (s : State) (i : Inv s) (h : Nat) (hl : Live s h) :
    (makePrimary s h).2 = true ∧ (makePrimary s h).1.indexes = s.indexes ∧
    (makePrimary s h).1.rindexes = s.rindexes ∧ (makePrimary s h).1.relays = s.relays := by
  obtain ⟨_, same, hok⟩ := makePrimary_inv i h
  exact ⟨hok.mpr hl, same.indexes, same.rindexes, same.relays⟩

/-- relay indexes: every `Relays` entry is owned by a live tunnel that lists it in `relayForByIdx`, every index a live
tunnel lists is registered to it in `Relays`, and each tunnel's `relayForByAddr` / `relayForByIdx` agree — after every
operation sequence (including final deletes, which run `unlockedDisestablishVpnAddrRelayFor`) -/
theorem relay_state_consistent (ops : List Op) :
    let s := run {} ops
    (∀ i h, s.relays.get i = some h → Live s h ∧ ((s.rstate h).byIdx.get i).isSome = true) ∧
    (∀ h i, Live s h → ((s.rstate h).byIdx.get i).isSome = true → s.relays.get i = some h) ∧
    (∀ h a r, (s.rstate h).byAddr.get a = some r → r.peer = a ∧ (s.rstate h).byIdx.get r.lidx = some r) ∧
    (∀ h i r, (s.rstate h).byIdx.get i = some r → r.lidx = i ∧ ((s.rstate h).byAddr.get r.peer).isSome = true) := by
  have i := run_inv ops {} Nebula.HostMap.inv_init
  exact ⟨fun k h e => ⟨(i.core.rel k h e).1, (i.core.rel k h e).2.1⟩, i.core.relOwn,
    fun h => (i.core.rok h).1, fun h => (i.core.rok h).2⟩

/-- a delete only rewrites relay *state*: no tunnel's relay maps gain or lose a key, and they stay in agreement -/
theorem delete_keeps_relay_keys (s : State) (i : Inv s) (h x k : Nat) :
    (((deleteHost s h).1.rstate x).byIdx.get k).isSome = ((s.rstate x).byIdx.get k).isSome ∧
    (((deleteHost s h).1.rstate x).byAddr.get k).isSome = ((s.rstate x).byAddr.get k).isSome := by
  have d := deleteHost_spec s h i.core.rep i.core.nodup
  obtain ⟨_, _, k1, k2⟩ := d.rs x (i.core.rok x)
  exact ⟨k1 k, k2 k⟩

/-- **the run-time oracle is the invariant**: the executable check applied to every implementation dump returns no
violation exactly when `Inv` holds of the dumped state -/
theorem invCheck_iff_Inv (s : State) : Nebula.Spec.HostMap.invCheck s = none ↔ Inv s :=
  Nebula.HostMap.invCheck_iff_Inv s

/-- … and the transition oracle is the step relation `Step` (no resurrection, release only by the owner) -/
theorem stepCheck_iff_Step (pre post : State) (fresh : List Nat) :
    Nebula.Spec.HostMap.stepCheck pre post fresh = none ↔ Step pre post fresh :=
  Nebula.HostMap.stepCheck_iff_Step pre post fresh

/-- every operation of the model, from every state satisfying the invariant, satisfies the step relation: no tunnel
enters the main hostmap except the one being completed, and index / relay index / pending index / remote index entries
disappear only together with their tunnel (or, for remote indexes, are shadowed by the new tunnel) -/
theorem step_all_ops (s : State) (i : Inv s) (op : Op) : Step s (applyOp s op) (freshOf s op) := applyOp_step i op

/-- hence the transition oracle never fires on the model -/
theorem stepCheck_silent_on_model (ops : List Op) (op : Op) :
    Nebula.Spec.HostMap.stepCheck (run {} ops) (applyOp (run {} ops) op) (freshOf (run {} ops) op) = none :=
  Nebula.HostMap.stepCheck_silent_on_model (inv_all_histories ops) op

/-- hence the oracle never fires on the model, whatever the history -/
theorem oracle_silent_on_model (ops : List Op) : Nebula.Spec.HostMap.invCheck (run {} ops) = none :=
  (Nebula.HostMap.invCheck_iff_Inv _).mpr (inv_all_histories ops)

-- non-vacuity: a history with the cap exceeded, a stale delete after the index was reused, a promotion and a relay
example : Inv (run {} [.resp [1] 7 1 1 [5], .del 1, .resp [1, 2] 8 2 2 [5], .del 1, .prim 1, .relay 2 { type := 1, state := 2, peer := 3 } [9]]) :=
  inv_all_histories _
example : (run {} [.resp [1] 7 1 1 [5], .del 1, .resp [1, 2] 8 2 2 [5], .del 1]).indexes.get 5 = some 2 := by decide
example : (deleteHost (run {} [.resp [1] 7 1 1 [5], .resp [1] 8 2 2 [6]]) 2).2 = false := by decide
example : (deleteHost (run {} [.resp [1] 7 1 1 [5]]) 1).2 = true := by decide

end Nebula.Props.C28
