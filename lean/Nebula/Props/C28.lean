/-
C28 — Hostmap indexes stay consistent.  (work in progress: the delete clauses; the full induction follows)
-/
import Nebula.Lemmas.HostMapInv

namespace Nebula.Props.C28
open Nebula.HostMap

/-- `DeleteHostInfo` keeps the invariant, in every state satisfying it, for every (also stale) tunnel. -/
theorem delete_preserves_inv (s : State) (h : Nat) (i : Inv s) : Inv (deleteHost s h).1 := deleteHost_inv i h

/-- A tunnel that is not registered in `Indexes` is never brought back by a promotion. -/
theorem no_resurrection (s : State) (h : Nat) (hd : ¬ Live s h) : makePrimary s h = (s, false) := by
  simp only [makePrimary, Live] at hd ⊢
  simp [hd]

end Nebula.Props.C28
