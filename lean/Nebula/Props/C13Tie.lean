/-
C13 — source tie of the nonce construction and of the ceiling comparisons.

The twelve bytes that `EncryptDanger` / `DecryptDanger` of noiseutil/aesgcm.go and noiseutil/chachapoly.go store into
the nonce buffer `nb` are regenerated from the source on every run (one `BitVec 8` definition per byte,
`binary.{Big,Little}Endian.PutUint64(nb[4:], n)` expanded to its byte stores by the translator). They are proved to
be four zero bytes followed by the eight base-256 digits of the 64-bit counter (big-endian for AES-GCM, little-endian
for ChaCha20-Poly1305), hence injective in the counter: "no counter reuse" (C13, proved over the model's counters)
is "no nonce reuse" at the AEAD. The ceiling comparisons `n >= RejectAfterMessages` (both ciphers) and
`c >= RejectAfterMessages` (`NextMessageCounter`) are regenerated and proved to be the model's tests.
-/
import Nebula.Lemmas.Ties1NonceTie

namespace Nebula.Props.C13Tie
open Nebula.Lemmas.Ties1NonceTie

/-- AES-GCM, seal side: the stored nonce bytes are `00 00 00 00 ‖ BE64(n)` for every counter. -/
theorem aesgcm_nonce_is_translated (n : BitVec 64) : (aesEnc n).map BitVec.toNat = nonceBE n.toNat :=
  aesEnc_eq n

/-- AES-GCM, open side builds the same nonce. -/
theorem aesgcm_open_nonce_is_translated (n : BitVec 64) : (aesDec n).map BitVec.toNat = nonceBE n.toNat :=
  aesDec_eq n

/-- ChaCha20-Poly1305, seal side: `00 00 00 00 ‖ LE64(n)`. -/
theorem chachapoly_nonce_is_translated (n : BitVec 64) : (chachaEnc n).map BitVec.toNat = nonceLE n.toNat :=
  chachaEnc_eq n

/-- ChaCha20-Poly1305, open side builds the same nonce. -/
theorem chachapoly_open_nonce_is_translated (n : BitVec 64) : (chachaDec n).map BitVec.toNat = nonceLE n.toNat :=
  chachaDec_eq n

/-- The nonce bytes, as the source builds them, determine the counter: two sends under one key reach the AEAD
with the same nonce only if they carry the same counter (both ciphers). -/
theorem nonce_injective_translated (n m : BitVec 64) :
    (aesEnc n = aesEnc m → n = m) ∧ (chachaEnc n = chachaEnc m → n = m) :=
  ⟨aesEnc_inj n m, chachaEnc_inj n m⟩

/-- Sender and receiver agree: the open side rebuilds the nonce the seal side used for the same counter. -/
theorem open_nonce_eq_seal_nonce_translated (n : BitVec 64) :
    (aesDec n).map BitVec.toNat = (aesEnc n).map BitVec.toNat
    ∧ (chachaDec n).map BitVec.toNat = (chachaEnc n).map BitVec.toNat := by
  rw [aesDec_eq, aesEnc_eq, chachaDec_eq, chachaEnc_eq]; exact ⟨rfl, rfl⟩

/-- The ceiling test at the top of both `EncryptDanger`s is the refusal test of the model's `finResult`. -/
theorem reject_is_translated (n : BitVec 64) :
    Gen.tie_ties1_nonce_aes_reject n = !decide (n < Nebula.Counter.reject)
    ∧ Gen.tie_ties1_nonce_chacha_reject n = !decide (n < Nebula.Counter.reject) :=
  reject_eq n

/-- The test of `NextMessageCounter` is the pinning test of the model's `finResult`. -/
theorem next_pinned_is_translated (c : BitVec 64) :
    Gen.tie_ties1_nonce_next_pinned c Nebula.Counter.reject = decide (Nebula.Counter.reject ≤ c) :=
  next_pinned_eq c _

-- the regenerated definitions compute
example : (aesEnc 0x0102030405060708#64).map BitVec.toNat = [0, 0, 0, 0, 1, 2, 3, 4, 5, 6, 7, 8] := by decide
example : (chachaEnc 0x0102030405060708#64).map BitVec.toNat = [0, 0, 0, 0, 8, 7, 6, 5, 4, 3, 2, 1] := by decide

end Nebula.Props.C13Tie
