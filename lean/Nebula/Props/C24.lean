import Nebula.Model.Segment
namespace Nebula.Props.C24
open Nebula.Segment

/-- CWR survives only on the first segment. -/
theorem flags_cwr_first_only (f i n : Nat) (hf : f < 256) (hi : i ≠ 0) : segFlags f i n / 128 % 2 = 0 := by
  unfold segFlags; simp only [hi, ne_eq, not_false_eq_true, if_true]; split <;> omega

end Nebula.Props.C24
