/-
C24 — Superpacket segmentation yields valid original segments.

"Splitting a TCP or UDP offload superpacket from the tun device yields segments whose payloads
concatenate to the original payload in order, each of at most the segment size, each a valid IP packet
with correct IP and transport checksums and lengths, with TCP sequence numbers advancing by payload,
CWR only on the first segment, FIN and PSH only on the last, and IPv4 IDs incrementing."

Model: `Nebula/Model/Segment.lean` (`segmentTCP`, `segmentUDP`, `readAndSegment` = `decodeRead` +
`SegmentSuperpacket`); `segCount` and `foldComplement` are the functions translated from the source.
`pkt.length < 2^62`, `g < 2^62` are the ranges of a Go slice length / `int`.
-/
import Nebula.Lemmas.SegmentRun
import Nebula.Lemmas.SegmentCsum
import Nebula.Lemmas.SegmentTop
import Nebula.Lemmas.SegmentPipeline
import Nebula.Lemmas.SegmentFinish
import Nebula.Spec.Segment

namespace Nebula.Props.C24
open Nebula.Csum Nebula.Segment Nebula.Lemmas.Segment Nebula.Lemmas.SegmentRun
open Nebula.Lemmas.SegmentInv Nebula.Lemmas.SegmentTop Nebula.Lemmas.SegmentPipeline
open Nebula.Lemmas.SegmentSame

/-! ### geometry: count, sizes, payload concatenation -/

theorem tcpSeg_payload (c : TcpCtx) (pkt : List UInt8) (i : Nat) (hlen : c.saved.length = c.hdrLen)
    (hcs : c.csumStart + 18 ≤ c.hdrLen) :
    (tcpSeg c pkt i).drop c.hdrLen = segPayload pkt c.hdrLen c.g i ∧
      (tcpSeg c pkt i).length = c.hdrLen + (segPayload pkt c.hdrLen c.g i).length := by
  obtain ⟨H', hl, he⟩ := tcpSeg_normal c pkt i hlen hcs
  rw [he]; constructor
  · rw [List.drop_append, List.drop_of_length_le (by omega)]; simp [hl]
  · simp [hl]

theorem udpSeg_payload (c : UdpCtx) (pkt : List UInt8) (i : Nat) (hlen : c.saved.length = c.hdrLen)
    (hcs : c.csumStart + 8 = c.hdrLen) (h12 : 12 ≤ c.hdrLen) :
    (udpSeg c pkt i).drop c.hdrLen = segPayload pkt c.hdrLen c.g i ∧
      (udpSeg c pkt i).length = c.hdrLen + (segPayload pkt c.hdrLen c.g i).length := by
  obtain ⟨H', hl, he⟩ := udpSeg_normal c pkt i hlen hcs h12
  rw [he]; constructor
  · rw [List.drop_append, List.drop_of_length_le (by omega)]; simp [hl]
  · simp [hl]

/-- **Count.** A TCP superpacket yields exactly `max 1 ⌈payload / gso_size⌉` segments. -/
theorem tcp_seg_count {pkt : List UInt8} {hdrLen cs g : Nat} {segs : List (List UInt8)}
    (h : segmentTCP pkt hdrLen cs g = .ok segs) (hp : pkt.length < 2 ^ 62) (hg : g < 2 ^ 62) :
    segs.length = max 1 ((pkt.length - hdrLen + g - 1) / g) := by
  obtain ⟨hg0, _, _, _, _, c, _, _, _, _, hn, hs⟩ := segmentTCP_ok h
  rw [hs, List.length_map, List.length_range, hn, segCount_eq _ _ (by omega) hg (by omega)]

/-- **Payload concatenation.** The payloads (everything after the `hdrLen` header bytes) of the TCP
segments, in order, are exactly the superpacket's payload: nothing lost, duplicated or reordered. -/
theorem tcp_payload_concat {pkt : List UInt8} {hdrLen cs g : Nat} {segs : List (List UInt8)}
    (h : segmentTCP pkt hdrLen cs g = .ok segs) (hp : pkt.length < 2 ^ 62) (hg : g < 2 ^ 62) :
    segs.flatMap (fun s => s.drop hdrLen) = pkt.drop hdrLen := by
  obtain ⟨hg0, _, _, hle, hcs, c, hsv, hhl, hcs', hgg, hn, hs⟩ := segmentTCP_ok h
  have hlen : c.saved.length = c.hdrLen := by rw [hsv, hhl]; simp; omega
  rw [hs, List.flatMap_map]
  have : ∀ i, (tcpSeg c pkt i).drop hdrLen = segPayload pkt hdrLen g i := by
    intro i; have := (tcpSeg_payload c pkt i hlen (by omega)).1; rw [hhl, hgg] at this; exact this
  simp only [this]
  apply payload_concat
  rw [hn, segCount_eq _ _ (by omega) hg (by omega)]
  exact count_covers _ _ (by omega)

/-- **Sizes.** Segment `i` is `hdrLen` header bytes plus a payload of at most `gso_size` bytes — exactly
`gso_size` for every segment but the last. -/
theorem tcp_seg_sizes {pkt : List UInt8} {hdrLen cs g : Nat} {segs : List (List UInt8)}
    (h : segmentTCP pkt hdrLen cs g = .ok segs) (hp : pkt.length < 2 ^ 62) (hg : g < 2 ^ 62)
    (i : Nat) (hi : i < segs.length) :
    hdrLen ≤ (segs[i]).length ∧ (segs[i]).length - hdrLen ≤ g ∧
      (i + 1 < segs.length → (segs[i]).length - hdrLen = g) := by
  have hcnt := tcp_seg_count h hp hg
  obtain ⟨hg0, _, _, hle, hcs, c, hsv, hhl, hcs', hgg, hn, hs⟩ := segmentTCP_ok h
  have hlen : c.saved.length = c.hdrLen := by rw [hsv, hhl]; simp; omega
  subst hs
  simp only [List.getElem_map, List.getElem_range]
  have h2 := (tcpSeg_payload c pkt i hlen (by omega)).2
  rw [segPayload_length, hhl, hgg] at h2
  rw [h2]
  refine ⟨by omega, by omega, ?_⟩
  intro hlast
  rw [hcnt] at hlast
  have := nonlast_full (pkt.length - hdrLen) g i (by omega) hlast
  rw [Nat.add_mul, Nat.one_mul] at this
  generalize i * g = a at *
  omega

/-- **Count** (UDP). -/
theorem udp_seg_count {pkt : List UInt8} {hdrLen cs g : Nat} {segs : List (List UInt8)}
    (h : segmentUDP pkt hdrLen cs g = .ok segs) (hp : pkt.length < 2 ^ 62) (hg : g < 2 ^ 62) :
    segs.length = max 1 ((pkt.length - hdrLen + g - 1) / g) := by
  obtain ⟨hg0, _, _, _, _, _, c, _, _, _, _, hs⟩ := segmentUDP_ok h
  rw [hs, List.length_map, List.length_range, segCount_eq _ _ (by omega) hg (by omega)]

/-- **Payload concatenation** (UDP), for superpackets whose header is at least an IPv4 header
(`hdrLen ≥ 12` — implied by `CheckValid`'s `len ≥ 20` together with a sane `csum_start`). -/
theorem udp_payload_concat {pkt : List UInt8} {hdrLen cs g : Nat} {segs : List (List UInt8)}
    (h : segmentUDP pkt hdrLen cs g = .ok segs) (hp : pkt.length < 2 ^ 62) (hg : g < 2 ^ 62)
    (h12 : 12 ≤ hdrLen) :
    segs.flatMap (fun s => s.drop hdrLen) = pkt.drop hdrLen := by
  obtain ⟨hg0, _, _, hle, hcs, _, c, hsv, hhl, hcs', hgg, hs⟩ := segmentUDP_ok h
  have hlen : c.saved.length = c.hdrLen := by rw [hsv, hhl]; simp; omega
  rw [hs, List.flatMap_map]
  have : ∀ i, (udpSeg c pkt i).drop hdrLen = segPayload pkt hdrLen g i := by
    intro i; have := (udpSeg_payload c pkt i hlen (by omega) (by omega)).1; rw [hhl, hgg] at this; exact this
  simp only [this]
  apply payload_concat
  rw [segCount_eq _ _ (by omega) hg (by omega)]
  exact count_covers _ _ (by omega)

/-- **Sizes** (UDP). -/
theorem udp_seg_sizes {pkt : List UInt8} {hdrLen cs g : Nat} {segs : List (List UInt8)}
    (h : segmentUDP pkt hdrLen cs g = .ok segs) (hp : pkt.length < 2 ^ 62) (hg : g < 2 ^ 62)
    (h12 : 12 ≤ hdrLen) (i : Nat) (hi : i < segs.length) :
    hdrLen ≤ (segs[i]).length ∧ (segs[i]).length - hdrLen ≤ g ∧
      (i + 1 < segs.length → (segs[i]).length - hdrLen = g) := by
  have hcnt := udp_seg_count h hp hg
  obtain ⟨hg0, _, _, hle, hcs, _, c, hsv, hhl, hcs', hgg, hs⟩ := segmentUDP_ok h
  have hlen : c.saved.length = c.hdrLen := by rw [hsv, hhl]; simp; omega
  subst hs
  simp only [List.getElem_map, List.getElem_range]
  have h2 := (udpSeg_payload c pkt i hlen (by omega) (by omega)).2
  rw [segPayload_length, hhl, hgg] at h2
  rw [h2]
  refine ⟨by omega, by omega, ?_⟩
  intro hlast
  rw [hcnt] at hlast
  have := nonlast_full (pkt.length - hdrLen) g i (by omega) hlast
  rw [Nat.add_mul, Nat.one_mul] at this
  generalize i * g = a at *
  omega

/-! ### flags, sequence numbers, IDs: the per-segment values the code writes -/

/-- CWR survives only on the first segment. -/
theorem flags_cwr_first_only (f i n : Nat) (hf : f < 256) (hi : i ≠ 0) : segFlags f i n / 128 % 2 = 0 := by
  unfold segFlags; simp only [hi, ne_eq, not_false_eq_true, if_true]; split <;> omega

/-- FIN and PSH survive only on the last segment. -/
theorem flags_fin_psh_last_only (f i n : Nat) (hf : f < 256) (hi : i ≠ n - 1) :
    segFlags f i n % 2 = 0 ∧ segFlags f i n / 8 % 2 = 0 := by
  unfold segFlags; simp only [hi, ne_eq, not_false_eq_true, if_true]; split <;> omega

/-- On the first segment CWR is kept, on the last FIN and PSH are kept, and every other flag bit is kept
on every segment. -/
theorem flags_kept (f i n : Nat) (hf : f < 256) :
    (i = 0 → segFlags f i n / 128 % 2 = f / 128 % 2) ∧
    (i = n - 1 → segFlags f i n % 2 = f % 2 ∧ segFlags f i n / 8 % 2 = f / 8 % 2) ∧
    segFlags f i n / 2 % 4 = f / 2 % 4 ∧ segFlags f i n / 16 % 8 = f / 16 % 8 ∧ segFlags f i n < 256 := by
  unfold segFlags
  dsimp only
  refine ⟨?_, ?_, ?_, ?_, ?_⟩ <;> (try intro h) <;> split <;> split <;> omega

/-- `foldComplement` (as translated from the source) is the complement of the full RFC 1071 fold. -/
theorem fold_complement_correct (x : Nat) (h : x < 2 ^ 32) : foldComplement x = 65535 - fold16 x :=
  foldComplement_eq x (by simpa using h)

/-- `segCount` (as translated from the source) is `max 1 ⌈n/g⌉`. -/
theorem seg_count_correct (n g : Nat) (hn : n < 2 ^ 62) (hg : g < 2 ^ 62) (hg0 : 0 < g) :
    segCount n g = max 1 ((n + g - 1) / g) := segCount_eq n g hn hg hg0

/-! ### checksums of every emitted segment (corollaries of `Base/Csum`)

Notation: `v4 pkt` — the version nibble is 4; `ihlOf pkt` — the IHL the superpacket declares;
`byteAt p i` — byte `i`; `addrBytes pkt isV4` — the source+destination address bytes of the superpacket;
`hfit` — the largest segment fits the 16-bit IP length field (otherwise no valid segmentation exists);
`hwf` — `csum_start` is not inside the fixed IPv6 header (for IPv4 the code itself checks
`ihl ≤ csum_start`). -/

/-- The three IPv4 writes (total length, ID, checksum from the base sum) leave a verifying header —
statement on the header bytes the writes act on. -/
theorem ipv4_csum_patch (A : List UInt8) (hdrLen spl origID i : Nat)
    (hA : 20 ≤ A.length) (hfit : hdrLen + spl ≤ 65535) (hpos : 0 < hdrLen + spl) :
    verifies (patchIP A true hdrLen spl origID
      (fold2 ((checksum A 0 + compl16 (be16 A 2) + compl16 (be16 A 10) + compl16 (be16 A 4)) % 4294967296)) i) 0 :=
  Lemmas.SegmentCsum.ipv4_patch_verifies A hdrLen spl origID i hA hfit hpos

/-- **IPv4 header checksum.** The first IHL bytes of every emitted TCP segment verify under RFC 1071. -/
theorem tcp_ipv4_csum_valid {pkt : List UInt8} {hdrLen cs g : Nat} {segs : List (List UInt8)}
    (h : segmentTCP pkt hdrLen cs g = .ok segs) (h4 : v4 pkt)
    (hfit : hdrLen + min g (pkt.length - hdrLen) ≤ 65535) (i : Nat) (hi : i < segs.length) :
    verifies ((segs[i]).take (ihlOf pkt)) 0 :=
  Lemmas.SegmentTop.tcp_ipv4_csum_valid h h4 hfit i hi

/-- **IPv4 header checksum** of every emitted UDP segment. -/
theorem udp_ipv4_csum_valid {pkt : List UInt8} {hdrLen cs g : Nat} {segs : List (List UInt8)}
    (h : segmentUDP pkt hdrLen cs g = .ok segs) (h4 : v4 pkt)
    (hfit : hdrLen + min g (pkt.length - hdrLen) ≤ 65535) (i : Nat) (hi : i < segs.length) :
    verifies ((segs[i]).take (ihlOf pkt)) 0 :=
  Lemmas.SegmentTop.udp_ipv4_csum_valid h h4 hfit i hi

/-- **TCP checksum.** The L4 bytes of every emitted TCP segment verify against the pseudo-header
(addresses of the superpacket, protocol 6, the segment's own L4 length), when `hdrLen` is what
`CorrectHdrLen` computes (`csum_start` + data offset). -/
theorem tcp_csum_valid {pkt : List UInt8} {hdrLen cs g : Nat} {segs : List (List UInt8)}
    (h : segmentTCP pkt hdrLen cs g = .ok segs) (hwf : v4 pkt ∨ 40 ≤ cs)
    (hhl : hdrLen = cs + byteAt pkt (cs + 12) / 16 * 4)
    (hfit : hdrLen + min g (pkt.length - hdrLen) ≤ 65535) (i : Nat) (hi : i < segs.length) :
    verifies ((segs[i]).drop cs)
      (pseudoSum (addrBytes pkt (decide (v4 pkt))) 6 ((segs[i]).length - cs)) :=
  Lemmas.SegmentTop.tcp_csum_valid h hwf hhl hfit i hi

/-- **UDP checksum, zero rule, UDP length, IP lengths, IPv4 ID.** For every emitted UDP segment: the L4
bytes verify against the pseudo-header (protocol 17); the transmitted checksum is never 0 (RFC 768:
a computed 0 is sent as 0xffff); the UDP length field is the segment's L4 length; the IPv4 total length
resp. IPv6 payload length matches the segment; the IPv4 ID is the original + i mod 2^16. -/
theorem udp_csum_valid {pkt : List UInt8} {hdrLen cs g : Nat} {segs : List (List UInt8)}
    (h : segmentUDP pkt hdrLen cs g = .ok segs) (hwf : v4 pkt ∨ 40 ≤ cs)
    (hfit : hdrLen + min g (pkt.length - hdrLen) ≤ 65535) (i : Nat) (hi : i < segs.length) :
    verifies ((segs[i]).drop cs) (pseudoSum (addrBytes pkt (decide (v4 pkt))) 17 ((segs[i]).length - cs)) ∧
    be16 (segs[i]) (cs + 6) ≠ 0 ∧
    be16 (segs[i]) (cs + 4) = (segs[i]).length - cs ∧
    (v4 pkt → be16 (segs[i]) 2 = (segs[i]).length ∧ be16 (segs[i]) 4 = (be16 pkt 4 + i) % 65536) ∧
    (¬ v4 pkt → be16 (segs[i]) 4 + 40 = (segs[i]).length) :=
  Lemmas.SegmentTop.udp_valid h hwf hfit i hi

/-! ### lengths, IDs, sequence numbers, flags as read back from the emitted bytes -/

/-- **IP lengths and IPv4 ID** of every emitted TCP segment: IPv4 total length = segment length and
ID = original + i (mod 2^16); IPv6 payload length + 40 = segment length. -/
theorem tcp_ip_lengths_and_id {pkt : List UInt8} {hdrLen cs g : Nat} {segs : List (List UInt8)}
    (h : segmentTCP pkt hdrLen cs g = .ok segs) (hwf : v4 pkt ∨ 40 ≤ cs)
    (hfit : hdrLen + min g (pkt.length - hdrLen) ≤ 65535) (i : Nat) (hi : i < segs.length) :
    (v4 pkt → be16 (segs[i]) 2 = (segs[i]).length ∧ be16 (segs[i]) 4 = (be16 pkt 4 + i) % 65536) ∧
    (¬ v4 pkt → be16 (segs[i]) 4 + 40 = (segs[i]).length) :=
  ⟨(tcp_fields h hwf hfit i hi).1, (tcp_fields h hwf hfit i hi).2.1⟩

/-- **Sequence numbers advance by payload** (mod 2^32): segment `i` carries the original sequence
number + `i · gso_size`, i.e. + the payload bytes of all earlier segments (`tcp_seg_sizes`). -/
theorem tcp_seq_advance {pkt : List UInt8} {hdrLen cs g : Nat} {segs : List (List UInt8)}
    (h : segmentTCP pkt hdrLen cs g = .ok segs) (hwf : v4 pkt ∨ 40 ≤ cs)
    (hfit : hdrLen + min g (pkt.length - hdrLen) ≤ 65535) (i : Nat) (hi : i < segs.length) :
    be16 (segs[i]) (cs + 4) * 65536 + be16 (segs[i]) (cs + 6)
      = (be16 pkt (cs + 4) * 65536 + be16 pkt (cs + 6) + i * g) % 4294967296 :=
  (tcp_fields h hwf hfit i hi).2.2.1

/-- **Flags on the emitted bytes**: with `f` the flags byte of segment `i` and `f0` the superpacket's,
CWR (0x80) is set iff `f0` has it and `i = 0`; FIN (0x01) and PSH (0x08) are set iff `f0` has them and
`i` is the last segment; every other bit equals `f0`'s. -/
theorem tcp_flags_emitted {pkt : List UInt8} {hdrLen cs g : Nat} {segs : List (List UInt8)}
    (h : segmentTCP pkt hdrLen cs g = .ok segs) (hwf : v4 pkt ∨ 40 ≤ cs)
    (hfit : hdrLen + min g (pkt.length - hdrLen) ≤ 65535) (i : Nat) (hi : i < segs.length) :
    let f := byteAt (segs[i]) (cs + 13)
    let f0 := byteAt pkt (cs + 13)
    (f / 128 % 2 = if i = 0 then f0 / 128 % 2 else 0) ∧
    (f % 2 = if i + 1 = segs.length then f0 % 2 else 0) ∧
    (f / 8 % 2 = if i + 1 = segs.length then f0 / 8 % 2 else 0) ∧
    f / 2 % 4 = f0 / 2 % 4 ∧ f / 16 % 8 = f0 / 16 % 8 := by
  intro f f0
  have hf : f = segFlags f0 i segs.length := (tcp_fields h hwf hfit i hi).2.2.2
  have hf0 : f0 < 256 := byteAt_lt _ _
  rw [hf]
  have k := flags_kept f0 i segs.length hf0
  refine ⟨?_, ?_, ?_, k.2.2.1, k.2.2.2.1⟩
  · split
    · next h0 => exact k.1 h0
    · next h0 => exact flags_cwr_first_only f0 i _ hf0 h0
  · split
    · next hl => exact (k.2.1 (by omega)).1
    · next hl => exact (flags_fin_psh_last_only f0 i _ hf0 (by omega)).1
  · split
    · next hl => exact (k.2.1 (by omega)).2
    · next hl => exact (flags_fin_psh_last_only f0 i _ hf0 (by omega)).2

example : v4 exTCP4 ∧ 40 = 20 + byteAt exTCP4 (20 + 12) / 16 * 4 ∧ 40 + min 3 (exTCP4.length - 40) ≤ 65535 := by
  decide

/-! ### nothing else changes; the segment's own pseudo-header -/

/-- **Unwritten header bytes (TCP).** Every byte of the L3+L4 header of every emitted segment, other than
the ones the segmenter writes (IPv4: total length, ID, checksum; IPv6: payload length; TCP: sequence
number, flags byte, checksum), equals the superpacket's — version/IHL, TOS, fragment word, TTL,
protocol, addresses, IP options / extension headers, ports, ack, data offset, window, urgent, TCP
options. -/
theorem tcp_header_unchanged {pkt : List UInt8} {hdrLen cs g : Nat} {segs : List (List UInt8)}
    (h : segmentTCP pkt hdrLen cs g = .ok segs) (hwf : v4 pkt ∨ 40 ≤ cs) (i : Nat) (hi : i < segs.length)
    (j : Nat) (hj : j < hdrLen) (hip : ¬ ipWritten (decide (v4 pkt)) j)
    (hl4 : j ≠ cs + 4 ∧ j ≠ cs + 5 ∧ j ≠ cs + 6 ∧ j ≠ cs + 7 ∧ j ≠ cs + 13 ∧ j ≠ cs + 16 ∧ j ≠ cs + 17) :
    (segs[i]).getD j 0 = pkt.getD j 0 :=
  tcp_unwritten h hwf i hi j hj hip hl4

/-- **Unwritten header bytes (UDP)** (UDP writes: length and checksum). -/
theorem udp_header_unchanged {pkt : List UInt8} {hdrLen cs g : Nat} {segs : List (List UInt8)}
    (h : segmentUDP pkt hdrLen cs g = .ok segs) (hwf : v4 pkt ∨ 40 ≤ cs) (i : Nat) (hi : i < segs.length)
    (j : Nat) (hj : j < hdrLen) (hip : ¬ ipWritten (decide (v4 pkt)) j)
    (hl4 : j ≠ cs + 4 ∧ j ≠ cs + 5 ∧ j ≠ cs + 6 ∧ j ≠ cs + 7) :
    (segs[i]).getD j 0 = pkt.getD j 0 :=
  udp_unwritten h hwf i hi j hj hip hl4

example : ¬ ipWritten (decide (v4 exTCP4)) 12 ∧ ipWritten (decide (v4 exTCP4)) 10 := by decide

/-- **TCP checksum against the segment's own pseudo-header** — exactly the clause of the specification
(`Spec.Segment.checkL4`): the RFC 9293 / RFC 8200 pseudo-header bytes are built from the *segment's*
addresses, version and length. -/
theorem tcp_csum_valid_own {pkt : List UInt8} {hdrLen cs g : Nat} {segs : List (List UInt8)}
    (h : segmentTCP pkt hdrLen cs g = .ok segs) (hwf : v4 pkt ∨ 40 ≤ cs)
    (hhl : hdrLen = cs + byteAt pkt (cs + 12) / 16 * 4)
    (hfit : hdrLen + min g (pkt.length - hdrLen) ≤ 65535) (i : Nat) (hi : i < segs.length) :
    verifies ((segs[i]).drop cs) (wsum (Spec.Segment.pseudoHdr (segs[i]) cs 6)) :=
  Lemmas.SegmentOwn.tcp_csum_valid_own h hwf hhl hfit i hi

/-- **UDP checksum against the segment's own pseudo-header.** -/
theorem udp_csum_valid_own {pkt : List UInt8} {hdrLen cs g : Nat} {segs : List (List UInt8)}
    (h : segmentUDP pkt hdrLen cs g = .ok segs) (hwf : v4 pkt ∨ 40 ≤ cs)
    (hfit : hdrLen + min g (pkt.length - hdrLen) ≤ 65535) (i : Nat) (hi : i < segs.length) :
    verifies ((segs[i]).drop cs) (wsum (Spec.Segment.pseudoHdr (segs[i]) cs 17)) :=
  Lemmas.SegmentOwn.udp_csum_valid_own h hwf hfit i hi

/-! ### FinishChecksum (non-GSO read with NEEDS_CSUM) -/

/-- **FinishChecksum.** With an even `csum_offset` (16 for TCP, 6 for UDP): the completed packet's L4
bytes verify against the partial pseudo-header sum the kernel left in the checksum field; a UDP checksum
is never transmitted as 0; the length is unchanged and no byte other than the two checksum bytes
changes. -/
theorem finish_checksum_valid {seg res : List UInt8} {h : Hdr} (he : finishChecksum seg h = .ok res)
    (hco : h.csumOffset % 2 = 0) :
    verifies (res.drop h.csumStart) (be16 seg (h.csumStart + h.csumOffset)) ∧
    res.length = seg.length ∧
    (h.csumOffset = 6 → be16 res (h.csumStart + 6) ≠ 0) ∧
    (∀ j, j ≠ h.csumStart + h.csumOffset → j ≠ h.csumStart + h.csumOffset + 1 → res.getD j 0 = seg.getD j 0) :=
  Lemmas.SegmentFinish.finishChecksum_valid he hco

example : (match finishChecksum exUDP6 ⟨1, 0, 0, 0, 40, 6⟩ with
    | .ok r => r.length == exUDP6.length
    | .error _ => false) = true := by decide +kernel

/-- The non-GSO read path delivers the packet unchanged, or as completed by `FinishChecksum`. -/
theorem pipeline_plain {h : Hdr} {pkt : List UInt8} {segs : List (List UInt8)}
    (hg : h.gso = GSO_NONE) (he : readAndSegment h pkt = .ok segs) :
    (h.flags % 2 = F_NEEDS_CSUM → ∃ p, finishChecksum pkt h = .ok p ∧ segs = [p]) ∧
    (h.flags % 2 ≠ F_NEEDS_CSUM → segs = [pkt]) :=
  Lemmas.SegmentFinish.readAndSegment_plain hg he

/-! ### the read path: no panic, and it *is* the segmenter -/

/-- **No panic.** For every virtio header (`csum_start` a uint16) and every packet, one tun read
(`decodeRead` + `SegmentSuperpacket`) never hits a Go run-time panic: every index / slice expression is
covered by the guards of `CheckValid` and `CorrectHdrLen`. -/
theorem pipeline_no_panic (h : Hdr) (pkt : List UInt8) (hcs16 : h.csumStart < 65536) :
    readAndSegment h pkt ≠ .error .panic := by
  intro he; exact readAndSegment_not_bad h pkt hcs16 _ he (Or.inl rfl)

/-- The read path never leaves the domain on which the functional model of `SegmentTCP` is exact
(`Err.precond`: a TCP write would land outside the stamped header). -/
theorem pipeline_never_precond (h : Hdr) (pkt : List UInt8) (hcs16 : h.csumStart < 65536) :
    readAndSegment h pkt ≠ .error .precond := by
  intro he; exact readAndSegment_not_bad h pkt hcs16 _ he (Or.inr rfl)

/-- A successful read of a GSO superpacket is a run of `segmentUDP` (header length `csum_start + 8`)
or of `segmentTCP` with header length `csum_start` + data offset — so every theorem above applies to
what `decodeRead` + `SegmentSuperpacket` hand to the rest of nebula, with `hhl` discharged. -/
theorem pipeline_is_segmenter {h : Hdr} {pkt : List UInt8} {segs : List (List UInt8)}
    (hcs16 : h.csumStart < 65536) (hg : h.gso ≠ GSO_NONE) (he : readAndSegment h pkt = .ok segs) :
    (h.gso = GSO_UDP_L4 ∧ segmentUDP pkt (h.csumStart + 8) h.csumStart h.gsoSize = .ok segs) ∨
    ((h.gso = GSO_TCPV4 ∨ h.gso = GSO_TCPV6) ∧
      segmentTCP pkt (h.csumStart + byteAt pkt (h.csumStart + 12) / 16 * 4) h.csumStart h.gsoSize = .ok segs) :=
  readAndSegment_gso hcs16 hg he

example : (⟨1, 1, 0, 3, 20, 16⟩ : Hdr).csumStart < 65536 ∧ (⟨1, 1, 0, 3, 20, 16⟩ : Hdr).gso ≠ GSO_NONE := by decide

/-! ### non-vacuity and end-to-end sanity: the model run on concrete superpackets satisfies the whole
specification (count, sizes, payload concatenation, IP lengths, IPv4 ID increment through the 0xffff
wrap, IPv4 / TCP / UDP checksum validity incl. the UDP zero rule, sequence advance through the 2^32
wrap, CWR first only, FIN/PSH last only, untouched header bytes).  Closed terms, evaluated by the kernel. -/

example : (match segmentTCP exTCP4 40 20 3 with
    | .ok segs => segs.length == 3 && Spec.Segment.check exTCP4 20 .tcp 3 segs == none
    | .error _ => false) = true := by decide +kernel

example : (match readAndSegment ⟨1, 1, 0, 3, 20, 16⟩ exTCP4 with
    | .ok segs => Spec.Segment.check exTCP4 20 .tcp 3 segs == none
    | .error _ => false) = true := by decide +kernel

example : (match readAndSegment ⟨1, 5, 0, 2, 40, 6⟩ exUDP6 with
    | .ok segs => segs.length == 3 && Spec.Segment.check exUDP6 40 .udp 2 segs == none
    | .error _ => false) = true := by decide +kernel

/-- a guard that rejects: ECN qualifier on a UDP GSO type. -/
example : (match readAndSegment ⟨1, 0x85, 0, 2, 40, 6⟩ exUDP6 with
    | .error e => e == .ecn
    | .ok _ => false) = true := by decide +kernel

end Nebula.Props.C24
