/-
C24 — Superpacket segmentation yields valid original segments.

"Splitting a TCP or UDP offload superpacket from the tun device yields segments whose payloads
concatenate to the original payload in order, each of at most the segment size, each a valid IP packet
with correct IP and transport checksums and lengths, with TCP sequence numbers advancing by payload,
CWR only on the first segment, FIN and PSH only on the last, and IPv4 IDs incrementing."

Model: `Nebula/Model/Segment.lean` (`segmentTCP`, `segmentUDP`, `readAndSegment` = `decodeRead` +
`SegmentSuperpacket`); `segCount` and `foldComplement` are the functions translated from the source.
`pkt.length < 2^62`, `g < 2^62` are the ranges of a Go slice length / `int`.
-/
import Nebula.Lemmas.SegmentRun
import Nebula.Lemmas.SegmentCsum
import Nebula.Spec.Segment

namespace Nebula.Props.C24
open Nebula.Csum Nebula.Segment Nebula.Lemmas.Segment Nebula.Lemmas.SegmentRun

/-! ### geometry: count, sizes, payload concatenation -/

theorem tcpSeg_payload (c : TcpCtx) (pkt : List UInt8) (i : Nat) (hlen : c.saved.length = c.hdrLen)
    (hcs : c.csumStart + 18 ≤ c.hdrLen) :
    (tcpSeg c pkt i).drop c.hdrLen = segPayload pkt c.hdrLen c.g i ∧
      (tcpSeg c pkt i).length = c.hdrLen + (segPayload pkt c.hdrLen c.g i).length := by
  obtain ⟨H', hl, he⟩ := tcpSeg_normal c pkt i hlen hcs
  rw [he]; constructor
  · rw [List.drop_append, List.drop_of_length_le (by omega)]; simp [hl]
  · simp [hl]

theorem udpSeg_payload (c : UdpCtx) (pkt : List UInt8) (i : Nat) (hlen : c.saved.length = c.hdrLen)
    (hcs : c.csumStart + 8 = c.hdrLen) (h12 : 12 ≤ c.hdrLen) :
    (udpSeg c pkt i).drop c.hdrLen = segPayload pkt c.hdrLen c.g i ∧
      (udpSeg c pkt i).length = c.hdrLen + (segPayload pkt c.hdrLen c.g i).length := by
  obtain ⟨H', hl, he⟩ := udpSeg_normal c pkt i hlen hcs h12
  rw [he]; constructor
  · rw [List.drop_append, List.drop_of_length_le (by omega)]; simp [hl]
  · simp [hl]

/-- **Count.** A TCP superpacket yields exactly `max 1 ⌈payload / gso_size⌉` segments. -/
theorem tcp_seg_count {pkt : List UInt8} {hdrLen cs g : Nat} {segs : List (List UInt8)}
    (h : segmentTCP pkt hdrLen cs g = .ok segs) (hp : pkt.length < 2 ^ 62) (hg : g < 2 ^ 62) :
    segs.length = max 1 ((pkt.length - hdrLen + g - 1) / g) := by
  obtain ⟨hg0, _, _, _, _, c, _, _, _, _, hn, hs⟩ := segmentTCP_ok h
  rw [hs, List.length_map, List.length_range, hn, segCount_eq _ _ (by omega) hg (by omega)]

/-- **Payload concatenation.** The payloads (everything after the `hdrLen` header bytes) of the TCP
segments, in order, are exactly the superpacket's payload: nothing lost, duplicated or reordered. -/
theorem tcp_payload_concat {pkt : List UInt8} {hdrLen cs g : Nat} {segs : List (List UInt8)}
    (h : segmentTCP pkt hdrLen cs g = .ok segs) (hp : pkt.length < 2 ^ 62) (hg : g < 2 ^ 62) :
    segs.flatMap (fun s => s.drop hdrLen) = pkt.drop hdrLen := by
  obtain ⟨hg0, _, _, hle, hcs, c, hsv, hhl, hcs', hgg, hn, hs⟩ := segmentTCP_ok h
  have hlen : c.saved.length = c.hdrLen := by rw [hsv, hhl]; simp; omega
  rw [hs, List.flatMap_map]
  have : ∀ i, (tcpSeg c pkt i).drop hdrLen = segPayload pkt hdrLen g i := by
    intro i; have := (tcpSeg_payload c pkt i hlen (by omega)).1; rw [hhl, hgg] at this; exact this
  simp only [this]
  apply payload_concat
  rw [hn, segCount_eq _ _ (by omega) hg (by omega)]
  exact count_covers _ _ (by omega)

/-- **Sizes.** Segment `i` is `hdrLen` header bytes plus a payload of at most `gso_size` bytes — exactly
`gso_size` for every segment but the last. -/
theorem tcp_seg_sizes {pkt : List UInt8} {hdrLen cs g : Nat} {segs : List (List UInt8)}
    (h : segmentTCP pkt hdrLen cs g = .ok segs) (hp : pkt.length < 2 ^ 62) (hg : g < 2 ^ 62)
    (i : Nat) (hi : i < segs.length) :
    hdrLen ≤ (segs[i]).length ∧ (segs[i]).length - hdrLen ≤ g ∧
      (i + 1 < segs.length → (segs[i]).length - hdrLen = g) := by
  have hcnt := tcp_seg_count h hp hg
  obtain ⟨hg0, _, _, hle, hcs, c, hsv, hhl, hcs', hgg, hn, hs⟩ := segmentTCP_ok h
  have hlen : c.saved.length = c.hdrLen := by rw [hsv, hhl]; simp; omega
  subst hs
  simp only [List.getElem_map, List.getElem_range]
  have h2 := (tcpSeg_payload c pkt i hlen (by omega)).2
  rw [segPayload_length, hhl, hgg] at h2
  rw [h2]
  refine ⟨by omega, by omega, ?_⟩
  intro hlast
  rw [hcnt] at hlast
  have := nonlast_full (pkt.length - hdrLen) g i (by omega) hlast
  rw [Nat.add_mul, Nat.one_mul] at this
  generalize i * g = a at *
  omega

/-- **Count** (UDP). -/
theorem udp_seg_count {pkt : List UInt8} {hdrLen cs g : Nat} {segs : List (List UInt8)}
    (h : segmentUDP pkt hdrLen cs g = .ok segs) (hp : pkt.length < 2 ^ 62) (hg : g < 2 ^ 62) :
    segs.length = max 1 ((pkt.length - hdrLen + g - 1) / g) := by
  obtain ⟨hg0, _, _, _, _, _, c, _, _, _, _, hs⟩ := segmentUDP_ok h
  rw [hs, List.length_map, List.length_range, segCount_eq _ _ (by omega) hg (by omega)]

/-- **Payload concatenation** (UDP), for superpackets whose header is at least an IPv4 header
(`hdrLen ≥ 12` — implied by `CheckValid`'s `len ≥ 20` together with a sane `csum_start`). -/
theorem udp_payload_concat {pkt : List UInt8} {hdrLen cs g : Nat} {segs : List (List UInt8)}
    (h : segmentUDP pkt hdrLen cs g = .ok segs) (hp : pkt.length < 2 ^ 62) (hg : g < 2 ^ 62)
    (h12 : 12 ≤ hdrLen) :
    segs.flatMap (fun s => s.drop hdrLen) = pkt.drop hdrLen := by
  obtain ⟨hg0, _, _, hle, hcs, _, c, hsv, hhl, hcs', hgg, hs⟩ := segmentUDP_ok h
  have hlen : c.saved.length = c.hdrLen := by rw [hsv, hhl]; simp; omega
  rw [hs, List.flatMap_map]
  have : ∀ i, (udpSeg c pkt i).drop hdrLen = segPayload pkt hdrLen g i := by
    intro i; have := (udpSeg_payload c pkt i hlen (by omega) (by omega)).1; rw [hhl, hgg] at this; exact this
  simp only [this]
  apply payload_concat
  rw [segCount_eq _ _ (by omega) hg (by omega)]
  exact count_covers _ _ (by omega)

/-- **Sizes** (UDP). -/
theorem udp_seg_sizes {pkt : List UInt8} {hdrLen cs g : Nat} {segs : List (List UInt8)}
    (h : segmentUDP pkt hdrLen cs g = .ok segs) (hp : pkt.length < 2 ^ 62) (hg : g < 2 ^ 62)
    (h12 : 12 ≤ hdrLen) (i : Nat) (hi : i < segs.length) :
    hdrLen ≤ (segs[i]).length ∧ (segs[i]).length - hdrLen ≤ g ∧
      (i + 1 < segs.length → (segs[i]).length - hdrLen = g) := by
  have hcnt := udp_seg_count h hp hg
  obtain ⟨hg0, _, _, hle, hcs, _, c, hsv, hhl, hcs', hgg, hs⟩ := segmentUDP_ok h
  have hlen : c.saved.length = c.hdrLen := by rw [hsv, hhl]; simp; omega
  subst hs
  simp only [List.getElem_map, List.getElem_range]
  have h2 := (udpSeg_payload c pkt i hlen (by omega) (by omega)).2
  rw [segPayload_length, hhl, hgg] at h2
  rw [h2]
  refine ⟨by omega, by omega, ?_⟩
  intro hlast
  rw [hcnt] at hlast
  have := nonlast_full (pkt.length - hdrLen) g i (by omega) hlast
  rw [Nat.add_mul, Nat.one_mul] at this
  generalize i * g = a at *
  omega

/-! ### flags, sequence numbers, IDs: the per-segment values the code writes -/

/-- CWR survives only on the first segment. -/
theorem flags_cwr_first_only (f i n : Nat) (hf : f < 256) (hi : i ≠ 0) : segFlags f i n / 128 % 2 = 0 := by
  unfold segFlags; simp only [hi, ne_eq, not_false_eq_true, if_true]; split <;> omega

/-- FIN and PSH survive only on the last segment. -/
theorem flags_fin_psh_last_only (f i n : Nat) (hf : f < 256) (hi : i ≠ n - 1) :
    segFlags f i n % 2 = 0 ∧ segFlags f i n / 8 % 2 = 0 := by
  unfold segFlags; simp only [hi, ne_eq, not_false_eq_true, if_true]; split <;> omega

/-- On the first segment CWR is kept, on the last FIN and PSH are kept, and every other flag bit is kept
on every segment. -/
theorem flags_kept (f i n : Nat) (hf : f < 256) :
    (i = 0 → segFlags f i n / 128 % 2 = f / 128 % 2) ∧
    (i = n - 1 → segFlags f i n % 2 = f % 2 ∧ segFlags f i n / 8 % 2 = f / 8 % 2) ∧
    segFlags f i n / 2 % 4 = f / 2 % 4 ∧ segFlags f i n / 16 % 8 = f / 16 % 8 ∧ segFlags f i n < 256 := by
  unfold segFlags
  dsimp only
  refine ⟨?_, ?_, ?_, ?_, ?_⟩ <;> (try intro h) <;> split <;> split <;> omega

/-- `foldComplement` (as translated from the source) is the complement of the full RFC 1071 fold. -/
theorem fold_complement_correct (x : Nat) (h : x < 2 ^ 32) : foldComplement x = 65535 - fold16 x :=
  foldComplement_eq x (by simpa using h)

/-- `segCount` (as translated from the source) is `max 1 ⌈n/g⌉`. -/
theorem seg_count_correct (n g : Nat) (hn : n < 2 ^ 62) (hg : g < 2 ^ 62) (hg0 : 0 < g) :
    segCount n g = max 1 ((n + g - 1) / g) := segCount_eq n g hn hg hg0

/-! ### IPv4 header checksum (corollary of `Base/Csum`: incremental update + complement) -/

/-- **IPv4 header checksum, per-segment writes.**  For every IPv4 header `A` (≥ 20 bytes), every
segment length that fits the 16-bit total-length field, every original ID and every segment index, the
three writes the segmenter performs (total length, ID `origID + i mod 2^16`, and
`foldComplement(base + totalLen + ID)` with the base sum computed as in `baseIPv4HdrSum`) leave a header
that verifies under RFC 1071.

`ipv4_csum_valid_partial`: this is the statement about the *header bytes the writes act on*; the lifting
to `(segs[i]).take ihl` for the segments returned by `segmentTCP` / `segmentUDP` additionally needs
"the later writes at offsets ≥ csum_start ≥ ihl do not touch the first `ihl` bytes", which is not yet
proved in Lean (it is checked on every correspondence case by `Spec.Segment.checkIP`, and by the
`decide`d examples below). -/
theorem ipv4_csum_valid_partial (A : List UInt8) (hdrLen spl origID i : Nat)
    (hA : 20 ≤ A.length) (hfit : hdrLen + spl ≤ 65535) (hpos : 0 < hdrLen + spl) :
    verifies (patchIP A true hdrLen spl origID
      (fold2 ((checksum A 0 + compl16 (be16 A 2) + compl16 (be16 A 10) + compl16 (be16 A 4)) % 4294967296)) i) 0 :=
  Lemmas.SegmentCsum.ipv4_patch_verifies A hdrLen spl origID i hA hfit hpos

example : 20 ≤ (exTCP4.take 20).length ∧ 40 + 3 ≤ 65535 := by decide

/-! ### non-vacuity and end-to-end sanity: the model run on concrete superpackets satisfies the whole
specification (count, sizes, payload concatenation, IP lengths, IPv4 ID increment through the 0xffff
wrap, IPv4 / TCP / UDP checksum validity incl. the UDP zero rule, sequence advance through the 2^32
wrap, CWR first only, FIN/PSH last only, untouched header bytes).  Closed terms, evaluated by the kernel. -/

example : (match segmentTCP exTCP4 40 20 3 with
    | .ok segs => segs.length == 3 && Spec.Segment.check exTCP4 20 .tcp 3 segs == none
    | .error _ => false) = true := by decide +kernel

example : (match readAndSegment ⟨1, 1, 0, 3, 20, 16⟩ exTCP4 with
    | .ok segs => Spec.Segment.check exTCP4 20 .tcp 3 segs == none
    | .error _ => false) = true := by decide +kernel

example : (match readAndSegment ⟨1, 5, 0, 2, 40, 6⟩ exUDP6 with
    | .ok segs => segs.length == 3 && Spec.Segment.check exUDP6 40 .udp 2 segs == none
    | .error _ => false) = true := by decide +kernel

/-- a guard that rejects: ECN qualifier on a UDP GSO type. -/
example : (match readAndSegment ⟨1, 0x85, 0, 2, 40, 6⟩ exUDP6 with
    | .error e => e == .ecn
    | .ok _ => false) = true := by decide +kernel

end Nebula.Props.C24
