/-
C48 — Calculated remotes splice mask and overlay bits exactly.

"A calculated remote address takes the masked bits from the configured mask address and the remaining
bits from the peer's overlay address, keeps the configured port, and is only produced for overlay
addresses inside the configured range of the same family."  — for all IPv4/IPv6 overlay addresses, mask
prefixes of every length and ports.
-/
import Nebula.Lemmas.CalcRemote
import Nebula.Lemmas.CalcRemoteTie
import Nebula.Lemmas.CalcRemoteCfg

namespace Nebula.Props.C48
open Nebula.CalcRemote Nebula.Spec.CalcRemote Nebula.Net Nebula.Lemmas.CalcRemote Nebula.Lemmas.CalcRemoteCfg

/-- `newCalculatedRemote` accepts exactly: mask of the same family as the range, port in `0..65535`;
and then stores the mask prefix, its masked form and the port. -/
theorem new_ok_iff (cidr maskCidr : Prefix) (port : Int) :
    (∃ c, newCalculatedRemote cidr maskCidr port = .ok c) ↔
      (maskCidr.addr.fam = cidr.addr.fam ∧ 0 ≤ port ∧ port ≤ 65535) := by
  unfold newCalculatedRemote
  constructor
  · intro ⟨c, h⟩
    split at h
    · cases h
    · rename_i h1
      split at h
      · cases h
      · rename_i h2
        refine ⟨fam_eq_of_bits (by simpa using h1), ?_, ?_⟩ <;> omega
  · intro ⟨h1, h2, h3⟩
    have : ¬ (port < 0 ∨ port > 65535) := by omega
    simp [h1, this]

theorem new_fields (cidr maskCidr : Prefix) (port : Int) (c : CR)
    (h : newCalculatedRemote cidr maskCidr port = .ok c) :
    c.ipNet = maskCidr ∧ c.mask = maskCidr.masked ∧ (c.port : Int) = port ∧
      maskCidr.addr.fam = cidr.addr.fam := by
  unfold newCalculatedRemote at h
  split at h
  · cases h
  · rename_i h1
    split at h
    · cases h
    · rename_i h2
      cases h
      refine ⟨rfl, rfl, ?_, fam_eq_of_bits (by simpa using h1)⟩
      simp only []; omega

/-- Tie to the source: the `uint32` expression `ApplyV4` returns, regenerated from calculated_remote.go, is the
model's `combine 32` (`(maskAddr & mask) | (addr & ^mask)`) on all 32-bit words. An edit of the Go expression
changes the regenerated definition and this theorem no longer checks. -/
theorem applyV4_is_translated (ma mask ia : Nat) (h1 : ma < 2 ^ 32) (h2 : mask < 2 ^ 32) (h3 : ia < 2 ^ 32) :
    (Gen.calcremote_ApplyV4 (BitVec.ofNat 32 ma) (BitVec.ofNat 32 mask) (BitVec.ofNat 32 ia)).toNat
      = combine 32 ma mask ia :=
  Nebula.Lemmas.CalcRemoteTie.applyV4_eq ma mask ia h1 h2 h3

/-- IPv4: for every range, every well-formed IPv4 mask prefix, every port and every IPv4 overlay address,
`ApplyV4` does not panic and returns exactly the arithmetic splice (top `len` bits of the mask address,
low `32 - len` bits of the overlay address) with the configured port. -/
theorem applyV4_exact (cidr maskCidr : Prefix) (port : Int) (c : CR) (a : Addr)
    (hnew : newCalculatedRemote cidr maskCidr port = .ok c)
    (hm : maskCidr.WF) (hm4 : maskCidr.addr.fam = .v4) (ha4 : a.fam = .v4) (ha : a.WF) :
    applyV4 c a = .ok (splice 32 maskCidr.len maskCidr.addr.val a.val, port.toNat) := by
  obtain ⟨h1, h2, h3, _⟩ := new_fields _ _ _ _ hnew
  obtain ⟨hmw, hml⟩ := hm
  unfold Addr.WF at hmw ha
  rw [hm4] at hmw hml; rw [ha4] at ha
  simp only [Fam.bits] at hmw hml ha
  have hp : c.port = port.toNat := by omega
  have hcm : cidrMask maskCidr.len 32 = some ((2 ^ maskCidr.len - 1) <<< (32 - maskCidr.len)) := by
    simp [cidrMask, hml]
  unfold applyV4
  simp only [h2, Prefix.masked, hm4, Fam.bits, as4, ha4, hcm, Nat.sub_self, Nat.shiftRight_zero]
  have e := combine_eq_splice 32 maskCidr.len (maskedVal 32 maskCidr.len maskCidr.addr.val) a.val
    (maskedVal_lt _ _ _ hmw) ha
  rw [splice_maskedVal] at e
  simp only [maskedVal] at e
  simp only [topBits, Fam.bits, hp]
  rw [e]

/-- IPv6: same statement on the 128-bit value `Hi·2^64 + Lo`, with `Hi, Lo < 2^64`. -/
theorem applyV6_exact (cidr maskCidr : Prefix) (port : Int) (c : CR) (a : Addr)
    (hnew : newCalculatedRemote cidr maskCidr port = .ok c)
    (hm : maskCidr.WF) (hm6 : maskCidr.addr.fam = .v6) (ha6 : a.fam = .v6) (ha : a.WF) :
    ∃ hi lo, applyV6 c a = .ok (hi, lo, port.toNat) ∧ hi < 2 ^ 64 ∧ lo < 2 ^ 64 ∧
      hi * 2 ^ 64 + lo = splice 128 maskCidr.len maskCidr.addr.val a.val := by
  obtain ⟨h1, h2, h3, _⟩ := new_fields _ _ _ _ hnew
  obtain ⟨hmw, hml⟩ := hm
  unfold Addr.WF at hmw ha
  rw [hm6] at hmw hml; rw [ha6] at ha
  simp only [Fam.bits] at hmw hml ha
  have hp : c.port = port.toNat := by omega
  have hmv := maskedVal_lt 128 maskCidr.len _ hmw
  have hcm : cidrMask maskCidr.len 128 = some ((2 ^ maskCidr.len - 1) <<< (128 - maskCidr.len)) := by
    simp [cidrMask, hml]
  let mf := (2 ^ maskCidr.len - 1) <<< (128 - maskCidr.len)
  let mv := maskedVal 128 maskCidr.len maskCidr.addr.val
  refine ⟨combine 64 (mv >>> 64) (mf >>> 64) (a.val >>> 64),
          combine 64 (mv % 2 ^ 64) (mf % 2 ^ 64) (a.val % 2 ^ 64), ?_, ?_, ?_, ?_⟩
  · unfold applyV6
    simp only [h2, Prefix.masked, hm6, Fam.bits, as16, ha6, hcm, Nat.lt_irrefl, if_false, hp, topBits]
    rfl
  · exact combine_lt 64 _ _ _ (by have := hmv; simp only [mv]; omega) (by omega)
  · exact combine_lt 64 _ _ _ (Nat.mod_lt _ (by decide)) (Nat.mod_lt _ (by decide))
  · rw [halves_eq_combine mv mf a.val hmv ha]
    have e2 := combine_eq_splice 128 maskCidr.len mv a.val hmv ha
    rw [splice_maskedVal] at e2
    exact e2

/-- The splice, bit by bit (bit `i` counted from the most significant bit, as on the wire): bit `i` of the
result is bit `i` of the mask address for `i < len` and bit `i` of the overlay address otherwise. -/
theorem splice_bits (w len m a i : Nat) (hi : i < w) :
    msbBit w (splice w len m a) i = if i < len then msbBit w m i else msbBit w a i := by
  unfold msbBit
  rw [testBit_splice]
  by_cases h : i < len
  · have : ¬ (w - 1 - i < w - len) := by omega
    simp [h, this]
  · have : w - 1 - i < w - len := by omega
    simp [h, this]

/-- … and the result never has a bit outside the address width. -/
theorem splice_lt (w len m a : Nat) (hm : m < 2 ^ w) : splice w len m a < 2 ^ w := by
  apply Nat.lt_pow_two_of_testBit
  intro j hj
  rw [testBit_splice]
  have : ¬ (j < w - len) := by omega
  simp [this, testBit_ge hm hj]

/-- A table as built by `NewCalculatedRemotesFromConfig`: every entry's remotes come out of
`newCalculatedRemote` called with the entry's own range and a well-formed mask prefix. -/
def TableOK (tbl : List (Prefix × List CR)) : Prop :=
  ∀ p crs, (p, crs) ∈ tbl → ∀ c ∈ crs, ∃ mc port, mc.WF ∧ newCalculatedRemote p mc port = .ok c

/-- `addCalculatedRemotes`: for every table built from configuration and every overlay address, no
panic; every stored IPv4 (IPv6) remote is the exact splice of some configured entry whose range contains
the overlay address, range, mask and overlay address all of one family, with that entry's port; nothing
of the other family is stored. -/
theorem add_only_in_range (myNet : Prefix) (tbl : List (Prefix × List CR)) (a : Addr)
    (ht : TableOK tbl) (ha : a.WF) :
    ∃ out, addCalculatedRemotes myNet (some tbl) a = .ok out ∧
      (∀ r ∈ out.v4, ∃ p crs c, (p, crs) ∈ tbl ∧ c ∈ crs ∧ p.contains a = true ∧
          p.addr.fam = .v4 ∧ c.ipNet.addr.fam = .v4 ∧ a.fam = .v4 ∧
          r = (splice 32 c.ipNet.len c.ipNet.addr.val a.val, c.port)) ∧
      (∀ r ∈ out.v6, ∃ p crs c, (p, crs) ∈ tbl ∧ c ∈ crs ∧ p.contains a = true ∧
          p.addr.fam = .v6 ∧ c.ipNet.addr.fam = .v6 ∧ a.fam = .v6 ∧
          r.1 < 2 ^ 64 ∧ r.2.1 < 2 ^ 64 ∧
          r.1 * 2 ^ 64 + r.2.1 = splice 128 c.ipNet.len c.ipNet.addr.val a.val ∧ r.2.2 = c.port) := by
  unfold addCalculatedRemotes
  simp only
  cases hl : lpm tbl a with
  | none => exact ⟨_, rfl, by simp, by simp⟩
  | some crs =>
    obtain ⟨p, hmem, hcont⟩ := lpm_mem tbl a crs hl
    have hfam := contains_fam hcont
    simp only
    cases hfa : a.fam with
    | v4 =>
      have h4 : a.is4 = true := by simp [Addr.is4, hfa]; rfl
      simp only [h4, if_true]
      have hall : ∀ c ∈ crs, applyV4 c a = .ok (splice 32 c.ipNet.len c.ipNet.addr.val a.val, c.port) := by
        intro c hc
        obtain ⟨mc, port, hmc, hnew⟩ := ht p crs hmem c hc
        obtain ⟨e1, _, e3, e4⟩ := new_fields _ _ _ _ hnew
        have := applyV4_exact p mc port c a hnew hmc (by rw [e4, hfam, hfa]) hfa ha
        rw [this, e1]; congr; omega
      rw [resList_map_ok crs _ _ hall]
      refine ⟨_, rfl, ?_, by simp⟩
      intro r hr
      simp only [List.mem_filter] at hr
      have hr' := List.mem_of_mem_take hr.1
      obtain ⟨c, hc, rfl⟩ := List.mem_map.mp hr'
      obtain ⟨mc, port, hmc, hnew⟩ := ht p crs hmem c hc
      obtain ⟨e1, _, _, e4⟩ := new_fields _ _ _ _ hnew
      exact ⟨p, crs, c, hmem, hc, hcont, by rw [hfam, hfa], by rw [e1, e4, hfam, hfa], by trivial, rfl⟩
    | v6 =>
      have h4 : a.is4 = false := by simp [Addr.is4, hfa]; rfl
      simp only [h4]
      have hall : ∀ c ∈ crs, ∃ hi lo, applyV6 c a = .ok (hi, lo, c.port) ∧ hi < 2 ^ 64 ∧ lo < 2 ^ 64 ∧
          hi * 2 ^ 64 + lo = splice 128 c.ipNet.len c.ipNet.addr.val a.val := by
        intro c hc
        obtain ⟨mc, port, hmc, hnew⟩ := ht p crs hmem c hc
        obtain ⟨e1, _, e3, e4⟩ := new_fields _ _ _ _ hnew
        obtain ⟨hi, lo, h1, h2, h3, h5⟩ := applyV6_exact p mc port c a hnew hmc (by rw [e4, hfam, hfa]) hfa ha
        refine ⟨hi, lo, ?_, h2, h3, by rw [e1]; exact h5⟩
        rw [h1]; congr; omega
      -- choose the results
      have hall' : ∀ c ∈ crs, applyV6 c a = .ok
          (match applyV6 c a with | .ok r => r | .panic => (0, 0, 0)) := by
        intro c hc
        obtain ⟨hi, lo, h1, _⟩ := hall c hc
        rw [h1]
      rw [resList_map_ok crs _ _ hall']
      refine ⟨_, rfl, by simp, ?_⟩
      intro r hr
      simp only [List.mem_filter] at hr
      have hr' := List.mem_of_mem_take hr.1
      obtain ⟨c, hc, rfl⟩ := List.mem_map.mp hr'
      obtain ⟨hi, lo, h1, h2, h3, h5⟩ := hall c hc
      obtain ⟨mc, port, hmc, hnew⟩ := ht p crs hmem c hc
      obtain ⟨e1, _, _, e4⟩ := new_fields _ _ _ _ hnew
      refine ⟨p, crs, c, hmem, hc, hcont, by rw [hfam, hfa], by rw [e1, e4, hfam, hfa], by trivial, ?_⟩
      rw [h1]
      exact ⟨h2, h3, h5, rfl⟩

/-- Nothing is produced for an overlay address outside every configured range (or with nothing configured). -/
theorem add_none_outside (myNet : Prefix) (tbl : List (Prefix × List CR)) (a : Addr)
    (h : lpm tbl a = none) :
    addCalculatedRemotes myNet (some tbl) a = .ok { added := false, v4 := [], v6 := [] } ∧
    addCalculatedRemotes myNet none a = .ok { added := false, v4 := [], v6 := [] } := by
  simp [addCalculatedRemotes, h]

-- non-vacuity: a concrete configuration satisfies `TableOK`, and both families produce the documented
-- example of the sample configuration (mask 192.168.1.0/24 over 10.0.10.0/24).
example : newCalculatedRemote ⟨⟨.v4, 0x0a000a00⟩, 24⟩ ⟨⟨.v4, 0xc0a80100⟩, 24⟩ 4242 =
    .ok { ipNet := ⟨⟨.v4, 0xc0a80100⟩, 24⟩, mask := ⟨⟨.v4, 0xc0a80100⟩, 24⟩, port := 4242 } := rfl

example : applyV4 { ipNet := ⟨⟨.v4, 0xc0a80100⟩, 24⟩, mask := ⟨⟨.v4, 0xc0a80100⟩, 24⟩, port := 4242 }
    ⟨.v4, 0x0a000a7b⟩ = .ok (0xc0a8017b, 4242) := by decide

example : TableOK [(⟨⟨.v4, 0x0a000a00⟩, 24⟩,
    [{ ipNet := ⟨⟨.v4, 0xc0a80100⟩, 24⟩, mask := ⟨⟨.v4, 0xc0a80100⟩, 24⟩, port := 4242 }])] := by
  intro p crs hm c hc
  simp at hm; obtain ⟨rfl, rfl⟩ := hm
  simp at hc; subst hc
  exact ⟨⟨⟨.v4, 0xc0a80100⟩, 24⟩, 4242, by simp [Prefix.WF, Addr.WF, Fam.bits], rfl⟩

example : ∃ out, addCalculatedRemotes ⟨⟨.v4, 0x0a000000⟩, 8⟩ (some [(⟨⟨.v4, 0x0a000a00⟩, 24⟩,
    [{ ipNet := ⟨⟨.v4, 0xc0a80100⟩, 24⟩, mask := ⟨⟨.v4, 0xc0a80100⟩, 24⟩, port := 4242 }])])
    ⟨.v4, 0x0a000a7b⟩ = .ok out ∧ out.v4 = [(0xc0a8017b, 4242)] := ⟨_, rfl, by decide⟩

/-! ### configuration → table → reload → addCalculatedRemotes -/

/-- `NewCalculatedRemotesFromConfig` succeeds exactly on configurations (specification `cfgRanges`: key absent, or a
map whose keys denote prefixes and whose values are lists of {mask: prefix of the range's family, port: integer or
decimal string in 0..65535}); every other shape (non-map, bad CIDR, non-list, non-map element, missing / non-string /
unparsable mask, missing / wrongly typed / non-numeric / out-of-range port, mask of the other family) is an error. -/
theorem fromConfig_accepts_exactly (c : CfgV) : (∃ t, fromConfig c = .ok t) ↔ cfgValid c = true :=
  fromConfig_ok_iff c

/-- … and without the key the result is the nil table, with an empty map the empty (non-nil) table. -/
theorem fromConfig_absent_nil : fromConfig .absent = .ok none ∧ fromConfig (.map []) = .ok (some []) := ⟨rfl, rfl⟩

/-- Every table `NewCalculatedRemotesFromConfig` returns satisfies the hypothesis `TableOK` of the
`addCalculatedRemotes` theorems. -/
theorem fromConfig_tableOK (c : CfgV) (t : Table) (h : fromConfig c = .ok (some t)) : TableOK t := by
  intro p crs hm cr hcr
  obtain ⟨cidr, es, rfl, rfl, hes⟩ := fromConfig_rows c t h p crs hm
  obtain ⟨e, he, rfl⟩ := List.mem_map.mp hcr
  obtain ⟨_, _, hok, hfam, hport⟩ := hes e he
  simp only [pfxOK, Bool.and_eq_true, decide_eq_true_eq] at hok
  refine ⟨e.mask, (e.port : Int), ⟨hok.1, hok.2⟩, ?_⟩
  rw [new_eq]
  have hf : e.mask.addr.fam = cidr.masked.addr.fam := by rw [hfam]; rfl
  have h1 : (e.port : Int) ≤ 65535 := by omega
  simp [hf, h1, crOfEntry]

/-- One step of the `lighthouse.calculated_remotes` block of `LightHouse.reload`, when the new value is rejected:
the table in force is untouched, whether on a reload (error logged) or — `HasChanged` false — not even looked at;
on the initial load the error is fatal (no lighthouse is returned). -/
theorem reload_error_keeps_previous (s : LHState) (c : CfgV) (e : Unit) (h : fromConfig c = .error e) :
    (cfgStep false s c).1.tbl = s.tbl ∧
    ((cfgStep false s c).2 = .errReload ∨ (cfgStep false s c).2 = .unchanged) ∧
    (cfgStep true s c).2 = .errInitial ∧
    ∀ s', (cfgRun1 s' (.load c)).1 = none := by
  refine ⟨?_, ?_, ?_, ?_⟩
  · simp only [cfgStep, Bool.false_or]; split <;> simp [h]
  · simp only [cfgStep, Bool.false_or]; split <;> simp [h]
  · simp [cfgStep, h]
  · intro s'; simp [cfgRun1, cfgStep, h]

/-- … and a reload whose value is a configuration and differs from the previously loaded value installs exactly
its table. -/
theorem reload_changed_installs (s : LHState) (c : CfgV) (t : Option Table) (h : fromConfig c = .ok t)
    (hne : s.prev ≠ c) : (cfgStep false s c).1.tbl = t ∧ (cfgStep false s c).2 = .stored := by
  have : hasChanged s.prev c = true := by simp [hasChanged, hne]
  simp [cfgStep, this, h]

/-- FULL statement (false for the code as it is, see `reload_installs_configured_full_false`): over every history of
(re)starts and reloads, if a lighthouse exists the table in force is exactly the table of the configuration in force.

Proved part: the same over every history in which every reload REACHES the `lighthouse.calculated_remotes` block
(`CfgOp.reachesBlock`: no earlier block of `LightHouse.reload` — advertise_addrs, remote_allow_list, local_allow_list
— returns an error), values valid or not, changed or not: if a lighthouse exists, a configuration is in force (the
LAST value that was a configuration since the last start) and the table in force is exactly the table
`NewCalculatedRemotesFromConfig` builds for it; if none exists, none is in force. -/
theorem reload_installs_configured_partial (ops : List CfgOp) (hreach : ∀ op ∈ ops, op.reachesBlock = true) :
    match cfgRun none ops, inForce none ops with
    | some st, some cfg => fromConfig cfg = .ok st.tbl
    | none, none => True
    | _, _ => False := by
  have := inv_run ops none none trivial hreach
  unfold Nebula.Lemmas.CalcRemoteCfg.Inv at this
  split <;> simp_all

/-- Witness that the full statement fails (known finding `stale-after-failed-reload`): start with section S1; a
reload carrying section S2 fails in an EARLIER block of `LightHouse.reload` (e.g. an invalid
lighthouse.remote_allow_list), so S2 is not installed — but `config.C` now remembers S2 as the old value; the
corrected reload (same S2, the other section repaired) finds `HasChanged("lighthouse.calculated_remotes")` false and
skips the block: the configuration in force is S2, the table is still S1's. -/
theorem reload_installs_configured_full_false :
    let s1 : CfgV := .map [(.ok ⟨⟨.v4, 0x0a801400⟩, 24⟩, .list [.entry (.str (.ok ⟨⟨.v4, 0xac100500⟩, 24⟩)) (.int 4300)])]
    let s2 : CfgV := .map [(.ok ⟨⟨.v4, 0x0a801e00⟩, 24⟩, .list [.entry (.str (.ok ⟨⟨.v4, 0xac100600⟩, 24⟩)) (.int 4301)])]
    let ops := [CfgOp.load s1, .reloadEarlierErr s2, .reload s2]
    ∃ st, cfgRun none ops = some st ∧ inForce none ops = some s2 ∧ fromConfig s1 = .ok st.tbl ∧
      fromConfig s2 ≠ .ok st.tbl ∧
      -- a remote is produced for an address of the removed range, none for the configured one
      addCalculatedRemotes ⟨⟨.v4, 0x64400000⟩, 10⟩ st.tbl ⟨.v4, 0x0a801463⟩ =
        .ok { added := true, v4 := [(0xac100563, 4300)], v6 := [] } ∧
      addCalculatedRemotes ⟨⟨.v4, 0x64400000⟩, 10⟩ st.tbl ⟨.v4, 0x0a801e63⟩ =
        .ok { added := false, v4 := [], v6 := [] } := by
  refine ⟨_, rfl, by decide, rfl, ?_, by decide, by decide⟩
  intro h
  injection h with h
  injection h with h
  revert h
  decide

/-- In particular: when the configuration in force has no `lighthouse.calculated_remotes`, the table is nil. -/
theorem reload_without_key_clears (ops : List CfgOp) (hreach : ∀ op ∈ ops, op.reachesBlock = true)
    (st : LHState) (h : cfgRun none ops = some st)
    (hf : inForce none ops = some .absent) : st.tbl = none := by
  have := reload_installs_configured_partial ops hreach
  rw [h, hf] at this
  simp only [fromConfig] at this
  injection this with h'
  exact h'.symm

/-- `addCalculatedRemotes` returns true only when the longest matching range has at least one remote. -/
theorem add_added_imp (myNet : Prefix) (tbl : Table) (a : Addr) (out : AddOut)
    (h : addCalculatedRemotes myNet (some tbl) a = .ok out) (hadd : out.added = true) :
    ∃ p crs c, (p, crs) ∈ tbl ∧ c ∈ crs ∧ p.contains a = true := by
  unfold addCalculatedRemotes at h
  simp only at h
  cases hl : lpm tbl a with
  | none => rw [hl] at h; cases h; cases hadd
  | some crs =>
    obtain ⟨p, hmem, hcont⟩ := lpm_mem tbl a crs hl
    cases crs with
    | nil =>
      rw [hl] at h
      simp only [List.map_nil, resList] at h
      split at h <;> (cases h; cases hadd)
    | cons c rest => exact ⟨p, c :: rest, c, hmem, by simp, hcont⟩

/-- The property over histories (FULL statement: without `hreach`; false for the code as it is by
`reload_installs_configured_full_false`, whose last two conjuncts are a stale and a missing remote).  Proved part:
for every history of loads / reloads of `lighthouse.calculated_remotes` in which every reload reaches the block and
that leaves a lighthouse, and every overlay address: `addCalculatedRemotes` does not panic, and every remote it stores is
the splice (`Entry.produce`: top bits of the entry's mask address, remaining bits of the overlay address, the
entry's port) of an entry OF THE CONFIGURATION IN FORCE whose range contains the address, all of one family; if that
configuration has no entry whose range contains the address — in particular when it has no
`lighthouse.calculated_remotes` any more — nothing is stored and it returns false. -/
theorem history_remotes_from_config_in_force_partial (myNet : Prefix) (ops : List CfgOp)
    (hreach : ∀ op ∈ ops, op.reachesBlock = true) (st : LHState) (a : Addr)
    (hrun : cfgRun none ops = some st) (ha : a.WF) :
    ∃ cfg out, inForce none ops = some cfg ∧ addCalculatedRemotes myNet st.tbl a = .ok out ∧
      (∀ r ∈ out.v4, ∃ e ∈ cfgEntries cfg, e.appliesTo a = true ∧ a.fam = .v4 ∧ r = e.produce a) ∧
      (∀ r ∈ out.v6, ∃ e ∈ cfgEntries cfg, e.appliesTo a = true ∧ a.fam = .v6 ∧
          r.1 < 2 ^ 64 ∧ r.2.1 < 2 ^ 64 ∧ (r.1 * 2 ^ 64 + r.2.1, r.2.2) = e.produce a) ∧
      ((∀ e ∈ cfgEntries cfg, e.cidr.contains a = false) → out = { added := false, v4 := [], v6 := [] }) := by
  have hinv := reload_installs_configured_partial ops hreach
  rw [hrun] at hinv
  cases hf : inForce none ops with
  | none => rw [hf] at hinv; exact hinv.elim
  | some cfg =>
    rw [hf] at hinv
    simp only at hinv
    refine ⟨cfg, ?_⟩
    cases ht : st.tbl with
    | none =>
      refine ⟨{ added := false, v4 := [], v6 := [] }, rfl, by simp [addCalculatedRemotes], by simp, by simp, fun _ => rfl⟩
    | some tbl =>
      rw [ht] at hinv
      have hok := fromConfig_tableOK cfg tbl hinv
      -- every row of the table is a range of the configuration in force
      have hrow : ∀ p crs c, (p, crs) ∈ tbl → c ∈ crs → p.contains a = true →
          ∃ e ∈ cfgEntries cfg, e.cidr.contains a = true ∧ c.ipNet = e.mask ∧ c.port = e.port ∧
            e.mask.addr.fam = e.cidr.addr.fam := by
        intro p crs c hm hc hcont
        obtain ⟨cidr, es, rfl, rfl, hes⟩ := fromConfig_rows cfg tbl hinv p crs hm
        obtain ⟨e, he, rfl⟩ := List.mem_map.mp hc
        obtain ⟨hent, hcidr, _, hfam, _⟩ := hes e he
        rw [masked_contains] at hcont
        exact ⟨e, hent, by rw [hcidr]; exact hcont, rfl, rfl, by rw [hcidr]; exact hfam⟩
      obtain ⟨out, hout, h4, h6⟩ := add_only_in_range myNet tbl a hok ha
      refine ⟨out, rfl, hout, ?_, ?_, ?_⟩
      · intro r hr
        obtain ⟨p, crs, c, hm, hc, hcont, hpf, hcf, haf, rfl⟩ := h4 r hr
        obtain ⟨e, hent, hec, e1, e2, e3⟩ := hrow p crs c hm hc hcont
        refine ⟨e, hent, ?_, haf, ?_⟩
        · have : e.mask.addr.fam = a.fam := by rw [← e1, hcf, haf]
          simp only [Entry.appliesTo, hec, this, haf, Bool.true_and]; rfl
        · simp [Entry.produce, haf, Fam.bits, e1, e2]
      · intro r hr
        obtain ⟨p, crs, c, hm, hc, hcont, hpf, hcf, haf, hhi, hlo, hsp, hpt⟩ := h6 r hr
        obtain ⟨e, hent, hec, e1, e2, e3⟩ := hrow p crs c hm hc hcont
        refine ⟨e, hent, ?_, haf, hhi, hlo, ?_⟩
        · have : e.mask.addr.fam = a.fam := by rw [← e1, hcf, haf]
          simp only [Entry.appliesTo, hec, this, haf, Bool.true_and]; rfl
        · simp [Entry.produce, haf, Fam.bits, hsp, hpt, e1, e2]
      · intro hnone
        have hv4 : out.v4 = [] := by
          apply List.eq_nil_iff_forall_not_mem.mpr
          intro r hr
          obtain ⟨p, crs, c, hm, hc, hcont, _⟩ := h4 r hr
          obtain ⟨e, hent, hec, _⟩ := hrow p crs c hm hc hcont
          rw [hnone e hent] at hec; cases hec
        have hv6 : out.v6 = [] := by
          apply List.eq_nil_iff_forall_not_mem.mpr
          intro r hr
          obtain ⟨p, crs, c, hm, hc, hcont, _⟩ := h6 r hr
          obtain ⟨e, hent, hec, _⟩ := hrow p crs c hm hc hcont
          rw [hnone e hent] at hec; cases hec
        have hadd : out.added = false := by
          cases hadd : out.added with
          | false => rfl
          | true =>
            obtain ⟨p, crs, c, hm, hc, hcont⟩ := add_added_imp myNet tbl a out hout hadd
            obtain ⟨e, hent, hec, _⟩ := hrow p crs c hm hc hcont
            rw [hnone e hent] at hec; cases hec
        cases out
        simp_all

-- non-vacuity.  The sample section `10.128.20.0/24: [{mask: 172.16.5.0/24, port: 4300}]`:
-- it is a configuration, its table has that one row, …
example : fromConfig (.map [(.ok ⟨⟨.v4, 0x0a801400⟩, 24⟩,
      .list [.entry (.str (.ok ⟨⟨.v4, 0xac100500⟩, 24⟩)) (.int 4300)])]) =
    .ok (some [(⟨⟨.v4, 0x0a801400⟩, 24⟩,
      [{ ipNet := ⟨⟨.v4, 0xac100500⟩, 24⟩, mask := ⟨⟨.v4, 0xac100500⟩, 24⟩, port := 4300 }])]) := by rfl

-- … each invalid shape is rejected (non-map; bad CIDR; non-list; port out of range; mask of the other family), …
example : fromConfig (.nonMap 0) = .error () ∧
    fromConfig (.map [(.bad 0, .list [])]) = .error () ∧
    fromConfig (.map [(.ok ⟨⟨.v4, 0x0a801400⟩, 24⟩, .nonList 2)]) = .error () ∧
    fromConfig (.map [(.ok ⟨⟨.v4, 0x0a801400⟩, 24⟩,
      .list [.entry (.str (.ok ⟨⟨.v4, 0xac100500⟩, 24⟩)) (.int 70000)])]) = .error () ∧
    fromConfig (.map [(.ok ⟨⟨.v4, 0x0a801400⟩, 24⟩,
      .list [.entry (.str (.ok ⟨⟨.v6, 0⟩, 24⟩)) (.str 4300)])]) = .error () := ⟨rfl, rfl, rfl, rfl, rfl⟩

-- … and the remove-the-key history (seed C48-4): load the section, probe 10.128.20.99 → 172.16.5.99:4300; reload
-- without the key → the table is nil, nothing in force contains the address, nothing is produced.
example :
    let sec : CfgV := .map [(.ok ⟨⟨.v4, 0x0a801400⟩, 24⟩,
      .list [.entry (.str (.ok ⟨⟨.v4, 0xac100500⟩, 24⟩)) (.int 4300)])]
    let my : Prefix := ⟨⟨.v4, 0x64400000⟩, 10⟩
    let a : Addr := ⟨.v4, 0x0a801463⟩
    (∃ st, cfgRun none [.load sec] = some st ∧ inForce none [.load sec] = some sec ∧
      addCalculatedRemotes my st.tbl a = .ok { added := true, v4 := [(0xac100563, 4300)], v6 := [] }) ∧
    (∃ st, cfgRun none [.load sec, .reload .absent] = some st ∧ st.tbl = none ∧
      inForce none [.load sec, .reload .absent] = some .absent ∧ cfgEntries .absent = [] ∧
      addCalculatedRemotes my st.tbl a = .ok { added := false, v4 := [], v6 := [] }) ∧
    -- an invalid reload keeps the section in force, the same invalid text again is `unchanged`
    (∃ st, cfgRun none [.load sec, .reload (.nonMap 1), .reload (.nonMap 1)] = some st ∧
      inForce none [.load sec, .reload (.nonMap 1), .reload (.nonMap 1)] = some sec ∧
      (cfgStep false st (.nonMap 1)).2 = .unchanged ∧ (cfgStep false st (.nonMap 2)).2 = .errReload) ∧
    -- an invalid initial load leaves no lighthouse
    cfgRun none [.load (.nonMap 0), .reload sec] = none ∧
    -- these histories satisfy the hypothesis of the `_partial` theorems
    (∀ op ∈ [CfgOp.load sec, .reload .absent, .reload (.nonMap 1)], op.reachesBlock = true) := by
  refine ⟨⟨_, rfl, by decide, by decide⟩, ⟨_, rfl, by decide, by decide, by decide, by decide⟩,
    ⟨_, rfl, by decide, by decide, by decide⟩, by decide, by decide⟩

end Nebula.Props.C48
