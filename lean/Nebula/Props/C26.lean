/-
C26 — Batched underlay sends survive kernel faults without duplication.

"For any batch of outgoing datagrams and any pattern of partial sends, per-entry rejections, offload
rejections and unroutable destinations from the kernel, every datagram is handed to the kernel
successfully at most once, the reported count equals the datagrams the kernel accepted,
same-destination datagrams keep their order, and every offloaded run has one destination, equal-sized
segments except a shorter last one, and stays within the segment and byte limits."

Quantification: every batch `pk` (any lengths, destinations of any type `δ`, any `routable` predicate),
every scratch size `c.n`, every `c.maxSeg : Int`, GSO flag on or off, and every kernel `kern` — a function
from (call number, entries offered) to `(sent, errno)` — that respects the sendmmsg contract
`sent ≤ offered` (`KernOK`).  Scripts of outcomes are the special case `scriptKern` (see `script_kernel_ok`).
-/
import Nebula.Lemmas.WritebatchRun
import Nebula.Lemmas.WritebatchProgress
import Nebula.Lemmas.WritebatchDisable
import Nebula.Lemmas.Sendmmsg
import Nebula.Lemmas.WritebatchCover
import Nebula.Lemmas.WritebatchBridge

namespace Nebula.Props.C26
open Nebula.Writebatch Nebula.Lemmas.Writebatch Nebula.Lemmas.Sendmmsg List

variable {δ : Type} [DecidableEq δ]

/-- Master ordering fact: the packet indices the kernel accepted, listed in the order it accepted them
(across all `sendFn` calls, chunks and the GSO-disable replay), are strictly increasing. -/
theorem sent_increasing (c : Cfg δ) (kern : Nat → Nat → Outcome) (hk : KernOK kern) (pk : List (Pkt δ)) (gso : Bool) (ctl : Ctl) :
    (sentIdxs (writeBatch c kern pk gso ctl).calls).Pairwise (· < ·) := by
  have h := run_spec c kern hk pk gso 0 0 ctl (Nat.zero_le _)
  exact idxs_sorted _ h.1

/-- every datagram is handed to the kernel successfully at most once. -/
theorem at_most_once (c : Cfg δ) (kern : Nat → Nat → Outcome) (hk : KernOK kern) (pk : List (Pkt δ)) (gso : Bool) (ctl : Ctl) :
    (sentIdxs (writeBatch c kern pk gso ctl).calls).Nodup :=
  (sent_increasing c kern hk pk gso ctl).imp (fun h => Nat.ne_of_lt h)

/-- the reported count equals the number of datagrams the kernel accepted. -/
theorem count_exact (c : Cfg δ) (kern : Nat → Nat → Outcome) (hk : KernOK kern) (pk : List (Pkt δ)) (gso : Bool) (ctl : Ctl) :
    (writeBatch c kern pk gso ctl).written = (sentIdxs (writeBatch c kern pk gso ctl).calls).length := by
  have h := run_spec c kern hk pk gso 0 0 ctl (Nat.zero_le _)
  show (run c kern pk gso 0 0 ctl).written = _
  rw [h.2.2.1]; exact (idxs_length _).symm

/-- same-destination datagrams keep their order: restricted to the datagrams of any one destination (any
predicate on indices, in fact) the accepted sequence is still in input order. -/
theorem order (c : Cfg δ) (kern : Nat → Nat → Outcome) (hk : KernOK kern) (pk : List (Pkt δ)) (gso : Bool) (ctl : Ctl)
    (d : δ) :
    ((sentIdxs (writeBatch c kern pk gso ctl).calls).filter (fun i => decide ((pk[i]?.map (·.dst)) = some d))).Pairwise (· < ·) :=
  (sent_increasing c kern hk pk gso ctl).sublist List.filter_sublist

/-- only existing datagrams are sent. -/
theorem sent_in_range (c : Cfg δ) (kern : Nat → Nat → Outcome) (hk : KernOK kern) (pk : List (Pkt δ)) (gso : Bool) (ctl : Ctl)
    (i : Nat) (hi : i ∈ sentIdxs (writeBatch c kern pk gso ctl).calls) : i < pk.length := by
  have h := run_spec c kern hk pk gso 0 0 ctl (Nat.zero_le _)
  simp only [sentIdxs, List.mem_flatMap] at hi
  obtain ⟨e, he, hie⟩ := hi
  have := (h.2.1 e he).2
  simp only [Entry.idxs, List.mem_range'_1] at hie
  omega

/-- every entry ever offered to the kernel is a well-shaped run (`RunShape`): an offloaded run (≥ 2
datagrams) has one destination, equal-sized segments except a shorter non-empty last one, at most
`maxGSOSegments` segments and at most `maxGSOBytes` bytes; its destination is one the socket can address;
and no `sendFn` call is empty or exceeds the scratch. -/
theorem run_shape (c : Cfg δ) (kern : Nat → Nat → Outcome) (hk : KernOK kern) (pk : List (Pkt δ)) (gso : Bool) (ctl : Ctl)
    (call : Call) (hc : call ∈ (writeBatch c kern pk gso ctl).calls) :
    call.ents ≠ [] ∧ call.done + call.ents.length ≤ c.n ∧
    ∀ e ∈ call.ents, RunShape c.maxSeg pk e ∧ (∀ p, pk[e.start]? = some p → c.routable p.dst = true) := by
  have h := run_spec c kern hk pk gso 0 0 ctl (Nat.zero_le _)
  obtain ⟨h1, h2, h3⟩ := h.2.2.2.1 call hc
  exact ⟨h1, h2, fun e he => ⟨(h3 e he).1, (h3 e he).2.1⟩⟩

/-- with GSO off nothing is ever offloaded: every entry is a single datagram. -/
theorem gso_off_single (c : Cfg δ) (kern : Nat → Nat → Outcome) (hk : KernOK kern) (pk : List (Pkt δ)) (ctl : Ctl)
    (call : Call) (hc : call ∈ (writeBatch c kern pk false ctl).calls) : ∀ e ∈ call.ents, e.cnt = 1 := by
  have h := run_spec c kern hk pk false 0 0 ctl (Nat.zero_le _)
  exact fun e he => ((h.2.2.2.1 call hc).2.2 e he).2.2 rfl

/-- a kernel that respects the contract never drives the code into counting entries it was not offered. -/
theorem no_overrun (c : Cfg δ) (kern : Nat → Nat → Outcome) (hk : KernOK kern) (pk : List (Pkt δ)) (gso : Bool) (ctl : Ctl) :
    (writeBatch c kern pk gso ctl).overrun = false :=
  (run_spec c kern hk pk gso 0 0 ctl (Nat.zero_le _)).2.2.2.2

/-- The error "sendmmsg made no progress" is returned exactly when a `sendFn` call sent nothing and reported
no errno, that call is the last one, and no earlier call was of that kind (for every kernel, contract or not). -/
theorem no_progress_error (c : Cfg δ) (kern : Nat → Nat → Outcome) (pk : List (Pkt δ)) (gso : Bool) (ctl : Ctl) :
    let r := writeBatch c kern pk gso ctl
    (r.err = true → ∃ init last, r.calls = init ++ [last] ∧ Stuck last ∧ ∀ x ∈ init, ¬ Stuck x) ∧
    (r.err = false → ∀ x ∈ r.calls, ¬ Stuck x) :=
  run_stuck c kern pk gso 0 0 ctl

/-- Progress / termination, made explicit: whatever the kernel answers (contract or not), `WriteBatch`
returns after at most `2·len(bufs) + 1` `sendFn` calls — `len(bufs)` without GSO.  (That the model is a
total function is itself the termination proof: measure = (GSO flag, remaining packets), entries left.) -/
theorem terminates (c : Cfg δ) (kern : Nat → Nat → Outcome) (pk : List (Pkt δ)) (gso : Bool) (ctl : Ctl) :
    (writeBatch c kern pk gso ctl).calls.length ≤ (if gso then 2 * pk.length + 1 else pk.length) := by
  have h := run_calls c kern pk gso 0 0 ctl (Nat.zero_le _)
  simp only [writeBatch]
  split <;> simp_all <;> omega

/-- Control side of the entries (reviewer seed C26-2).  The mmsghdr slots are reused from chunk to chunk and
from batch to batch, and whatever earlier batches left in them (`ctl`, arbitrary) is still there when
`WriteBatch` starts.  Nevertheless every entry the kernel is ever offered carries exactly the control data
its run needs: the UDP_SEGMENT cmsg with the run's segment size when it holds ≥ 2 datagrams, and *no*
control data when it holds one — for every batch, kernel, scratch size and stale slot state. -/
theorem cmsg_matches_entry (c : Cfg δ) (kern : Nat → Nat → Outcome) (pk : List (Pkt δ)) (gso : Bool) (ctl : Ctl)
    (hc : ctl.length = c.n) (call : Call) (hcall : call ∈ (writeBatch c kern pk gso ctl).calls) :
    call.ctl = call.ents.map Entry.wantCtl ∧ call.ctl.length = call.ents.length := by
  have h := (run_ctl c kern pk gso 0 0 ctl (Nat.zero_le _) hc).2 call hcall
  exact ⟨h, by rw [h]; simp⟩

/-- the slot state handed on to the next `WriteBatch` call has the same shape. -/
theorem ctl_length_kept (c : Cfg δ) (kern : Nat → Nat → Outcome) (pk : List (Pkt δ)) (gso : Bool) (ctl : Ctl)
    (hc : ctl.length = c.n) : (writeBatch c kern pk gso ctl).ctl.length = c.n :=
  (run_ctl c kern pk gso 0 0 ctl (Nat.zero_le _) hc).1

/-- After the call on which GSO is disabled (nothing sent, EIO, first remaining entry an offloaded run) no
entry is offloaded any more and none carries a UDP_SEGMENT cmsg — in the rest of this `WriteBatch` call … -/
theorem no_cmsg_after_disable (c : Cfg δ) (kern : Nat → Nat → Outcome) (pk : List (Pkt δ)) (gso : Bool) (ctl : Ctl)
    (hc : ctl.length = c.n) (a b : List Call) (x : Call)
    (hs : (writeBatch c kern pk gso ctl).calls = a ++ x :: b) (hx : IsDisable x) :
    ∀ y ∈ b, (∀ e ∈ y.ents, e.cnt = 1) ∧ ∀ o ∈ y.ctl, o = none := by
  intro y hy
  have h1 := run_disable c kern pk gso 0 0 ctl (Nat.zero_le _) a x b hs hx y hy
  refine ⟨h1, ?_⟩
  have hm : y ∈ (writeBatch c kern pk gso ctl).calls := by rw [hs]; simp [hy]
  rw [(cmsg_matches_entry c kern pk gso ctl hc y hm).1]
  intro o ho
  obtain ⟨e, he, rfl⟩ := List.mem_map.mp ho
  have := h1 e he
  simp [Entry.wantCtl, this]

/-- … and in every later call on that writer (GSO flag off): single datagrams, no control data, whatever the
slots held before. -/
theorem gso_off_no_cmsg (c : Cfg δ) (kern : Nat → Nat → Outcome) (pk : List (Pkt δ)) (ctl : Ctl)
    (hc : ctl.length = c.n) (call : Call) (hcall : call ∈ (writeBatch c kern pk false ctl).calls) :
    ∀ o ∈ call.ctl, o = none := by
  rw [(cmsg_matches_entry c kern pk false ctl hc call hcall).1]
  intro o ho
  obtain ⟨e, he, rfl⟩ := List.mem_map.mp ho
  have := run_off_single c kern pk false 0 0 ctl (Nat.zero_le _) rfl call hcall e he
  simp [Entry.wantCtl, this]

/-- the flag is off after a disabling call (so `gso_off_no_cmsg` applies to the next batch). -/
theorem disable_turns_flag_off (c : Cfg δ) (kern : Nat → Nat → Outcome) (pk : List (Pkt δ)) (gso : Bool) (ctl : Ctl)
    (x : Call) (hm : x ∈ (writeBatch c kern pk gso ctl).calls) (hx : IsDisable x) :
    (writeBatch c kern pk gso ctl).gso = false :=
  run_disable_flag c kern pk gso 0 0 ctl (Nat.zero_le _) x hm hx

/-- No silent loss.  With a non-empty scratch (`MaxWriteBatch = 128` in production) and a kernel that respects
the contract: every datagram whose destination the socket can address is accounted for — it is in an entry
the kernel accepted (`sentIdxs`), or it is in the first entry of a `sendFn` call that sent nothing and
reported an errno (a per-entry rejection, which the code logs and skips; for the GSO-disabling EIO the run is
offered again as single datagrams and accounted for once more).  If `WriteBatch` returns the no-progress error,
this holds for every datagram before the first entry of the call that made no progress. -/
theorem no_silent_loss (c : Cfg δ) (kern : Nat → Nat → Outcome) (hk : KernOK kern) (hn : 0 < c.n)
    (pk : List (Pkt δ)) (gso : Bool) (ctl : Ctl) :
    let r := writeBatch c kern pk gso ctl
    (r.err = false → ∀ j (hj : j < pk.length), c.routable pk[j].dst = true → CovI r.calls j) ∧
    (r.err = true → ∃ init last e, r.calls = init ++ [last] ∧ last.ents.head? = some e ∧
      ∀ j (hj : j < pk.length), j < e.start → c.routable pk[j].dst = true → CovI r.calls j) := by
  have h := run_cover c kern hk hn pk gso 0 0 ctl (Nat.zero_le _)
  refine ⟨fun he j hj hr => h.1 he j hj (Nat.zero_le _) hr, fun he => ?_⟩
  obtain ⟨init, last, e, h1, h2, h3⟩ := h.2 he
  exact ⟨init, last, e, h1, h2, fun j hj hje hr => h3 j hj (Nat.zero_le _) hje hr⟩

-- the hypothesis `0 < c.n` is needed: a writer without scratch drops the whole batch and reports success
example :
    let r := writeBatch (δ := Nat) { n := 0, maxSeg := 2, routable := fun _ => true } (scriptKern []) [⟨5, 0⟩] true []
    r.written = 0 ∧ r.err = false ∧ r.calls.length = 0 := by
  decide +kernel

/-- The run-time oracle is a proved consequence of the model: for every batch, every kernel under the
sendmmsg contract, every scratch size, GSO on or off and every stale slot state, the specification's checker
`Spec.Writebatch.check` (the function the correspondence run applies to the implementation's answers: sent
within offered, run shape incl. control data, at most once, exact count, per-destination order, no-progress
rule) accepts the model's trace as the harness would observe it (`toSTrace`: indices of zero-length packets
hidden, control data as left in the slots, destinations numbered by any `dnum` consistent with routability). -/
theorem model_satisfies_oracle (c : Cfg δ) (pk : List (Pkt δ)) (dnum : δ → Nat) (rnum : Nat → Bool)
    (kern : Nat → Nat → Outcome) (hk : KernOK kern) (gso : Bool) (ctl : Ctl)
    (hc : ctl.length = c.n) (hr : ∀ p ∈ pk, rnum (dnum p.dst) = c.routable p.dst) :
    Spec.Writebatch.check (toSInput c pk dnum rnum) (toSTrace pk dnum (writeBatch c kern pk gso ctl)) = none :=
  model_satisfies_oracle_lemma c pk dnum rnum kern hk gso ctl hc hr

/-- every scripted kernel (any list of outcomes, any `sent` values) satisfies the contract — the
hypothesis `KernOK` of the theorems above is satisfiable, by every script. -/
theorem script_kernel_ok (script : List Outcome) : KernOK (scriptKern script) := by
  intro k n
  simp only [scriptKern]
  split
  · simp only; split <;> omega
  · simp

-- a stuck kernel: the first call sends nothing and reports nothing
example :
    let r := writeBatch (δ := Nat) { n := 2, maxSeg := 2, routable := fun _ => true }
      (scriptKern [⟨0, .none⟩]) [⟨5, 0⟩] true [none, none]
    r.err = true ∧ r.written = 0 ∧ r.calls.length = 1 := by
  decide +kernel

-- a concrete faulty run: 3 equal datagrams to one destination, scratch 2, at most 2 segments per run;
-- the kernel rejects the offloaded run with EIO, so GSO is disabled and the run replayed as single datagrams
example :
    let r := writeBatch (δ := Nat) { n := 2, maxSeg := 2, routable := fun _ => true }
      (scriptKern [⟨0, .eio⟩]) [⟨5, 0⟩, ⟨5, 0⟩, ⟨5, 0⟩] true [none, none]
    sentIdxs r.calls = [0, 1, 2] ∧ r.written = 3 ∧ r.gso = false ∧ r.calls.length = 3 := by
  decide +kernel

/-! ## The sendmmsg wrapper (`w.sendFn` in production): retry loop around the raw syscall -/


/-- What `batchWriter.sendmmsg` returns, for every script of raw syscall results: the first result that is
neither EINTR nor one of the first three ENOBUFS.  It never returns EINTR, it swallows at most
`enobufsRetries = 3` ENOBUFS and returns ENOBUFS only as the fourth one, every other errno — EAGAIN
included — is returned at once, and the number of syscalls is the length of the swallowed prefix plus one. -/
theorem sendmmsg_result (script : List Sendmmsg.Sys) (sent : Int) (err : Sendmmsg.Errno) (n : Nat)
    (h : Sendmmsg.sendmmsg script = .ret sent err n) :
    err ≠ .eintr ∧
    ∃ pre o rest, script = pre ++ o :: rest ∧ o.r1 = sent ∧ o.errno = err ∧ n = pre.length + 1 ∧
      (∀ x ∈ pre, x.errno = .eintr ∨ x.errno = .enobufs) ∧ cnt .enobufs pre ≤ 3 ∧
      (err = .enobufs → cnt .enobufs pre = 3) := by
  have := loop_spec script 0 0 (by decide)
  rw [show Sendmmsg.loop script 0 0 = Sendmmsg.sendmmsg script from rfl, h] at this
  simpa [Sendmmsg.enobufsRetries] using this

theorem length_two_classes (l : List Sendmmsg.Sys) (h : ∀ x ∈ l, x.errno = .eintr ∨ x.errno = .enobufs) :
    l.length = cnt .eintr l + cnt .enobufs l := by
  induction l with
  | nil => simp [cnt]
  | cons x xs ih =>
    have := ih (fun y hy => h y (List.mem_cons_of_mem _ hy))
    rcases h x List.mem_cons_self with hx | hx <;>
      simp only [cnt, List.filter_cons, hx, List.length_cons] at * <;> simp <;> omega

theorem cnt_append (e : Sendmmsg.Errno) (a b : List Sendmmsg.Sys) : cnt e (a ++ b) = cnt e a + cnt e b := by
  simp [cnt]

/-- Termination bound: the loop returns after at most `#EINTR + 4` raw syscalls, where `#EINTR` is the number
of EINTR answers the kernel gave.  There is no bound that does not mention the kernel's EINTRs
(`sendmmsg_can_spin`). -/
theorem sendmmsg_calls_bound (script : List Sendmmsg.Sys) (sent : Int) (err : Sendmmsg.Errno) (n : Nat)
    (h : Sendmmsg.sendmmsg script = .ret sent err n) : n ≤ cnt .eintr script + 4 := by
  obtain ⟨_, pre, o, rest, h1, _, _, h4, h5, h6, _⟩ := sendmmsg_result script sent err n h
  have := length_two_classes pre h5
  rw [h1, cnt_append]
  omega

/-- The loop returns as soon as the kernel gives an answer that is not retried: any errno other than
EINTR/ENOBUFS (or success) anywhere in the script, or a fourth ENOBUFS, guarantees a return. -/
theorem sendmmsg_returns (script : List Sendmmsg.Sys)
    (h : (∃ x ∈ script, x.errno ≠ .eintr ∧ x.errno ≠ .enobufs) ∨ 4 ≤ cnt .enobufs script) :
    ∃ sent err n, Sendmmsg.sendmmsg script = .ret sent err n := by
  have := loop_spec script 0 0 (by decide)
  rw [show Sendmmsg.loop script 0 0 = Sendmmsg.sendmmsg script from rfl] at this
  cases hr : Sendmmsg.sendmmsg script with
  | ret s e n => exact ⟨s, e, n, rfl⟩
  | spinning n =>
    rw [hr] at this
    simp only [Sendmmsg.enobufsRetries] at this
    exfalso
    rcases h with ⟨x, hx, h1, h2⟩ | h
    · rcases this.2.1 x hx with h | h
      · exact h1 h
      · exact h2 h
    · omega

/-- The code has no fairness-free bound: against a kernel that keeps answering EINTR the loop is still
retrying after any number `N` of syscalls (the same policy as Go's `ignoringEINTRIO`; documented, not a
defect under the property, which quantifies over outcomes of *returned* calls). -/
theorem sendmmsg_can_spin (N : Nat) (r : Int) :
    Sendmmsg.sendmmsg (List.replicate N ⟨r, .eintr⟩) = .spinning N := by
  have : ∀ e c, Sendmmsg.loop (List.replicate N ⟨r, .eintr⟩) e c = .spinning (c + N) := by
    induction N with
    | zero => intro e c; simp [Sendmmsg.loop]
    | succ N ih => intro e c; simp only [List.replicate_succ, Sendmmsg.loop, if_true]; rw [ih]; congr 1; omega
  simpa [Sendmmsg.sendmmsg] using this 0 0

/-- The contract `WriteBatch` relies on (`KernOK`) is inherited from the raw syscall: if no syscall reports
more than `n` messages, `sendmmsg` does not either. -/
theorem sendmmsg_sent_le (script : List Sendmmsg.Sys) (n : Int) (hs : ∀ x ∈ script, x.r1 ≤ n)
    (sent : Int) (err : Sendmmsg.Errno) (k : Nat) (h : Sendmmsg.sendmmsg script = .ret sent err k) : sent ≤ n := by
  obtain ⟨_, pre, o, rest, h1, h2, _⟩ := sendmmsg_result script sent err k h
  rw [← h2]; exact hs o (by rw [h1]; simp)

example : Sendmmsg.sendmmsg [⟨-1, .eintr⟩, ⟨-1, .enobufs⟩, ⟨-1, .enobufs⟩, ⟨-1, .eintr⟩, ⟨-1, .enobufs⟩, ⟨-1, .enobufs⟩, ⟨5, .ok⟩]
    = .ret (-1) .enobufs 6 := by decide
example : Sendmmsg.sendmmsg [⟨-1, .eagain⟩, ⟨5, .ok⟩] = .ret (-1) .eagain 1 := by decide

end Nebula.Props.C26
