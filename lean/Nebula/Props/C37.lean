import Nebula.Model.RemoteList
import Nebula.Spec.RemoteList
namespace Nebula.Props.C37
theorem stub : True := trivial
end Nebula.Props.C37
