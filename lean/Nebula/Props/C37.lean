/-
C37 — Remote address lists are deduplicated and deterministically ordered.

"A peer's candidate address list is exactly the set of learned, reported and resolved addresses from all
sources minus blocked ones, without duplicates, ordered preferred ranges first, then IPv6, then public IPv4,
then private IPv4, each by address then port. Relay candidates are likewise the deduplicated, sorted union of
reported relays."

Quantifier: all combinations of owners, learned/reported v4 and v6 entries, DNS results, blocked remotes and
preferred ranges, including changes between rebuilds (arbitrary operation histories `ops : List Op`; the Go
map iteration orders are arbitrary permutations of the cache / resolved set).

Reading: "resolved" addresses are those the `shouldAdd` filter admits (remote_list.go applies it in
`unlockedCollect`); two `netip.AddrPort` values are duplicates when they are equal (IPv4-mapped IPv6 cache
slots are unmapped when read, so they coincide with their IPv4 form). Inside the preferred group the same
IPv6 / public / private sub-order applies.

The model (`Nebula.RemoteList`) follows remote_list.go after the `fix:` commit that marks the list dirty
when blocked remotes are cleared.
-/
import Nebula.Lemmas.RemoteList

namespace Nebula.Props.C37
open Nebula.Net Nebula.RemoteList Nebula.Spec.RemoteList Nebula.Lemmas.RemoteList

/-- The comparator cascade of `unlockedSort` is the documented order: preferred first, then IPv6 / public
IPv4 / private IPv4, then address, then port — for all pairs of addresses and all preferred ranges. -/
theorem comparator_is_spec_order (pref : List Prefix) (a b : AP) : less pref a b = before pref a b :=
  less_eq_before pref a b

/-- the order is a strict total order, so a duplicate-free sorted enumeration of a set is unique … -/
theorem order_strict_total (pref : List Prefix) (a b c : AP) :
    before pref a a = false ∧ (before pref a b = true → before pref b c = true → before pref a c = true) ∧
    (a ≠ b → before pref a b = true ∨ before pref b a = true) :=
  ⟨before_irrefl pref a, before_trans, before_tri⟩

theorem candidate_list_unique (pref : List Prefix) (c l l' : List AP)
    (h : IsCandidateList pref c l) (h' : IsCandidateList pref c l') : l = l' :=
  candidateList_unique h h'

/-- `unlockedSort` (sort + adjacent dedupe) turns any collected list into the duplicate-free, ordered
enumeration of its elements. -/
theorem sort_dedupes_and_orders (pref : List Prefix) (l : List AP) :
    IsCandidateList pref l (sortAddrs pref l) := sortAddrs_spec pref l

/-- `unlockedCollect` gathers exactly (learned ∪ reported ∪ resolved-and-admitted) minus blocked. -/
theorem collect_set_eq (r : RL) (sa : Option (List Addr → Addr → Bool)) (x : AP) :
    x ∈ (collect r sa).addrs ↔ (x ∈ sources r sa ∧ x ∉ r.badRemotes) := by
  rw [mem_collect]; simp [candidates]

/-- MAIN: after any history of operations (learn, set, prepend, relays, DNS updates, block, unblock,
handshake refresh, reads with changing preferred ranges), what `CopyAddrs`/`ForEach` return is exactly the
candidate set of the current cache, without duplicates, in the documented order. -/
theorem addrs_after_any_history (sa : Option (List Addr → Addr → Bool)) (vpn : List Addr) (ops : List Op)
    (pref : List Prefix) :
    let r := ops.foldl (apply sa) { vpnAddrs := vpn }
    IsCandidateList pref (candidates r sa) (rebuild r sa pref).addrs := by
  intro r
  exact rebuild_spec sa r (history_fresh sa ops _ (init_fresh sa vpn)).1 pref

/-- … and the relay list is the deduplicated union of reported relays in `netip.Addr.Compare` order. -/
theorem relays_after_any_history (sa : Option (List Addr → Addr → Bool)) (vpn : List Addr) (ops : List Op)
    (pref : List Prefix) :
    let r := ops.foldl (apply sa) { vpnAddrs := vpn }
    IsRelayList (reportedRelays r) (rebuild r sa pref).relays := by
  intro r
  exact rebuild_relays_spec sa r (history_fresh sa ops _ (init_fresh sa vpn)).2 pref

/-- no blocked address is ever returned. -/
theorem blocked_never_listed (sa : Option (List Addr → Addr → Bool)) (vpn : List Addr) (ops : List Op)
    (pref : List Prefix) (x : AP) :
    let r := ops.foldl (apply sa) { vpnAddrs := vpn }
    x ∈ (rebuild r sa pref).addrs → x ∉ r.badRemotes := by
  intro r hx
  have h := (addrs_after_any_history sa vpn ops pref).2.1 x
  have := h.mp hx
  simp only [candidates, List.mem_filter] at this
  simpa using this.2

/-- Deterministic: the result does not depend on the iteration order of the cache map or of the resolved
address set (any two states that differ by permutations give the same list). -/
theorem deterministic (sa : Option (List Addr → Addr → Bool)) (r r' : RL) (pref : List Prefix)
    (hf : Fresh sa r) (hf' : Fresh sa r')
    (hc : r.cache.Perm r'.cache) (hh : (r.hr.getD []).Perm (r'.hr.getD [])) (hv : r.vpnAddrs = r'.vpnAddrs)
    (hb : r.badRemotes = r'.badRemotes) :
    (rebuild r sa pref).addrs = (rebuild r' sa pref).addrs := by
  have h1 := rebuild_spec sa r hf pref
  have h2 := rebuild_spec sa r' hf' pref
  exact candidateList_unique (isCandidateList_congr (candidates_perm sa hc hh hv hb) h1) h2

theorem relays_deterministic (l l' : List Addr) (hp : l.Perm l') : sortRelays l = sortRelays l' := by
  have h1 := sortRelays_spec l
  have h2 := sortRelays_spec l'
  exact relayList_unique ⟨h1.1, fun x => (h1.2.1 x).trans hp.mem_iff, h1.2.2⟩ h2

/-- each owner's reported lists and relay list hold at most `MaxRemotes` entries after a set. -/
theorem per_owner_cap (to : List AP) (check : Addr → Bool) (rel : List Addr) :
    ((to.take maxRemotes).filter (fun a => check a.addr)).length ≤ 10 ∧ (rel.take maxRemotes).length ≤ 10 := by
  constructor
  · exact Nat.le_trans (List.length_filter_le _ _) (by simp [maxRemotes, Gen.rl_MaxRemotes]; omega)
  · simp [maxRemotes, Gen.rl_MaxRemotes]; omega

-- non-vacuity of `deterministic`: two dirty states whose caches are permutations of each other
example :
    let c1 : Addr × OwnerCache := (⟨.v4, 0x0a090001⟩, { v4r := [⟨⟨.v4, 0x01010101⟩, 4242⟩, ⟨⟨.v4, 0x0a000001⟩, 1⟩] })
    let c2 : Addr × OwnerCache := (⟨.v4, 0x0a090002⟩, { v6r := [⟨⟨.v6, 0xffff01010101⟩, 4242⟩, ⟨⟨.v6, 1⟩, 2⟩] })
    let r : RL := { cache := [c1, c2], shouldRebuild := true, badRemotes := [⟨⟨.v6, 1⟩, 2⟩] }
    let r' : RL := { cache := [c2, c1], shouldRebuild := true, badRemotes := [⟨⟨.v6, 1⟩, 2⟩] }
    Fresh none r ∧ Fresh none r' ∧ r.cache.Perm r'.cache ∧ (r.hr.getD []).Perm (r'.hr.getD []) :=
  ⟨Or.inl rfl, Or.inl rfl, List.Perm.swap _ _ _, List.Perm.refl _⟩

-- the documented order on concrete addresses: preferred private IPv4 < IPv6 < public IPv4 < private IPv4,
-- then address, then port; a mapped cache slot reads as its IPv4 form
example :
    let pref : List Prefix := [⟨⟨.v4, 0x0a000000⟩, 8⟩]
    less pref ⟨⟨.v4, 0x0a000001⟩, 1⟩ ⟨⟨.v6, 1⟩, 2⟩ = true ∧
    less pref ⟨⟨.v6, 1⟩, 2⟩ ⟨⟨.v4, 0x01010101⟩, 4242⟩ = true ∧
    less pref ⟨⟨.v4, 0x01010101⟩, 4242⟩ ⟨⟨.v4, 0xc0a80001⟩, 1⟩ = true ∧
    less pref ⟨⟨.v4, 0x01010101⟩, 4242⟩ ⟨⟨.v4, 0x01010101⟩, 4243⟩ = true ∧
    less pref ⟨⟨.v4, 0x01010101⟩, 4243⟩ ⟨⟨.v4, 0x01010101⟩, 4242⟩ = false ∧
    (AP.out ⟨⟨.v6, 0xffff01010101⟩, 4242⟩) = ⟨⟨.v4, 0x01010101⟩, 4242⟩ := by
  decide

end Nebula.Props.C37
