/-
C21 — Reject replies are well formed and never answer errors or fragments.

"When rejection replies are enabled, each reply is a well-formed IPv4/IPv6 packet with valid checksums,
sent from the original destination back to the original source, no larger than the documented maximum:
a TCP reset with netfilter-style sequence numbers for TCP, otherwise an administratively-prohibited ICMP
error carrying the original header. No reply is produced for non-first fragments, ICMP error messages,
or buffers too small to hold it."  — for all IPv4/IPv6 packets and output buffer capacities.

Model: `Model/Reject.lean` (CreateRejectPacket and helpers, byte for byte, uint32 arithmetic wrapping).
Specification: `Spec/Reject.lean` on the independent parser `Spec/IP.lean` and the RFC 1071 checksum of
`Spec/PktCsum.lean`. "IPv4/IPv6 packet" = a byte string the independent parser parses (`parse p = some o`).
-/
import Nebula.Lemmas.RejectTop

namespace Nebula.Props.C21
open Nebula.Pkt Nebula.Reject Nebula.Spec.IP Nebula.Spec.PktCsum Nebula.Spec.Reject Nebula.Lemmas.Reject

/-- No index / slice of the input is out of range and the output is only written inside `out[:outLen]`
after the capacity guard: for all byte strings and capacities the model never takes a `panic` branch. -/
theorem no_panic (p : List UInt8) (cap : Nat) : createRejectPacket p cap ≠ .panic :=
  create_no_panic p cap

/-- Every reply is what the property describes (`Spec.Reject.goodReply`): it parses as an IP packet of
the same family without options / extension headers, unfragmented, from the original destination to the
original source, length field exact, IPv4 header checksum valid, at most 1048 bytes; for TCP a 20-byte RST
with swapped ports, data offset 5, window 0, netfilter sequence numbers and a valid TCP checksum over the
pseudo-header; otherwise ICMP type 3 code 13 / ICMPv6 type 1 code 1 with zero unused field, a valid
checksum (ICMPv6: over the pseudo-header), carrying the original IP header + 8 bytes (IPv4) or the first
≤ 1000 bytes of the original packet (IPv6). -/
theorem wellformed (p : List UInt8) (cap : Nat) (o : Pkt) (ho : parse p = some o) (out : List UInt8)
    (h : createRejectPacket p cap = .ok (some out)) : goodReply p o out = true :=
  good p cap o ho out h

/-- "No reply is produced for non-first fragments, ICMP error messages, or buffers too small to hold it." -/
theorem none_when_must_not (p : List UInt8) (cap : Nat) (o : Pkt) (ho : parse p = some o)
    (h : mustNotReply p o cap = true) : createRejectPacket p cap = .ok none :=
  must_not p cap o ho h

theorem none_for_nonfirst_fragment (p : List UInt8) (cap : Nat) (o : Pkt) (ho : parse p = some o)
    (h : o.nonFirstFrag = true) : createRejectPacket p cap = .ok none :=
  must_not p cap o ho (by simp [mustNotReply, h])

/-- ICMP error messages: IPv4 types 3, 4, 5, 11, 12; ICMPv6 types 1–4 (`Spec.Reject.isIcmpErrorType`). -/
theorem none_for_icmp_error (p : List UInt8) (cap : Nat) (o : Pkt) (ho : parse p = some o)
    (h : isIcmpError o = true) : createRejectPacket p cap = .ok none :=
  must_not p cap o ho (by simp [mustNotReply, h])

theorem none_if_small_buffer (p : List UInt8) (cap : Nat) (o : Pkt) (ho : parse p = some o)
    (h : cap < replySize p o) : createRejectPacket p cap = .ok none :=
  must_not p cap o ho (by simp [mustNotReply, h])

/-- The size clause on its own: a reply never exceeds `iputil.MaxRejectPacketSize` (so `rejectOutside`'s
size guard never discards one), is never empty, and is only produced when the buffer can hold the reply
the property describes. -/
theorem size_le_max (p : List UInt8) (cap : Nat) (o : Pkt) (ho : parse p = some o) (out : List UInt8)
    (h : createRejectPacket p cap = .ok (some out)) :
    out.length ≤ maxRejectPacketSize ∧ out ≠ [] ∧ replySize p o ≤ cap := by
  have hg := good p cap o ho out h
  have hm : ¬ cap < replySize p o := by
    intro hc
    rw [must_not p cap o ho (by simp [mustNotReply, hc])] at h; cases h
  simp only [goodReply] at hg
  split at hg
  · cases hg
  · rename_i r hr
    simp only [Bool.and_eq_true] at hg
    have h1 := hg.1
    simp only [ipOK, Bool.and_eq_true, maxReplySize] at h1
    have hl : out.length ≤ 1048 := by
      exact of_decide_eq_true h1.1.2
    refine ⟨by simp only [maxRejectPacketSize, Gen.iputil_MaxRejectPacketSize]; omega, ?_, by omega⟩
    intro hc; rw [hc] at hr; simp [parse] at hr

/-- `rejectOutside` sends exactly what `CreateRejectPacket` built: its empty / too-big guards never fire. -/
theorem rejectOutside_sends_reply (p : List UInt8) (cap : Nat) (o : Pkt) (ho : parse p = some o) :
    rejectOutsideOut p cap = createRejectPacket p cap := by
  cases h : createRejectPacket p cap with
  | panic => simp [rejectOutsideOut, h]
  | err e => simp [rejectOutsideOut, h]
  | ok r =>
    cases r with
    | none => simp [rejectOutsideOut, h]
    | some out =>
      obtain ⟨h1, h2, _⟩ := size_le_max p cap o ho out h
      have h4 : ¬ out.length > maxRejectPacketSize := by omega
      simp [rejectOutsideOut, h, h2, h4]

/-- `tcpipChecksum` is the RFC 1071 checksum for every buffer whose sum does not overflow the `uint32`
accumulator (any `init` and data with `init + 65536 · len < 2^32`, i.e. far beyond any packet). -/
theorem tcpipChecksum_rfc1071 (d : List UInt8) (init : Nat) (h : init + 65536 * d.length < 4294967296) :
    tcpipChecksum d init = 0xffff - fold16 (sum16 d + init) := by
  have := Nebula.Lemmas.PktCsum.sum16_le d
  exact Nebula.Lemmas.PktCsum.tcpipChecksum_eq d init (by omega)

-- ---------------------------------------------------------------------------------------------------
-- non-vacuity / sanity on concrete packets

set_option maxRecDepth 100000

/-- IPv4 TCP SYN 10.0.0.1:4660 → 10.0.0.2:80, seq 0x01020304 -/
def syn4 : List UInt8 :=
  [0x45, 0, 0, 40, 0, 0, 0, 0, 64, 6, 0, 0, 10, 0, 0, 1, 10, 0, 0, 2,
   0x12, 0x34, 0x00, 0x50, 1, 2, 3, 4, 0, 0, 0, 0, 0x50, 0x02, 0xff, 0xff, 0, 0, 0, 0]

-- the hypotheses of `wellformed` are satisfiable: the packet parses, a reply is produced, it is a RST+ACK
-- from 10.0.0.2:80 to 10.0.0.1:4660 acknowledging seq + 1
example : (parse syn4).isSome = true := by decide
example : createRejectPacket syn4 40 =
    .ok (some [0x45, 0, 0, 40, 0, 0, 0, 0, 64, 6, 0x66, 0xce, 10, 0, 0, 2, 10, 0, 0, 1,
               0x00, 0x50, 0x12, 0x34, 0, 0, 0, 0, 1, 2, 3, 5, 0x50, 0x14, 0, 0, 0x85, 0x43, 0, 0]) := by decide
-- one byte of capacity less: nothing
example : createRejectPacket syn4 39 = .ok none := by decide

/-- IPv4 ICMP destination-unreachable (an ICMP error) -/
def icmpErr4 : List UInt8 :=
  [0x45, 0, 0, 28, 0, 0, 0, 0, 64, 1, 0, 0, 10, 0, 0, 1, 10, 0, 0, 2, 3, 1, 0, 0, 0, 0, 0, 0]

example : (parse icmpErr4).map isIcmpError = some true := by decide
example : createRejectPacket icmpErr4 2048 = .ok none := by decide
-- the same packet as an echo request is answered
example : (createRejectPacket (icmpErr4.set 20 8) 2048).bind (fun r => .ok (r.map List.length)) = .ok (some 56) := by decide

-- A TCP RST is itself answered with a RST (netfilter's nf_reject does not do that: "no RST for RST").
-- The property lists the cases in which no reply may be produced — non-first fragments, ICMP error
-- messages, small buffers — and an incoming RST is not among them; "netfilter-style" qualifies the sequence
-- numbers, which `wellformed` proves for every flag combination, RST included. So this is documented
-- behaviour, not a violation of C21. (Operational note for the maintainers: two nebula nodes that both
-- reject and both drop the flow would bounce resets off each other until one side stops rejecting.)
example : (createRejectPacket (syn4.set 33 0x04) 40).bind (fun r => .ok (r.map (fun o => o.getD 33 0))) = .ok (some 0x14) := by
  decide

-- the regenerated `ipv4PseudoheaderChecksum` and the hand-written model agree where the uint32 accumulator wraps
example : (Gen.iputil_ipv4PseudoheaderChecksum 255#8 255#8 255#8 255#8 255#8 255#8 255#8 255#8 0xffffffff#32 0xfffffffe#32).toNat =
    ipv4Pseudo [255, 255, 255, 255] [255, 255, 255, 255] 0xffffffff 0xfffffffe := by decide
example : (Gen.iputil_ipv4PseudoheaderChecksum 10#8 0#8 0#8 1#8 10#8 0#8 0#8 2#8 6#32 20#32).toNat =
    ipv4Pseudo [10, 0, 0, 1] [10, 0, 0, 2] 6 20 := by decide

end Nebula.Props.C21
