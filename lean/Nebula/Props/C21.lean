import Nebula.Model.Reject
import Nebula.Spec.Reject
namespace Nebula.Props.C21
theorem stub : True := trivial
end Nebula.Props.C21
