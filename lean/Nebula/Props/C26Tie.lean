/-
C26 — source tie of `batchWriter.planRun` (udp/udp_linux_writebatch.go).

Every `int` comparison of the run planner (`start >= len(bufs) || iovBudget < 1`, `!w.gsoSupported || segSize == 0 ||
segSize > maxGSOBytes`, `iovBudget < maxLen`, the loop test, `nextLen == 0 || nextLen > segSize`,
`total+nextLen > maxGSOBytes`, `nextLen < segSize`) and both updates (`total += nextLen`, `runLen++`) are regenerated
from the source on every run. The model's loop `planLoop` is proved to be built from the regenerated body, and the
model's tests of `planRun` are proved to be the regenerated ones. Hand-written remain the control skeleton, the
destination comparison and the list view of `bufs[start+runLen:]`.
-/
import Nebula.Lemmas.Ties1UdpTie

namespace Nebula.Props.C26Tie
open Nebula.Gen Nebula.Writebatch

/-- One iteration of `for runLen < maxLen && start+runLen < len(bufs)` on a non-empty remainder: every length test and
both counter updates are the regenerated ones (all lengths and counters below 2^62). -/
theorem planLoop_is_translated {δ : Type} [DecidableEq δ] (segSize : Nat) (dst : δ) (maxLen : Int) (p : Pkt δ)
    (rest : List (Pkt δ)) (runLen total : Nat) (hs : segSize < 2 ^ 62) (hp : p.len < 2 ^ 62)
    (hr : runLen < 2 ^ 62) (ht : total < 2 ^ 62) :
    planLoop segSize dst maxLen (p :: rest) runLen total =
      if (runLen : Int) < maxLen then
        if tie_ties1_udp_plan_next_bad (BitVec.ofNat 64 p.len) (BitVec.ofNat 64 segSize) then runLen
        else if p.dst ≠ dst then runLen
        else if tie_ties1_udp_plan_over (BitVec.ofNat 64 total) (BitVec.ofNat 64 p.len) then runLen
        else if tie_ties1_udp_plan_short (BitVec.ofNat 64 p.len) (BitVec.ofNat 64 segSize) then
          (tie_ties1_udp_plan_runLen (BitVec.ofNat 64 total) (BitVec.ofNat 64 p.len) (BitVec.ofNat 64 runLen)).toNat
        else planLoop segSize dst maxLen rest
          (tie_ties1_udp_plan_runLen (BitVec.ofNat 64 total) (BitVec.ofNat 64 p.len) (BitVec.ofNat 64 runLen)).toNat
          (tie_ties1_udp_plan_total (BitVec.ofNat 64 total) (BitVec.ofNat 64 p.len)).toNat
      else runLen :=
  Nebula.Lemmas.Ties1UdpTie.planLoop_cons_eq segSize dst maxLen p rest runLen total hs hp hr ht

/-- The loop test as a whole (the model splits it into `runLen < maxLen` and "the remainder is non-empty"). -/
theorem planLoop_test_is_translated (runLen start n : Nat) (maxLen : Int) (hr : runLen < 2 ^ 61) (hs : start < 2 ^ 61)
    (hn : n < 2 ^ 62) (h1 : -(2 ^ 62) < maxLen) (h2 : maxLen < 2 ^ 62) :
    tie_ties1_udp_plan_loop (BitVec.ofNat 64 runLen) (BitVec.ofInt 64 maxLen) (BitVec.ofNat 64 start)
      (BitVec.ofNat 64 n) = decide ((runLen : Int) < maxLen ∧ start + runLen < n) :=
  Nebula.Lemmas.Ties1UdpTie.plan_loop_formula runLen start n maxLen hr hs hn h1 h2

/-- The three tests of `planRun` before the loop are the conditions of the model's `planRun`: nothing to plan, a
single-packet run, and the run-length cap `min(iovBudget, maxGSOSegments)`. -/
theorem planRun_tests_are_translated (start n seg : Nat) (iov maxSeg : Int) (gso : Bool) (seg0 : BitVec 64)
    (hs : start < 2 ^ 62) (hn : n < 2 ^ 62) (hg : seg < 2 ^ 62)
    (h1 : -(2 ^ 62) < iov) (h2 : iov < 2 ^ 62) (h3 : -(2 ^ 62) < maxSeg) (h4 : maxSeg < 2 ^ 62) :
    tie_ties1_udp_plan_none (BitVec.ofNat 64 start) (BitVec.ofNat 64 n) (BitVec.ofInt 64 iov)
        = decide (start ≥ n ∨ iov < 1)
    ∧ tie_ties1_udp_plan_single gso (BitVec.ofNat 64 seg) = decide (gso = false ∨ seg = 0 ∨ seg > maxGSOBytes)
    ∧ (tie_ties1_udp_plan_maxLen seg0 (BitVec.ofInt 64 iov) (BitVec.ofInt 64 maxSeg)).toInt
        = (if iov < maxSeg then iov else maxSeg) :=
  ⟨Nebula.Lemmas.Ties1UdpTie.plan_none_formula start n iov hs hn h1 h2,
   Nebula.Lemmas.Ties1UdpTie.plan_single_formula gso seg hg,
   Nebula.Lemmas.Ties1UdpTie.plan_maxLen_formula seg0 iov maxSeg h1 h2 h3 h4⟩

-- the regenerated pieces compute: the byte budget is inclusive, a longer follower ends the run
example : tie_ties1_udp_plan_over 64000#64 1000#64 = false ∧ tie_ties1_udp_plan_over 64000#64 1001#64 = true
    ∧ tie_ties1_udp_plan_next_bad 1201#64 1200#64 = true ∧ tie_ties1_udp_plan_short 1199#64 1200#64 = true := by decide

end Nebula.Props.C26Tie
