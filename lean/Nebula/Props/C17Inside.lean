/-
C17, outbound direction — "…and a packet sent to P has such a destination. In both directions the node-side address
must be one of the node's own certified addresses or inside its certified unsafe networks."

Theorems about `Inside.consume` (Model/Inside.lean: `Interface.consumeInsidePacket` with `getOrHandshakeConsiderRouting`,
`GetOrHandshake` and `rejectInside`'s guard), for EVERY configuration, hostmap, set of pending handshakes, route table,
firewall and packet (or parse error):

* a datagram goes on the wire only after `firewall.Drop` said nil for exactly this packet and the tunnel it is encrypted
  for (`wire_needs_firewall_pass`), and with the firewall of Model/Conntrack (Props/C17) that means: the destination is
  certified for that tunnel's peer and the source is one of our own addresses / inside our unsafe networks
  (`sent_addrs_authentic`);
* a packet to one of our own addresses is never encrypted, sent, cached, rejected, and starts no handshake; it is written
  back to tun only on platforms with `immediatelyForwardToSelf` (`self_never_leaves`, `sent_not_to_self`);
* the tunnel used belongs to the destination (inside our networks) or to a gateway of its route (`wire_tunnel_is_routed`);
* a packet is cached only on the pending handshake of such an address, which has no tunnel, and that handshake exists
  afterwards (`cached_on_routed_pending`); handshakes are only started for such addresses (`started_are_routed`);
* a reject reply needs `OutboundSendReject` and excludes sending / caching (`reject_only_when_configured`);
* unparsable packets have no effect at all (`unparsable_no_effect`); an outcome never both sends and caches
  (`wire_excludes_cache`);
* the outcome depends on the hostmap / pending set only at the destination and the gateways of its route, and on the
  firewall only at this packet (`consume_frame`).
-/
import Nebula.Lemmas.Inside
import Nebula.Props.C17

namespace Nebula.Props.C17Inside
open Nebula.Net Nebula.Fw Nebula.Inside Nebula.Lemmas.Inside Nebula.Spec.Fw

variable {κ : Type}

/-- Nothing is sent on the wire unless the outbound firewall verdict for this packet and this tunnel is "allow". -/
theorem wire_needs_firewall_pass (cfg : Nebula.Inside.Cfg) (env : Env κ) (pkt : Option Packet) (h : κ)
    (hw : (consume cfg env pkt).wire = some h) : ∃ p, pkt = some p ∧ env.fwPass p h = true := by
  cases pkt with
  | none => simp [consume, Outcome.wire] at hw
  | some p =>
    refine ⟨p, rfl, ?_⟩
    have hs := consume_spec cfg env p
    generalize consume cfg env (some p) = o at hs hw
    cases o <;> simp [Outcome.wire] at hw
    subst hw
    exact hs.2.2

/-- The tunnel a packet is sent on is the tunnel of its destination (inside our networks) or of a gateway of the
destination's route. -/
theorem wire_tunnel_is_routed (cfg : Nebula.Inside.Cfg) (env : Env κ) (p : Packet) (h : κ)
    (hw : (consume cfg env (some p)).wire = some h) :
    ∃ a ∈ via cfg env p.remoteAddr, env.hosts a = some h := by
  have hs := consume_spec cfg env p
  generalize consume cfg env (some p) = o at hs hw
  cases o <;> simp [Outcome.wire] at hw
  subst hw
  exact hs.2.1.1

/-- A packet is cached only on the pending handshake of the destination (inside our networks) or of a gateway of its
route; that address has no tunnel, and its pending handshake exists after the call (it existed, or was started). -/
theorem cached_on_routed_pending (cfg : Nebula.Inside.Cfg) (env : Env κ) (pkt : Option Packet) (a : Addr)
    (hc : (consume cfg env pkt).cachedOn = some a) :
    ∃ p, pkt = some p ∧ a ∈ via cfg env p.remoteAddr ∧ env.hosts a = none ∧
      (env.pending a = true ∨ a ∈ (consume cfg env pkt).started) := by
  cases pkt with
  | none => simp [consume, Outcome.cachedOn] at hc
  | some p =>
    refine ⟨p, rfl, ?_⟩
    have hs := consume_spec cfg env p
    generalize consume cfg env (some p) = o at hs hc ⊢
    cases o <;> simp [Outcome.cachedOn] at hc
    subst hc
    exact ⟨hs.2.1, hs.2.2.1, hs.2.2.2.1⟩

/-- Handshakes are started only for the destination / the gateways of its route, and only for addresses that had neither
a tunnel nor a pending handshake. -/
theorem started_are_routed (cfg : Nebula.Inside.Cfg) (env : Env κ) (p : Packet) (a : Addr)
    (ha : a ∈ (consume cfg env (some p)).started) :
    a ∈ via cfg env p.remoteAddr ∧ env.hosts a = none ∧ env.pending a = false := by
  have hs := consume_spec cfg env p
  generalize consume cfg env (some p) = o at hs ha
  cases o <;> simp only [Outcome.started, List.not_mem_nil] at ha
  · obtain ⟨h1, h2, h3⟩ := hs.2.2.2.2 a ha; exact ⟨h3, h1, h2⟩
  · obtain ⟨h1, h2, h3⟩ := hs.2.2.1.2 a ha; exact ⟨h3, h1, h2⟩
  · obtain ⟨h1, h2, h3⟩ := hs.2.1.2 a ha; exact ⟨h3, h1, h2⟩

/-- A packet addressed to one of our own addresses never leaves: nothing on the wire, nothing cached, no handshake, no
reject reply; it is written back to tun only where the platform forwards to self. -/
theorem self_never_leaves (cfg : Nebula.Inside.Cfg) (env : Env κ) (p : Packet)
    (hself : anyContains cfg.myAddrs p.remoteAddr = true) :
    (consume cfg env (some p)).wire = none ∧ (consume cfg env (some p)).cachedOn = none ∧
      (consume cfg env (some p)).started = [] ∧ (consume cfg env (some p)).rejects = false ∧
      ((consume cfg env (some p)).loops = true → cfg.fwdSelf = true) := by
  have hs := consume_spec cfg env p
  generalize consume cfg env (some p) = o at hs
  cases o <;> simp_all [OutcomeOK, Outcome.wire, Outcome.cachedOn, Outcome.started, Outcome.rejects, Outcome.loops]

/-- Only a packet to one of our own addresses is ever written back to tun. -/
theorem loop_only_to_self (cfg : Nebula.Inside.Cfg) (env : Env κ) (pkt : Option Packet)
    (hl : (consume cfg env pkt).loops = true) :
    ∃ p, pkt = some p ∧ anyContains cfg.myAddrs p.remoteAddr = true ∧ cfg.fwdSelf = true := by
  cases pkt with
  | none => simp [consume, Outcome.loops] at hl
  | some p =>
    refine ⟨p, rfl, ?_⟩
    have hs := consume_spec cfg env p
    generalize consume cfg env (some p) = o at hs hl
    cases o <;> simp [Outcome.loops] at hl
    exact hs

/-- A reject reply is produced only when `OutboundSendReject` is configured, and never together with a send or a
cached packet. -/
theorem reject_only_when_configured (cfg : Nebula.Inside.Cfg) (env : Env κ) (pkt : Option Packet)
    (hr : (consume cfg env pkt).rejects = true) :
    cfg.sendReject = true ∧ (consume cfg env pkt).wire = none ∧ (consume cfg env pkt).cachedOn = none := by
  cases pkt with
  | none => simp [consume, Outcome.rejects] at hr
  | some p =>
    have hs := consume_spec cfg env p
    generalize consume cfg env (some p) = o at hs hr ⊢
    cases o <;> simp only [Outcome.rejects, Bool.false_eq_true] at hr
    · exact ⟨by rw [← hs.2.1]; exact hr, rfl, rfl⟩
    · exact ⟨by rw [← hs.2.1]; exact hr, rfl, rfl⟩

/-- A packet that does not parse has no effect. -/
theorem unparsable_no_effect (cfg : Nebula.Inside.Cfg) (env : Env κ) :
    let o := consume cfg env none
    o.wire = none ∧ o.cachedOn = none ∧ o.started = [] ∧ o.rejects = false ∧ o.loops = false := by
  simp [consume, Outcome.wire, Outcome.cachedOn, Outcome.started, Outcome.rejects, Outcome.loops]

/-- No outcome both sends and caches the packet. -/
theorem wire_excludes_cache (o : Outcome κ) (h : κ) (hw : o.wire = some h) : o.cachedOn = none ∧ o.rejects = false ∧ o.loops = false := by
  cases o <;> simp_all [Outcome.wire, Outcome.cachedOn, Outcome.rejects, Outcome.loops]

/-! ### with the firewall of Model/Conntrack and the node's tables from its certificate -/

/-- the firewall verdict as `consumeInsidePacket` obtains it: `Drop(pkt, incoming = false, hostinfo, caPool, cache)`
for the hostinfo the handshake built from the peer's certificate. -/
def fwVerdict (my : Cert) (pool : Pool) (fw : Fw) (ct : Conntrack) (now : Nat) (cache : Cache) (certOf : κ → Cert) :
    Packet → κ → Bool :=
  fun p h => decide ((drop fw ct now cache p false (Nebula.Props.C17.peerHost my (certOf h) pool)).1 = .pass)

/-- **C17, outbound.** For every firewall of the node (any rules incl. allow-everything, any conntrack / cache content,
any time), every hostmap, pending set, route table and configuration: a packet that goes on the wire through the tunnel
of peer P has a destination that is one of P's certified addresses inside our networks or inside one of P's certified
unsafe networks, and a source that is one of our own certified addresses or inside our certified unsafe networks. -/
theorem sent_addrs_authentic (my : Cert) (pool : Pool) (fw : Fw) (hfw : fw.routable = routableOf my) (ct : Conntrack)
    (now : Nat) (cache : Cache) (certOf : κ → Cert) (cfg : Nebula.Inside.Cfg) (env : Env κ)
    (henv : env.fwPass = fwVerdict my pool fw ct now cache certOf) (pkt : Option Packet) (h : κ)
    (hw : (consume cfg env pkt).wire = some h) :
    ∃ p, pkt = some p ∧ remoteOK my (certOf h) p.remoteAddr = true ∧ localAddrOK my p.localAddr = true := by
  obtain ⟨p, hp, hpass⟩ := wire_needs_firewall_pass cfg env pkt h hw
  refine ⟨p, hp, ?_⟩
  rw [henv] at hpass
  simp only [fwVerdict, decide_eq_true_eq] at hpass
  exact Nebula.Props.C17.drop_pass_implies_addrs my (certOf h) pool fw hfw ct now cache p false hpass

/-- With the tables `newCertState` builds from our certificate, a packet that goes on the wire is not addressed to any
of our own certified addresses. -/
theorem sent_not_to_self (my : Cert) (dlb dm fwd rej : Bool) (env : Env κ) (p : Packet) (h : κ)
    (hw : (consume (cfgOfCert my dlb dm fwd rej) env (some p)).wire = some h) :
    my.networks.any (fun n => decide (n.addr = p.remoteAddr)) = false := by
  rw [← anyContains_myAddrs]
  by_cases hs : anyContains (myAddrsOf my) p.remoteAddr = true
  · have := (self_never_leaves (cfgOfCert my dlb dm fwd rej) env p hs).1
    rw [hw] at this
    cases this
  · simpa using hs

/-- `via` with the tables from our certificate: the destination itself iff it is inside one of our networks. -/
theorem via_of_cert (my : Cert) (dlb dm fwd rej : Bool) (env : Env κ) (dst : Addr) :
    via (cfgOfCert my dlb dm fwd rej) env dst
      = if my.networks.any (·.contains dst) then [dst] else (env.routes dst).map (·.1) := by
  simp only [via, cfgOfCert, Nebula.Inside.myNetsOf, Nebula.Lemmas.Fw.anyContains_myNets]

/-! ### frame: which inputs the outcome depends on -/

/-- The outcome is a function of: the configuration, the packet, the route of the destination, the hostmap and pending
entries of the destination and of that route's gateways, and the firewall verdict for this packet — nothing else. -/
theorem consume_frame (cfg : Nebula.Inside.Cfg) (e1 e2 : Env κ) (p : Packet)
    (hr : e1.routes p.remoteAddr = e2.routes p.remoteAddr)
    (hd : e1.hosts p.remoteAddr = e2.hosts p.remoteAddr ∧ e1.pending p.remoteAddr = e2.pending p.remoteAddr)
    (hg : ∀ g ∈ (e1.routes p.remoteAddr).map (·.1), e1.hosts g = e2.hosts g ∧ e1.pending g = e2.pending g)
    (hf : ∀ h, e1.fwPass p h = e2.fwPass p h) :
    consume cfg e1 (some p) = consume cfg e2 (some p) := by
  have hcr : considerRouting cfg e1 p = considerRouting cfg e2 p := by
    unfold considerRouting
    simp only [← hr]
    rw [getOrHandshake_congr e1 e2 [] p.remoteAddr hd.1 hd.2]
    split
    · rfl
    · split
      · rfl
      · rename_i g hrt
        have := hg g.1 (by rw [hrt]; simp)
        rw [getOrHandshake_congr e1 e2 [] g.1 this.1 this.2]
      · split
        · rfl
        · rename_i c hc
          have hcm := hg c (chosenGateway_mem p _ c hc)
          rw [getOrHandshake_congr e1 e2 [] c hcm.1 hcm.2]
          split
          · rfl
          · rename_i st _
            rw [fallback_congr e1 e2 c _ st hg]
  unfold consume
  simp only [hcr, hf]

/-! ### non-vacuity: every branch is taken by a concrete node -/

def exMy : Cert :=
  { name := "me", networks := [{ addr := { fam := .v4, val := 0x0a010101 }, len := 24 }],
    unsafeNetworks := [{ addr := { fam := .v4, val := 0xc0a80000 }, len := 16 }], groups := [], issuer := "ca1" }

def exCfg (fwd rej : Bool) : Nebula.Inside.Cfg := cfgOfCert exMy true true fwd rej

def a4 (v : Nat) : Addr := { fam := .v4, val := v }

/-- tunnels: 1 = 10.1.1.2, 2 = 10.1.1.5 (a gateway); pending: 10.1.1.77; route 172.16/16 via 10.1.1.99 (weight 1) and
10.1.1.5 (weight 3); the firewall lets tunnel 1 and 2 send to port 443 only. -/
def exEnv : Env Nat :=
  { hosts := fun a => if a = a4 0x0a010102 then some 1 else if a = a4 0x0a010105 then some 2 else none,
    pending := fun a => decide (a = a4 0x0a01014d),
    routes := fun a => if a.fam = .v4 ∧ a.val / 2 ^ 16 = 0xac10 then [(a4 0x0a010163, 1), (a4 0x0a010105, 3)] else [],
    fwPass := fun p _ => p.remotePort == 443 }

def pkt (dst port : Nat) : Packet :=
  { localAddr := a4 0x0a010101, remoteAddr := a4 dst, localPort := 40000, remotePort := port, proto := 6, fragment := false }

example : consume (exCfg false false) exEnv none = .dropParse := by decide
example : consume (exCfg false false) exEnv (some (pkt 0x0a0101ff 443)) = .dropBroadcast := by decide
example : consume (exCfg false false) exEnv (some (pkt 0x0a010101 443)) = .dropSelf := by decide
example : consume (exCfg true false) exEnv (some (pkt 0x0a010101 443)) = .loopback := by decide
example : consume (exCfg false false) exEnv (some (pkt 0xe0000001 443)) = .dropMulticast := by decide
example : consume (exCfg false true) exEnv (some (pkt 0x08080808 443)) = .noRoute true := by decide
example : consume (exCfg false false) exEnv (some (pkt 0x0a010102 443)) = .send 1 [] := by decide
example : consume (exCfg false true) exEnv (some (pkt 0x0a010102 80)) = .fwDrop 1 [] true := by decide
example : consume (exCfg false false) exEnv (some (pkt 0x0a01014d 443)) = .queued (a4 0x0a01014d) [] := by decide
example : consume (exCfg false false) exEnv (some (pkt 0x0a010109 443)) = .queued (a4 0x0a010109) [a4 0x0a010109] := by decide
-- behind the route: whichever gateway the balancer picks, the packet leaves through the gateway that has a tunnel, and
-- a handshake is started for the other one only if it was the balancer's choice
example : (consume (exCfg false false) exEnv (some (pkt 0xac100505 443))).wire = some 2 := by decide
example : ∀ port ∈ [1, 2, 3, 5, 8, 13, 21, 34], (consume (exCfg false false) exEnv (some
    { (pkt 0xac100505 443) with localPort := port })).wire = some 2 := by decide

end Nebula.Props.C17Inside
