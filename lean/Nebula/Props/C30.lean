/-
C30 — Tunnel teardown decisions follow the liveness policy.

"On each periodic check, a tunnel whose peer certificate is blocklisted is closed; one whose certificate is no longer
valid is closed when disconnect_invalid is on; one whose message counter is exhausted is dropped; one that saw no
inbound traffic since a test probe was sent is dropped; an idle primary tunnel is closed only when drop_inactive is on
and it has been idle at least the inactivity timeout; a tunnel that received traffic since the last check is never
removed for lack of traffic.  A re-handshake is started when the local certificate changed or the counter passed the
rekey threshold."  — for all flag combinations, counters, clocks and configurations.
-/
import Nebula.Model.ConnMgr
import Nebula.Spec.ConnMgr

namespace Nebula.Props.C30
open Nebula.ConnMgr Nebula.Spec.ConnMgr

/-- no certificate or counter clause fires: the decision is about traffic only -/
def trafficOnly (i : In) : Prop :=
  i.found = true ∧ certDemandsClose i.cert i.disconnectInvalid = false ∧ exhausted i.hasCS i.counter = false

/-- the modelled `makeTrafficDecision` takes exactly the action the policy prescribes, for every input -/
theorem decision_eq_policy (i : In) : (trafficDecision i).decision = policy i := by
  obtain ⟨found, cert, di, hasCS, counter, isMain, inT, outT, pd, dropI, idle, timeout, swap⟩ := i
  simp only [trafficDecision, policy, exhausted, inactive, isInactive, isInvalidCertificate, certDemandsClose]
  by_cases h1 : rejectAfter ≤ counter <;> by_cases h2 : idle < timeout <;>
    cases found <;> cases cert <;> simp [h1, h2] <;> grind

/-- a blocklisted peer certificate always closes the tunnel, whatever `disconnect_invalid`, traffic and counters are -/
theorem blocklisted_closes (i : In) (hf : i.found = true) (hc : i.cert = .blocklisted) :
    (trafficDecision i).decision = .closeTunnel := by
  simp [trafficDecision, hf, hc, isInvalidCertificate]

/-- a certificate that no longer verifies closes the tunnel when `disconnect_invalid` is on -/
theorem invalid_closes_when_configured (i : In) (hf : i.found = true) (hc : i.cert = .invalid)
    (hd : i.disconnectInvalid = true) : (trafficDecision i).decision = .closeTunnel := by
  simp [trafficDecision, hf, hc, hd, isInvalidCertificate]

/-- … and is treated exactly like a valid one when `disconnect_invalid` is off -/
theorem invalid_ignored_when_not_configured (i : In) (hd : i.disconnectInvalid = false) :
    trafficDecision { i with cert := .invalid } = trafficDecision { i with cert := .ok } := by
  simp [trafficDecision, hd, isInvalidCertificate]

/-- an exhausted message counter drops the tunnel (locally, no close notification) -/
theorem exhausted_deleted (i : In) (hf : i.found = true) (hc : certDemandsClose i.cert i.disconnectInvalid = false)
    (hx : exhausted i.hasCS i.counter = true) : (trafficDecision i).decision = .deleteTunnel := by
  rw [decision_eq_policy]; simp [policy, hf, hc, hx]

/-- no inbound traffic since the test probe was sent: dropped -/
theorem probe_unanswered_deleted (i : In) (h : trafficOnly i) (hin : i.inT = false) (hpd : i.pd = true) :
    (trafficDecision i).decision = .deleteTunnel := by
  obtain ⟨hf, hc, hx⟩ := h
  rw [decision_eq_policy]; simp [policy, hf, hc, hx, hin, hpd]

/-- closing for inactivity happens exactly for a primary tunnel with `drop_inactive` on that has been idle for at least
the timeout and shows no traffic in either direction and no outstanding probe -/
theorem inactivity_close_iff (i : In) (h : trafficOnly i) :
    (trafficDecision i).decision = .closeTunnel ↔
      (i.isMain = true ∧ i.hasCS = true ∧ i.dropInactive = true ∧ i.timeout ≤ i.idle ∧ i.inT = false ∧
        i.outT = false ∧ i.pd = false) := by
  obtain ⟨hf, hc, hx⟩ := h
  rw [decision_eq_policy]
  obtain ⟨found, cert, di, hasCS, counter, isMain, inT, outT, pd, dropI, idle, timeout, swap⟩ := i
  simp only at hf hc hx
  simp only [policy, hf, hc, hx, inactive]
  cases inT <;> cases pd <;> cases isMain <;> cases hasCS <;> cases dropI <;> cases outT <;> cases swap <;> simp

/-- a tunnel that received traffic since the last check is never removed for lack of traffic, and any outstanding
probe is forgotten -/
theorem inbound_never_removed (i : In) (h : trafficOnly i) (hin : i.inT = true) :
    (trafficDecision i).decision ≠ .deleteTunnel ∧ (trafficDecision i).decision ≠ .closeTunnel ∧
    (trafficDecision i).pd = false := by
  obtain ⟨hf, hc, hx⟩ := h
  obtain ⟨found, cert, di, hasCS, counter, isMain, inT, outT, pd, dropI, idle, timeout, swap⟩ := i
  simp only at hf hc hx hin
  subst hf hin
  have hc' : isInvalidCertificate cert di = false := by
    cases cert <;> cases di <;> simp_all [isInvalidCertificate, certDemandsClose]
  have hx' : (hasCS && decide (rejectAfter ≤ counter)) = false := by simpa [exhausted] using hx
  simp only [trafficDecision, hc', hx']
  cases isMain <;> cases swap <;> simp

/-- every removal has one of the causes the property lists -/
theorem removal_causes (i : In)
    (h : (trafficDecision i).decision = .deleteTunnel ∨ (trafficDecision i).decision = .closeTunnel) :
    certDemandsClose i.cert i.disconnectInvalid = true ∨ exhausted i.hasCS i.counter = true ∨
    (i.inT = false ∧ i.pd = true) ∨ inactive i = true := by
  rw [decision_eq_policy] at h
  simp only [policy] at h
  by_cases hf : i.found = true <;> by_cases hc : certDemandsClose i.cert i.disconnectInvalid = true <;>
    by_cases hx : exhausted i.hasCS i.counter = true <;> by_cases hin : i.inT = true <;>
    by_cases hpd : i.pd = true <;> by_cases hia : inactive i = true <;> simp_all <;> grind

/-- after any earlier history (`pd0` arbitrary), a tunnel is dropped for lack of traffic only after two consecutive
checks that saw no inbound traffic (the probe goes out at the first) -/
theorem delete_needs_two_silent_checks (pd0 : Bool) (i j : In) (hi : trafficOnly i) (hj : trafficOnly j)
    (hd : (trafficDecision { j with pd := (trafficDecision { i with pd := pd0 }).pd }).decision = .deleteTunnel)
    (hnew : pd0 = false) : i.inT = false ∧ j.inT = false := by
  obtain ⟨hf, hc, hx⟩ := hi
  obtain ⟨hf2, hc2, hx2⟩ := hj
  have hi' : trafficOnly { i with pd := pd0 } := ⟨hf, hc, hx⟩
  constructor
  · by_cases h : i.inT = true
    · have := (inbound_never_removed { i with pd := pd0 } hi' h).2.2
      rw [this, decision_eq_policy] at hd
      simp only [policy, hf2, hc2, hx2] at hd
      revert hd
      cases j.inT <;> cases j.isMain <;> cases j.swap <;> simp <;> grind
    · simpa using h
  · by_cases h : j.inT = true
    · have hj' : trafficOnly { j with pd := (trafficDecision { i with pd := pd0 }).pd } := ⟨hf2, hc2, hx2⟩
      exact absurd hd (inbound_never_removed _ hj' h).1
    · simpa using h

/-- `tryRehandshake` starts a handshake exactly for the listed causes -/
theorem rehandshake_iff (present peerHigher haveHigher sigEqual belowInitiating : Bool) (counter : Nat) :
    rehandshakes present peerHigher haveHigher sigEqual belowInitiating counter =
      rehandshakeDue present peerHigher haveHigher sigEqual belowInitiating counter := by
  by_cases h : rehandshakeAfter ≤ counter <;>
    cases present <;> cases peerHigher <;> cases haveHigher <;> cases sigEqual <;> cases belowInitiating <;>
    simp [rehandshakes, rehandshakeDue, h]

/-- the local certificate changed (or was removed) ⇒ re-handshake -/
theorem rehandshake_on_cert_change (present peerHigher haveHigher sigEqual belowInitiating : Bool) (counter : Nat)
    (h : present = false ∨ sigEqual = false) :
    rehandshakes present peerHigher haveHigher sigEqual belowInitiating counter = true := by
  rw [rehandshake_iff]; rcases h with h | h <;> simp [rehandshakeDue, h]

/-- the counter passed the rekey threshold ⇒ re-handshake -/
theorem rehandshake_on_counter (present peerHigher haveHigher sigEqual belowInitiating : Bool) (counter : Nat)
    (h : rehandshakeAfter ≤ counter) :
    rehandshakes present peerHigher haveHigher sigEqual belowInitiating counter = true := by
  rw [rehandshake_iff]; simp [rehandshakeDue, h]

/-- a peer on a higher certificate version that we hold no certificate for changes nothing: the remaining causes (local
certificate changed, initiating version, rekey threshold) are still examined (the early-return variant of this branch
is the reviewer seed C30-2) -/
theorem mixed_versions_without_upgrade_fall_through (present sigEqual belowInitiating : Bool) (counter : Nat) :
    rehandshakes present true false sigEqual belowInitiating counter =
      rehandshakes present false false sigEqual belowInitiating counter := by
  simp [rehandshakes]

/-- nothing else does: same certificate, versions in order, counter below the threshold ⇒ no re-handshake -/
theorem no_spurious_rehandshake (peerHigher haveHigher : Bool) (counter : Nat) (hv : (peerHigher && haveHigher) = false)
    (h : counter < rehandshakeAfter) : rehandshakes true peerHigher haveHigher true false counter = false := by
  rw [rehandshake_iff]; simp [rehandshakeDue, hv]; omega

/-- the primary is never swapped back onto a tunnel whose key is being rolled for counter exhaustion, and only the
side with the larger address swaps -/
theorem swap_guards (addrLess : Bool) (counter : Nat) (present sigEqual : Bool)
    (h : shouldSwapPrimary addrLess counter present sigEqual = true) :
    addrLess = false ∧ counter < rehandshakeAfter ∧ (present = false ∨ sigEqual = true) := by
  by_cases hc : rehandshakeAfter ≤ counter <;> cases addrLess <;> cases present <;> cases sigEqual <;>
    simp_all [shouldSwapPrimary] <;> omega

/-- the rekey threshold lies below the reject ceiling (the tunnel is rolled before it is dropped) -/
theorem rekey_before_reject : rehandshakeAfter < rejectAfter := by decide

-- non-vacuity: inputs satisfying the hypotheses above, with the expected decisions
example : trafficOnly ⟨true, .ok, false, true, 5, true, false, false, true, false, 0, 0, false⟩ := by
  refine ⟨rfl, by decide, by decide⟩
example : (trafficDecision ⟨true, .ok, false, true, 5, true, false, false, true, false, 0, 0, false⟩).decision
    = .deleteTunnel := by decide
example : (trafficDecision ⟨true, .ok, false, true, 5, true, false, false, false, true, 600, 600, false⟩).decision
    = .closeTunnel := by decide
example : (trafficDecision ⟨true, .ok, false, true, 5, true, false, false, false, true, 599, 600, false⟩).decision
    = .doNothing := by decide
example : (trafficDecision ⟨true, .invalid, false, true, 5, true, false, true, false, true, 599, 600, false⟩).decision
    = .sendTestPacket := by decide
example : (trafficDecision ⟨true, .ok, false, true, rejectAfter, true, true, true, false, false, 0, 0, false⟩).decision
    = .deleteTunnel := by decide
example : (trafficDecision ⟨true, .ok, false, true, rejectAfter - 1, false, true, true, false, false, 0, 0, true⟩).decision
    = .swapPrimary := by decide
example : rehandshakes true false false true false (rehandshakeAfter - 1) = false := by decide
example : shouldSwapPrimary false 0 true true = true := by decide

end Nebula.Props.C30
