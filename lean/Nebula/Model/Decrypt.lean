/-
Model of the receive-side replay discipline (C12): `ConnectionState.Decrypt` and
`ConnectionState.VerifyRelay` (connection_state.go). Both run the same three-step program on the
tunnel's window (`Model/Bits.lean`):

    decryptLock.Lock(); ok := window.Check(ctr);  decryptLock.Unlock();  if !ok → ErrAlreadySeen
    dKey.DecryptDanger(…, ctr, …)                                         if err → return err
    decryptLock.Lock(); ok := window.Update(ctr); decryptLock.Unlock();  if !ok → ErrAlreadySeen
    return plaintext                      -- only now does the caller act on / deliver the packet

The two locked regions are atomic steps (translator facts `bits.Decrypt.calls`, `bits.VerifyRelay.calls`);
the AEAD open touches no shared state and is an oracle `authOK` of the packet. A concurrent execution
is a list of thread identifiers: each occurrence lets that thread (goroutine handling one received
packet) perform its next step. Thread identifiers are arbitrary naturals and a finished thread's
further occurrences are no-ops, so *every* list is a schedule; the packet table `pk` is arbitrary
(any counters, duplicates and replays included, authentic or forged).
-/
import Nebula.Model.Bits

namespace Nebula.Decrypt
open Nebula.Bits

/-- what the replay logic sees of a received packet -/
structure Pkt where
  /-- message counter in the (authenticated) header -/
  ctr : U64
  /-- does the AEAD open under the tunnel key and this counter succeed? -/
  authOK : Bool

inductive PC where
  | start | checked | opened | done
  deriving DecidableEq, Repr

/-- result of one atomic step (observable in the harness) -/
inductive StepResult where
  | noop | checkOK | checkSeen | authOK | authFail | delivered | updateSeen
  deriving DecidableEq, Repr

structure State where
  window : Bits
  pc : Nat → PC
  /-- (thread, counter) of every packet handed to the caller, most recent first -/
  delivered : List (Nat × U64)
  /-- ghost: counters passed to `window.Update` so far, most recent first -/
  hist : List U64

def init (b : Bits) : State := { window := b, pc := fun _ => .start, delivered := [], hist := [] }

def setPC (s : State) (t : Nat) (p : PC) : Nat → PC := fun t' => if t' = t then p else s.pc t'

def step (pk : Nat → Pkt) (s : State) (t : Nat) : State × StepResult :=
  let p := pk t
  match s.pc t with
  | .start =>
    if check s.window p.ctr then ({ s with pc := setPC s t .checked }, .checkOK)
    else ({ s with pc := setPC s t .done }, .checkSeen)
  | .checked =>
    if p.authOK then ({ s with pc := setPC s t .opened }, .authOK)
    else ({ s with pc := setPC s t .done }, .authFail)
  | .opened =>
    let r := update s.window p.ctr
    if r.2 then
      ({ window := r.1, pc := setPC s t .done, delivered := (t, p.ctr) :: s.delivered, hist := p.ctr :: s.hist }, .delivered)
    else
      ({ s with window := r.1, pc := setPC s t .done, hist := p.ctr :: s.hist }, .updateSeen)
  | .done => (s, .noop)

def run (pk : Nat → Pkt) (s : State) (sched : List Nat) : State :=
  sched.foldl (fun s t => (step pk s t).1) s

/-- sequential history of `Update` calls on one window (most recent first): final window and the
accepted counters (most recent first) -/
def feed (b0 : Bits) : List U64 → Bits × List U64
  | [] => (b0, [])
  | c :: h =>
    let r := feed b0 h
    let u := update r.1 c
    (u.1, if u.2 then c :: r.2 else r.2)

end Nebula.Decrypt
