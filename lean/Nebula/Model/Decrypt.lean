/-
Model of the receive-side replay discipline (C12): `ConnectionState.Decrypt`, `ConnectionState.VerifyRelay`
(connection_state.go) and the dispatch of `readOutsidePackets` / `handleOutsideRelayPacket` (outside.go)
as far as replay protection is concerned.

`Decrypt` and `VerifyRelay` run the same three-step program on the window of the tunnel the packet
arrived on (`Model/Bits.lean`):

    decryptLock.Lock(); ok := window.Check(ctr);  decryptLock.Unlock();  if !ok → ErrAlreadySeen
    dKey.DecryptDanger(…, ctr, …)                                         if err → return err
    decryptLock.Lock(); ok := window.Update(ctr); decryptLock.Unlock();  if !ok → ErrAlreadySeen
    return                                 -- only now does the caller act on the packet

A received UDP packet is a list of *layers*, outermost first:
  * a direct packet: one layer (`Decrypt` on its tunnel), then the handlers of `readOutsidePackets`;
  * a relay packet at a forwarding relay: one layer (`VerifyRelay` on the tunnel to the sender), then
    `handleOutsideRelayPacket` forwards it;
  * a relay packet at the terminal peer: two layers — `VerifyRelay` on the relay tunnel's window, then
    `handleOutsideRelayPacket` calls `readOutsidePackets` again on the carried packet, which runs
    `Decrypt` on the end-to-end tunnel's window.
A layer is *acted upon* when its `Update` succeeds; only then does the thread go on to the next layer.

The locked regions are atomic steps (translator facts `bits.Decrypt.calls`, `bits.VerifyRelay.calls`,
`decrypt.readOutsidePackets.calls`); the AEAD open touches no shared state and is an oracle `authOK`
of the layer. A concurrent execution is a list of thread identifiers: each occurrence lets that thread
(goroutine handling one received UDP packet) perform its next step. Thread identifiers and tunnel
identifiers are arbitrary naturals and a finished thread's further occurrences are no-ops, so *every*
list is a schedule; the packet table `pk` is arbitrary (any nesting depth, any counters, duplicates and
replays included, authentic or forged).
-/
import Nebula.Model.Bits

namespace Nebula.Decrypt
open Nebula.Bits

/-- what the replay logic sees of one layer of a received packet -/
structure Layer where
  /-- the tunnel (ConnectionState) whose window and key this layer is checked against -/
  tunnel : Nat
  /-- message counter in the (authenticated) header -/
  ctr : U64
  /-- does the AEAD open under that tunnel's key and this counter succeed? -/
  authOK : Bool

abbrev Pkt := List Layer

inductive PC where
  | start | checked | opened
  deriving DecidableEq, Repr

/-- result of one atomic step (observable in the harness) -/
inductive StepResult where
  | noop | checkOK | checkSeen | authOK | authFail | delivered | updateSeen
  deriving DecidableEq, Repr

structure State where
  /-- replay window of every tunnel -/
  win : Nat → Bits
  /-- per thread: index of the layer being processed and position inside its program -/
  pc : Nat → Nat × PC
  /-- (thread, tunnel, counter) of every layer acted upon, most recent first -/
  delivered : List (Nat × Nat × U64)
  /-- ghost: per tunnel, the counters passed to `window.Update` so far, most recent first -/
  hist : Nat → List U64

def init (b0 : Nat → Bits) : State :=
  { win := b0, pc := fun _ => (0, .start), delivered := [], hist := fun _ => [] }

def setPC (s : State) (t : Nat) (p : Nat × PC) : Nat → Nat × PC := fun t' => if t' = t then p else s.pc t'

def step (pk : Nat → Pkt) (s : State) (t : Nat) : State × StepResult :=
  match (pk t)[(s.pc t).1]? with
  | none => (s, .noop)                    -- all layers done, or the packet was dropped
  | some ly =>
    let li := (s.pc t).1
    let drop : Nat × PC := ((pk t).length, .start)
    match (s.pc t).2 with
    | .start =>
      if check (s.win ly.tunnel) ly.ctr then ({ s with pc := setPC s t (li, .checked) }, .checkOK)
      else ({ s with pc := setPC s t drop }, .checkSeen)
    | .checked =>
      if ly.authOK then ({ s with pc := setPC s t (li, .opened) }, .authOK)
      else ({ s with pc := setPC s t drop }, .authFail)
    | .opened =>
      let r := update (s.win ly.tunnel) ly.ctr
      let win' : Nat → Bits := fun T => if T = ly.tunnel then r.1 else s.win T
      let hist' : Nat → List U64 := fun T => if T = ly.tunnel then ly.ctr :: s.hist T else s.hist T
      if r.2 then
        ({ win := win', pc := setPC s t (li + 1, .start),
           delivered := (t, ly.tunnel, ly.ctr) :: s.delivered, hist := hist' }, .delivered)
      else
        ({ s with win := win', hist := hist', pc := setPC s t drop }, .updateSeen)

def run (pk : Nat → Pkt) (s : State) (sched : List Nat) : State :=
  sched.foldl (fun s t => (step pk s t).1) s

/-- the counters acted upon on tunnel `T`, most recent first -/
def onTunnel (T : Nat) (l : List (Nat × Nat × U64)) : List U64 :=
  l.filterMap (fun e => if e.2.1 = T then some e.2.2 else none)

/-- sequential history of `Update` calls on one window (most recent first): final window and the
accepted counters (most recent first) -/
def feed (b0 : Bits) : List U64 → Bits × List U64
  | [] => (b0, [])
  | c :: h =>
    let r := feed b0 h
    let u := update r.1 c
    (u.1, if u.2 then c :: r.2 else r.2)

end Nebula.Decrypt
