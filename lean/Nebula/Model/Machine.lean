/-
Model of `handshake/machine.go`: `Machine.Initiate`, `ProcessPacket`, `processPayload`,
`validateCert`, `marshalOutgoing`, `buildResponse`, `requireComplete`, `completed`, line by line,
over *oracle answers* for everything the Machine delegates:

* flynn/noise `ReadMessage` / `WriteMessage` (`ReadOut`, `WriteOut`): success or error, the decrypted
  message, whether cipher states were returned, `PeerStatic()`, and whether a failed read left the
  transcript hash (`ChannelBinding()`) changed;
* `cert.Recombine` and the caller's `CertVerifier` (`CertOut`);
* the caller's `IndexAllocator` and `GetCredentialFunc` (`Cfg`);
* `time.Now()`.

The payload decoder is the model of C08 (`Model/Payload`).  Nothing cryptographic is modelled here.
-/
import Nebula.Model.Payload
import Nebula.Gen.Header

namespace Nebula.Machine
open Nebula.Wire

/-- `msgFlags`. -/
structure MsgFlags where
  expectsPayload : Bool
  expectsCert : Bool
  deriving DecidableEq, Repr

/-- What a Machine is constructed with. -/
structure Cfg where
  initiator : Bool
  subtype : Nat                 -- header.MessageSubType this machine was built for
  msgs : List MsgFlags          -- subtypeInfo.msgs
  haveCred : Nat → Bool         -- getCred(v) != nil
  credVersion : Nat → Nat       -- uint32(cred.Cert.Version()) for an available credential
  alloc : Option Nat            -- what the IndexAllocator returns (`none` = error)

/-- IX: two messages, both carry payload and certificate (`patterns.go`). -/
def ixMsgs : List MsgFlags := [⟨true, true⟩, ⟨true, true⟩]

/-- A verified certificate as returned by the `CertVerifier` (an opaque identity label here). -/
abbrev CertId := String

/-- Which of the two cipher states returned by noise (`cs1` = initiator→responder). -/
inductive KeyId | cs1 | cs2
  deriving DecidableEq, Repr

/-- `handshake.Result`. -/
structure Result where
  eKey : KeyId
  dKey : KeyId
  remoteCert : Option CertId
  remoteKey : Bytes             -- RemoteCert.Certificate.PublicKey()
  remoteIndex : Nat
  localIndex : Nat
  handshakeTime : Nat
  messageIndex : Nat
  initiator : Bool
  deriving DecidableEq, Repr

/-- The mutable fields of `Machine` (+ `hs.MessageIndex()`, which the Machine reads back). -/
structure St where
  msgIdx : Nat := 0
  failed : Bool := false
  payloadSet : Bool := false
  remoteCertSet : Bool := false
  indexAllocated : Bool := false
  myVersion : Nat
  remoteIndex : Nat := 0
  localIndex : Nat := 0
  handshakeTime : Nat := 0
  remoteCert : Option CertId := none
  remoteKey : Bytes := []       -- public key of the recombined certificate the verifier accepted
  deriving DecidableEq, Repr

inductive Err
  | machineFailed | packetTooShort | subtypeMismatch | initiateNotCalled | noiseRead
  | missingContent | unmarshal | unexpectedContent | invalidRemoteIndex | noCredential
  | recombine | publicKeyMismatch | verify | asymmetricKeys | incomplete | indexAllocation
  | noiseWrite | initiateOnResponder | initiateAlreadyCalled
  deriving DecidableEq, Repr

/-- Answer of `hs.ReadMessage(nil, packet[header.Len:])`. -/
inductive ReadOut
  | err (mutated : Bool)      -- error; `mutated`: `ChannelBinding()` differs from before the call
  | ok (msg : Bytes) (k1 k2 : Bool) (peerStatic : Bytes)
  deriving DecidableEq, Repr

/-- Answers of `cert.Recombine` (`none` = error; else `PublicKey()`, `Version()`) and of the
verifier on the recombined certificate (`none` = error). -/
structure CertOut where
  recombine : Option (Bytes × Nat)
  verify : Option CertId
  deriving DecidableEq, Repr

/-- Answer of `hs.WriteMessage`. -/
inductive WriteOut
  | err | ok (k1 k2 : Bool)
  deriving DecidableEq, Repr

/-- What was put into an outgoing message (`marshalOutgoing`). -/
structure Sent where
  initiatorIndex : Nat
  responderIndex : Nat
  time : Nat
  hasCert : Bool
  certVersion : Nat
  headerRemoteIndex : Nat
  headerCounter : Nat
  deriving DecidableEq, Repr

inductive Outcome
  | err (e : Err)
  | ok (sent : Option Sent) (result : Option Result)
  deriving DecidableEq, Repr

def flagsAt (msgs : List MsgFlags) (idx : Nat) : MsgFlags := msgs.getD idx ⟨false, false⟩

/-- `myMsgFlags`. -/
def myMsgFlags (c : Cfg) (s : St) : MsgFlags := flagsAt c.msgs s.msgIdx

/-- `peerMsgFlags` (`idx := MessageIndex() - 1`, `idx >= 0`). -/
def peerMsgFlags (c : Cfg) (s : St) : MsgFlags :=
  if s.msgIdx = 0 then ⟨false, false⟩ else flagsAt c.msgs (s.msgIdx - 1)

def fail (s : St) : St := { s with failed := true }

/-- `requireComplete`. -/
def requireComplete (s : St) : St × Option Err :=
  if !s.payloadSet || !s.remoteCertSet then (fail s, some .incomplete) else (s, none)

/-- `validateCert`. -/
def validateCert (c : Cfg) (s : St) (peerStatic : Bytes) (co : CertOut) : St × Option Err :=
  if !c.haveCred s.myVersion then (fail s, some .noCredential) else
  match co.recombine with
  | none => (fail s, some .recombine)
  | some (pub, ver) =>
    if pub ≠ peerStatic then (fail s, some .publicKeyMismatch) else
    let s := if ver ≠ s.myVersion ∧ c.haveCred ver then { s with myVersion := ver } else s
    match co.verify with
    | none => (fail s, some .verify)
    | some v => ({ s with remoteCert := some v, remoteKey := pub, remoteCertSet := true }, none)

/-- The "Process payload" block of `processPayload`. -/
def processIndex (c : Cfg) (s : St) (p : Payload.Payload) (flags : MsgFlags) : St × Option Err :=
  if flags.expectsPayload then
    let remoteIndex := if c.initiator then p.responderIndex else p.initiatorIndex
    if remoteIndex = 0 then (fail s, some .invalidRemoteIndex) else
    ({ s with remoteIndex := remoteIndex, handshakeTime := p.time, payloadSet := true }, none)
  else (s, none)

/-- `processPayload`. -/
def processPayload (c : Cfg) (s : St) (msg : Bytes) (flags : MsgFlags) (peerStatic : Bytes) (co : CertOut) :
    St × Option Err :=
  if msg.length = 0 then
    (if flags.expectsPayload || flags.expectsCert then (fail s, some .missingContent) else (s, none))
  else
  match Payload.unmarshalPayload msg with
  | .ok p =>
    let hasPayloadData := p.initiatorIndex ≠ 0 || p.responderIndex ≠ 0 || p.time ≠ 0
    if hasPayloadData ≠ flags.expectsPayload then (fail s, some .unexpectedContent) else
    let hasCertData := p.cert.length > 0
    if hasCertData ≠ flags.expectsCert then (fail s, some .unexpectedContent) else
    match processIndex c s p flags with
    | (s, some e) => (s, some e)
    | (s, none) =>
      if flags.expectsCert then validateCert c s peerStatic co else (s, none)
  | _ => (fail s, some .unmarshal)

/-- `marshalOutgoing`: returns the updated state and what is sent (`none` = nothing to send). -/
def marshalOutgoing (c : Cfg) (s : St) (flags : MsgFlags) (now : Nat) : Except Err (St × Option Sent) :=
  if !flags.expectsPayload && !flags.expectsCert then .ok (s, none) else
  let r : Except Err St :=
    if flags.expectsPayload then
      if !s.indexAllocated then
        match c.alloc with
        | none => .error .indexAllocation
        | some i => .ok { s with localIndex := i, indexAllocated := true }
      else .ok s
    else .ok s
  match r with
  | .error e => .error e
  | .ok s =>
    let ii := if flags.expectsPayload then (if c.initiator then s.localIndex else s.remoteIndex) else 0
    let ri := if flags.expectsPayload then (if c.initiator then 0 else s.localIndex) else 0
    let tm := if flags.expectsPayload then now else 0
    if flags.expectsCert then
      if !c.haveCred s.myVersion then .error .noCredential else
      .ok (s, some ⟨ii, ri, tm, true, c.credVersion s.myVersion, 0, 0⟩)
    else .ok (s, some ⟨ii, ri, tm, false, 0, 0, 0⟩)

/-- `buildResponse`: marshal, header (`RemoteIndex`, counter `MessageIndex()+1`), `WriteMessage`.
Returns state, what was sent, and the (dKey, eKey) = (cs1, cs2) presence flags. -/
def buildResponse (c : Cfg) (s : St) (now : Nat) (wr : WriteOut) :
    Except Err (St × Sent × Bool × Bool) :=
  match marshalOutgoing c s (myMsgFlags c s) now with
  | .error e => .error e
  | .ok (s, sent) =>
    let sent : Sent := match sent with
      | some x => x
      | none => ⟨0, 0, 0, false, 0, 0, 0⟩
    let sent := { sent with headerRemoteIndex := s.remoteIndex, headerCounter := s.msgIdx + 1 }
    match wr with
    | .err => .error .noiseWrite
    | .ok k1 k2 => .ok ({ s with msgIdx := s.msgIdx + 1 }, sent, k1, k2)

/-- `completed(eKey, dKey)`. -/
def completed (c : Cfg) (s : St) (eKey dKey : KeyId) : Result :=
  { eKey := eKey, dKey := dKey, remoteCert := s.remoteCert, remoteKey := s.remoteKey, remoteIndex := s.remoteIndex,
    localIndex := s.localIndex, handshakeTime := s.handshakeTime, messageIndex := s.msgIdx,
    initiator := c.initiator }

/-- `Initiate`. -/
def initiate (c : Cfg) (s : St) (now : Nat) (wr : WriteOut) : St × Outcome :=
  if s.failed then (s, .err .machineFailed) else
  if !c.initiator then (fail s, .err .initiateOnResponder) else
  if s.msgIdx ≠ 0 then (fail s, .err .initiateAlreadyCalled) else
  match buildResponse c s now wr with
  | .error e => (fail s, .err e)
  | .ok (s, sent, _, _) => (s, .ok (some sent) none)

/-- `ProcessPacket`. `pktLen = len(packet)`, `pktSubtype = packet[1]`.
`failOnMutated`: the repaired code (F09) compares `ChannelBinding()` before and after a failed
`ReadMessage` and marks the Machine failed when it changed; `false` is the code before the repair. -/
def processPacketG (failOnMutated : Bool) (c : Cfg) (s : St) (pktLen pktSubtype : Nat) (rd : ReadOut)
    (co : CertOut) (now : Nat) (wr : WriteOut) : St × Outcome :=
  if s.failed then (s, .err .machineFailed) else
  if pktLen < Gen.header_Len then (s, .err .packetTooShort) else
  if pktSubtype ≠ c.subtype then (s, .err .subtypeMismatch) else
  if c.initiator ∧ s.msgIdx = 0 then (fail s, .err .initiateNotCalled) else
  match rd with
  | .err mutated => (if failOnMutated && mutated then fail s else s, .err .noiseRead)
  | .ok msg k1 k2 peerStatic =>
    let s := { s with msgIdx := s.msgIdx + 1 }
    match processPayload c s msg (peerMsgFlags c s) peerStatic co with
    | (s, some e) => (s, .err e)
    | (s, none) =>
      -- `eKey, dKey := cs1, cs2` of ReadMessage
      if k1 || k2 then
        if !k1 || !k2 then (fail s, .err .asymmetricKeys) else
        match requireComplete s with
        | (s, some e) => (s, .err e)
        | (s, none) => (s, .ok none (some (completed c s .cs1 .cs2)))
      else
      match buildResponse c s now wr with
      | .error e => (fail s, .err e)
      | .ok (s, sent, dk, ek) =>
        -- `out, dKey, eKey := WriteMessage`: cs1 is the decrypt key, cs2 the encrypt key
        if ek || dk then
          if !ek || !dk then (fail s, .err .asymmetricKeys) else
          match requireComplete s with
          | (s, some e) => (s, .err e)
          | (s, none) => (s, .ok (some sent) (some (completed c s .cs2 .cs1)))
        else (s, .ok (some sent) none)

/-- `ProcessPacket` of the current tree. -/
def processPacket := processPacketG true

/-- Did `ProcessPacket` hand the packet to the noise library (all pre-checks passed)? -/
def reachesNoise (c : Cfg) (s : St) (pktLen pktSubtype : Nat) : Bool :=
  !s.failed && decide (Gen.header_Len ≤ pktLen) && decide (pktSubtype = c.subtype) &&
  !(c.initiator && decide (s.msgIdx = 0))

end Nebula.Machine
