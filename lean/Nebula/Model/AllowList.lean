/-
Executable model of allow_list.go (C38), following the Go code statement by statement:
`newAllowList` (per-family bookkeeping, implicit default, refusal of mixed lists without default),
`getAllowListInterfaces`, `getRemoteAllowRanges`, `AllowList.Allow`, `LocalAllowList.Allow/AllowName`,
`RemoteAllowList.AllowUnknownVpnAddr/Allow/AllowAll/getInsideAllowList`.
`bart.Table` is specified by `Nebula.Net.lpm` over an insertion-built association list (`tinsert`).
Go map iteration order is the order of the entry list (an arbitrary permutation parameter).
Core Lean only.
-/
import Nebula.Base.Net

namespace Nebula.AllowList
open Nebula.Net

abbrev Table (α : Type) := List (Prefix × α)

/-- `netip.Prefix.IsValid` (bart ignores invalid prefixes). -/
def pfxValid (p : Prefix) : Bool := decide (p.len ≤ p.addr.fam.bits)

/-- two prefixes denote the same network (`p.Masked() == q.Masked()`). -/
def samePfx (p q : Prefix) : Bool :=
  p.addr.fam == q.addr.fam && p.len == q.len &&
    topBits p.addr.fam p.addr.val p.len == topBits p.addr.fam q.addr.val p.len

/-- `bart.Table.Insert`: invalid prefixes are ignored, an existing entry for the same network is replaced. -/
def tinsert {α : Type} (t : Table α) (p : Prefix) (v : α) : Table α :=
  if pfxValid p then t.filter (fun e => !samePfx e.1 p) ++ [(p, v)] else t

/-- `unmapPrefix` (allow_list.go): a prefix inside ::ffff:0:0/96 becomes the IPv4 prefix it denotes. -/
def unmapPrefix (p : Prefix) : Prefix :=
  if p.addr.is4in6 && decide (96 ≤ p.len) then { addr := p.addr.unmap, len := p.len - 96 } else p

/-- the `allowListRules` bookkeeping struct of `newAllowList`. -/
structure Rules where
  firstValue : Bool := true
  allValuesMatch : Bool := true
  defaultSet : Bool := false
  allValues : Bool := false
  deriving Repr, DecidableEq

/-- One raw map entry: `key = none` when `netip.ParsePrefix` fails, `val = none` when `config.AsBool` fails. -/
structure Entry where
  key : Option Prefix
  val : Option Bool
  deriving Repr, DecidableEq

inductive Err where
  | type | value | cidr | mixed4 | mixed6 | mixednames | regex
  deriving Repr, DecidableEq

def Err.show : Err → String
  | .type => "err:type" | .value => "err:value" | .cidr => "err:cidr" | .mixed4 => "err:mixed4"
  | .mixed6 => "err:mixed6" | .mixednames => "err:mixednames" | .regex => "err:regex"

/-- body of the bookkeeping part of the loop for one rule struct. -/
def Rules.step (r : Rules) (value : Bool) (maskBits : Nat) : Rules :=
  let r := if r.firstValue then { r with allValues := value, firstValue := false }
           else if value != r.allValues then { r with allValuesMatch := false } else r
  if maskBits == 0 then { r with defaultSet := true } else r

structure St where
  tree : Table Bool := []
  r4 : Rules := {}
  r6 : Rules := {}
  deriving Repr

/-- one iteration of `for rawCIDR, rawValue := range rawMap` (after the `handleKey` hook). -/
def loopStep (s : St) (e : Entry) : Except Err St :=
  match e.val with
  | none => .error .value
  | some value =>
    match e.key with
    | none => .error .cidr
    | some p =>
      let ipNet := unmapPrefix p
      let tree := tinsert s.tree ipNet value
      if ipNet.addr.is4 then .ok { s with tree := tree, r4 := s.r4.step value ipNet.len }
      else .ok { s with tree := tree, r6 := s.r6.step value ipNet.len }

def loop : St → List Entry → Except Err St
  | s, [] => .ok s
  | s, e :: es =>
    match loopStep s e with
    | .error x => .error x
    | .ok s' => loop s' es

def default4 : Prefix := { addr := { fam := .v4, val := 0 }, len := 0 }
def default6 : Prefix := { addr := { fam := .v6, val := 0 }, len := 0 }

/-- the two `if !rulesN.defaultSet` blocks after the loop. -/
def finish (s : St) : Except Err (Table Bool) :=
  let r4 : Except Err (Table Bool) :=
    if !s.r4.defaultSet then
      if s.r4.allValuesMatch then .ok (tinsert s.tree default4 (!s.r4.allValues)) else .error .mixed4
    else .ok s.tree
  match r4 with
  | .error x => .error x
  | .ok t =>
    if !s.r6.defaultSet then
      if s.r6.allValuesMatch then .ok (tinsert t default6 (!s.r6.allValues)) else .error .mixed6
    else .ok t

/-- `newAllowList` for a raw value that is a map (entries in iteration order). -/
def newAllowList (es : List Entry) : Except Err (Table Bool) :=
  match loop {} es with
  | .error x => .error x
  | .ok s => finish s

/-- `(*AllowList).Allow`; `none` is the nil pointer. The lookup address is unmapped first. -/
def allow (al : Option (Table Bool)) (a : Addr) : Bool :=
  match al with
  | none => true
  | some t => (lpm t a.unmap).getD false

/-! ### interface name rules -/

/-- A compiled name rule: the pattern as a predicate on names, and the value. -/
structure NameRule (Name : Type) where
  pat : Name → Bool
  allow : Bool

/-- `LocalAllowList.AllowName` (`al == nil` is handled by the caller: `rules = []`). -/
def allowName {Name : Type} (rules : List (NameRule Name)) (name : Name) : Bool :=
  match rules with
  | [] => true
  | r0 :: _ =>
    match rules.find? (fun r => r.pat name) with
    | some r => r.allow
    | none => !r0.allow

/-- the uniformity check of `getAllowListInterfaces` over the entries in iteration order:
`none` = "values must all be the same". -/
def namesUniform : List Bool → Bool
  | [] => true
  | v :: vs => vs.all (· == v)

/-! ### remote allow lists -/

structure Remote where
  allowList : Option (Table Bool)
  /-- `insideAllowLists`; `none` = nil table -/
  inside : Option (Table (Option (Table Bool)))

/-- `getInsideAllowList`: `none` = nil *AllowList. The overlay address is unmapped first. -/
def Remote.getInside (r : Remote) (vpn : Addr) : Option (Table Bool) :=
  match r.inside with
  | none => none
  | some t =>
    match lpm t vpn.unmap with
    | some inside => inside
    | none => none

def Remote.allowUnknownVpnAddr (r : Remote) (vpn : Addr) : Bool := allow r.allowList vpn

def Remote.allow (r : Remote) (vpn udp : Addr) : Bool :=
  if !AllowList.allow (r.getInside vpn) udp then false else AllowList.allow r.allowList udp

def Remote.allowAll (r : Remote) (vpns : List Addr) (udp : Addr) : Bool :=
  if !AllowList.allow r.allowList udp then false
  else vpns.all (fun v => AllowList.allow (r.getInside v) udp)

/-- One entry of the `remote_allow_ranges` map: key (none = unparsable CIDR) and the raw nested list
(`none` = not a map). -/
structure RangeEntry where
  key : Option Prefix
  list : Option (List Entry)
  deriving DecidableEq

/-- `getRemoteAllowRanges` loop (entries in iteration order). -/
def rangesLoop : Table (Option (Table Bool)) → List RangeEntry → Except Err (Table (Option (Table Bool)))
  | t, [] => .ok t
  | t, e :: es =>
    match e.list with
    | none => .error .type
    | some l =>
      match newAllowList l with
      | .error x => .error x
      | .ok al =>
        match e.key with
        | none => .error .cidr
        | some p => rangesLoop (tinsert t (unmapPrefix p) (some al)) es

end Nebula.AllowList

namespace Nebula.AllowList

/-- `getAllowListInterfaces` loop: per entry `config.AsBool`, `regexp.Compile`, then the uniformity check.
`compiles = false` stands for a pattern `regexp.Compile` refuses. Returns the values in iteration order. -/
def namesLoop : Option Bool → List (Bool × Option Bool) → Except Err Unit
  | _, [] => .ok ()
  | first, (compiles, v) :: rest =>
    match v with
    | none => .error .value
    | some allow =>
      if !compiles then .error .regex else
      match first with
      | none => namesLoop (some allow) rest
      | some av => if allow != av then .error .mixednames else namesLoop first rest

end Nebula.AllowList
