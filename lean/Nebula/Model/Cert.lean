/-
Shared certificate record for the `cert` engines (C01–C04, C42): the fields the `cert.Certificate`
interface exposes (cert/cert.go), with Go `string`s that carry arbitrary bytes (`name`, `groups`) as byte
lists, fingerprints / issuer as the hex `String`s the Go code compares, and `time.Time` as an integer
number of nanoseconds since the Unix epoch (faithful to `Before`/`After` as long as the Go wall clock
arithmetic does not wrap, i.e. |unix seconds| < 2^62). Core Lean only.
-/
import Nebula.Base.Net
import Nebula.Gen.Cert

namespace Nebula.Cert
open Nebula.Net

abbrev Bytes := List UInt8

instance instDecidableEqExcept {ε α : Type} [DecidableEq ε] [DecidableEq α] : DecidableEq (Except ε α)
  | .ok a, .ok b => if h : a = b then isTrue (h ▸ rfl) else isFalse (fun h' => h (Except.ok.inj h'))
  | .error a, .error b => if h : a = b then isTrue (h ▸ rfl) else isFalse (fun h' => h (Except.error.inj h'))
  | .ok _, .error _ => isFalse (fun h => nomatch h)
  | .error _, .ok _ => isFalse (fun h => nomatch h)

/-- `cert.Curve` values (cert_v1.pb.go): 0 = CURVE25519, 1 = P256. -/
def curve25519 : Nat := Gen.cert_Curve_CURVE25519
def curveP256 : Nat := Gen.cert_Curve_P256

structure Cert where
  version : Nat
  curve : Nat
  name : Bytes
  networks : List Prefix
  unsafeNetworks : List Prefix
  groups : List Bytes
  isCA : Bool
  notBefore : Int
  notAfter : Int
  issuer : String
  publicKey : Bytes
  signature : Bytes
  deriving DecidableEq, Repr

/-- lower-case hex digits of a byte string (`hex.EncodeToString`), as characters. -/
def hexDigit (n : Nat) : Char := if n < 10 then Char.ofNat (48 + n) else Char.ofNat (87 + n)

def hexChars : Bytes → List Char
  | [] => []
  | b :: rest => hexDigit (b.toNat / 16) :: hexDigit (b.toNat % 16) :: hexChars rest

def hexEnc (b : Bytes) : String := String.ofList (hexChars b)

def hexVal (c : Char) : Option Nat :=
  if '0' ≤ c ∧ c ≤ '9' then some (c.toNat - 48)
  else if 'a' ≤ c ∧ c ≤ 'f' then some (c.toNat - 87)
  else if 'A' ≤ c ∧ c ≤ 'F' then some (c.toNat - 55)
  else none

/-- `hex.DecodeString` on characters (`none` = error: odd length or a non-hex character). -/
def unhexChars : List Char → Option Bytes
  | [] => some []
  | [_] => none
  | a :: b :: rest =>
    match hexVal a, hexVal b, unhexChars rest with
    | some x, some y, some bs => some (UInt8.ofNat (x * 16 + y) :: bs)
    | _, _, _ => none

def hexDec (s : String) : Option Bytes := unhexChars s.toList

/-- `netip.Prefix.Bits()`: `-1` for an invalid prefix (length beyond the address family). -/
def bitsOf (p : Prefix) : Int := if p.len ≤ p.addr.fam.bits then (p.len : Int) else -1

/-- `Certificate.Expired(t)` (identical in cert_v1.go and cert_v2.go):
`notBefore.After(t) || notAfter.Before(t)`. -/
def Cert.expired (c : Cert) (t : Int) : Bool := decide (t < c.notBefore) || decide (c.notAfter < t)

end Nebula.Cert
