/-
Shared certificate record for the `cert` engines (C01–C04, C42): the fields the `cert.Certificate`
interface exposes (cert/cert.go), with Go `string`s that carry arbitrary bytes (`name`, `groups`) as byte
lists, fingerprints / issuer as the hex `String`s the Go code compares, and `time.Time` as an integer
number of nanoseconds since the Unix epoch (faithful to `Before`/`After` as long as the Go wall clock
arithmetic does not wrap, i.e. |unix seconds| < 2^62). Core Lean only.
-/
import Nebula.Base.Net

namespace Nebula.Cert
open Nebula.Net

abbrev Bytes := List UInt8

instance instDecidableEqExcept {ε α : Type} [DecidableEq ε] [DecidableEq α] : DecidableEq (Except ε α)
  | .ok a, .ok b => if h : a = b then isTrue (h ▸ rfl) else isFalse (fun h' => h (Except.ok.inj h'))
  | .error a, .error b => if h : a = b then isTrue (h ▸ rfl) else isFalse (fun h' => h (Except.error.inj h'))
  | .ok _, .error _ => isFalse (fun h => nomatch h)
  | .error _, .ok _ => isFalse (fun h => nomatch h)

/-- `cert.Curve` values (cert_v1.pb.go): 0 = CURVE25519, 1 = P256. -/
def curve25519 : Nat := 0
def curveP256 : Nat := 1

structure Cert where
  version : Nat
  curve : Nat
  name : Bytes
  networks : List Prefix
  unsafeNetworks : List Prefix
  groups : List Bytes
  isCA : Bool
  notBefore : Int
  notAfter : Int
  issuer : String
  publicKey : Bytes
  signature : Bytes
  deriving DecidableEq, Repr

/-- `netip.Prefix.Bits()`: `-1` for an invalid prefix (length beyond the address family). -/
def bitsOf (p : Prefix) : Int := if p.len ≤ p.addr.fam.bits then (p.len : Int) else -1

/-- `Certificate.Expired(t)` (identical in cert_v1.go and cert_v2.go):
`notBefore.After(t) || notAfter.Before(t)`. -/
def Cert.expired (c : Cert) (t : Int) : Bool := decide (t < c.notBefore) || decide (c.notAfter < t)

end Nebula.Cert
