/-
Model of the *outbound* packet path of nebula (inside.go): `Interface.consumeInsidePacket`,
`getOrHandshakeNoRouting`, `getOrHandshakeConsiderRouting` (incl. the ECMP branch and its fallback loop),
`HandshakeManager.GetOrHandshake` / `StartHandshake` as far as they decide *which* hostinfo / pending handshake a
packet goes to, `rejectInside`'s guard, and the `sendInsideMessage` decision (one `messageCounter.Add(1)` on the
chosen tunnel). Branch order exactly as in the source:

  newPacket error                                  -> drop
  dropLocalBroadcast && myBroadcastAddrsTable      -> drop
  myVpnAddrsTable.Contains(dst)                    -> write back to tun iff immediatelyForwardToSelf, never on the wire
  dropMulticast && dst.IsMulticast()               -> drop
  getOrHandshakeConsiderRouting                    -> hostinfo == nil: rejectInside, drop
                                                      !ready: packet cached on the pending handshake, return
  firewall.Drop(pkt, false, hostinfo, …)           -> nil: sendInsideMessage(hostinfo); else rejectInside

What is an input here (and modelled elsewhere): the parse (`Model/PktParse.newPacket`, C20), the firewall verdict
(`Model/Conntrack.drop`, C16/C17 — the driver and `Props/C17Inside` plug it in), `routing.BalancePacket`
(`Model/Routing`, C40), the reject packet bytes (`Model/Reject.createRejectPacket`). Only plain (GSO-zero)
packets: `tio.SegmentSuperpacket` calls its callback once with the packet. The relay send path (`remote` invalid) and
`ci.eKey == nil` are not modelled (the harness never builds such tunnels). Core Lean only.
-/
import Nebula.Base.Net
import Nebula.Model.Firewall
import Nebula.Model.PktParse
import Nebula.Model.Routing

namespace Nebula.Inside
open Nebula.Net Nebula.Fw

/-- what `consumeInsidePacket` reads from the `Interface` besides hostmap, routes and firewall. -/
structure Cfg where
  myAddrs : Lite            -- `myVpnAddrsTable`: own addresses as full-length prefixes
  myNets : Lite             -- `myVpnNetworksTable`
  bcast : Lite              -- `myBroadcastAddrsTable`
  dropLocalBroadcast : Bool
  dropMulticast : Bool
  fwdSelf : Bool            -- build constant `immediatelyForwardToSelf` (false on linux, true on darwin / freebsd)
  sendReject : Bool         -- `firewall.OutboundSendReject`

/-- the node state the routing decision reads; `κ` names an established hostinfo. -/
structure Env (κ : Type) where
  hosts : Addr → Option κ                 -- `mainHostMap.Hosts[addr]` (the primary hostinfo of the address)
  pending : Addr → Bool                   -- `handshakeManager.vpnIps` has the address
  routes : Addr → List (Addr × Int)       -- `inside.RoutesFor(addr)`: gateway addresses and weights
  fwPass : Packet → κ → Bool              -- `firewall.Drop(pkt, false, hostinfo, caPool, cache) == nil`

/-- `netip.Addr.IsMulticast` (unmaps 4-in-6 first). -/
def isMulticast (a : Addr) : Bool :=
  let a := a.unmap
  match a.fam with
  | .v4 => a.val / 2 ^ 28 == 0xe
  | .v6 => a.val / 2 ^ 120 == 0xff

/-- `GetOrHandshake(a, cb)`: an established tunnel is returned ready; otherwise `StartHandshake` makes sure a pending
handshake exists (`started` lists the entries created so far in this call of consumeInsidePacket, in order). -/
def getOrHandshake {κ : Type} (env : Env κ) (started : List Addr) (a : Addr) : Option κ × List Addr :=
  match env.hosts a with
  | some h => (some h, started)
  | none => (none, if env.pending a || started.any (fun x => decide (x = a)) then started else started ++ [a])

/-- `routing.BalancePacket` over gateways whose buckets were calculated (`CalculateBucketsForGateways`), as
`RoutesFor` hands them out. `none` = a panic inside the routing package (zero total weight). -/
def chosenGateway (p : Packet) (gs : List (Addr × Int)) : Option Addr :=
  match Nebula.Routing.calculateBuckets (gs.mapIdx (fun i g => Nebula.Routing.newGateway i g.2)) with
  | none => none
  | some bs =>
    let rp : Nebula.Routing.Packet :=
      { localAddr := 0, remoteAddr := 0, localPort := p.localPort, remotePort := p.remotePort,
        protocol := p.proto, fragment := p.fragment }
    match Nebula.Routing.balancePacket rp bs with
    | .chosen i _ => (gs[i]?).map (·.1)
    | .panic => none

/-- the fallback loop: `GetOrHandshake(gateways[i].Addr(), nil)` in order, skipping the chosen gateway, until one is
ready. -/
def fallback {κ : Type} (env : Env κ) (chosen : Addr) : List Addr → List Addr → Option κ × List Addr
  | [], st => (none, st)
  | g :: gs, st =>
    if g = chosen then fallback env chosen gs st else
    match getOrHandshake env st g with
    | (some h, st) => (some h, st)
    | (none, st) => fallback env chosen gs st

inductive Route (κ : Type) where
  | none                                   -- hostinfo == nil
  | ready (h : κ) (started : List Addr)
  | wait (on : Addr) (started : List Addr) -- !ready: cacheCallback ran on the pending handshake of `on`
  | panic
  deriving DecidableEq, Repr

/-- `getOrHandshakeConsiderRouting` (with `getOrHandshakeNoRouting` inlined). -/
def considerRouting {κ : Type} (cfg : Cfg) (env : Env κ) (p : Packet) : Route κ :=
  let dst := p.remoteAddr
  if anyContains cfg.myNets dst then
    match getOrHandshake env [] dst with
    | (some h, st) => .ready h st
    | (Option.none, st) => .wait dst st
  else
    match env.routes dst with
    | [] => .none
    | [g] =>
      match getOrHandshake env [] g.1 with
      | (some h, st) => .ready h st
      | (Option.none, st) => .wait g.1 st
    | gs =>
      match chosenGateway p gs with
      | Option.none => .panic
      | some c =>
        match getOrHandshake env [] c with
        | (some h, st) => .ready h st
        | (Option.none, st) =>
          match fallback env c (gs.map (·.1)) st with
          | (some h, st) => .ready h st
          | (Option.none, st) => .wait c st

inductive Outcome (κ : Type) where
  | dropParse
  | dropBroadcast
  | loopback                                   -- to one of our own addresses: written back to tun
  | dropSelf                                   -- to one of our own addresses, platform without self-forwarding
  | dropMulticast
  | noRoute (reject : Bool)                    -- hostinfo == nil: rejectInside
  | queued (on : Addr) (started : List Addr)   -- cached on the pending handshake for `on`
  | fwDrop (h : κ) (started : List Addr) (reject : Bool)
  | send (h : κ) (started : List Addr)         -- sendInsideMessage(h): one messageCounter.Add(1), one datagram
  | panic
  deriving DecidableEq, Repr

/-- `consumeInsidePacket` on the result of `newPacket(packet, false, fwPacket)` (`none` = parse error). -/
def consume {κ : Type} (cfg : Cfg) (env : Env κ) : Option Packet → Outcome κ
  | none => .dropParse
  | some p =>
    if cfg.dropLocalBroadcast && anyContains cfg.bcast p.remoteAddr then .dropBroadcast
    else if anyContains cfg.myAddrs p.remoteAddr then (if cfg.fwdSelf then .loopback else .dropSelf)
    else if cfg.dropMulticast && isMulticast p.remoteAddr then .dropMulticast
    else
      match considerRouting cfg env p with
      | .none => .noRoute cfg.sendReject
      | .panic => .panic
      | .wait on st => .queued on st
      | .ready h st => if env.fwPass p h then .send h st else .fwDrop h st cfg.sendReject

/-! ### observable effects of an outcome -/

/-- the tunnel a datagram is encrypted for and sent on. -/
def Outcome.wire {κ : Type} : Outcome κ → Option κ
  | .send h _ => some h
  | _ => none

/-- the pending handshake whose packet store receives the packet. -/
def Outcome.cachedOn {κ : Type} : Outcome κ → Option Addr
  | .queued on _ => some on
  | _ => none

/-- handshakes started by this call. -/
def Outcome.started {κ : Type} : Outcome κ → List Addr
  | .queued _ st => st
  | .fwDrop _ st _ => st
  | .send _ st => st
  | _ => []

/-- `rejectInside` got past its guard (a reject reply is built and, unless empty, written to tun). -/
def Outcome.rejects {κ : Type} : Outcome κ → Bool
  | .noRoute r => r
  | .fwDrop _ _ r => r
  | _ => false

/-- the packet itself is written back to the tun device. -/
def Outcome.loops {κ : Type} : Outcome κ → Bool
  | .loopback => true
  | _ => false

/-! ### gluing to the byte level -/

def addrOfBytes (bs : List UInt8) : Option Addr :=
  let v := bs.foldl (fun acc b => acc * 256 + b.toNat) 0
  if bs.length == 4 then some { fam := .v4, val := v }
  else if bs.length == 16 then some { fam := .v6, val := v }
  else none

/-- the `firewall.Packet` of a successful `newPacket`. -/
def packetOfParsed (q : Nebula.Pkt.Parsed) : Option Packet :=
  match addrOfBytes q.localAddr, addrOfBytes q.remoteAddr with
  | some l, some r =>
    some { localAddr := l, remoteAddr := r, localPort := q.localPort, remotePort := q.remotePort, proto := q.proto,
           fragment := q.fragment }
  | _, _ => none

/-- `newPacket(packet, false, fwPacket)`; the outer `none` is a Go panic inside the parser. -/
def parseOutbound (d : List UInt8) : Option (Option Packet) :=
  match Nebula.Pkt.newPacket d false with
  | .ok q => some (packetOfParsed q)
  | .err _ => some none
  | .panic => none

/-- the node's tables from its certificate, as `newCertState` builds them. -/
def myAddrsOf (my : Cert) : Lite := my.networks.foldl (fun t n => Lite.insert t (hostPrefix n.addr)) []

def myNetsOf (my : Cert) : Lite := my.networks.foldl Lite.insert []

/-- the directed broadcast address of an IPv4 network, as a full-length prefix. -/
def bcastPrefix (n : Prefix) : Prefix :=
  hostPrefix { fam := .v4, val := n.addr.val ||| (2 ^ (32 - n.len) - 1) }

def bcastOf (my : Cert) : Lite :=
  my.networks.foldl (fun t n => if n.addr.fam == .v4 then Lite.insert t (bcastPrefix n) else t) []

def cfgOfCert (my : Cert) (dropLocalBroadcast dropMulticast fwdSelf sendReject : Bool) : Cfg :=
  { myAddrs := myAddrsOf my, myNets := myNetsOf my, bcast := bcastOf my, dropLocalBroadcast := dropLocalBroadcast,
    dropMulticast := dropMulticast, fwdSelf := fwdSelf, sendReject := sendReject }

end Nebula.Inside
