/-
Model of nebula's receive coalescing, `overlay/batch`:
  coalesce_core.go   parseIPAt / parseIPv4Prologue / parseIPv6Prologue / ipHeadersMatch / ipv4CanCoalesceID
  udp_coalesce.go    UDPCoalescer (parseTail, commitStaged, commitParsed, canAppend, appendPayload, seed,
                     sealFlow, sealAllOpen, addVerbatim, Flush, flushSlot, udpHeadersMatch)
  tcp_coalesce.go    TCPCoalescer (same shape + admission by flags, pure ACKs, seq adjacency, ECE, PSH)
  passthrough.go     Passthrough
  multi_coalesce.go  MultiCoalescer.Commit / dispatch / Flush (sort by (epoch, counter))

Conventions
* Bytes are `List UInt8`; every read goes through `byteAt`/`u16At`/`u32At` (`Nat`-valued). Go's bit tests
  on single bytes are written arithmetically (`x >> 4` = `x / 16`, `x & 0x0f` = `x % 16`,
  `x & 0x40 != 0` = `x / 64 % 2 = 1`, …) so that `omega` can reason about them; the Go expression is
  quoted next to each.  Go slices `b[lo:hi]` are `slice b lo hi`; all slicing in the Go code is guarded by
  the length checks modelled here (an unguarded index would show up as `PANIC` on the Go side of the
  correspondence stream, which never equals a model answer).
* The TCP and UDP coalescers are the same state machine in Go (two copies of the code); the model is one
  `Lane` parameterised by `tcp : Bool`, each function pointing at both Go originals.
* Pointer identity of `*coalesceSlot` / `*udpSlot` = index into `slots` (slots are only appended until
  Flush). The free-list `pool`/`take`/`release` is allocation recycling with every field reset and is
  not modelled. `openSlots` (a Go map) is an association list with at most one entry per key.
* `Slot.ghost` is a *history variable*: the packets folded into the slot, in order. No model function
  reads it (it is only appended to); it exists so that invariants can be stated on the state alone.
-/
import Nebula.Gen.Coalesce

namespace Nebula.Coalesce
open Nebula.Gen

abbrev Bytes := List UInt8

def byteAt (b : Bytes) (i : Nat) : Nat := (b.getD i 0).toNat
/-- `binary.BigEndian.Uint16(b[off:off+2])` -/
def u16At (b : Bytes) (off : Nat) : Nat := byteAt b off * 256 + byteAt b (off + 1)
/-- `binary.BigEndian.Uint32(b[off:off+4])` -/
def u32At (b : Bytes) (off : Nat) : Nat := u16At b off * 65536 + u16At b (off + 2)
/-- Go `b[lo:hi]` (callers guarantee `lo ≤ hi ≤ len b`). -/
def slice (b : Bytes) (lo hi : Nat) : Bytes := (b.take hi).drop lo
/-- `binary.BigEndian.PutUint16(b[off:off+2], uint16(v))` -/
def putU16 (b : Bytes) (off v : Nat) : Bytes :=
  (b.set off (UInt8.ofNat (v / 256))).set (off + 1) (UInt8.ofNat v)

/-- `flowKey` -/
structure FlowKey where
  src : Bytes
  dst : Bytes
  sport : Nat
  dport : Nat
  isV6 : Bool
  deriving DecidableEq, Repr

/-- `stagedPacket` (with the `SortKey` flattened). -/
structure Staged where
  pkt : Bytes
  epoch : Nat
  counter : Nat
  proto : Nat
  fragAny : Bool
  ipHdrLen : Nat
  deriving DecidableEq, Repr

/-- What reaches the `tio.GSOWriter`. -/
inductive Wr where
  | write (b : Bytes)
  | gso (hdr thdr : Bytes) (pays : List Bytes) (tcp : Bool)
  deriving DecidableEq, Repr

/-! ### coalesce_core.go -/

/-- Result of `flowKey.parseIPAt`: family, the two address fields of the key, the trimmed packet. -/
structure IPParse where
  isV6 : Bool
  src : Bytes
  dst : Bytes
  trimmed : Bytes

/-- `parseIPv4Prologue` -/
def parseIPv4Prologue (pkt : Bytes) : Option IPParse :=
  let ihl := (byteAt pkt 0 % 16) * 4                       -- int(pkt[0]&0x0f) * 4
  if ihl ≠ 20 then none else
  if u16At pkt 6 % 16384 ≠ 0 then none else                -- Uint16(pkt[6:8])&0x3fff != 0
  let totalLen := u16At pkt 2
  if totalLen > pkt.length ∨ totalLen < ihl then none else
  some { isV6 := false
         src := slice pkt 12 16 ++ List.replicate 12 0     -- fk zero on entry: src[4:] stays clear
         dst := slice pkt 16 20 ++ List.replicate 12 0
         trimmed := pkt.take totalLen }

/-- `parseIPv6Prologue` -/
def parseIPv6Prologue (pkt : Bytes) : Option IPParse :=
  let payloadLen := u16At pkt 4
  if 40 + payloadLen > pkt.length then none else
  some { isV6 := true, src := slice pkt 8 24, dst := slice pkt 24 40, trimmed := pkt.take (40 + payloadLen) }

/-- `flowKey.parseIPAt` -/
def parseIPAt (pkt : Bytes) (ipHdrLen : Nat) : Option IPParse :=
  if pkt.length < 20 then none else
  let v := byteAt pkt 0 / 16                               -- pkt[0] >> 4
  if v = 4 then
    if ipHdrLen ≠ 20 then none else parseIPv4Prologue pkt
  else if v = 6 then
    if ipHdrLen ≠ 40 ∨ pkt.length < 40 then none else parseIPv6Prologue pkt
  else none

/-- `ipHeadersMatch` -/
def ipHeadersMatch (a b : Bytes) (isV6 : Bool) : Bool :=
  if isV6 then
    slice a 0 4 == slice b 0 4 && slice a 6 40 == slice b 6 40
  else
    slice a 0 2 == slice b 0 2 && slice a 6 10 == slice b 6 10 && slice a 12 20 == slice b 12 20

/-- `ipv4CanCoalesceID` (`expect` is a `uint16` sum, hence `% 65536`). -/
def ipv4CanCoalesceID (seedHdr nextHdr : Bytes) (seg : Nat) : Bool :=
  if byteAt seedHdr 6 / batch_ipv4FlagDF % 2 = 1 then true  -- seedHdr[6]&ipv4FlagDF != 0
  else u16At nextHdr 4 == (u16At seedHdr 4 + seg) % 65536

/-! ### checksum helpers of tcp_coalesce.go (needed for byte-exact `flushSlot` output) -/

/-- sum of the big-endian 16-bit words of `b` (an odd trailing byte is the high byte of a word). -/
def sum16 : Bytes → Nat
  | [] => 0
  | [x] => x.toNat * 256
  | x :: y :: rest => x.toNat * 256 + y.toNat + sum16 rest

/-- `for sum>>16 != 0 { sum = (sum & 0xffff) + (sum >> 16) }` — for the sums that occur here
(`< 2^32`) two rounds reach the fixpoint; written as two rounds so that it is structurally total. -/
def fold16 (s : Nat) : Nat :=
  let s := s % 65536 + s / 65536
  let s := s % 65536 + s / 65536
  s % 65536 + s / 65536

/-- `ipv4HdrChecksum` (`^uint16(sum)`) -/
def ipv4HdrChecksum (hdr : Bytes) : Nat := 65535 - fold16 (sum16 hdr % 4294967296)

/-- `pseudoSumIPv4` / `pseudoSumIPv6` (uint32 accumulators). -/
def pseudoSum (isV6 : Bool) (hdr : Bytes) (proto l4Len : Nat) : Nat :=
  if isV6 then
    (sum16 (slice hdr 8 24) + sum16 (slice hdr 24 40) + l4Len / 65536 + l4Len % 65536 + proto) % 4294967296
  else
    (sum16 (slice hdr 12 16) + sum16 (slice hdr 16 20) + proto + l4Len) % 4294967296

/-- `foldOnceNoInvert` -/
def foldOnceNoInvert (s : Nat) : Nat := fold16 s

/-! ### slots and lanes -/

/-- `coalesceSlot` / `udpSlot` -/
structure Slot where
  verbatim : Bool := false
  rawPkt : Bytes := []
  fk : FlowKey := ⟨[], [], 0, 0, false⟩
  hdrLen : Nat := 0
  ipHdrLen : Nat := 0
  isV6 : Bool := false
  gsoSize : Nat := 0
  numSeg : Nat := 0
  totalPay : Nat := 0
  nextSeq : Nat := 0
  payIovs : List Bytes := []
  /-- history variable (see the header comment); never read by the model. -/
  ghost : List Bytes := []
  deriving Repr

/-- `TCPCoalescer` / `UDPCoalescer` (without `w`, `l`). `pool` is the free list of recycled slot
objects: `release` pushes at the end, `take` pops from the end. -/
structure Lane where
  slots : List Slot := []
  openSlots : List (FlowKey × Nat) := []
  lastSlot : Option Nat := none
  pool : List Slot := []
  deriving Repr

/-- `parsedTCP` / `parsedUDP` -/
structure Parsed where
  fk : FlowKey
  ipHdrLen : Nat
  hdrLen : Nat
  payLen : Nat
  seq : Nat := 0
  flags : Nat := 0
  deriving Repr

/-- Go map read `openSlots[fk]` -/
def omLookup (m : List (FlowKey × Nat)) (fk : FlowKey) : Option Nat :=
  match m with
  | [] => none
  | (k, v) :: rest => if k = fk then some v else omLookup rest fk

/-- Go `delete(openSlots, fk)` -/
def omErase (m : List (FlowKey × Nat)) (fk : FlowKey) : List (FlowKey × Nat) :=
  m.filter (fun kv => kv.1 ≠ fk)

/-- Go `openSlots[fk] = i` -/
def omInsert (m : List (FlowKey × Nat)) (fk : FlowKey) (i : Nat) : List (FlowKey × Nat) :=
  (fk, i) :: omErase m fk

/-- `parsedUDP.parseTail` (after the `fix:` commit: the UDP length must *equal* the IP payload length). -/
def parseTailUDP (ip : IPParse) (ipHdrLen : Nat) : Option Parsed :=
  let pkt := ip.trimmed
  if pkt.length < ipHdrLen + 8 then none else
  let udpLen := u16At pkt (ipHdrLen + 4)
  if udpLen < 8 ∨ udpLen ≠ pkt.length - ipHdrLen then none else
  some { fk := { src := ip.src, dst := ip.dst, isV6 := ip.isV6,
                 sport := u16At pkt ipHdrLen, dport := u16At pkt (ipHdrLen + 2) }
         ipHdrLen := ipHdrLen, hdrLen := ipHdrLen + 8, payLen := udpLen - 8 }

/-- `parsedTCP.parseTail` -/
def parseTailTCP (ip : IPParse) (ipHdrLen : Nat) : Option Parsed :=
  let pkt := ip.trimmed
  if pkt.length < ipHdrLen + 20 then none else
  let tcpOff := (byteAt pkt (ipHdrLen + 12) / 16) * 4       -- int(pkt[ipHdrLen+12]>>4) * 4
  if tcpOff < 20 ∨ tcpOff > 60 then none else
  if pkt.length < ipHdrLen + tcpOff then none else
  some { fk := { src := ip.src, dst := ip.dst, isV6 := ip.isV6,
                 sport := u16At pkt ipHdrLen, dport := u16At pkt (ipHdrLen + 2) }
         ipHdrLen := ipHdrLen, hdrLen := ipHdrLen + tcpOff, payLen := pkt.length - (ipHdrLen + tcpOff)
         seq := u32At pkt (ipHdrLen + 4), flags := byteAt pkt (ipHdrLen + 13) }

/-- `parsedTCP.parseAt` / `parsedUDP.parseAt` -/
def parseAt (tcp : Bool) (pkt : Bytes) (ipHdrLen : Nat) : Option Parsed :=
  match parseIPAt pkt ipHdrLen with
  | none => none
  | some ip => if tcp then parseTailTCP ip ipHdrLen else parseTailUDP ip ipHdrLen

/-- `sealAllOpen` -/
def Lane.sealAllOpen (c : Lane) : Lane := { c with openSlots := [], lastSlot := none }

/-- fk of the slot `lastSlot` points at -/
def Lane.slotFk (c : Lane) (i : Nat) : Option FlowKey := (c.slots[i]?).map (·.fk)

/-- `sealFlow` -/
def Lane.sealFlow (c : Lane) (fk : FlowKey) : Lane :=
  if c.openSlots.length = 0 then c else
  let last := match c.lastSlot with
    | some i => if c.slotFk i = some fk then none else some i
    | none => none
  { c with lastSlot := last, openSlots := omErase c.openSlots fk }

/-- `take`: a recycled slot object if the pool has one (whatever it still contains), else a fresh
zero-valued one. -/
def Lane.take (c : Lane) : Slot × Lane :=
  match c.pool.getLast? with
  | some s => (s, { c with pool := c.pool.dropLast })
  | none => ({}, c)

/-- `release`: `clear(s.payIovs); *s = coalesceSlot{payIovs: s.payIovs[:0]}` — every field back to its
zero value (the retained `payIovs` backing array has length 0 and cleared elements). -/
def release (_s : Slot) : Slot := {}

/-- the tail of `addVerbatim`: only `verbatim` and `rawPkt` of the taken slot object are assigned. -/
def Lane.pushVerbatim (c : Lane) (blank : Slot) (pkt : Bytes) : Lane :=
  { c with slots := c.slots ++ [{ blank with verbatim := true, rawPkt := pkt, ghost := [pkt] }] }

/-- `addVerbatim` -/
def Lane.addVerbatim (c : Lane) (pkt : Bytes) : Lane :=
  let (s, c) := c.take
  c.pushVerbatim s pkt

/-- TCP flag predicates on the flags byte (`tcpFlagPsh = 0x08`, `tcpFlagAck = 0x10`, `tcpFlagEce = 0x40`). -/
def hasPsh (f : Nat) : Bool := f / batch_tcpFlagPsh % 2 = 1
def hasAck (f : Nat) : Bool := f / batch_tcpFlagAck % 2 = 1
def hasEce (f : Nat) : Bool := f / batch_tcpFlagEce % 2 = 1
/-- `flags &^ (tcpFlagAck|tcpFlagPsh|tcpFlagEce) != 0`: any of FIN/SYN/RST (bits 0–2), URG (bit 5), CWR (bit 7). -/
def hasOther (f : Nat) : Bool := f % 8 ≠ 0 ∨ f / 32 % 2 = 1 ∨ f / 128 % 2 = 1

/-- the slot `seed` creates -/
def seedSlot (tcp : Bool) (pkt : Bytes) (info : Parsed) : Slot :=
  { verbatim := false, rawPkt := pkt, hdrLen := info.hdrLen, ipHdrLen := info.ipHdrLen,
    isV6 := info.fk.isV6, fk := info.fk, gsoSize := info.payLen, numSeg := 1, totalPay := info.payLen,
    nextSeq := if tcp then (info.seq + info.payLen) % 4294967296 else 0
    payIovs := [slice pkt info.hdrLen (info.hdrLen + info.payLen)], ghost := [pkt] }

/-- the slot `seed` creates *in a taken slot object*: `seed` assigns every field (`verbatim`, `rawPkt`,
`hdrLen`, `ipHdrLen`, `isV6`, `fk`, `gsoSize`, `numSeg`, `totalPay`, `nextSeq` (TCP), and
`payIovs = append(s.payIovs[:0], …)`), so nothing of the recycled object survives. -/
def seedSlotFrom (blank : Slot) (tcp : Bool) (pkt : Bytes) (info : Parsed) : Slot :=
  { blank with
    verbatim := false, rawPkt := pkt, hdrLen := info.hdrLen, ipHdrLen := info.ipHdrLen,
    isV6 := info.fk.isV6, fk := info.fk, gsoSize := info.payLen, numSeg := 1, totalPay := info.payLen,
    nextSeq := if tcp then (info.seq + info.payLen) % 4294967296 else 0
    payIovs := [slice pkt info.hdrLen (info.hdrLen + info.payLen)], ghost := [pkt] }

/-- the part of `seed` after `s := c.take()` -/
def Lane.seedTaken (tcp : Bool) (c : Lane) (blank : Slot) (pkt : Bytes) (info : Parsed) : Lane :=
  let i := c.slots.length
  let c := { c with slots := c.slots ++ [seedSlotFrom blank tcp pkt info] }
  if tcp ∧ hasPsh info.flags then
    c.sealFlow info.fk
  else
    { c with openSlots := omInsert c.openSlots info.fk i, lastSlot := some i }

/-- `seed` -/
def Lane.seed (tcp : Bool) (c : Lane) (pkt : Bytes) (info : Parsed) : Lane :=
  if info.hdrLen + info.payLen > (if tcp then batch_tcpCoalesceBufSize else batch_udpCoalesceBufSize) then
    (c.sealFlow info.fk).addVerbatim pkt
  else
    let (s, c) := c.take
    c.seedTaken tcp s pkt info

/-- `udpHeadersMatch` / `headersMatch` -/
def headersMatch (tcp : Bool) (a b : Bytes) (isV6 : Bool) (ipHdrLen : Nat) : Bool :=
  if a.length ≠ b.length then false else
  if !ipHeadersMatch a b isV6 then false else
  let l4 := ipHdrLen
  if tcp then
    slice a l4 (l4 + 4) == slice b l4 (l4 + 4) &&
    slice a (l4 + 8) (l4 + 13) == slice b (l4 + 8) (l4 + 13) &&
    slice a (l4 + 14) (l4 + 16) == slice b (l4 + 14) (l4 + 16) &&
    a.drop (l4 + 18) == b.drop (l4 + 18)
  else
    slice a l4 (l4 + 4) == slice b l4 (l4 + 4)

/-- `canAppend` -/
def canAppend (tcp : Bool) (s : Slot) (pkt : Bytes) (info : Parsed) : Bool :=
  if info.hdrLen ≠ s.hdrLen then false else
  if tcp ∧ info.seq ≠ s.nextSeq then false else
  if s.numSeg ≥ (if tcp then batch_tcpCoalesceMaxSegs else batch_udpCoalesceMaxSegs) then false else
  if info.payLen > s.gsoSize then false else
  if s.hdrLen + s.totalPay + info.payLen > (if tcp then batch_tcpCoalesceBufSize else batch_udpCoalesceBufSize) then false else
  -- (seedFlags^info.flags)&tcpFlagEce != 0
  if tcp ∧ hasEce (byteAt s.rawPkt (s.ipHdrLen + 13)) ≠ hasEce info.flags then false else
  if !s.isV6 ∧ !ipv4CanCoalesceID s.rawPkt pkt s.numSeg then false else
  headersMatch tcp (slice s.rawPkt 0 s.hdrLen) (slice pkt 0 info.hdrLen) s.isV6 s.ipHdrLen

/-- `s.rawPkt[s.ipHdrLen+13] |= tcpFlagPsh` -/
def orPsh (raw : Bytes) (off : Nat) : Bytes :=
  let f := byteAt raw off
  if hasPsh f then raw else raw.set off (UInt8.ofNat (f + batch_tcpFlagPsh))

/-- `appendPayload` on the slot: the updated slot and whether the chain is now closed. -/
def appendPayload (tcp : Bool) (s : Slot) (pkt : Bytes) (info : Parsed) : Slot × Bool :=
  let psh := tcp ∧ hasPsh info.flags
  ({ s with
      payIovs := s.payIovs ++ [slice pkt info.hdrLen (info.hdrLen + info.payLen)]
      numSeg := s.numSeg + 1
      totalPay := s.totalPay + info.payLen
      nextSeq := if tcp then (info.seq + info.payLen) % 4294967296 else s.nextSeq
      rawPkt := if psh then orPsh s.rawPkt (s.ipHdrLen + 13) else s.rawPkt
      ghost := s.ghost ++ [pkt] },
   info.payLen < s.gsoSize ∨ psh)

/-- `commitParsed` -/
def Lane.commitParsed (tcp : Bool) (c : Lane) (pkt : Bytes) (info : Parsed) : Lane :=
  -- info.flags&tcpFlagAck == 0 || info.flags&^(tcpFlagAck|tcpFlagPsh|tcpFlagEce) != 0
  if tcp ∧ (!hasAck info.flags ∨ hasOther info.flags) then
    (c.sealFlow info.fk).addVerbatim pkt
  else if info.payLen = 0 then
    -- TCP: pure ACK, verbatim without sealing; UDP: zero-length datagram, seal + verbatim
    if tcp then c.addVerbatim pkt else (c.sealFlow info.fk).addVerbatim pkt
  else
    let open_ : Option Nat :=
      match c.lastSlot with
      | some i => if c.slotFk i = some info.fk then some i else omLookup c.openSlots info.fk
      | none => omLookup c.openSlots info.fk
    match open_ with
    | some i =>
      match c.slots[i]? with
      | some s =>
        if canAppend tcp s pkt info then
          let (s', closed) := appendPayload tcp s pkt info
          let c := { c with slots := c.slots.set i s' }
          if closed then c.sealFlow info.fk else { c with lastSlot := some i }
        else
          (c.sealFlow info.fk).seed tcp pkt info
      | none => c   -- unreachable: indexes in openSlots/lastSlot are always valid (invariant `I_lock`)
    | none => c.seed tcp pkt info

/-- `commitStaged` -/
def Lane.commitStaged (tcp : Bool) (c : Lane) (sp : Staged) : Lane :=
  if sp.fragAny then c.sealAllOpen.addVerbatim sp.pkt else
  match parseAt tcp sp.pkt sp.ipHdrLen with
  | none => c.sealAllOpen.addVerbatim sp.pkt
  | some info => c.commitParsed tcp sp.pkt info

/-- `flushSlot`, first half: the superpacket header patched in place in `rawPkt[:hdrLen]`. -/
def flushHdr (tcp : Bool) (s : Slot) : Bytes :=
  let hdr := slice s.rawPkt 0 s.hdrLen
  let total := s.hdrLen + s.totalPay
  let l4Len := total - s.ipHdrLen
  let hdr :=
    if s.isV6 then putU16 hdr 4 l4Len
    else
      let hdr := putU16 hdr 2 total
      let hdr := (hdr.set 10 0).set 11 0
      putU16 hdr 10 (ipv4HdrChecksum (slice hdr 0 s.ipHdrLen))
  let hdr := if tcp then hdr else putU16 hdr (s.ipHdrLen + 4) l4Len
  let psum := pseudoSum s.isV6 hdr (if tcp then batch_ipProtoTCP else batch_ipProtoUDP) l4Len
  let csumOff := if tcp then s.ipHdrLen + 16 else s.ipHdrLen + 6
  putU16 hdr csumOff (foldOnceNoInvert psum)

/-- `flushSlot`: header patching + the `WriteGSO(hdr[:ipHdrLen], hdr[ipHdrLen:], payIovs, proto)` call. -/
def flushSlot (tcp : Bool) (s : Slot) : Wr :=
  let hdr := flushHdr tcp s
  Wr.gso (slice hdr 0 s.ipHdrLen) (hdr.drop s.ipHdrLen) s.payIovs tcp

/-- one slot at `Flush` -/
def slotOut (tcp : Bool) (s : Slot) : Wr :=
  if s.verbatim ∨ s.numSeg = 1 then Wr.write s.rawPkt else flushSlot tcp s

/-- `TCPCoalescer.Flush` / `UDPCoalescer.Flush`: the writes, in slot order. -/
def Lane.flush (tcp : Bool) (c : Lane) : List Wr := c.slots.map (slotOut tcp)

/-! ### multi_coalesce.go, passthrough.go -/

/-- `MultiCoalescer` between `Flush`'s sort and the lane flushes. `tso`/`uso`: whether
`NewTCPCoalescer`/`NewUDPCoalescer` returned a lane (`tio.SupportsGSO`); a missing lane (`m.tcp == nil`)
routes its protocol to the passthrough. -/
structure Multi where
  tso : Bool := true
  uso : Bool := true
  tcp : Lane := {}
  udp : Lane := {}
  pt : List Bytes := []

/-- `dispatch` -/
def Multi.dispatch (m : Multi) (sp : Staged) : Multi :=
  if sp.proto = batch_ipProtoTCP ∧ m.tso then { m with tcp := m.tcp.commitStaged true sp }
  else if sp.proto = batch_ipProtoUDP ∧ m.uso then { m with udp := m.udp.commitStaged false sp }
  else { m with pt := m.pt ++ [sp.pkt] }

/-- `compareStaged a b ≤ 0` -/
def stagedLe (a b : Staged) : Bool :=
  a.epoch < b.epoch ∨ (a.epoch = b.epoch ∧ a.counter ≤ b.counter)

/-- the replay loop of `MultiCoalescer.Flush`, for packets already in dispatch order. -/
def dispatchAll (tso uso : Bool) (sorted : List Staged) : Multi :=
  sorted.foldl Multi.dispatch { tso := tso, uso := uso }

/-- the three lane flushes, in the order of `MultiCoalescer.Flush`. -/
def Multi.flush (m : Multi) : List Wr :=
  m.tcp.flush true ++ m.udp.flush false ++ m.pt.map Wr.write

/-- `TCPCoalescer.Flush` / `UDPCoalescer.Flush` including the recycling: the writes, and the lane as it
is left for the next batch (no slots, no open chains, every slot object released into the pool). -/
def Lane.flushP (tcp : Bool) (c : Lane) : List Wr × Lane :=
  (c.flush tcp, { slots := [], openSlots := [], lastSlot := none, pool := c.pool ++ c.slots.map release })

/-- `MultiCoalescer.Flush` after the sort and replay: the writes and the coalescer left for the next batch. -/
def Multi.flushP (m : Multi) : List Wr × Multi :=
  (m.flush, { m with tcp := (m.tcp.flushP true).2, udp := (m.udp.flushP false).2, pt := [] })

/-- one `Commit`* ; `Flush` round on a coalescer that has been used before -/
def Multi.round (m : Multi) (staged : List Staged) : List Wr × Multi :=
  ((staged.mergeSort stagedLe).foldl Multi.dispatch m).flushP

/-- a coalescer's life: successive batches through the same instance; the writes of every `Flush`. -/
def Multi.rounds (m : Multi) : List (List Staged) → List (List Wr)
  | [] => []
  | b :: rest => (m.round b).1 :: (m.round b).2.rounds rest

/-- `Commit`* then `Flush`. `slices.SortFunc` is not stable; the model uses a stable merge sort, which
agrees with it whenever the `(epoch, counter)` keys are distinct (they are: one counter per packet per
tunnel). The theorems of C23 quantify over *every* dispatch order / every sorted permutation, so they
do not depend on this. -/
def flushBatch (tso uso : Bool) (staged : List Staged) : List Wr :=
  (dispatchAll tso uso (staged.mergeSort stagedLe)).flush

/-! ### Go run-time panics

Every slice expression `b[lo:hi]` / index `b[i]` of the Go code is a potential `panic: runtime error:
slice bounds out of range` / `index out of range`. The `…C` ("checked") functions below walk the same
control flow as the functions above and, at each place where the Go code slices or indexes, demand the
bound Go demands (with `cap = len`, the strictest reading) — returning `Except.error` with the offending
expression if it does not hold — and otherwise return what the unchecked function returns. `no_panic`
(Props/C23) proves that the error case never happens; the driver runs the checked functions, so a missing
guard would also show up as a model answer `PANIC …`. -/

abbrev Chk := Except String

/-- continue with `k` if the bound `c` holds, else panic -/
def chk {α} (c : Bool) (what : String) (k : Chk α) : Chk α := if c then k else .error what

/-- `parseIPv4Prologue`: `pkt[0]`, `pkt[6:8]`, `pkt[2:4]`, `pkt[12:16]`, `pkt[16:20]`, `pkt[:totalLen]` -/
def parseIPv4PrologueC (pkt : Bytes) : Chk (Option IPParse) :=
  chk (0 < pkt.length) "pkt[0]" <|
  if (byteAt pkt 0 % 16) * 4 ≠ 20 then .ok none else
  chk (8 ≤ pkt.length) "pkt[6:8]" <|
  if u16At pkt 6 % 16384 ≠ 0 then .ok none else
  chk (4 ≤ pkt.length) "pkt[2:4]" <|
  if u16At pkt 2 > pkt.length ∨ u16At pkt 2 < (byteAt pkt 0 % 16) * 4 then .ok none else
  chk (16 ≤ pkt.length) "pkt[12:16]" <|
  chk (20 ≤ pkt.length) "pkt[16:20]" <|
  chk (u16At pkt 2 ≤ pkt.length) "pkt[:totalLen]" <|
  .ok (parseIPv4Prologue pkt)

/-- `parseIPv6Prologue`: `pkt[4:6]`, `pkt[8:24]`, `pkt[24:40]`, `pkt[:40+payloadLen]` -/
def parseIPv6PrologueC (pkt : Bytes) : Chk (Option IPParse) :=
  chk (6 ≤ pkt.length) "pkt[4:6]" <|
  if 40 + u16At pkt 4 > pkt.length then .ok none else
  chk (24 ≤ pkt.length) "pkt[8:24]" <|
  chk (40 ≤ pkt.length) "pkt[24:40]" <|
  chk (40 + u16At pkt 4 ≤ pkt.length) "pkt[:40+payloadLen]" <|
  .ok (parseIPv6Prologue pkt)

/-- `parseIPAt`: `pkt[0]` after the `len(pkt) < 20` guard -/
def parseIPAtC (pkt : Bytes) (ipHdrLen : Nat) : Chk (Option IPParse) :=
  if pkt.length < 20 then .ok none else
  chk (0 < pkt.length) "pkt[0]" <|
  if byteAt pkt 0 / 16 = 4 then
    if ipHdrLen ≠ 20 then .ok none else parseIPv4PrologueC pkt
  else if byteAt pkt 0 / 16 = 6 then
    if ipHdrLen ≠ 40 ∨ pkt.length < 40 then .ok none else parseIPv6PrologueC pkt
  else .ok none

/-- `parsedUDP.parseTail`: `pkt[ipHdrLen+4:ipHdrLen+6]`, `pkt[ipHdrLen:ipHdrLen+2]`, `pkt[ipHdrLen+2:ipHdrLen+4]` -/
def parseTailUDPC (ip : IPParse) (ipHdrLen : Nat) : Chk (Option Parsed) :=
  let pkt := ip.trimmed
  if pkt.length < ipHdrLen + 8 then .ok none else
  chk (ipHdrLen + 6 ≤ pkt.length) "pkt[ipHdrLen+4:ipHdrLen+6]" <|
  if u16At pkt (ipHdrLen + 4) < 8 ∨ u16At pkt (ipHdrLen + 4) ≠ pkt.length - ipHdrLen then .ok none else
  chk (ipHdrLen + 4 ≤ pkt.length) "pkt[ipHdrLen:ipHdrLen+4]" <|
  .ok (parseTailUDP ip ipHdrLen)

/-- `parsedTCP.parseTail`: `pkt[ipHdrLen+12]`, ports, `pkt[ipHdrLen+4:ipHdrLen+8]`, `pkt[ipHdrLen+13]` -/
def parseTailTCPC (ip : IPParse) (ipHdrLen : Nat) : Chk (Option Parsed) :=
  let pkt := ip.trimmed
  if pkt.length < ipHdrLen + 20 then .ok none else
  chk (ipHdrLen + 12 < pkt.length) "pkt[ipHdrLen+12]" <|
  let tcpOff := (byteAt pkt (ipHdrLen + 12) / 16) * 4
  if tcpOff < 20 ∨ tcpOff > 60 then .ok none else
  if pkt.length < ipHdrLen + tcpOff then .ok none else
  chk (ipHdrLen + 8 ≤ pkt.length) "pkt[ipHdrLen:ipHdrLen+8]" <|
  chk (ipHdrLen + 13 < pkt.length) "pkt[ipHdrLen+13]" <|
  .ok (parseTailTCP ip ipHdrLen)

/-- `parseAt` -/
def parseAtC (tcp : Bool) (pkt : Bytes) (ipHdrLen : Nat) : Chk (Option Parsed) :=
  match parseIPAtC pkt ipHdrLen with
  | .error e => .error e
  | .ok none => .ok none
  | .ok (some ip) => if tcp then parseTailTCPC ip ipHdrLen else parseTailUDPC ip ipHdrLen

/-- `canAppend`, in evaluation order: `s.rawPkt[s.ipHdrLen+13]` (TCP), `ipv4CanCoalesceID` (`seedHdr[6]`,
`seedHdr[4:6]`, `nextHdr[4:6]`), `s.rawPkt[:s.hdrLen]`, `pkt[:info.hdrLen]`, then inside `headersMatch` /
`ipHeadersMatch` the slices of both prefixes. -/
def canAppendC (tcp : Bool) (s : Slot) (pkt : Bytes) (info : Parsed) : Chk Bool :=
  if info.hdrLen ≠ s.hdrLen then .ok false else
  if tcp ∧ info.seq ≠ s.nextSeq then .ok false else
  if s.numSeg ≥ (if tcp then batch_tcpCoalesceMaxSegs else batch_udpCoalesceMaxSegs) then .ok false else
  if info.payLen > s.gsoSize then .ok false else
  if s.hdrLen + s.totalPay + info.payLen > (if tcp then batch_tcpCoalesceBufSize else batch_udpCoalesceBufSize) then .ok false else
  chk (!tcp || s.ipHdrLen + 13 < s.rawPkt.length) "s.rawPkt[s.ipHdrLen+13]" <|
  if tcp ∧ hasEce (byteAt s.rawPkt (s.ipHdrLen + 13)) ≠ hasEce info.flags then .ok false else
  chk (s.isV6 || (6 < s.rawPkt.length)) "seedHdr[6]" <|
  chk (s.isV6 || byteAt s.rawPkt 6 / batch_ipv4FlagDF % 2 = 1 || (6 ≤ s.rawPkt.length && 6 ≤ pkt.length))
    "seedHdr[4:6] / nextHdr[4:6]" <|
  if !s.isV6 ∧ !ipv4CanCoalesceID s.rawPkt pkt s.numSeg then .ok false else
  chk (s.hdrLen ≤ s.rawPkt.length) "s.rawPkt[:s.hdrLen]" <|
  chk (info.hdrLen ≤ pkt.length) "pkt[:info.hdrLen]" <|
  -- headersMatch(a, b, …) with len(a) = len(b) = hdrLen from here on
  chk (if s.isV6 then 40 ≤ s.hdrLen else 20 ≤ s.hdrLen) "ipHeadersMatch: a[6:40] / a[12:20]" <|
  chk (if tcp then s.ipHdrLen + 18 ≤ s.hdrLen else s.ipHdrLen + 4 ≤ s.hdrLen) "headersMatch: a[tcp+18:] / a[udp:udp+4]" <|
  .ok (canAppend tcp s pkt info)

/-- `appendPayload`: `pkt[info.hdrLen:info.hdrLen+info.payLen]`, `s.rawPkt[s.ipHdrLen+13] |= …` -/
def appendPayloadC (tcp : Bool) (s : Slot) (pkt : Bytes) (info : Parsed) : Chk (Slot × Bool) :=
  chk (info.hdrLen + info.payLen ≤ pkt.length) "pkt[info.hdrLen:info.hdrLen+info.payLen]" <|
  chk (!(tcp && hasPsh info.flags) || s.ipHdrLen + 13 < s.rawPkt.length) "s.rawPkt[s.ipHdrLen+13]" <|
  .ok (appendPayload tcp s pkt info)

/-- `seed`: `pkt[info.hdrLen:info.hdrLen+info.payLen]` (only on the non-oversize path) -/
def Lane.seedC (tcp : Bool) (c : Lane) (pkt : Bytes) (info : Parsed) : Chk Lane :=
  if info.hdrLen + info.payLen > (if tcp then batch_tcpCoalesceBufSize else batch_udpCoalesceBufSize) then
    .ok (c.seed tcp pkt info)
  else
    chk (info.hdrLen + info.payLen ≤ pkt.length) "pkt[info.hdrLen:info.hdrLen+info.payLen]" <|
    .ok (c.seed tcp pkt info)

/-- `commitParsed` -/
def Lane.commitParsedC (tcp : Bool) (c : Lane) (pkt : Bytes) (info : Parsed) : Chk Lane :=
  if tcp ∧ (!hasAck info.flags ∨ hasOther info.flags) then .ok (c.commitParsed tcp pkt info)
  else if info.payLen = 0 then .ok (c.commitParsed tcp pkt info)
  else
    let open_ : Option Nat :=
      match c.lastSlot with
      | some i => if c.slotFk i = some info.fk then some i else omLookup c.openSlots info.fk
      | none => omLookup c.openSlots info.fk
    match open_ with
    | some i =>
      match c.slots[i]? with
      | some s =>
        match canAppendC tcp s pkt info with
        | .error e => .error e
        | .ok true =>
          match appendPayloadC tcp s pkt info with
          | .error e => .error e
          | .ok _ => .ok (c.commitParsed tcp pkt info)
        | .ok false =>
          match (c.sealFlow info.fk).seedC tcp pkt info with
          | .error e => .error e
          | .ok _ => .ok (c.commitParsed tcp pkt info)
      | none => .error "nil slot pointer"
    | none =>
      match c.seedC tcp pkt info with
      | .error e => .error e
      | .ok _ => .ok (c.commitParsed tcp pkt info)

/-- `commitStaged` -/
def Lane.commitStagedC (tcp : Bool) (c : Lane) (sp : Staged) : Chk Lane :=
  if sp.fragAny then .ok (c.commitStaged tcp sp) else
  match parseAtC tcp sp.pkt sp.ipHdrLen with
  | .error e => .error e
  | .ok none => .ok (c.commitStaged tcp sp)
  | .ok (some info) => c.commitParsedC tcp sp.pkt info

/-- `flushSlot`: `s.rawPkt[:s.hdrLen]`, the header patches (`hdr[4:6]` | `hdr[2:4]`, `hdr[10]`, `hdr[11]`,
`hdr[10:12]`, `hdr[:s.ipHdrLen]`), `hdr[s.ipHdrLen+4:s.ipHdrLen+6]` (UDP), the pseudo-header address slices,
`hdr[csumOff:csumOff+2]`, `hdr[:s.ipHdrLen]`, `hdr[s.ipHdrLen:]`. -/
def flushSlotC (tcp : Bool) (s : Slot) : Chk Wr :=
  chk (s.hdrLen ≤ s.rawPkt.length) "s.rawPkt[:s.hdrLen]" <|
  chk (if s.isV6 then 6 ≤ s.hdrLen else 12 ≤ s.hdrLen ∧ s.ipHdrLen ≤ s.hdrLen) "hdr[4:6] | hdr[2:4], hdr[10:12], hdr[:ipHdrLen]" <|
  chk (tcp || s.ipHdrLen + 6 ≤ s.hdrLen) "hdr[ipHdrLen+4:ipHdrLen+6]" <|
  chk (if s.isV6 then 40 ≤ s.hdrLen else 20 ≤ s.hdrLen) "hdr[8:24], hdr[24:40] | hdr[12:16], hdr[16:20]" <|
  chk ((if tcp then s.ipHdrLen + 18 else s.ipHdrLen + 8) ≤ s.hdrLen) "hdr[csumOff:csumOff+2]" <|
  chk (s.ipHdrLen ≤ s.hdrLen) "hdr[:ipHdrLen], hdr[ipHdrLen:]" <|
  .ok (flushSlot tcp s)

/-- one slot at `Flush` -/
def slotOutC (tcp : Bool) (s : Slot) : Chk Wr :=
  if s.verbatim ∨ s.numSeg = 1 then .ok (Wr.write s.rawPkt) else flushSlotC tcp s

def Lane.flushC (tcp : Bool) (c : Lane) : Chk (List Wr) := c.slots.mapM (slotOutC tcp)

/-- `dispatch` -/
def Multi.dispatchC (m : Multi) (sp : Staged) : Chk Multi :=
  if sp.proto = batch_ipProtoTCP ∧ m.tso then
    match m.tcp.commitStagedC true sp with
    | .error e => .error e
    | .ok _ => .ok (m.dispatch sp)
  else if sp.proto = batch_ipProtoUDP ∧ m.uso then
    match m.udp.commitStagedC false sp with
    | .error e => .error e
    | .ok _ => .ok (m.dispatch sp)
  else .ok (m.dispatch sp)

def dispatchAllC (m : Multi) : List Staged → Chk Multi
  | [] => .ok m
  | sp :: rest =>
    match m.dispatchC sp with
    | .error e => .error e
    | .ok m' => dispatchAllC m' rest

/-- one `Commit`* ; `Flush` round with every Go bound checked -/
def Multi.roundC (m : Multi) (staged : List Staged) : Chk (List Wr × Multi) :=
  match dispatchAllC m (staged.mergeSort stagedLe) with
  | .error e => .error e
  | .ok m' =>
    match m'.tcp.flushC true, m'.udp.flushC false with
    | .ok a, .ok b => .ok (a ++ b ++ m'.pt.map Wr.write, m'.flushP.2)
    | .error e, _ => .error e
    | _, .error e => .error e

end Nebula.Coalesce
