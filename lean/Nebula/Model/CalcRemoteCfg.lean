/-
Model of the configuration path of calculated remotes (C48):
`NewCalculatedRemotesFromConfig` / `newCalculatedRemotesListFromConfig` / `newCalculatedRemotesEntryFromConfig`
(calculated_remote.go) and the `lighthouse.calculated_remotes` block of `LightHouse.reload` (lighthouse.go),
driven by `NewLightHouseFromConfig` (initial load) and the reload callback (`config.C.ReloadConfigString`).

The value `c.Get("lighthouse.calculated_remotes")` is a `CfgV`: the shapes the Go code distinguishes with its type
assertions. Strings enter already classified: a CIDR/mask string is either one `netip.ParsePrefix` accepts (then it
is the `Prefix` it denotes — `ParsePrefix` only returns well-formed prefixes, so an ill-formed `Prefix` value counts
as rejected) or one it rejects; a port string is either canonical decimal (what `strconv.Atoi` returns) or
rejected. The `v : Nat` of the invalid shapes only distinguishes different YAML values of one kind (it matters for
`HasChanged`, nothing else).
-/
import Nebula.Model.CalcRemote

namespace Nebula.CalcRemote
open Nebula.Net

/-- a string handed to `netip.ParsePrefix`. -/
inductive PfxV where
  | ok (p : Prefix)
  | bad (v : Nat)
  deriving DecidableEq, Repr

/-- `rawMap["mask"]`. -/
inductive MaskV where
  | str (p : PfxV)
  | missing (v : Nat)     -- key absent or null
  | nonString (v : Nat)
  deriving DecidableEq, Repr

/-- `rawMap["port"]`. -/
inductive PortV where
  | int (n : Int)
  | str (n : Int)         -- a string `strconv.Atoi` parses to `n`
  | strBad (v : Nat)      -- a string `strconv.Atoi` rejects
  | missing (v : Nat)
  | other (v : Nat)       -- float, bool, list, uint64, …
  deriving DecidableEq, Repr

/-- one element of the list under a range. -/
inductive ItemV where
  | nonMap (v : Nat)
  | entry (mask : MaskV) (port : PortV)
  deriving DecidableEq, Repr

/-- the value under a range key. -/
inductive EntV where
  | nonList (v : Nat)
  | list (items : List ItemV)
  deriving DecidableEq, Repr

/-- `c.Get("lighthouse.calculated_remotes")`. -/
inductive CfgV where
  | absent                                  -- key missing or null: `value == nil`
  | nonMap (v : Nat)
  | map (es : List (PfxV × EntV))
  deriving DecidableEq, Repr

/-- `netip.ParsePrefix`. -/
def parsePfx : PfxV → Option Prefix
  | .ok p => if p.addr.val < 2 ^ p.addr.fam.bits ∧ p.len ≤ p.addr.fam.bits then some p else none
  | .bad _ => none

/-- `newCalculatedRemotesEntryFromConfig(cidr, raw)`; `none` = any of its errors. -/
def entryFromConfig (cidr : Prefix) : ItemV → Option CR
  | .nonMap _ => none                                       -- "invalid type"
  | .entry mask port =>
    match mask with
    | .missing _ => none                                    -- "missing mask"
    | .nonString _ => none                                  -- "invalid mask (type …)"
    | .str ps =>
      match parsePfx ps with
      | none => none                                        -- "invalid mask: …"
      | some maskCidr =>
        match port with
        | .missing _ => none                                -- "missing port"
        | .strBad _ => none                                 -- "invalid port: …" (Atoi)
        | .other _ => none                                  -- "invalid port (type …)"
        | .int n | .str n =>
          match newCalculatedRemote cidr maskCidr n with
          | .ok c => some c
          | .error _ => none

/-- the loop of `newCalculatedRemotesListFromConfig`: first error wins, results in order. -/
def itemsFromConfig (cidr : Prefix) : List ItemV → Option (List CR)
  | [] => some []
  | e :: rest =>
    match entryFromConfig cidr e with
    | none => none
    | some c =>
      match itemsFromConfig cidr rest with
      | none => none
      | some l => some (c :: l)

/-- `newCalculatedRemotesListFromConfig(cidr, raw)`. -/
def listFromConfig (cidr : Prefix) : EntV → Option (List CR)
  | .nonList _ => none
  | .list items => itemsFromConfig cidr items

abbrev Table := List (Prefix × List CR)

/-- `bart.Table.Insert(pfx, val)`: keyed by the masked prefix, an existing value is replaced. -/
def tableInsert (t : Table) (p : Prefix) (v : List CR) : Table :=
  t.filter (fun e => e.1 != p.masked) ++ [(p.masked, v)]

/-- the `for rawCIDR, rawValue := range rawMap` loop (in the order of the list; Go's order is unspecified, the
result does not depend on it unless two keys denote the same masked prefix). -/
def mapFromConfig : List (PfxV × EntV) → Table → Option Table
  | [], t => some t
  | (k, v) :: rest, t =>
    match parsePfx k with
    | none => none                                          -- "has invalid CIDR"
    | some cidr =>
      match listFromConfig cidr v with
      | none => none
      | some l => mapFromConfig rest (tableInsert t cidr l)

/-- `NewCalculatedRemotesFromConfig(c, k)`: `.ok none` = `(nil, nil)`, `.error ()` = any error. -/
def fromConfig : CfgV → Except Unit (Option Table)
  | .absent => .ok none
  | .nonMap _ => .error ()                                  -- "has invalid type"
  | .map es =>
    match mapFromConfig es [] with
    | none => .error ()
    | some t => .ok (some t)

/-- What the `lighthouse.calculated_remotes` block of `LightHouse.reload` reads and writes: the atomic pointer
`lh.calculatedRemotes` and (through `c.HasChanged`) the value of the key in the previously loaded settings. -/
structure LHState where
  tbl : Option Table
  prev : CfgV
  deriving DecidableEq, Repr

inductive Outcome where
  | stored        -- the block ran and stored the new table ("… has changed" is logged on a reload)
  | unchanged     -- `!initial && !c.HasChanged(k)`: the block is skipped
  | errInitial    -- error on the initial load: NewLightHouseFromConfig fails, there is no lighthouse
  | errReload     -- error on a reload: logged by the callback, nothing stored
  | errEarlier    -- an earlier block of `LightHouse.reload` returned its error: this block was not reached
  deriving DecidableEq, Repr

/-- `c.HasChanged(k)`: the YAML serialisations of the old and the new value differ (modelled as: the values
differ). -/
def hasChanged (old new : CfgV) : Bool := old != new

/-- the block `if initial || c.HasChanged("lighthouse.calculated_remotes") { … }` of `LightHouse.reload`. -/
def cfgStep (initial : Bool) (s : LHState) (c : CfgV) : LHState × Outcome :=
  if initial || hasChanged s.prev c then
    match fromConfig c with
    | .error _ => ({ s with prev := c }, if initial then .errInitial else .errReload)
    | .ok t => ({ tbl := t, prev := c }, .stored)
  else ({ s with prev := c }, .unchanged)

/-- a history of the process: (re)starts with a configuration, and reloads. -/
inductive CfgOp where
  | load (c : CfgV)       -- NewLightHouseFromConfig on a fresh LightHouse (pointer nil)
  | reload (c : CfgV)     -- config.C.ReloadConfigString → the registered callback → `reload(c, false)`
  /-- a reload in which an earlier block of `LightHouse.reload` (advertise_addrs, remote_allow_list,
  local_allow_list) returns an error: the function returns before the calculated_remotes block, but `config.C` has
  already replaced its settings, so the next `HasChanged` compares against THIS value of the key. -/
  | reloadEarlierErr (c : CfgV)
  deriving DecidableEq, Repr

/-- the reload (if it is one) reaches the `lighthouse.calculated_remotes` block. -/
def CfgOp.reachesBlock : CfgOp → Bool
  | .reloadEarlierErr _ => false
  | _ => true

/-- `none` = there is no lighthouse (nothing loaded yet, or the initial load failed). -/
def cfgRun1 (s : Option LHState) : CfgOp → Option LHState × Option Outcome
  | .load c =>
    match cfgStep true { tbl := none, prev := .absent } c with
    | (_, .errInitial) => (none, some .errInitial)
    | (s', o) => (some s', some o)
  | .reload c =>
    match s with
    | none => (none, none)
    | some s => let r := cfgStep false s c; (some r.1, some r.2)
  | .reloadEarlierErr c =>
    match s with
    | none => (none, none)
    | some s => (some { s with prev := c }, some .errEarlier)

def cfgRun (s : Option LHState) : List CfgOp → Option LHState
  | [] => s
  | op :: rest => cfgRun (cfgRun1 s op).1 rest

end Nebula.CalcRemote
