/-
Model of `timeout.go`: `NewTimerWheel`, `TimerWheel.findWheel`, `Add`, `Advance`, `Purge`.
Times and durations are integers (nanoseconds); Go's truncating `/` on `time.Duration` is `Int.tdiv`.
The wheel is the slice of slots (each slot the list of its items in arrival order — the singly linked
list with tail pointer), `expired` the expired list in order; the item cache only counts (`itemsCached`).
-/
import Nebula.Gen.Wheel

namespace Nebula.Wheel

structure TW (T : Type) where
  current : Nat
  wheelLen : Nat
  lastTick : Option Int
  tickDuration : Int
  wheelDuration : Int
  wheel : List (List T)
  expired : List T
  itemsCached : Nat
  deriving Repr

/-- `NewTimerWheel(min, max)` (`min > 0`). -/
def new {T : Type} (min max : Int) : TW T :=
  let wLen := (max.tdiv min + 2).toNat
  { current := 0, wheelLen := wLen, lastTick := none, tickDuration := min, wheelDuration := max,
    wheel := List.replicate wLen [], expired := [], itemsCached := 0 }

/-- the clamping at the top of `findWheel`. -/
def clampTimeout (tick span timeout : Int) : Int :=
  if timeout < tick then tick else if timeout > span then span else timeout

/-- `findWheel`. -/
def findWheel {T : Type} (tw : TW T) (timeout : Int) : Nat :=
  let timeout := clampTimeout tw.tickDuration tw.wheelDuration timeout
  let tick : Int := (timeout - 1).tdiv tw.tickDuration + 1
  let tick := tick + tw.current + 1
  let tick := if tick ≥ tw.wheelLen then tick - tw.wheelLen else tick
  tick.toNat

def slot {T : Type} (w : List (List T)) (i : Nat) : List T := (w[i]?).getD []

/-- `Add(v, timeout)`; `none` = index out of range panic. -/
def add {T : Type} (tw : TW T) (v : T) (timeout : Int) : Option (TW T) :=
  let i := findWheel tw timeout
  if i < tw.wheel.length then
    some { tw with wheel := tw.wheel.set i (slot tw.wheel i ++ [v]),
                   itemsCached := tw.itemsCached - 1 }
  else none

/-- `Purge()`. -/
def purge {T : Type} (tw : TW T) : Option T × TW T :=
  match tw.expired with
  | [] => (none, tw)
  | v :: rest =>
    (some v, { tw with expired := rest,
                       itemsCached := if tw.itemsCached < Gen.wheel_timerCacheMax then tw.itemsCached + 1 else tw.itemsCached })

/-- one iteration of the loop in `Advance`. -/
def tickStep {T : Type} (tw : TW T) : TW T :=
  let c := if tw.current + 1 ≥ tw.wheelLen then 0 else tw.current + 1
  { tw with current := c, expired := tw.expired ++ slot tw.wheel c, wheel := tw.wheel.set c [] }

def tickSteps {T : Type} : Nat → TW T → TW T
  | 0, tw => tw
  | n + 1, tw => tickSteps n (tickStep tw)

/-- `Advance(now)`. -/
def advance {T : Type} (tw : TW T) (now : Int) : TW T :=
  let last := tw.lastTick.getD now
  let adv := (now - last).tdiv tw.tickDuration
  let ticks := if adv > tw.wheelLen then (tw.wheelLen : Int) else adv
  let tw' := tickSteps ticks.toNat tw
  { tw' with lastTick := some (last + tw.tickDuration * adv) }

/-- Histories: the three operations a caller can perform, and the list of values `Purge` has returned. -/
inductive Op where
  | add (v : Nat) (timeout : Int)
  | advance (now : Int)
  | purge
  deriving DecidableEq, Repr

def runOp (st : TW Nat × List Nat) : Op → TW Nat × List Nat
  | .add v t => match add st.1 v t with
    | some tw => (tw, st.2)
    | none => st
  | .advance now => (advance st.1 now, st.2)
  | .purge => match purge st.1 with
    | (some v, tw) => (tw, st.2 ++ [v])
    | (none, tw) => (tw, st.2)

def run (st : TW Nat × List Nat) (ops : List Op) : TW Nat × List Nat := ops.foldl runOp st

/-- time of the latest `Advance` (`start` if there is none). -/
def lastAdvance : Int → List Op → Int
  | last, [] => last
  | _, .advance now :: rest => lastAdvance now rest
  | last, _ :: rest => lastAdvance last rest

/-- the clock never runs backwards between `Advance` calls. -/
def Mono : Int → List Op → Prop
  | _, [] => True
  | last, .advance now :: rest => last ≤ now ∧ Mono now rest
  | last, _ :: rest => Mono last rest

end Nebula.Wheel
