/-
Model of `cert/ca_pool.go`: `CAPool.AddCA`, `BlocklistFingerprint`, `ResetCertBlocklist`,
`VerifyCertificate`, `VerifyCachedCertificate`, `verify`, `GetCAForCert`, `checkCAConstraints`.
Transcribed branch by branch, in the order of the Go code, so that the *error kind* (which guard fired
first) is comparable with the implementation.

Crypto enters only through `Crypto` (DESIGN.md §4.7): the fingerprint (SHA-256 of the encoding), the
alternate fingerprint (`CalculateAlternateFingerprint`: P-256 low/high-S twin) and the signature check are
uninterpreted functions of the certificate. Core Lean only.
-/
import Nebula.Model.Cert

namespace Nebula.Cert
open Nebula.Net

/-- The three crypto observations the pool makes about a certificate. -/
structure Crypto where
  /-- `c.Fingerprint()`; `none` = the call returned an error. -/
  fingerprint : Cert → Option String
  /-- `CalculateAlternateFingerprint(c)`; `none` = error, `some ""` = the certificate has no second form. -/
  altFingerprint : Cert → Option String
  /-- `c.CheckSignature(key)`. -/
  checkSig : Cert → Bytes → Bool

/-- `CachedCertificate` (the fields the pool reads back). -/
structure Cached where
  cert : Cert
  fingerprint : String
  fingerprint2 : String
  signerFingerprint : String
  deriving DecidableEq, Repr

/-- `CAPool`: `CAs` is a Go map fingerprint ↦ CA (the `CachedCertificate.Fingerprint` of an entry is its key,
see `AddCA`), modelled as an association list read with `List.lookup`; `certBlocklist` is a set. -/
structure Pool where
  cas : List (String × Cert) := []
  block : List String := []
  deriving Repr

/-- Go map assignment `m[k] = v`. -/
def mapSet (k : String) (v : Cert) (m : List (String × Cert)) : List (String × Cert) :=
  (k, v) :: m.filter (fun e => e.1 != k)

inductive CErr where
  | expiresAfterCA | validBeforeCA | group | network | unsafeNetwork
  deriving DecidableEq, Repr

inductive VErr where
  | fingerprint | blocklisted | noIssuer | caNotFound | curveMismatch | rootExpired | expired
  | fingerprintMismatch | signatureMismatch | constraint (e : CErr) | altFingerprint
  deriving DecidableEq, Repr

inductive AddErr where
  | notCA | notSelfSigned | fingerprint | expired
  deriving DecidableEq, Repr

/-- `IsBlocklisted`. -/
def Pool.isBlocklisted (p : Pool) (fp : String) : Bool := p.block.contains fp

/-- `BlocklistFingerprint`. -/
def Pool.blocklist (p : Pool) (fp : String) : Pool := { p with block := fp :: p.block }

/-- `ResetCertBlocklist`. -/
def Pool.resetBlocklist (p : Pool) : Pool := { p with block := [] }

/-- `AddCA` at wall-clock time `now`: returns the pool and the error, if any. An expired CA is *added* and
reported (`ncp.CAs[sum] = cc` precedes the `Expired` test). -/
def Pool.addCA (K : Crypto) (p : Pool) (now : Int) (c : Cert) : Pool × Option AddErr :=
  if !c.isCA then (p, some .notCA)
  else if !K.checkSig c c.publicKey then (p, some .notSelfSigned)
  else match K.fingerprint c with
    | none => (p, some .fingerprint)
    | some sum =>
      let p' := { p with cas := mapSet sum c p.cas }
      if c.expired now then (p', some .expired) else (p', none)

/-- inner loop of the network checks: is there a signing network that contains the address and is not longer. -/
def coveredBy : List Prefix → Prefix → Bool
  | [], _ => false
  | s :: rest, n => if s.contains n.addr && decide (bitsOf s ≤ bitsOf n) then true else coveredBy rest n

/-- outer loop of the network checks: first network without a covering signing network. -/
def firstUncovered (signing : List Prefix) : List Prefix → Option Prefix
  | [] => none
  | n :: rest => if coveredBy signing n then firstUncovered signing rest else some n

/-- `slices.Contains(signerGroups, g)` loop: first group missing from the signer. -/
def firstMissingGroup (signerGroups : List Bytes) : List Bytes → Option Bytes
  | [] => none
  | g :: rest => if signerGroups.contains g then firstMissingGroup signerGroups rest else some g

/-- `checkCAConstraints(signer, notBefore, notAfter, groups, networks, unsafeNetworks)`. -/
def checkCAConstraints (signer : Cert) (notBefore notAfter : Int) (groups : List Bytes)
    (networks unsafeNetworks : List Prefix) : Option CErr :=
  if signer.notAfter < notAfter then some .expiresAfterCA
  else if notBefore < signer.notBefore then some .validBeforeCA
  else if signer.groups.length > 0 ∧ (firstMissingGroup signer.groups groups).isSome then some .group
  else if signer.networks.length > 0 ∧ (firstUncovered signer.networks networks).isSome then some .network
  else if signer.unsafeNetworks.length > 0 ∧ (firstUncovered signer.unsafeNetworks unsafeNetworks).isSome then
    some .unsafeNetwork
  else none

/-- `CheckCAConstraints(signer, sub)`. -/
def checkCA (signer sub : Cert) : Option CErr :=
  checkCAConstraints signer sub.notBefore sub.notAfter sub.groups sub.networks sub.unsafeNetworks

/-- `verify(c, now, certFp, signerFp)`; the result is the signer's fingerprint (map key). -/
def Pool.verify (K : Crypto) (p : Pool) (c : Cert) (now : Int) (certFp signerFp : String) :
    Except VErr String :=
  if p.isBlocklisted certFp then .error .blocklisted
  else if c.issuer = "" then .error .noIssuer
  else match p.cas.lookup c.issuer with
    | none => .error .caNotFound
    | some signer =>
      if signer.curve ≠ c.curve then .error .curveMismatch
      else if signer.expired now then .error .rootExpired
      else if c.expired now then .error .expired
      else if signerFp ≠ "" then
        -- the signer's cached `Fingerprint` is the key it is stored under
        if signerFp ≠ c.issuer then .error .fingerprintMismatch else .ok c.issuer
      else if !K.checkSig c signer.publicKey then .error .signatureMismatch
      else match checkCA signer c with
        | some e => .error (.constraint e)
        | none => .ok c.issuer

/-- `VerifyCertificate(now, c)`. -/
def Pool.verifyCertificate (K : Crypto) (p : Pool) (now : Int) (c : Cert) : Except VErr Cached :=
  match K.fingerprint c with
  | none => .error .fingerprint
  | some fp =>
    match p.verify K c now fp "" with
    | .error e => .error e
    | .ok signerFp =>
      match K.altFingerprint c with
      | none => .error .altFingerprint
      | some fp2 =>
        if fp2 ≠ "" ∧ p.isBlocklisted fp2 then .error .blocklisted
        else .ok { cert := c, fingerprint := fp, fingerprint2 := fp2, signerFingerprint := signerFp }

/-- `VerifyCachedCertificate(now, cc)`. -/
def Pool.verifyCached (K : Crypto) (p : Pool) (now : Int) (cc : Cached) : Except VErr Unit :=
  if cc.fingerprint2 ≠ "" ∧ p.isBlocklisted cc.fingerprint2 then .error .blocklisted
  else match p.verify K cc.cert now cc.fingerprint cc.signerFingerprint with
    | .error e => .error e
    | .ok _ => .ok ()

end Nebula.Cert
