/-
The symbolic network of Model/HsNet.lean around EXTENDED nodes (Model/HsManagerVia.lean): per-node remote allow
lists (reset tokens `al<n>=…`, `ar<n>=…`), terminal relay objects (`relay` op) and handshake packets delivered
through a relay (`rdto` / `rdl` ops). Base ops go through the same code with the node's allow list applied to
direct deliveries.
-/
import Nebula.Model.HsNet
import Nebula.Model.HsManagerVia

namespace Nebula.HsNet
open Nebula.HsManager

/-- a node's lighthouse.remote_allow_list (`base`: underlay node ↦ allowed) and remote_allow_ranges (`inside`:
(overlay address, underlay node) ↦ allowed); anything not listed is allowed -/
structure AllowCfg where
  base : List (Nat × Bool) := []
  inside : List (Nat × Nat × Bool) := []
  deriving Repr, DecidableEq, Inhabited

/-- (a configuration map: of two rules for the same key the later one stands) -/
def AllowCfg.toList (c : AllowCfg) : AllowList :=
  { base := fun u => (alookup u c.base.reverse).getD true,
    inside := fun a u => ((c.inside.reverse.find? (fun e => e.1 == a && e.2.1 == u)).map (·.2.2)).getD true }

structure Ext where
  relays : List (Nat × List Addr) := []
  relayFor : List (Nat × Addr) := []
  al : AllowCfg := {}
  deriving Repr, DecidableEq, Inhabited

structure NetX where
  w : Net := {}
  ext : List Ext := []
  deriving Repr, Inhabited

inductive OpX
  | base (op : Op)
  | relay (n r p : Nat)              -- node n: established terminal relay through relay host r for peer p (on the primary tunnel to r)
  | rdto (k m r p : Nat)             -- transmission k reaches node m unwrapped from its relay (r, p)
  | rdl (j m r p : Nat)              -- the same, counting back from the latest transmission
  deriving Repr, Inhabited

def NetX.nodeX? (nx : NetX) (n : Nat) : Option NodeX :=
  match nx.w.node? n, nx.ext[n]? with
  | some nd, some e => some { n := nd, relays := e.relays, relayFor := e.relayFor }
  | _, _ => none

def NetX.alOf (nx : NetX) (n : Nat) : AllowList := ((nx.ext[n]?).map (·.al.toList)).getD AllowList.everything

def NetX.setNodeX (nx : NetX) (n : Nat) (x : NodeX) : NetX :=
  { w := nx.w.setNode n x.n,
    ext := nx.ext.modify n (fun e => { e with relays := x.relays, relayFor := x.relayFor }) }

/-- for the transmission log / packet numbering a relay transmission counts like a direct one to the relay's underlay -/
def _root_.Nebula.HsManager.OutX.toOut (o : OutX) : Out :=
  { tx := o.tx.map (fun t => match t with
      | .base t => t
      | .hsVia h _ ru => .hs h [ru]
      | .msgVia len _ ru => .msg len ru
      | .closeVia _ ru => .close ru),
    made := o.made, flushed := o.flushed }

/-- deliver packet `h` to node `to`, arriving as `via` -/
def NetX.deliverVia (nx : NetX) (h : Handle) (via : Via) (to : Nat) : Option (NetX × OutX) :=
  let w := nx.w
  match nx.nodeX? to, alookup h w.pkts with
  | some x, some (creator, info) =>
    match w.node? creator with
    | none => none
    | some cn =>
      let nd := x.n
      match info with
      | .s1 _ initIdx time ver =>
        let c : Completed := { certAddrs := certAddrsOf cn.cfg ver, certVer := ver, remoteIndex := initIdx, time := time,
                               certId := certIdOf creator ver }
        let respVer := if nd.cfg.hasVer ver then ver else nd.cfg.defaultVer
        let res := if nd.blocked.contains c.certId then none else some c
        let (x', o) := x.step (nx.alOf to) (.stage1 via h res respVer w.now)
        let nx' := nx.setNodeX to x'
        some ({ nx' with w := nx'.w.absorb to o.toOut }, o)
      | .s2 _ respIdx initIdx time ver replyTo =>
        let res : S2Res :=
          match (alookup initIdx nd.p.pindexes).bind nd.p.pendingById with
          | some hh =>
            if hh.pkt0 == some replyTo then
              if nd.blocked.contains (certIdOf creator ver) then .err true else
              .completed { certAddrs := certAddrsOf cn.cfg ver, certVer := ver, remoteIndex := respIdx, time := time,
                           certId := certIdOf creator ver }
            else .err false
          | none => .err false
        let (x', o) := x.step (nx.alOf to) (.stage2 via initIdx res)
        let nx' := nx.setNodeX to x'
        some ({ nx' with w := nx'.w.absorb to o.toOut }, o)
  | _, _ => none

/-- the ViaSender of a packet unwrapped at node `m` from relay (r, p): the primary tunnel to `r` must hold the relay
object and have a remote -/
def NetX.viaOf (nx : NetX) (m r p : Nat) : Option Via :=
  match nx.nodeX? m with
  | none => none
  | some x =>
    match x.n.main.primary r with
    | none => none
    | some h =>
      if x.relayFor.contains (h.id, p) then h.remote.map (fun ru => Via.relayed r ru p) else none

def NetX.resolve (nx : NetX) : OpX → OpX
  | .base op => .base (nx.w.resolve op)
  | .rdl j m r p => if j < nx.w.log.length then .rdto (nx.w.log.length - 1 - j) m r p else .rdl j m r p
  | op => op

/-- result of one op: new network, acting node, result word, emitted transmissions -/
def NetX.stepCore (nx : NetX) : OpX → NetX × Option Nat × String × OutX
  | .base (.deliver k) =>
    match nx.w.log[k]? with
    | none => (nx, none, "nop", {})
    | some (h, src, dst) =>
      match nx.deliverVia h (.direct src) dst with
      | some (nx', o) => (nx', some dst, s!"to{dst}", o)
      | none => (nx, none, "nonode", {})
  | .base (.dto k m) =>
    match nx.w.log[k]? with
    | none => (nx, none, "nop", {})
    | some (h, src, _) =>
      match nx.deliverVia h (.direct src) m with
      | some (nx', o) => (nx', some m, s!"to{m}", o)
      | none => (nx, none, "nonode", {})
  | .base op =>
    let (w', a, res, o) := nx.w.stepCore op
    ({ nx with w := w' }, a, res, o.toX)
  | .relay n r p =>
    match nx.nodeX? n with
    | none => (nx, none, "bad-op", {})
    | some x =>
      let (x', _) := x.step (nx.alOf n) (.relayFor r p)
      (nx.setNodeX n x', some n, if (x.n.main.primary r).isSome then "ok" else "none", {})
  | .rdto k m r p =>
    match nx.w.log[k]? with
    | none => (nx, none, "nop", {})
    | some (h, _, _) =>
      if (nx.w.node? m).isNone then (nx, none, "nonode", {}) else
      match nx.viaOf m r p with
      | none => (nx, some m, "norelay", {})
      | some via =>
        match nx.deliverVia h via m with
        | some (nx', o) => (nx', some m, s!"to{m}", o)
        | none => (nx, none, "nonode", {})
  | .rdl .. => (nx, none, "nop", {})

def NetX.step (nx : NetX) (op : OpX) : NetX × Option Nat × String × OutX := nx.stepCore (nx.resolve op)

end Nebula.HsNet
