/-
Symbolic network around the handshake-manager model: several nodes, handshake packets as terms
(what a stage-1 / stage-2 message of Noise IX carries), a transmission log, virtual time.
This is the environment that produces the `Completed` inputs of `Node.step` for the correspondence
stream `hsmanager`; the Machine itself (C05) is represented only by the rule "a stage-2 message is
readable exactly by the pending handshake whose stage-1 it answers".
-/
import Nebula.Model.HsManager

namespace Nebula.HsNet
open Nebula.HsManager

/-- times are relative to the reset of the case (ns) -/
def epoch : Nat := 0

structure Net where
  nodes : List Node := []
  pkts : List (Handle × (Nat × PktInfo)) := []   -- handle ↦ (creating node, contents)
  log : List (Handle × Nat × Nat) := []          -- transmissions: (packet, source node, destination node)
  pids : List (Handle × Nat) := []               -- first-transmission numbering
  nextPid : Nat := 0
  now : Nat := epoch
  deriving Repr, Inhabited

inductive Op
  | lh (n a m : Nat) | hs (n a : Nat) | rehs (n a : Nat) | tick (n : Nat) | trig (n a : Nat)
  | sleep (ms : Nat) | deliver (k : Nat) | dto (k m : Nat) | send (n a port len : Nat)
  | idx (n v : Nat) | del (n li : Nat) | swap (n li : Nat)
  | dl (j : Nat) | dlto (j m : Nat)               -- deliver counting back from the latest transmission
  | dlm (j r c : Nat)                             -- deliver counting back, header re-framed: reserved := r, counter := c (0 = keep)
  | dropAt (k : Nat)                              -- transmission k reaches its destination and is dropped at dispatch
  | cmcheck (n li : Nat) (inT outT : Bool)        -- connection manager traffic check
  | block (n m : Nat)                             -- node n reloads its CA pool with node m's certificates blocklisted
  deriving Repr, Inhabited

def Net.node? (w : Net) (n : Nat) : Option Node := w.nodes[n]?
def Net.setNode (w : Net) (n : Nat) (nd : Node) : Net := { w with nodes := w.nodes.set n nd }

def Net.pidOf (w : Net) (h : Handle) : Option Nat := alookup h w.pids

/-- record what a node emitted: new packets, pid assignment at first transmission, transmission log -/
def Net.absorb (w : Net) (src : Nat) (o : Out) : Net :=
  let w := { w with pkts := o.made.foldl (fun acc p =>
    match p with
    | .s1 h .. => ainsert h (src, p) acc
    | .s2 h .. => ainsert h (src, p) acc) w.pkts }
  o.tx.foldl (fun w t =>
    match t with
    | .hs h dsts =>
      let w := match w.pidOf h with
        | some _ => w
        | none => { w with pids := ainsert h w.nextPid w.pids, nextPid := w.nextPid + 1 }
      { w with log := w.log ++ dsts.map (fun d => (h, src, d)) }
    | _ => w) w

/-- certificate a node presents at version `v`: a v1 certificate carries only the first address -/
def certAddrsOf (c : Cfg) (v : Nat) : List Addr := if v == 1 then c.myAddrs.take 1 else c.myAddrs

/-- identity of the certificate node `n` presents at version `v` -/
def certIdOf (n v : Nat) : Nat := n * 10 + v

/-- deliver packet `h` (sent by node `src`) to node `to` -/
def Net.deliverTo (w : Net) (h : Handle) (src to : Nat) : Option (Net × Out) :=
  match w.node? to, alookup h w.pkts with
  | some nd, some (creator, info) =>
    match w.node? creator with
    | none => none
    | some cn =>
      match info with
      | .s1 _ initIdx time ver =>
        let c : Completed := { certAddrs := certAddrsOf cn.cfg ver, certVer := ver, remoteIndex := initIdx, time := time,
                               certId := certIdOf creator ver }
        let respVer := if nd.cfg.hasVer ver then ver else nd.cfg.defaultVer
        -- a blocklisted certificate fails verification inside the Machine: no result
        let res := if nd.blocked.contains c.certId then none else some c
        let (nd', o) := nd.step (.stage1 src h res respVer w.now)
        some ((w.setNode to nd').absorb to o, o)
      | .s2 _ respIdx initIdx time ver replyTo =>
        let res : S2Res :=
          match (alookup initIdx nd.p.pindexes).bind nd.p.pendingById with
          | some hh =>
            if hh.pkt0 == some replyTo then
              -- the verifier consults the CURRENT trust store: a blocklisted certificate fails the Machine for good
              if nd.blocked.contains (certIdOf creator ver) then .err true else
              .completed { certAddrs := certAddrsOf cn.cfg ver, certVer := ver, remoteIndex := respIdx, time := time,
                           certId := certIdOf creator ver }
            else .err false
          | none => .err false
        let (nd', o) := nd.step (.stage2 src initIdx res)
        some ((w.setNode to nd').absorb to o, o)
  | _, _ => none

/-- result of one op: new network, acting node (if any), result word, emitted transmissions -/
def Net.stepCore (w : Net) : Op → Net × Option Nat × String × Out
  | .sleep ms => ({ w with now := w.now + ms * 1000000 }, none, "ok", {})
  | .idx n v =>
    match w.node? n with
    | some nd => (w.setNode n (nd.step (.idx v)).1, none, "ok", {})
    | none => (w, none, "bad-op", {})
  | .deliver k =>
    match w.log[k]? with
    | none => (w, none, "nop", {})
    | some (h, src, dst) =>
      match w.deliverTo h src dst with
      | some (w', o) => (w', some dst, s!"to{dst}", o)
      | none => (w, none, "nonode", {})
  | .dto k m =>
    match w.log[k]? with
    | none => (w, none, "nop", {})
    | some (h, src, _) =>
      match w.deliverTo h src m with
      | some (w', o) => (w', some m, s!"to{m}", o)
      | none => (w, none, "nonode", {})
  | .dlm _ _ _ => (w, none, "nop", {})
  | .dropAt k =>
    match w.log[k]? with
    | none => (w, none, "nop", {})
    | some (_, _, dst) => if (w.node? dst).isSome then (w, some dst, s!"to{dst}", {}) else (w, none, "nonode", {})
  | .dl _ => (w, none, "nop", {})
  | .dlto _ _ => (w, none, "nop", {})
  | op =>
    let (n, ev?) : Nat × Option Ev := match op with
      | .lh n a m => (n, some (.lh a m))
      | .hs n a => (n, some (.hs a))
      | .rehs n a => (n, some (.rehs a))
      | .tick n => (n, some (.tick w.now))
      | .trig n a => (n, some (.trig a w.now))
      | .send n a port len =>
        -- a packet into the unsafe route is IPv4: its source is ours only if we have an IPv4 overlay address
        let srcOk := !isRouted a || ((w.node? n).map (fun nd => nd.cfg.myAddrs.any (fun x => !is6 x))).getD true
        (n, some (.send a { len := if is6 a then max len 48 else max len 28, port := port, srcOk := srcOk }))
      | .del n li => (n, some (.del li))
      | .swap n li => (n, some (.swap li))
      | .cmcheck n li i o => (n, some (.cmcheck li i o))
      | .block n m => (n, some (.block [certIdOf m 1, certIdOf m 2]))
      | _ => (0, none)
    match w.node? n, ev? with
    | some nd, some ev =>
      let (nd', o) := nd.step ev
      let res := match ev with
        | .del li => (nd.deleteTunnel li).2
        | .swap li => (nd.swapCheck li).2
        | .cmcheck li _ _ => if (alookup li nd.main.indexes).isSome then "ok" else "none"
        | _ => "ok"
      ((w.setNode n nd').absorb n o, some n, res, o)
    | _, _ => (w, none, "bad-op", {})

/-- relative delivery ops name a transmission counting back from the latest one -/
def Net.resolve (w : Net) : Op → Op
  | .dl j => if j < w.log.length then .deliver (w.log.length - 1 - j) else .dl j
  | .dlto j m => if j < w.log.length then .dto (w.log.length - 1 - j) m else .dlto j m
  | .dlm j r c =>
    -- the header of a handshake packet is not authenticated. Reserved bytes are never looked at; the counter
    -- only decides the dispatch: 1 = first message (needs remote index 0), anything else = continuation by index
    if j < w.log.length then
      let k := w.log.length - 1 - j
      match (w.log[k]?).bind (fun e => alookup e.1 w.pkts) with
      | some (_, .s1 ..) => if c == 0 || c == 1 then .deliver k else .dropAt k
      | some (_, .s2 ..) => if c == 1 then .dropAt k else .deliver k
      | none => .dlm j r c
    else .dlm j r c
  | op => op

def Net.step (w : Net) (op : Op) : Net × Option Nat × String × Out := w.stepCore (w.resolve op)

end Nebula.HsNet
