/-
Executable model of the rule half of `firewall.go` (C16, C17, C22 feed into this):

  Firewall.AddRule · firewallPort.addRule · FirewallCA.addRule · FirewallRule.addRule / isAny ·
  firewallLocalCIDR.addRule — the builders of the nested rule structure
  FirewallTable.match · firewallPort.match · FirewallCA.match · FirewallRule.match ·
  firewallLocalCIDR.match — the evaluators
  NewFirewall (network setup) · HostInfo.buildNetworks · the address checks at the top of Firewall.Drop

Conventions (DESIGN.md §4): Go maps are association lists (`aget`/`aset`, first match wins, replace in
place), nil pointers are `Option`, `bart.Table` / `bart.Lite` are lists of `(Prefix × value)` read only
through `Nebula.Net.lpm` / `supernets` / `anyContains` (the specification of what nebula asks of bart).
`firewallPort` (a Go `map[int32]*FirewallCA` that `addRule` fills with a `for i := start; i <= end` loop) is a
function `Int → Option FCA` updated pointwise (`FPort.addRule`); the loop over the map itself is `portLoop` /
`FPortMap.addRule`, proved equal to the pointwise update in Lemmas/FwPortLoop.lean (the loop's early exit
happens only on an unparsable cidr, excluded below).

A rule reaches `AddRule` with `cidr` / `localCidr` as strings. `AddFirewallRulesFromConfig` refuses the rule
before `AddRule` if a non-empty, non-"any" value does not `netip.ParsePrefix`, so here they are already
parsed: `CidrSel`. (Calling `AddRule` directly with an unparsable cidr is outside the model.)
Core Lean only.
-/
import Nebula.Base.Net
import Nebula.Gen.PktFirewall

namespace Nebula.Fw
open Nebula.Net

/-! ### association lists (Go maps; bart tables keyed by canonical prefix) -/

/-- first entry whose key satisfies `same · k`. -/
def aget {κ α : Type} (same : κ → κ → Bool) : List (κ × α) → κ → Option α
  | [], _ => none
  | e :: m, k => if same e.1 k then some e.2 else aget same m k

/-- replace the first entry whose key satisfies `same · k`, or append. -/
def aset {κ α : Type} (same : κ → κ → Bool) : List (κ × α) → κ → α → List (κ × α)
  | [], k, v => [(k, v)]
  | e :: m, k, v => if same e.1 k then (k, v) :: m else e :: aset same m k v

/-- remove every entry whose key satisfies `same · k`. -/
def aerase {κ α : Type} (same : κ → κ → Bool) (m : List (κ × α)) (k : κ) : List (κ × α) :=
  m.filter (fun e => !same e.1 k)

def sameStr (a b : String) : Bool := decide (a = b)

/-- bart stores prefixes in canonical (masked) form: two prefixes are the same key iff family, length and
the top `len` bits agree. -/
def samePfx (p q : Prefix) : Bool :=
  p.addr.fam == q.addr.fam && p.len == q.len &&
    topBits p.addr.fam p.addr.val p.len == topBits p.addr.fam q.addr.val p.len

/-- `netip.PrefixFrom(a, a.BitLen())`. -/
def hostPrefix (a : Addr) : Prefix := { addr := a, len := a.fam.bits }

/-! ### packets, certificates, rules -/

/-- `firewall.Packet`. Ports are `uint16`, protocol `uint8`. -/
structure Packet where
  localAddr : Addr
  remoteAddr : Addr
  localPort : Nat
  remotePort : Nat
  proto : Nat
  fragment : Bool
  deriving DecidableEq, Repr

/-- what the firewall reads of a `cert.Certificate` (own or peer). -/
structure Cert where
  name : String
  networks : List Prefix
  unsafeNetworks : List Prefix
  groups : List String
  issuer : String
  deriving Repr

/-- `cert.CAPool.CAs` as far as the firewall reads it: issuer fingerprint ↦ name of that CA. -/
abbrev Pool := List (String × String)

/-- `CAPool.GetCAForCert(c)` followed by `.Certificate.Name()`; `none` = the error return. -/
def caNameFor (pool : Pool) (issuer : String) : Option String :=
  if issuer = "" then none else aget sameStr pool issuer

/-- a `cidr` / `local_cidr` argument of `AddRule`: `""`, `"any"` or a parsed prefix. -/
inductive CidrSel where
  | none
  | any
  | pfx (p : Prefix)
  deriving DecidableEq, Repr

/-- the arguments of one `Firewall.AddRule` call. -/
structure Rule where
  incoming : Bool
  proto : Nat
  startPort : Int
  endPort : Int
  groups : List String
  host : String
  cidr : CidrSel
  localCidr : CidrSel
  caName : String
  caSha : String
  deriving Repr

/-- the `Firewall` fields read by `firewallLocalCIDR.addRule`. -/
structure Cfg where
  defaultLocalCIDRAny : Bool
  assignedNetworks : List Prefix
  unsafeNetworks : List Prefix
  deriving Repr

/-! ### the nested rule structure -/

/-- `bart.Lite` -/
abbrev Lite := List (Prefix × Unit)

def Lite.insert (t : Lite) (p : Prefix) : Lite := aset samePfx t p ()

structure LocalCIDR where
  any : Bool := false
  cidrs : Lite := []
  deriving Repr

structure FGroups where
  groups : List String
  lc : LocalCIDR
  deriving Repr

structure FRule where
  any : Option LocalCIDR := none
  hosts : List (String × LocalCIDR) := []
  groups : List FGroups := []
  cidr : List (Prefix × LocalCIDR) := []
  deriving Repr

structure FCA where
  any : Option FRule := none
  caNames : List (String × FRule) := []
  caShas : List (String × FRule) := []
  deriving Repr

/-- `firewallPort` -/
abbrev FPort := Int → Option FCA

structure Table where
  tcp : FPort := fun _ => none
  udp : FPort := fun _ => none
  icmp : FPort := fun _ => none
  anyProto : FPort := fun _ => none

/-! ### builders -/

/-- `firewallLocalCIDR.addRule` -/
def LocalCIDR.addRule (cfg : Cfg) (lc : LocalCIDR) : CidrSel → LocalCIDR
  | .any => { lc with any := true }
  | .none =>
    if cfg.unsafeNetworks.length == 0 || cfg.defaultLocalCIDRAny then { lc with any := true }
    else { lc with cidrs := cfg.assignedNetworks.foldl Lite.insert lc.cidrs }
  | .pfx c => { lc with cidrs := lc.cidrs.insert c }

/-- `FirewallRule.isAny` -/
def isAny (groups : List String) (host : String) (cidr : CidrSel) : Bool :=
  (groups.length == 0 && decide (host = "") && decide (cidr = .none))
    || groups.contains "any" || decide (host = "any") || decide (cidr = .any)

/-- `FirewallRule.addRule`, the `len(groups) > 0` block: a new `firewallGroups` entry is appended. -/
def FRule.addGroups (cfg : Cfg) (fr : FRule) (groups : List String) (localCidr : CidrSel) : FRule :=
  if groups.length > 0 then
    { fr with groups := fr.groups ++ [{ groups := groups, lc := LocalCIDR.addRule cfg {} localCidr }] }
  else fr

/-- `FirewallRule.addRule`, the `host != ""` block: get-or-create `Hosts[host]`, extend, store. -/
def FRule.addHost (cfg : Cfg) (fr : FRule) (host : String) (localCidr : CidrSel) : FRule :=
  if host ≠ "" then
    let nlc := ((aget sameStr fr.hosts host).getD {}).addRule cfg localCidr
    { fr with hosts := aset sameStr fr.hosts host nlc }
  else fr

/-- `FirewallRule.addRule`, the `cidr != ""` block: `CIDR.Get(c)`-or-create, extend, `CIDR.Insert(c, …)`. -/
def FRule.addCidr (cfg : Cfg) (fr : FRule) (cidr localCidr : CidrSel) : FRule :=
  match cidr with
  | .pfx c =>
    let nlc := ((aget samePfx fr.cidr c).getD {}).addRule cfg localCidr
    { fr with cidr := aset samePfx fr.cidr c nlc }
  | _ => fr

/-- `FirewallRule.addRule` -/
def FRule.addRule (cfg : Cfg) (fr : FRule) (groups : List String) (host : String) (cidr localCidr : CidrSel) :
    FRule :=
  if isAny groups host cidr then
    { fr with any := some ((fr.any.getD {}).addRule cfg localCidr) }
  else
    ((fr.addGroups cfg groups localCidr).addHost cfg host localCidr).addCidr cfg cidr localCidr

/-- `FirewallCA.addRule`, the `caSha != ""` block. -/
def FCA.addSha (cfg : Cfg) (fc : FCA) (groups : List String) (host : String) (cidr localCidr : CidrSel)
    (caSha : String) : FCA :=
  if caSha ≠ "" then
    let t := ((aget sameStr fc.caShas caSha).getD {}).addRule cfg groups host cidr localCidr
    { fc with caShas := aset sameStr fc.caShas caSha t }
  else fc

/-- `FirewallCA.addRule`, the `caName != ""` block. -/
def FCA.addName (cfg : Cfg) (fc : FCA) (groups : List String) (host : String) (cidr localCidr : CidrSel)
    (caName : String) : FCA :=
  if caName ≠ "" then
    let t := ((aget sameStr fc.caNames caName).getD {}).addRule cfg groups host cidr localCidr
    { fc with caNames := aset sameStr fc.caNames caName t }
  else fc

/-- `FirewallCA.addRule` -/
def FCA.addRule (cfg : Cfg) (fc : FCA) (groups : List String) (host : String) (cidr localCidr : CidrSel)
    (caName caSha : String) : FCA :=
  if caSha = "" ∧ caName = "" then
    { fc with any := some ((fc.any.getD {}).addRule cfg groups host cidr localCidr) }
  else
    (fc.addSha cfg groups host cidr localCidr caSha).addName cfg groups host cidr localCidr caName

/-- `firewallPort.addRule` after its `startPort > endPort` guard: every key in `[startPort, endPort]` gets
(its existing or a fresh `FirewallCA`).addRule. -/
def FPort.addRule (cfg : Cfg) (fp : FPort) (startPort endPort : Int) (groups : List String) (host : String)
    (cidr localCidr : CidrSel) (caName caSha : String) : FPort :=
  fun i =>
    if startPort ≤ i ∧ i ≤ endPort then
      some (((fp i).getD {}).addRule cfg groups host cidr localCidr caName caSha)
    else fp i

/-! `firewallPort` once more, as the Go map it is: an association list filled by the `for i := startPort; i <=
endPort; i++` loop. `Lemmas/FwPortLoop.lean` proves that reading it back is `FPort.addRule` (the pointwise update
used everywhere else), so nothing is lost by the functional view. -/

def sameInt (a b : Int) : Bool := decide (a = b)

abbrev FPortMap := List (Int × FCA)

/-- the loop body for key `i`, then the remaining `n` iterations. -/
def portLoop (cfg : Cfg) (groups : List String) (host : String) (cidr localCidr : CidrSel) (caName caSha : String) :
    FPortMap → Int → Nat → FPortMap
  | m, _, 0 => m
  | m, i, n + 1 =>
    -- `if _, ok := fp[i]; !ok { fp[i] = &FirewallCA{…} }` then `fp[i].addRule(…)`
    let fc := ((aget sameInt m i).getD {}).addRule cfg groups host cidr localCidr caName caSha
    portLoop cfg groups host cidr localCidr caName caSha (aset sameInt m i fc) (i + 1) n

/-- `firewallPort.addRule` on the map, after its `startPort > endPort` guard. -/
def FPortMap.addRule (cfg : Cfg) (m : FPortMap) (startPort endPort : Int) (groups : List String) (host : String)
    (cidr localCidr : CidrSel) (caName caSha : String) : FPortMap :=
  portLoop cfg groups host cidr localCidr caName caSha m startPort (endPort - startPort + 1).toNat

/-- reading the map: `fp[i]` (nil when absent). -/
def FPortMap.toFPort (m : FPortMap) : FPort := fun i => aget sameInt m i

def isICMP (proto : Nat) : Bool := proto == Gen.firewall_ProtoICMP || proto == Gen.firewall_ProtoICMPv6

inductive AddErr where
  | unknownProto
  | portOrder
  deriving DecidableEq, Repr

/-- `Firewall.AddRule` on one of the two tables (the caller picks `InRules` / `OutRules` by `incoming`). -/
def Table.addRule (cfg : Cfg) (t : Table) (r : Rule) : Except AddErr Table :=
  if r.proto == Gen.firewall_ProtoTCP then
    if r.startPort > r.endPort then .error .portOrder else
    .ok { t with tcp := t.tcp.addRule cfg r.startPort r.endPort r.groups r.host r.cidr r.localCidr r.caName r.caSha }
  else if r.proto == Gen.firewall_ProtoUDP then
    if r.startPort > r.endPort then .error .portOrder else
    .ok { t with udp := t.udp.addRule cfg r.startPort r.endPort r.groups r.host r.cidr r.localCidr r.caName r.caSha }
  else if isICMP r.proto then
    -- ports are coerced to "any"
    .ok { t with icmp := t.icmp.addRule cfg Gen.firewall_PortAny Gen.firewall_PortAny r.groups r.host r.cidr
                    r.localCidr r.caName r.caSha }
  else if r.proto == Gen.firewall_ProtoAny then
    if r.startPort > r.endPort then .error .portOrder else
    .ok { t with anyProto := t.anyProto.addRule cfg r.startPort r.endPort r.groups r.host r.cidr r.localCidr
                    r.caName r.caSha }
  else .error .unknownProto

/-! ### evaluators -/

/-- the peer as `match` sees it: `h.ConnectionState.peerCert` and the CA pool. -/
structure Peer where
  cert : Cert
  pool : Pool

/-- `firewallLocalCIDR.match` (nil receiver = `none`) -/
def LocalCIDR.matches (lc : Option LocalCIDR) (p : Packet) : Bool :=
  match lc with
  | none => false
  | some lc => lc.any || anyContains lc.cidrs p.localAddr

/-- the inner loop of `FirewallRule.match` over one `firewallGroups.Groups`: `found` ends up true iff the
list is non-empty and every listed group is in the certificate's `InvertedGroups`. -/
def groupsFound (cg : List String) : List String → Bool → Bool
  | [], found => found
  | g :: gs, _ => if cg.contains g then groupsFound cg gs true else false

/-- `FirewallRule.match` -/
def FRule.matches (fr : Option FRule) (p : Packet) (c : Cert) : Bool :=
  match fr with
  | none => false
  | some fr =>
    LocalCIDR.matches fr.any p
    || fr.groups.any (fun sg => groupsFound c.groups sg.groups false && LocalCIDR.matches (some sg.lc) p)
    || (match aget sameStr fr.hosts c.name with
        | some flc => LocalCIDR.matches (some flc) p
        | none => false)
    || (supernets fr.cidr (hostPrefix p.remoteAddr)).any (fun e => LocalCIDR.matches (some e.2) p)

/-- the tail of `FirewallCA.match`: `caPool.GetCAForCert` (error ⇒ false), then `CANames[ca name].match`. -/
def FCA.nameMatches (fc : FCA) (p : Packet) (pr : Peer) : Bool :=
  match caNameFor pr.pool pr.cert.issuer with
  | none => false
  | some n => FRule.matches (aget sameStr fc.caNames n) p pr.cert

/-- `FirewallCA.match` -/
def FCA.matches (fc : Option FCA) (p : Packet) (pr : Peer) : Bool :=
  match fc with
  | none => false
  | some fc =>
    if FRule.matches fc.any p pr.cert then true
    else if (match aget sameStr fc.caShas pr.cert.issuer with
             | some t => FRule.matches (some t) p pr.cert
             | none => false) then true
    else fc.nameMatches p pr

/-- `firewallPort.match` -/
def FPort.matches (fp : FPort) (p : Packet) (incoming : Bool) (pr : Peer) : Bool :=
  if isICMP p.proto then FCA.matches (fp Gen.firewall_PortAny) p pr
  else
    let port : Int :=
      if p.fragment then Gen.firewall_PortFragment
      else if incoming then (p.localPort : Int) else (p.remotePort : Int)
    if FCA.matches (fp port) p pr then true
    else FCA.matches (fp Gen.firewall_PortAny) p pr

/-- `FirewallTable.match` -/
def Table.matches (t : Table) (p : Packet) (incoming : Bool) (pr : Peer) : Bool :=
  if t.anyProto.matches p incoming pr then true
  else if p.proto == Gen.firewall_ProtoTCP then t.tcp.matches p incoming pr
  else if p.proto == Gen.firewall_ProtoUDP then t.udp.matches p incoming pr
  else if isICMP p.proto then t.icmp.matches p incoming pr
  else false

/-! ### NewFirewall network setup, HostInfo.buildNetworks, the address checks of Drop -/

/-- `NewFirewall`: `routableNetworks` = own addresses as full-length prefixes + own unsafe networks. -/
def routableOf (my : Cert) : Lite :=
  my.unsafeNetworks.foldl Lite.insert
    (my.networks.foldl (fun t n => Lite.insert t (hostPrefix n.addr)) [])

def cfgOf (my : Cert) (defaultLocalCIDRAny : Bool) : Cfg :=
  { defaultLocalCIDRAny := defaultLocalCIDRAny, assignedNetworks := my.networks,
    unsafeNetworks := my.unsafeNetworks }

/-- `NetworkType` -/
inductive NetType where
  | vpn
  | vpnPeer
  | unsafeNet
  deriving DecidableEq, Repr

/-- the `HostInfo` fields `Drop` reads for the address check. -/
structure Host where
  vpnAddrs : List Addr
  networks : Option (List (Prefix × NetType))
  deriving Repr

/-- the guard at the top of `buildNetworks`: exactly one network, no unsafe networks, and that one address is
inside the node's own networks ("simple case, no BART needed"). -/
def simpleCase (myVpnNetworks : Lite) (c : Cert) : Bool :=
  match c.networks, c.unsafeNetworks with
  | [n], [] => anyContains myVpnNetworks n.addr
  | _, _ => false

/-- the table half of `buildNetworks`: every certified address as a full-length prefix typed VPN (inside the
node's networks) or VPNPeer (outside), then every unsafe network typed Unsafe (same key ⇒ overwritten). -/
def networksTable (myVpnNetworks : Lite) (c : Cert) : List (Prefix × NetType) :=
  let t := c.networks.foldl (fun t n =>
    aset samePfx t (hostPrefix n.addr) (if anyContains myVpnNetworks n.addr then NetType.vpn else NetType.vpnPeer)) []
  c.unsafeNetworks.foldl (fun t n => aset samePfx t n NetType.unsafeNet) t

/-- `HostInfo.buildNetworks(myVpnNetworksTable, c)`; `none` is the simple case (`networks` stays nil). -/
def buildNetworks (myVpnNetworks : Lite) (c : Cert) : Option (List (Prefix × NetType)) :=
  if simpleCase myVpnNetworks c then none else some (networksTable myVpnNetworks c)

/-- the handshake's `validatePeerCert` sets `vpnAddrs[i] = Networks()[i].Addr()`, then `buildNetworks`. -/
def hostOf (myVpnNetworks : Lite) (c : Cert) : Host :=
  { vpnAddrs := c.networks.map (·.addr), networks := buildNetworks myVpnNetworks c }

inductive Verdict where
  | pass
  | invalidRemote
  | peerRejected
  | invalidLocal
  | noRule
  | panicIndex      -- `h.vpnAddrs[0]` on an empty slice
  deriving DecidableEq, Repr

/-- the remote-address check at the top of `Firewall.Drop`; `none` = passed. -/
def remoteCheck (h : Host) (p : Packet) : Option Verdict :=
  match h.networks with
  | none =>
    match h.vpnAddrs with
    | [] => some .panicIndex
    | a :: _ => if a ≠ p.remoteAddr then some .invalidRemote else none
  | some tbl =>
    match lpm tbl p.remoteAddr with
    | none => some .invalidRemote
    | some .vpn => none
    | some .vpnPeer => some .peerRejected
    | some .unsafeNet => none

/-- the two address checks at the top of `Firewall.Drop`; `none` = both passed. -/
def addrCheck (routable : Lite) (h : Host) (p : Packet) : Option Verdict :=
  match remoteCheck h p with
  | some v => some v
  | none => if !anyContains routable p.localAddr then some .invalidLocal else none

end Nebula.Fw
