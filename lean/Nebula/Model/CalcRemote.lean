/-
Model of `calculated_remote.go` (`newCalculatedRemote`, `calculatedRemote.ApplyV4/ApplyV6`) and of
`LightHouse.addCalculatedRemotes` (lighthouse.go) up to what it stores in the remote list.
Addresses are `Net.Addr` (family + value); Go's `uint32`/`uint64` words are naturals below `2^32`/`2^64`
and `^x` is written `x ^^^ (2^w - 1)`.  Go panics (`As4` on a non-mapped IPv6 address, slicing the
4-byte mask `[:8]`, `Uint32(nil)`) are explicit results.
-/
import Nebula.Base.Net
import Nebula.Gen.CalcRemote

namespace Nebula.CalcRemote
open Nebula.Net

/-- `calculatedRemote`: `ipNet` = the mask prefix as configured, `mask` = it masked, `port`. -/
structure CR where
  ipNet : Prefix
  mask : Prefix
  port : Nat
  deriving DecidableEq, Repr

inductive NewErr where
  | family   -- "invalid mask: … for cidr: …"
  | port     -- "invalid port: …"
  deriving DecidableEq, Repr

/-- `newCalculatedRemote(cidr, maskCidr, port)`. -/
def newCalculatedRemote (cidr maskCidr : Prefix) (port : Int) : Except NewErr CR :=
  if maskCidr.addr.fam.bits != cidr.addr.fam.bits then .error .family
  else if port < 0 ∨ port > 65535 then .error .port
  else .ok { ipNet := maskCidr, mask := maskCidr.masked, port := port.toNat }

inductive Res (α : Type) where
  | ok (a : α)
  | panic
  deriving DecidableEq, Repr

/-- `net.CIDRMask(ones, bits)` as the big-endian value of its `bits/8` bytes; `none` = `nil`. -/
def cidrMask (ones bits : Nat) : Option Nat :=
  if (bits = 32 ∨ bits = 128) ∧ ones ≤ bits then some ((2 ^ ones - 1) <<< (bits - ones)) else none

/-- `netip.Addr.As4` (`none` = panic "As4 called on IPv6 address"). -/
def as4 (a : Addr) : Option Nat :=
  match a.fam with
  | .v4 => some a.val
  | .v6 => if a.is4in6 then some (a.val % 2 ^ 32) else none

/-- `netip.Addr.As16` as a 128-bit value (IPv4 becomes `::ffff:a.b.c.d`). -/
def as16 (a : Addr) : Nat :=
  match a.fam with
  | .v4 => 0xffff * 2 ^ 32 + a.val
  | .v6 => a.val

/-- `(maskAddr & mask) | (addr & ^mask)` on `w`-bit words. -/
def combine (w maskAddr mask addr : Nat) : Nat :=
  (maskAddr &&& mask) ||| (addr &&& (mask ^^^ (2 ^ w - 1)))

/-- `ApplyV4`: result `(Addr, Port)` of the `V4AddrPort`. -/
def applyV4 (c : CR) (addr : Addr) : Res (Nat × Nat) :=
  let bl := c.mask.addr.fam.bits
  match cidrMask c.mask.len bl with
  | none => .panic                                   -- `Uint32(nil)`
  | some mfull =>
    let mask := mfull >>> (bl - 32)                  -- `Uint32(maskb[:])` reads the first 4 bytes
    match as4 c.mask.addr, as4 addr with
    | some ma, some ia => .ok (combine 32 ma mask ia, c.port)
    | _, _ => .panic

/-- `ApplyV6`: result `(Hi, Lo, Port)` of the `V6AddrPort`. -/
def applyV6 (c : CR) (addr : Addr) : Res (Nat × Nat × Nat) :=
  let bl := c.mask.addr.fam.bits
  match cidrMask c.mask.len bl with
  | none => .panic
  | some mfull =>
    if bl < 128 then .panic                          -- `mask[:8]` on a 4-byte mask
    else
      let ma := as16 c.mask.addr
      let ca := as16 addr
      let hi := combine 64 (ma >>> 64) (mfull >>> 64) (ca >>> 64)
      let lo := combine 64 (ma % 2 ^ 64) (mfull % 2 ^ 64) (ca % 2 ^ 64)
      .ok (hi, lo, c.port)

/-- What `addCalculatedRemotes(vpnAddr)` leaves in the remote list of `vpnAddr`, and its return value. -/
structure AddOut where
  added : Bool
  v4 : List (Nat × Nat)
  v6 : List (Nat × Nat × Nat)
  deriving DecidableEq, Repr

def resList {α : Type} : List (Res α) → Res (List α)
  | [] => .ok []
  | .panic :: _ => .panic
  | .ok a :: rest => match resList rest with
    | .ok l => .ok (a :: l)
    | .panic => .panic

/-- `protoV4AddrPortToNetAddrPort(...).Addr()`. -/
def v4Addr (ip : Nat) : Addr := { fam := .v4, val := ip }
/-- `protoV6AddrPortToNetAddrPort(...).Addr()` (`AddrFrom16(b).Unmap()`). -/
def v6Addr (hi lo : Nat) : Addr := ({ fam := .v6, val := hi * 2 ^ 64 + lo } : Addr).unmap

/-- `LightHouse.addCalculatedRemotes`: `tbl = none` is "no calculated_remotes configured";
`tree.Lookup` is longest-prefix match; `unlockedSetV4/V6` keep the first `MaxRemotes` results that pass
`unlockedShouldAddV4/V6` (remote allow list absent: only "not inside my own overlay network"). -/
def addCalculatedRemotes (myNet : Prefix) (tbl : Option (List (Prefix × List CR))) (vpnAddr : Addr) : Res AddOut :=
  match tbl with
  | none => .ok { added := false, v4 := [], v6 := [] }
  | some tbl =>
    match lpm tbl vpnAddr with
    | none => .ok { added := false, v4 := [], v6 := [] }
    | some crs =>
      if vpnAddr.is4 then
        match resList (crs.map (fun c => applyV4 c vpnAddr)) with
        | .panic => .panic
        | .ok l =>
          .ok { added := !l.isEmpty,
                v4 := (l.take Gen.calcremote_MaxRemotes).filter (fun r => !myNet.contains (v4Addr r.1)), v6 := [] }
      else
        match resList (crs.map (fun c => applyV6 c vpnAddr)) with
        | .panic => .panic
        | .ok l =>
          .ok { added := !l.isEmpty, v4 := [],
                v6 := (l.take Gen.calcremote_MaxRemotes).filter (fun r => !myNet.contains (v6Addr r.1 r.2.1)) }

end Nebula.CalcRemote
