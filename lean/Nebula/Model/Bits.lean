/-
Model of `bits.go` (the anti-replay window): `NewBits`, `get`, `set`, `clearRange`,
`strictlyWithinWindow`, `Check`, `Update`, `updateSlow` — transcribed statement by statement with Go's
wrapping `uint64` arithmetic (`BitVec 64`) and the packed `[]uint64` bitmap (`Array (BitVec 64)`).

Not modelled: the three metrics counters (`lostCounter`, `dupeCounter`, `outOfWindowCounter`) and the
values that only feed them (`wasSet` pop-counts in `clearRange`, the warm-up `lost` loop in
`updateSlow`), and debug logging. They influence neither the return values nor `current`/`bits`.

Slice indexing: reads are `Array.getD … 0` and writes `Array.setIfInBounds`; that every index the code
uses is in range (so that the Go code cannot panic) is theorem `Props.C11.index_in_range`.

`strictlyWithinWindow` is not written by hand: it is the function regenerated from the source by the
translator (`Gen.bits_strictlyWithinWindow`).
-/
import Nebula.Gen.BitsGo

namespace Nebula.Bits

abbrev U64 := BitVec 64

structure Bits where
  length : U64
  lengthMask : U64
  current : U64
  bits : Array U64

/-- `b.bits[w]` -/
@[inline] def wordAt (a : Array U64) (w : U64) : U64 := a.getD w.toNat 0#64

/-- `NewBits(length)`; `none` is the `panic("Bits length must be a power of two …")`. -/
def newBits (length : U64) : Option Bits :=
  if length == 0#64 || (length &&& (length - 1#64)) != 0#64 then none
  else
    let nWords := length / BitVec.ofNat 64 Gen.nebula_bitsPerWord
    let nWords := if nWords == 0#64 then 1#64 else nWords
    some { length := length, lengthMask := length - 1#64, current := 0#64,
           -- "There is no counter value 0, mark it": b.bits[0] = 1
           bits := (Array.replicate nWords.toNat 0#64).setIfInBounds 0 1#64 }

/-- `b.get(i)` -/
def get (b : Bits) (i : U64) : Bool :=
  let pos := i &&& b.lengthMask
  (wordAt b.bits (pos >>> 6) &&& (1#64 <<< (pos &&& 63#64).toNat)) != 0#64

/-- `b.set(i)` -/
def set (b : Bits) (i : U64) : Bits :=
  let pos := i &&& b.lengthMask
  let word := pos >>> 6
  { b with bits := b.bits.setIfInBounds word.toNat (wordAt b.bits word ||| (1#64 <<< (pos &&& 63#64).toNat)) }

/-- the `for remaining >= 64 { … }` loop of `clearRange`: clears whole words. -/
def clearWords (bits : Array U64) (lengthMask pos remaining : U64) : Array U64 × U64 × U64 :=
  if _h : 64#64 ≤ remaining then
    let word := pos >>> 6
    clearWords (bits.setIfInBounds word.toNat 0#64) lengthMask ((pos + 64#64) &&& lengthMask) (remaining - 64#64)
  else (bits, pos, remaining)
termination_by remaining.toNat
decreasing_by
  have := BitVec.le_def.mp _h
  simp only [BitVec.toNat_sub, BitVec.toNat_ofNat] at *
  omega

/-- `clearRange`: size of the first, possibly partial, word chunk
(`take := 64 - bit; if take > remaining {…}; if take > b.length-pos {…}`) -/
def firstTake (length pos remaining : U64) : U64 :=
  let bit := pos &&& 63#64
  let take := 64#64 - bit
  let take := if remaining < take then remaining else take
  if length - pos < take then length - pos else take

/-- `clearRange`: `if take == 64 { mask = MaxUint64 } else { mask = ((1 << take) - 1) << bit }` -/
def firstMask (take bit : U64) : U64 :=
  if take == 64#64 then BitVec.allOnes 64
  else ((1#64 <<< take.toNat) - 1#64) <<< bit.toNat

/-- `clearRange`: `if remaining > 0 { word = pos >> 6; mask = (1 << remaining) - 1; bits[word] &^= mask }` -/
def lastPartial (bits : Array U64) (pos remaining : U64) : Array U64 :=
  if 0#64 < remaining then
    let word := pos >>> 6
    let mask := (1#64 <<< remaining.toNat) - 1#64
    bits.setIfInBounds word.toNat (wordAt bits word &&& ~~~mask)
  else bits

/-- `b.clearRange(startPos, count)` (state effect only; the returned pop-count feeds metrics). -/
def clearRange (b : Bits) (startPos count : U64) : Bits :=
  if b.length ≤ count then
    -- clear(b.bits)
    { b with bits := Array.replicate b.bits.size 0#64 }
  else
    -- handle the potential partial word before pos becomes u64 aligned
    let word := startPos >>> 6
    let bit := startPos &&& 63#64
    let take := firstTake b.length startPos count
    let mask := firstMask take bit
    let bits := b.bits.setIfInBounds word.toNat (wordAt b.bits word &&& ~~~mask)
    -- remaining -= take; pos = (pos + take) & b.lengthMask; then clear whole words
    let r := clearWords bits b.lengthMask ((startPos + take) &&& b.lengthMask) (count - take)
    -- clear the remaining partial word
    { b with bits := lastPartial r.1 r.2.1 r.2.2 }

/-- `b.strictlyWithinWindow(i)` — the translated source function. -/
def strictlyWithinWindow (b : Bits) (i : U64) : Bool :=
  Gen.bits_strictlyWithinWindow b.current b.length i

/-- `b.Check(l, i)` — pure. -/
def check (b : Bits) (i : U64) : Bool :=
  if b.current < i then true
  else if strictlyWithinWindow b i then !get b i
  else false

/-- `b.updateSlow(l, i)` -/
def updateSlow (b : Bits) (i : U64) : Bits × Bool :=
  if b.current < i then
    let end_ := i
    let end_ := if b.length < end_ - b.current then b.current + b.length else end_
    let count := end_ - b.current
    let startPos := (b.current + 1#64) &&& b.lengthMask
    -- both arms (steady state / warm-up) perform the same `clearRange`; they differ in `lost` only
    let b := clearRange b startPos count
    let b := set b i
    ({ b with current := i }, true)
  else if strictlyWithinWindow b i then
    let pos := i &&& b.lengthMask
    let word := pos >>> 6
    let mask := 1#64 <<< (pos &&& 63#64).toNat
    let w := wordAt b.bits word
    if b.current == i || (w &&& mask) != 0#64 then (b, false)
    else ({ b with bits := b.bits.setIfInBounds word.toNat (w ||| mask) }, true)
  else (b, false)

/-- `b.Update(l, i)` -/
def update (b : Bits) (i : U64) : Bits × Bool :=
  if b.current < i && i - b.current == 1#64 then
    let pos := i &&& b.lengthMask
    let word := pos >>> 6
    let mask := 1#64 <<< (pos &&& 63#64).toNat
    let w := wordAt b.bits word
    ({ b with bits := b.bits.setIfInBounds word.toNat (w ||| mask), current := i }, true)
  else updateSlow b i

end Nebula.Bits
